package main

// Work units: the enumerated space, cut into independently executable pieces. The list of units is a
// pure function of the tier (the parent and every worker compute the same list); the cases of a unit
// are generated inside the worker that executes it.

import (
	"fmt"
	"reflect"

	"github.com/gogo/protobuf/proto"

	"github.com/kardiachain/go-kardia/consensus"
	"github.com/kardiachain/go-kardia/lib/common"
	kcons "github.com/kardiachain/go-kardia/proto/kardiachain/consensus"
	kproto "github.com/kardiachain/go-kardia/proto/kardiachain/types"
	"github.com/kardiachain/go-kardia/trie"
	"github.com/kardiachain/go-kardia/types"
)

func reflectTypeOf(x interface{}) reflect.Type { return reflect.TypeOf(x) }

type unit struct {
	ID      string
	Reactor string
	State   string
	Peer    string
	Kind    string
	Msg     string
	Est     int
	// a stateful unit's enumeration depends on the outcomes of its own earlier cases (explicit-state
	// search): on a restart every earlier case is executed again instead of being skipped
	Stateful bool
	gen      func(w *worker, u *unit, emit func(*caseT))
}

var consSeedNames = []string{"NewRoundStep", "NewValidBlock", "HasVote", "VoteSetMaj23", "Proposal", "ProposalPOL", "BlockPart", "Vote(prevote)", "Vote(precommit-nil)", "VoteSetBits"}

// states in which the quick tier runs the secondary enumerations (pairs, byte level, foreign channels)
var quickSubset = map[string]bool{stWaitSync: true, stH1Propose: true, stH2NewHeight: true}

var substAlphabet = []byte{0x00, 0x01, 0x08, 0x7f, 0x80, 0xff}

func seedByName(ss []seed, name string) seed {
	for _, s := range ss {
		if s.Msg == name {
			return s
		}
	}
	panic("no seed " + name)
}

func isAncestor(a, b site) bool {
	// a's node is an ancestor of b's enclosing list, or they are the same field of the same list
	if len(a.Path) > len(b.Path) {
		return false
	}
	for i := range a.Path {
		if a.Path[i] != b.Path[i] {
			return false
		}
	}
	if len(a.Path) == len(b.Path) {
		return a.F.Num == b.F.Num
	}
	// b lies deeper: inside a's node iff the next path element of b is an instance of field a
	return a.Idx >= 0 && b.Path[len(a.Path)] == a.Idx
}

func consUnits(thorough bool) []*unit {
	var us []*unit
	add := func(u *unit) {
		u.Reactor = "consensus"
		u.ID = fmt.Sprintf("consensus/%s/%s/%s/%s", u.Kind, u.State, u.Peer, u.Msg)
		us = append(us, u)
	}
	for _, st := range allNodeStates {
		for _, pm := range []string{peerFresh, peerKnown} {
			for _, name := range consSeedNames {
				st, pm, name := st, pm, name
				foreign := thorough || quickSubset[st]
				add(&unit{State: st, Peer: pm, Kind: "single", Msg: name, Est: 400, gen: func(w *worker, u *unit, emit func(*caseT)) {
					s := seedByName(w.cons.seedsFor(st), name)
					base := caseT{Reactor: "consensus", State: st, Peer: pm, Msg: name}
					// the valid message: round trip, then on every channel id (and once from a removed peer)
					{
						c := base
						c.Kind, c.Field, c.Class, c.Desc, c.Ch, c.raw = "roundtrip", "-", "valid", "encode/decode round trip", s.Home, s.Bytes
						emit(&c)
					}
					for _, ch := range consChans {
						c := base
						c.Kind, c.Field, c.Class, c.Desc, c.Ch, c.raw = "valid", "-", "valid", "unmodified", ch, s.Bytes
						emit(&c)
					}
					{
						c := base
						c.Kind, c.Field, c.Class, c.Desc, c.Ch, c.raw, c.Drive = "valid", "-", "valid+driven-on", "unmodified; then the node is driven on (rounds)", s.Home, s.Bytes, "rounds"
						emit(&c)
					}
					if pm == peerFresh {
						c := base
						c.Peer = peerGone
						c.Kind, c.Field, c.Class, c.Desc, c.Ch, c.raw = "valid", "-", "valid", "unmodified, peer already removed", s.Home, s.Bytes
						emit(&c)
					}
					for _, site := range s.Sites {
						for _, m := range mutationsFor(site, s.Root, false) {
							raw, mf, mc := mutate(s.Root, site, m)
							chans := []byte{s.Home}
							if foreign {
								chans = consChans
							}
							for _, ch := range chans {
								c := base
								c.Kind, c.Field, c.Class, c.Desc, c.Ch, c.raw = "single", mf, mc, m.Desc, ch, raw
								emit(&c)
							}
						}
					}
				}})
			}
			{
				st, pm := st, pm
				// a peer that has already claimed a +2/3 majority sends a second (mutated) claim
				add(&unit{State: st, Peer: pm, Kind: "second-claim", Msg: "VoteSetMaj23", Est: 300, gen: func(w *worker, u *unit, emit func(*caseT)) {
					s := seedByName(w.cons.seedsFor(st), "VoteSetMaj23")
					for _, site := range s.Sites {
						for _, m := range mutationsFor(site, s.Root, true) {
							raw, mf, mc := mutate(s.Root, site, m)
							emit(&caseT{Reactor: "consensus", State: st, Peer: pm, Msg: "VoteSetMaj23", Kind: "second-claim", Field: mf, Class: mc + "(after a valid claim)",
								Desc: m.Desc + ", after a valid VoteSetMaj23 from the same peer", Ch: s.Home, raw: raw, pre: [][]byte{s.Bytes}, preCh: []byte{s.Home}})
						}
					}
				}})
			}
			if pm == peerFresh {
				st := st
				// a peer that announced the next round and a proposal with a proof-of-lock round, then sends its
				// proof-of-lock bit array: the array is kept and used by the vote gossip routine
				add(&unit{State: st, Peer: peerFresh, Kind: "pol-sequence", Msg: "ProposalPOL", Est: 300, gen: func(w *worker, u *unit, emit func(*caseT)) {
					c := w.cons.node(st)
					nrs := &consensus.NewRoundStepMessage{Height: c.Height, Round: c.Round + 1, Step: 3, SecondsSinceStartTime: 1}
					if c.Height > 1 {
						nrs.LastCommitRound = c.PrevRound
					}
					prop := types.NewProposal(c.Height, c.Round+1, c.Round, c.BlockID)
					prop.Timestamp = voteTime(c.Height, c.Round+1, kproto.ProposalType, 0)
					prop.Signature = patternBytes(65, 0x31)
					pre := [][]byte{consensus.MustEncode(nrs), consensus.MustEncode(&consensus.ProposalMessage{Proposal: prop})}
					s := mkSeed("ProposalPOL", chData, &consensus.ProposalPOLMessage{Height: c.Height, ProposalPOLRound: c.Round, ProposalPOL: bitArray(nVals, 0, 2)})
					emit(&caseT{Reactor: "consensus", State: st, Peer: peerFresh, Msg: "ProposalPOL", Kind: "pol-sequence", Field: "-", Class: "valid(after NewRoundStep+Proposal)",
						Desc: "unmodified, after NewRoundStep(round+1) and Proposal(pol_round=round)", Ch: chData, raw: s.Bytes, pre: pre, preCh: []byte{chState, chData}})
					for _, site := range s.Sites {
						for _, m := range mutationsFor(site, s.Root, false) {
							raw, mf, mc := mutate(s.Root, site, m)
							emit(&caseT{Reactor: "consensus", State: st, Peer: peerFresh, Msg: "ProposalPOL", Kind: "pol-sequence", Field: mf,
								Class: mc + "(after NewRoundStep+Proposal)", Desc: m.Desc + ", after NewRoundStep(round+1) and Proposal(pol_round=round)", Ch: chData,
								raw: raw, pre: pre, preCh: []byte{chState, chData}})
						}
					}
				}})
			}
			if !(thorough || quickSubset[st]) {
				continue
			}
			pairMsgs := []string{"NewRoundStep", "VoteSetBits"}
			if thorough {
				pairMsgs = consSeedNames
			}
			for _, name := range pairMsgs {
				st, pm, name := st, pm, name
				add(&unit{State: st, Peer: pm, Kind: "pair", Msg: name, Est: 6000, gen: func(w *worker, u *unit, emit func(*caseT)) {
					s := seedByName(w.cons.seedsFor(st), name)
					for i, a := range s.Sites {
						for _, b := range s.Sites[i+1:] {
							if isAncestor(a, b) || isAncestor(b, a) {
								continue
							}
							for _, ma := range mutationsFor(a, s.Root, true) {
								r1 := applyAt(s.Root, a, ma)
								// b's coordinates stay valid: a and b are in disjoint subtrees or distinct fields of one list,
								// but an insertion/removal at a may shift indices in a shared list: recompute b on r1
								var b1 *site
								for _, cand := range sitesOf(r1, consSchema, name) {
									if cand.Name == b.Name {
										cc := cand
										b1 = &cc
										break
									}
								}
								if b1 == nil {
									continue
								}
								for _, mb := range mutationsFor(*b1, r1, true) {
									raw := encodeNodes(applyAt(r1, *b1, mb))
									emit(&caseT{Reactor: "consensus", State: st, Peer: pm, Msg: name, Kind: "pair", Field: stripIdx(a.Name) + "+" + stripIdx(b.Name),
										Class: ma.Class + "+" + mb.Class, Desc: ma.Desc + " & " + mb.Desc, Ch: s.Home, raw: raw})
								}
							}
						}
					}
				}})
			}
			for _, name := range consSeedNames {
				st, pm, name := st, pm, name
				add(&unit{State: st, Peer: pm, Kind: "bytes", Msg: name, Est: 1500, gen: func(w *worker, u *unit, emit func(*caseT)) {
					s := seedByName(w.cons.seedsFor(st), name)
					for n := 0; n < len(s.Bytes); n++ {
						emit(&caseT{Reactor: "consensus", State: st, Peer: pm, Msg: name, Kind: "truncate", Field: stripIdx(fieldAtOffset(s.Root, "", n)), Class: "truncated",
							Desc: fmt.Sprintf("first %d of %d bytes", n, len(s.Bytes)), Ch: s.Home, raw: s.Bytes[:n]})
					}
					for off := 0; off < len(s.Bytes); off++ {
						for _, v := range substAlphabet {
							if s.Bytes[off] == v {
								continue
							}
							raw := append([]byte(nil), s.Bytes...)
							raw[off] = v
							emit(&caseT{Reactor: "consensus", State: st, Peer: pm, Msg: name, Kind: "subst", Field: stripIdx(fieldAtOffset(s.Root, "", off)), Class: "byte-substituted",
								Desc: fmt.Sprintf("byte %d = 0x%02x", off, v), Ch: s.Home, raw: raw})
						}
					}
				}})
			}
		}
	}
	// coupled-field groups and claimed-position sequences: every node state plus a node at height 3
	for _, st := range append(append([]string(nil), allNodeStates...), stH3NewHeight) {
		for _, pm := range []string{peerFresh, peerKnown} {
			st, pm := st, pm
			add(&unit{State: st, Peer: pm, Kind: "coupled", Msg: "groups", Est: 1500, gen: func(w *worker, u *unit, emit func(*caseT)) {
				genCoupled(w, st, pm, emit)
				genClaimed(w, st, pm, emit)
			}})
		}
	}
	// multi-part proposals: mutated aunts lists of the parts' merkle proofs
	for _, st := range []string{stH1Propose, stH2Propose} {
		st := st
		add(&unit{State: st, Peer: peerKnown, Kind: "multipart", Msg: "BlockPart", Est: 3000, gen: func(w *worker, u *unit, emit func(*caseT)) {
			genMultipart(w, st, emit)
		}})
	}
	// sequences from one peer with a budget on what the node keeps on its behalf
	for _, st := range allNodeStates {
		for _, pm := range []string{peerFresh, peerKnown} {
			st, pm := st, pm
			add(&unit{State: st, Peer: pm, Kind: "retained", Msg: "sequences", Est: 1500, gen: func(w *worker, u *unit, emit func(*caseT)) {
				genRetained(w, st, pm, emit)
			}})
		}
	}
	// stored consensus messages followed by the drive-on (the node must survive what it kept)
	for _, st := range allNodeStates {
		st := st
		add(&unit{State: st, Peer: peerFresh, Kind: "drive-on", Msg: "stored-messages", Est: 6000, gen: func(w *worker, u *unit, emit func(*caseT)) {
			genDriveOn(w, st, emit)
		}})
	}
	// every 1- and 2-byte string (and the empty one) on every channel id
	for _, st := range allNodeStates {
		st := st
		for hi := 0; hi < 8; hi++ {
			hi := hi
			add(&unit{State: st, Peer: peerFresh, Kind: "short", Msg: fmt.Sprintf("raw-%d", hi), Est: 45000, gen: func(w *worker, u *unit, emit func(*caseT)) {
				full := thorough || st == stWaitSync || st == stH1Propose
				try := func(raw []byte) {
					// strings the decoder rejects never reach node or peer state: outside the full states only the
					// decodable ones are delivered, and rejected ones come from fresh peers only (quick tier)
					_, derr := consensus.VerifC18DecodeMsg(raw)
					if !full && derr != nil {
						return
					}
					for _, ch := range consChans {
						for _, pm := range []string{peerFresh, peerKnown} {
							if pm == peerKnown && derr != nil && !thorough {
								continue
							}
							emit(&caseT{Reactor: "consensus", State: st, Peer: pm, Msg: "raw", Kind: "short", Field: "-", Class: fmt.Sprintf("%d-byte-string", len(raw)),
								Desc: fmt.Sprintf("% x", raw), Ch: ch, raw: raw})
						}
					}
				}
				if hi == 0 {
					try([]byte{})
				}
				for a := hi * 32; a < hi*32+32; a++ {
					try([]byte{byte(a)})
					for b := 0; b < 256; b++ {
						try([]byte{byte(a), byte(b)})
					}
				}
			}})
		}
	}
	// votes and proposals mutated BEFORE signing (the peer is a validator and signs what it sends)
	for _, st := range allNodeStates {
		for _, pm := range []string{peerFresh, peerKnown} {
			for _, name := range []string{"Vote(prevote)", "Vote(precommit-nil)", "Proposal"} {
				st, pm, name := st, pm, name
				add(&unit{State: st, Peer: pm, Kind: "resigned", Msg: name, Est: 3000, gen: func(w *worker, u *unit, emit func(*caseT)) {
					c := w.cons.node(st)
					proposer, o0 := c.Proposer, c.others()[0]
					s := seedByName(w.cons.seedsFor(st), name)
					for _, site := range s.Sites {
						if site.Depth < 2 || site.F.Name == "signature" {
							continue
						}
						for _, m := range mutationsFor(site, s.Root, false) {
							raw, mf, mc := mutate(s.Root, site, m)
							signed := resign(raw, proposer, o0)
							if signed == nil {
								continue
							}
							emit(&caseT{Reactor: "consensus", State: st, Peer: pm, Msg: name, Kind: "resigned", Field: mf, Class: mc + "(signed)",
								Desc: m.Desc + ", then signed by the validator", Ch: s.Home, raw: signed})
						}
					}
				}})
			}
		}
	}
	// a Byzantine proposer: every single-field mutation of the proposed block, consistently split into
	// parts and proposed with a valid signature
	for _, st := range []string{stH1Propose, stH2Propose} {
		st := st
		add(&unit{State: st, Peer: peerKnown, Kind: "byzblock", Msg: "Block", Est: 12000, gen: func(w *worker, u *unit, emit func(*caseT)) {
			c := w.cons.node(st)
			pb, err := c.Block.ToProto()
			if err != nil {
				panic(err)
			}
			bz := mustMarshal(pb)
			sch := schemaOf(reflectTypeOf(&kproto.Block{}))
			root, err := parseNodes(bz, sch, 0)
			if err != nil {
				panic(err)
			}
			origHash, h, r, proposer := c.Block.Hash(), c.Height, c.Round, c.Proposer
			mk := func(field, class, desc string, data []byte) {
				if len(data) == 0 {
					return // a block of zero parts cannot be proposed
				}
				parts := types.NewPartSetFromData(data, types.BlockPartSizeBytes)
				hash := origHash
				var pbb kproto.Block
				if proto.Unmarshal(data, &pbb) == nil {
					if p, _ := guarded(func() {
						if blk, err := types.BlockFromProto(&pbb, trie.NewStackTrie(nil)); err == nil {
							hash = blk.Hash()
						}
					}); p != nil {
						hash = origHash
					}
				}
				id := types.BlockID{Hash: hash, PartsHeader: parts.Header()}
				prop := signedProposal(proposer, h, r, 0, id)
				cs := &caseT{Reactor: "consensus", State: st, Peer: peerKnown, Msg: "Block(signed proposal + parts)", Kind: "byzblock", Field: field, Class: class, Desc: desc, Ch: chData}
				cs.pre = append(cs.pre, consensus.MustEncode(&consensus.ProposalMessage{Proposal: prop}))
				cs.preCh = append(cs.preCh, chData)
				total := int(parts.Total())
				for i := 0; i < total; i++ {
					m := consensus.MustEncode(&consensus.BlockPartMessage{Height: h, Round: r, Part: parts.GetPart(i)})
					if i == total-1 {
						cs.raw = m
					} else {
						cs.pre = append(cs.pre, m)
						cs.preCh = append(cs.preCh, chData)
					}
				}
				emit(cs)
			}
			mk("-", "valid", "unmodified block", bz)
			for _, site := range sitesOf(root, sch, "Block") {
				for _, m := range mutationsFor(site, root, false) {
					data := encodeNodes(applyAt(root, site, m))
					mk("block."+stripIdx(site.Name), m.Class, m.Desc, data)
					// the same content assembled the way a proposer assembles a block (types.NewBlock recomputes the
					// transaction, last-commit and evidence hashes of the header)
					if re := rehash(data); re != nil && !bytesEq(re, data) {
						mk("block."+stripIdx(site.Name), m.Class+"(rehashed)", m.Desc+", header hashes recomputed by types.NewBlock", re)
					}
				}
			}
		}})
	}
	return us
}

// resign decodes a (mutated) Vote or Proposal message, signs it the way its sender would and
// re-encodes it. nil if the bytes do not decode into the generated Go type.
func resign(raw []byte, proposer, voter int) (out []byte) {
	defer func() {
		if recover() != nil {
			out = nil
		}
	}()
	var m kcons.Message
	if err := proto.Unmarshal(raw, &m); err != nil {
		return nil
	}
	switch s := m.Sum.(type) {
	case *kcons.Message_Vote:
		if s.Vote == nil || s.Vote.Vote == nil {
			return nil
		}
		k := keyIndexOf(common.BytesToAddress(s.Vote.Vote.ValidatorAddress))
		if k < 0 || k >= nVals {
			k = voter
		}
		if err := types.NewDefaultPrivValidator(allKeys[k]).SignVote(chainID, s.Vote.Vote); err != nil {
			return nil
		}
	case *kcons.Message_Proposal:
		if s.Proposal == nil {
			return nil
		}
		if err := types.NewDefaultPrivValidator(allKeys[proposer]).SignProposal(chainID, &s.Proposal.Proposal); err != nil {
			return nil
		}
	default:
		return nil
	}
	b, err := proto.Marshal(&m)
	if err != nil {
		return nil
	}
	return b
}

// rehash decodes block bytes without validation and re-assembles the block through types.NewBlock,
// which recomputes the three content hashes of the header. nil if the bytes do not convert.
func rehash(data []byte) (out []byte) {
	defer func() {
		if recover() != nil {
			out = nil
		}
	}()
	var pbb kproto.Block
	if err := proto.Unmarshal(data, &pbb); err != nil {
		return nil
	}
	b, err := types.BlockFromProtoUnsafe(&pbb)
	if err != nil {
		return nil
	}
	h := b.Header()
	h.LastCommitHash = common.Hash{}
	nb := types.NewBlock(h, b.Transactions(), b.LastCommit(), b.Evidence().Evidence, trie.NewStackTrie(nil))
	pb, err := nb.ToProto()
	if err != nil {
		return nil
	}
	return mustMarshal(pb)
}
