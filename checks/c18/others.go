package main

// Block sync, transaction pool, evidence and peer-exchange reactors, and the MConnection packet
// framing: environments, seeds, case execution and oracles.

import (
	"fmt"
	"math/big"
	"strings"
	"sync"
	"time"

	"github.com/gogo/protobuf/proto"

	"github.com/kardiachain/go-kardia/blockchain"
	"github.com/kardiachain/go-kardia/configs"
	"github.com/kardiachain/go-kardia/consensus"
	"github.com/kardiachain/go-kardia/kai/events"
	"github.com/kardiachain/go-kardia/kai/kaidb/memorydb"
	"github.com/kardiachain/go-kardia/kai/state"
	"github.com/kardiachain/go-kardia/lib/common"
	"github.com/kardiachain/go-kardia/lib/event"
	"github.com/kardiachain/go-kardia/lib/p2p"
	"github.com/kardiachain/go-kardia/lib/p2p/pex"
	"github.com/kardiachain/go-kardia/lib/rlp"
	"github.com/kardiachain/go-kardia/mainchain/tx_pool"
	bcproto "github.com/kardiachain/go-kardia/proto/kardiachain/blockchain"
	evproto "github.com/kardiachain/go-kardia/proto/kardiachain/evidence"
	kp2p "github.com/kardiachain/go-kardia/proto/kardiachain/p2p"
	txproto "github.com/kardiachain/go-kardia/proto/kardiachain/txpool"
	kproto "github.com/kardiachain/go-kardia/proto/kardiachain/types"
	"github.com/kardiachain/go-kardia/trie"
	"github.com/kardiachain/go-kardia/types"
	"github.com/kardiachain/go-kardia/types/evidence"
)

type otherEnv struct {
	cons   *consEnv
	builds int
	// the source chain (a node that committed heights 1 and 2): blocks for block sync, evidence context
	src *consNode
	// seeds per reactor/state (deterministic, built once per process)
	seedCache map[string][]gseed
	evCache   map[string]*evWorld
	pexSeq    int
	bcCache   map[string]*bcWorld
	txCache   map[string]*txWorld
	pexCache  map[string]*pexWorld
}

func newOtherEnv(c *consEnv) *otherEnv { return &otherEnv{cons: c, seedCache: map[string][]gseed{}} }
func (e *otherEnv) reset()             {}

// gseed is a valid message of a non-consensus reactor.
type gseed struct {
	Msg    string
	Bytes  []byte
	Root   []*pnode
	Sites  []site
	Schema *msgSchema
}

func mkGSeed(name string, b []byte, sch *msgSchema) gseed {
	root, err := parseNodes(b, sch, 0)
	if err != nil {
		panic(fmt.Sprintf("seed %s does not parse: %v", name, err))
	}
	if !bytesEq(encodeNodes(root), b) {
		panic(fmt.Sprintf("seed %s: tree re-encoding differs", name))
	}
	return gseed{Msg: name, Bytes: b, Root: root, Sites: sitesOf(root, sch, name), Schema: sch}
}

// source builds (once) a node that has committed heights 1 and 2 and stands at height 3.
func (e *otherEnv) source() *consNode {
	if e.src != nil {
		return e.src
	}
	c, err := newConsNode(stH2NewHeight, e.cons.T)
	if err != nil {
		panic("MACHINERY: source chain: " + err.Error())
	}
	func() {
		defer func() {
			if p := recover(); p != nil {
				panic(fmt.Sprintf("MACHINERY: source chain height 2: %v", p))
			}
		}()
		c.State = "source"
		c.commitHeight()
	}()
	e.src = c
	return c
}

func runTimeErrHook(out *outcome, pn interface{}, stk string) { runtimeErrorInReceive(out, pn, stk) }

func (e *otherEnv) run(cs *caseT) *outcome {
	switch cs.Reactor {
	case "blockchain":
		return e.runBC(cs)
	case "txpool":
		if cs.Kind == "fetcher" {
			return e.runFetcherSeq(cs)
		}
		return e.runTx(cs)
	case "evidence":
		return e.runEv(cs)
	case "pex":
		return e.runPex(cs)
	case "conn":
		return e.runConn(cs)
	}
	return &outcome{Stage: "unknown-reactor"}
}

// =============================================================================================
// block sync

const (
	bcIdle      = "bc-serving"        // not syncing; the store holds blocks 1 and 2
	bcSyncFresh = "bc-syncing"        // fast sync in progress, the sender is unknown to the scheduler
	bcSyncReq   = "bc-syncing-asked"  // ... the sender announced height 2 and blocks 1, 2 were requested from it
	bcSyncReq2  = "bc-syncing-asked2" // ... and it has already delivered the valid block 1
	bcChan      = blockchain.BlockchainChannel
)

var bcStates = []string{bcIdle, bcSyncFresh, bcSyncReq, bcSyncReq2}

var bcSchema = schemaOf(reflectTypeOf(&bcproto.Message{}))

func bcEncode(m proto.Message) []byte {
	b, err := blockchain.EncodeMsg(m)
	if err != nil {
		panic(err)
	}
	return b
}

func (e *otherEnv) bcSeeds() []gseed {
	if s, ok := e.seedCache["bc"]; ok {
		return s
	}
	src := e.source()
	b1, b2 := src.N.App.LoadBlock(1), src.N.App.LoadBlock(2)
	p1, err := b1.ToProto()
	if err != nil {
		panic(err)
	}
	p2, err := b2.ToProto()
	if err != nil {
		panic(err)
	}
	s := []gseed{
		mkGSeed("BlockRequest", bcEncode(&bcproto.BlockRequest{Height: 1}), bcSchema),
		mkGSeed("NoBlockResponse", bcEncode(&bcproto.NoBlockResponse{Height: 1}), bcSchema),
		mkGSeed("StatusRequest", bcEncode(&bcproto.StatusRequest{}), bcSchema),
		mkGSeed("StatusResponse", bcEncode(&bcproto.StatusResponse{Base: 1, Height: 2}), bcSchema),
		mkGSeed("BlockResponse(1)", bcEncode(&bcproto.BlockResponse{Block: p1}), bcSchema),
		mkGSeed("BlockResponse(2)", bcEncode(&bcproto.BlockResponse{Block: p2}), bcSchema),
	}
	e.seedCache["bc"] = s
	return s
}

type bcWorld struct {
	n  *consensus.VerifNode
	r  *blockchain.BlockchainReactor
	sw *p2p.Switch
}

func (e *otherEnv) newBC(state string) *bcWorld {
	e.builds++
	w := &bcWorld{sw: p2p.VerifC18NewSwitch(configs.DefaultP2PConfig())}
	if state == bcIdle {
		w.n = e.source().N
	} else {
		clockTicks = 0
		gen := genesis()
		db := memorydb.New()
		consensus.VerifWriteGenesisBlock(db, gen)
		n, err := consensus.VerifNewNode(consensus.VerifNodeConfig{Name: "syncer", Genesis: gen, Key: allKeys[e.cons.T], DB: db, ConsCfg: consCfg()})
		if err != nil {
			panic("MACHINERY: syncing node: " + err.Error())
		}
		w.n = n
	}
	fs := configs.DefaultFastSyncConfig()
	w.r = blockchain.NewBlockchainReactor(w.n.State(), consensus.VerifC18BlockExec(w.n.CS), w.n.App, fs)
	w.sw.AddReactor("BLOCKCHAIN", w.r) // SetSwitch; the switch tells the reactor when it removes a peer
	if state == bcIdle {
		w.r.VerifC18UseSwitchReporter()
	} else {
		w.r.VerifC18BeginSync()
	}
	return w
}

func (w *bcWorld) close(state string) {
	if state != bcIdle {
		w.n.Close()
	}
}

// pumpAll routes queued events and fires the tickers the way demux would over a few periods.
func (w *bcWorld) pumpAll(process bool) (finished bool) {
	for i := 0; i < 4; i++ {
		t := w.r.VerifC18Pump()
		if t.Finished {
			finished = true
		}
		if process {
			if t2 := w.r.VerifC18Tick("process"); t2.Finished {
				finished = true
			}
		}
	}
	return finished
}

func (e *otherEnv) runBC(cs *caseT) *outcome {
	out := &outcome{}
	seeds := e.bcSeeds()
	if e.bcCache == nil {
		e.bcCache = map[string]*bcWorld{}
	}
	w := e.bcCache[cs.State]
	if w == nil {
		w = e.newBC(cs.State)
		e.bcCache[cs.State] = w
	}
	dirty := cs.State == bcSyncReq || cs.State == bcSyncReq2 // the set-up below moves the scheduler
	defer func() {
		if dirty {
			w.close(cs.State)
			delete(e.bcCache, cs.State)
		}
	}()
	p, b := newMockPeer(1), newMockPeer(2)
	p2p.VerifC18AddPeerToSet(w.sw, p)
	p2p.VerifC18AddPeerToSet(w.sw, b)
	defer func() {
		p2p.VerifC18RemovePeerFromSet(w.sw, p)
		p2p.VerifC18RemovePeerFromSet(w.sw, b)
	}()
	saved0 := len(w.n.App.Saved)
	setup := func() {
		if cs.State == bcSyncReq || cs.State == bcSyncReq2 {
			w.r.AddPeer(p)
			w.r.VerifC18Pump()
			w.r.Receive(bcChan, p, seeds[3].Bytes) // StatusResponse{1,2}
			w.r.VerifC18Pump()
			w.r.VerifC18Tick("schedule")
			w.r.VerifC18Tick("schedule")
			if cs.State == bcSyncReq2 {
				w.r.Receive(bcChan, p, seeds[4].Bytes) // valid block 1
				w.r.VerifC18Pump()
			}
		}
	}
	if pn, stk := guarded(setup); pn != nil || p.wasStopped() {
		out.viol("harness", "block sync set-up failed: %v %s", pn, panicSite(stk))
		return out
	}
	if (cs.State == bcSyncReq || cs.State == bcSyncReq2) && p.sentTot < 3 {
		out.viol("harness", "block sync set-up: the scheduler did not request blocks from the peer (sent %d)", p.sentTot)
		return out
	}
	msg := cs.bytes()
	_, derr := blockchain.DecodeMsg(msg)
	out.Decoded = derr == nil
	sent0 := p.sentTot
	view0 := w.r.VerifC18View()
	a0 := allocBytes()
	pn, stk := guarded(func() { w.r.Receive(cs.Ch, p, msg) })
	if pn != nil {
		runTimeErrHook(out, pn, stk)
	}
	if pn != nil {
		out.Contained = fmt.Sprintf("%v at %s", short(fmt.Sprint(pn), 160), panicSite(stk))
	}
	if !w.r.VerifC18TryLock() {
		// nothing below can run: every writer of the mutex (setMaxPeerHeight, endSync, startSync) blocks
		or := "lock-leaked"
		if pn != nil {
			or = "contained-panic-leaves-lock"
		}
		out.viol(or, "BlockchainReactor.mtx is still held after Receive returned (the next writer - setMaxPeerHeight, endSync - and through it the demux loop hang); panic: %q", out.Contained)
		out.Stage = "lock-leaked"
		out.Alloc = allocBytes() - a0
		dirty = true // the world is unusable
		return out
	}
	queued := w.r.VerifC18QueuedEvents()
	// the routines that consume what Receive queued (scheduler, processor): goroutines without recover
	var finished bool
	pn2, stk2 := guarded(func() {
		w.pumpAll(false)
		if cs.State == bcSyncReq && strings.HasPrefix(cs.Msg, "BlockResponse") {
			// let the other block of the pair arrive so that the processor verifies and applies
			other := seeds[5].Bytes
			if cs.Msg == "BlockResponse(2)" {
				other = seeds[4].Bytes
			}
			if !p.wasStopped() {
				w.r.Receive(bcChan, p, other)
			}
		}
		if cs.State == bcSyncReq2 && !strings.HasPrefix(cs.Msg, "BlockResponse(2)") && !p.wasStopped() {
			w.r.Receive(bcChan, p, seeds[5].Bytes)
		}
		finished = w.pumpAll(true)
	})
	out.Alloc = allocBytes() - a0
	if pn2 != nil {
		out.viol("sync-routine-panic", "the block-sync scheduler/processor (goroutines without recover: the process dies) panicked on what the peer sent: %v at %s",
			short(fmt.Sprint(pn2), 240), panicSite(stk2))
	}
	if lim := allocLimit(blockchain.MaxMsgSize, uint64(len(msg))+uint64(len(seeds[5].Bytes))); out.Alloc > lim {
		out.viol("alloc", "a %d-byte message made the node allocate %d bytes (limit %d)", len(msg), out.Alloc, lim)
	}
	if !w.r.VerifC18TryLock() {
		or := "lock-leaked"
		if pn != nil {
			or = "contained-panic-leaves-lock"
		}
		out.viol(or, "BlockchainReactor.mtx is still held after Receive returned (the next writer - setMaxPeerHeight, endSync - and through it the demux loop hang); panic: %q", out.Contained)
	}
	if b.wasStopped() {
		out.viol("other-peer-stopped", "a peer that did not send the message was stopped")
	}
	applied := len(w.n.App.Saved) - saved0
	switch {
	case pn2 != nil:
		out.Stage = "bc:routine-panic"
	case pn != nil:
		out.Stage = "contained-panic"
	case !out.Decoded:
		out.Stage = "decode-error"
	case applied > 0:
		out.Stage = "bc:block-applied"
	case p.wasStopped():
		out.Stage = "rejected-peer-stopped"
	case queued > 0:
		out.Stage = "bc:event-queued"
	case p.sentTot != sent0:
		out.Stage = "answered"
	case w.r.VerifC18View() != view0:
		out.Stage = "bc:reactor-state-changed"
	default:
		out.Stage = "accepted-no-effect"
	}
	if applied > 0 && cs.Kind != "valid" && cs.State == bcSyncReq {
		// a mutated block must not be applied unless the mutation left the signed content intact; the
		// applied block's hash is covered by the commit in block 2, so this is informational
		out.Stage = "bc:block-applied(mutated)"
	}
	_ = finished
	if pn != nil || pn2 != nil || len(out.Viols) > 0 || applied > 0 || (queued > 0 && out.Decoded) || w.r.VerifC18View() != view0 {
		dirty = true
	}
	if pn != nil && pn2 == nil {
		// post-condition: a well-formed message from another peer is still handled
		pn3, _ := guarded(func() { w.r.Receive(bcChan, b, seeds[2].Bytes) }) // StatusRequest -> answer
		if pn3 != nil || b.sentTot == 0 {
			out.viol("following-message-not-handled", "after the contained panic a StatusRequest from a different peer is not answered (panic=%v)", pn3)
		}
	}
	return out
}

// =============================================================================================
// transaction pool

const (
	txEmpty  = "txpool-empty"
	txHolds  = "txpool-holding-tx"
	txChan   = tx_pool.TxpoolChannel
	txGasLim = uint64(30000000)
)

var txStates = []string{txEmpty, txHolds}
var txSchema = schemaOf(reflectTypeOf(&txproto.Message{}))

type stubChain struct {
	mu      sync.Mutex
	statedb *state.StateDB
	head    *types.Block
	feed    event.Feed
}

func (c *stubChain) CurrentBlock() *types.Block                { return c.head }
func (c *stubChain) GetBlock(common.Hash, uint64) *types.Block { return c.head }
func (c *stubChain) StateAt(uint64) (*state.StateDB, error)    { return c.statedb, nil }
func (c *stubChain) SubscribeChainHeadEvent(ch chan<- events.ChainHeadEvent) event.Subscription {
	return c.feed.Subscribe(ch)
}

func newStubChain() *stubChain {
	sdb, err := state.New(common.Hash{}, state.NewDatabase(memorydb.New()), nil)
	if err != nil {
		panic(err)
	}
	sdb.SetBalance(allAddrs[4], new(big.Int).Mul(big.NewInt(1e18), big.NewInt(1000)))
	return &stubChain{statedb: sdb, head: types.NewBlock(&types.Header{GasLimit: txGasLim}, nil, nil, nil, trie.NewStackTrie(nil))}
}

var txSigner = types.LatestSigner(configs.TestChainConfig)

func signedTx(nonce uint64, gasLimit uint64, gasPrice int64, value *big.Int, data []byte, key int) *types.Transaction {
	tx := types.NewTransaction(nonce, allAddrs[3], value, gasLimit, big.NewInt(gasPrice), data)
	s, err := types.SignTx(txSigner, tx, allKeys[key])
	if err != nil {
		panic(err)
	}
	return s
}

func rlpBytes(x interface{}) []byte {
	b, err := rlp.EncodeToBytes(x)
	if err != nil {
		panic(err)
	}
	return b
}

func rlpDecode(b []byte, x interface{}) error { return rlp.DecodeBytes(b, x) }

func txMsg(sum interface{}) []byte {
	m := &txproto.Message{}
	switch s := sum.(type) {
	case *txproto.Txs:
		m.Sum = &txproto.Message_Txs{Txs: s}
	case *txproto.PooledTransactions:
		m.Sum = &txproto.Message_PooledTransactions{PooledTransactions: s}
	case *txproto.PooledTransactionHashes:
		m.Sum = &txproto.Message_PooledTransactionHashes{PooledTransactionHashes: s}
	case *txproto.RequestPooledTransactions:
		m.Sum = &txproto.Message_RequestPooledTransactions{RequestPooledTransactions: s}
	}
	return mustMarshal(m)
}

var (
	txOnce   sync.Once
	txGood   *types.Transaction // the valid transaction of the seeds
	txInPool *types.Transaction // the transaction a "holding" pool already has
)

func txFixtures() {
	txOnce.Do(func() {
		txInPool = signedTx(0, 100000, 1000000000, big.NewInt(1), nil, 4)
		txGood = signedTx(1, 120000, 1000000000, big.NewInt(2), []byte("c18"), 4)
	})
}

func (e *otherEnv) txSeeds() []gseed {
	if s, ok := e.seedCache["tx"]; ok {
		return s
	}
	txFixtures()
	h := txInPool.Hash()
	s := []gseed{
		mkGSeed("Txs", txMsg(&txproto.Txs{Txs: [][]byte{rlpBytes(txGood)}}), txSchema),
		mkGSeed("PooledTransactions", txMsg(&txproto.PooledTransactions{Txs: [][]byte{rlpBytes(txGood)}}), txSchema),
		mkGSeed("PooledTransactionHashes", txMsg(&txproto.PooledTransactionHashes{Hashes: [][]byte{txGood.Hash().Bytes()}}), txSchema),
		mkGSeed("RequestPooledTransactions", txMsg(&txproto.RequestPooledTransactions{Hashes: [][]byte{h.Bytes()}}), txSchema),
	}
	e.seedCache["tx"] = s
	return s
}

// txVariants: correctly signed transactions with one semantic defect each (the peer signs what it sends).
func txVariants() []struct {
	Name string
	Tx   *types.Transaction
} {
	big1 := big.NewInt(1)
	huge := new(big.Int).Lsh(big1, 255)
	return []struct {
		Name string
		Tx   *types.Transaction
	}{
		{"gas-price-0", signedTx(1, 120000, 0, big1, nil, 4)},
		{"gas-limit-0", signedTx(1, 0, 1000000000, big1, nil, 4)},
		{"gas-limit-max", signedTx(1, 1<<63, 1000000000, big1, nil, 4)},
		{"gas-limit-above-block", signedTx(1, txGasLim+1, 1000000000, big1, nil, 4)},
		{"value-2^255", signedTx(1, 120000, 1000000000, huge, nil, 4)},
		{"nonce-gap", signedTx(1000, 120000, 1000000000, big1, nil, 4)},
		{"nonce-max", signedTx(1<<64-1, 120000, 1000000000, big1, nil, 4)},
		{"data-40000-bytes", signedTx(1, 3000000, 1000000000, big1, make([]byte, 40000), 4)},
		{"data-140000-bytes", signedTx(1, 20000000, 1000000000, big1, make([]byte, 140000), 4)},
		{"sender-without-funds", signedTx(0, 120000, 1000000000, big1, nil, 2)},
		{"same-nonce-as-pooled(replacement underpriced)", signedTx(0, 100000, 1000000001, big1, nil, 4)},
	}
}

type txWorld struct {
	chain *stubChain
	pool  *tx_pool.TxPool
	r     *tx_pool.Reactor
	sw    *p2p.Switch
}

func (e *otherEnv) newTx(state string) *txWorld {
	e.builds++
	txFixtures()
	w := &txWorld{chain: newStubChain(), sw: p2p.VerifC18NewSwitch(configs.DefaultP2PConfig())}
	cfg := tx_pool.DefaultTxPoolConfig
	cfg.Journal = ""
	cfg.Broadcast = true
	w.pool = tx_pool.NewTxPool(cfg, configs.TestChainConfig, w.chain)
	w.r = tx_pool.NewReactor(cfg, w.pool)
	w.sw.AddReactor("TXPOOL", w.r)
	if err := w.r.Start(); err != nil {
		panic("MACHINERY: tx reactor start: " + err.Error())
	}
	if state == txHolds {
		if errs := w.pool.AddRemotesSync([]*types.Transaction{txInPool}); errs[0] != nil {
			panic("MACHINERY: cannot seed the pool: " + errs[0].Error())
		}
	}
	return w
}

func (w *txWorld) close() {
	w.r.Stop()
	w.pool.Stop()
}

func (e *otherEnv) runTx(cs *caseT) *outcome {
	out := &outcome{}
	if e.txCache == nil {
		e.txCache = map[string]*txWorld{}
	}
	w := e.txCache[cs.State]
	if w == nil {
		w = e.newTx(cs.State)
		e.txCache[cs.State] = w
	}
	dirty := false
	defer func() {
		if dirty {
			w.close()
			delete(e.txCache, cs.State)
		}
	}()
	p, b := newMockPeer(1), newMockPeer(2)
	if cs.Peer == peerKnown {
		w.r.AddPeer(p)
		defer w.r.RemovePeer(p, nil)
	}
	w.r.AddPeer(b)
	defer w.r.RemovePeer(b, nil)
	msg := cs.bytes()
	dm, derr := tx_pool.VerifC18Decode(msg)
	out.Decoded = derr == nil
	pend0, q0 := w.pool.Stats()
	sent0 := p.sentTot
	a0 := allocBytes()
	pn, stk := guarded(func() { w.r.Receive(cs.Ch, p, msg) })
	if pn != nil {
		runTimeErrHook(out, pn, stk)
	}
	out.Alloc = allocBytes() - a0
	if pn != nil {
		out.Contained = fmt.Sprintf("%v at %s", short(fmt.Sprint(pn), 160), panicSite(stk))
	}
	if lim := allocLimit(tx_pool.DefaultTxPoolConfig.MaxTxsBatchSize, uint64(len(msg))); out.Alloc > lim {
		out.viol("alloc", "a %d-byte message made the node allocate %d bytes (limit %d)", len(msg), out.Alloc, lim)
	}
	// the pool's own reorg goroutine takes TxPool.mu for short periods: a lock counts as leaked only if
	// it cannot be taken during two seconds of retries
	free := false
	for i := 0; i < 2000 && !free; i++ {
		if free = w.pool.VerifC18TryLock() && w.r.VerifC18TryLock(); !free {
			time.Sleep(time.Millisecond)
		}
	}
	if !free {
		or := "lock-leaked"
		if pn != nil {
			or = "contained-panic-leaves-lock"
		}
		out.viol(or, "TxPool.mu or the reactor's locks are still held after Receive returned; panic: %q", out.Contained)
	}
	if b.wasStopped() {
		out.viol("other-peer-stopped", "a peer that did not send the message was stopped")
	}
	pend1, q1 := w.pool.Stats()
	switch {
	case pn != nil:
		out.Stage = "contained-panic"
	case !out.Decoded:
		out.Stage = "decode-error"
	case p.wasStopped():
		out.Stage = "rejected-peer-stopped"
	case pend1+q1 > pend0+q0:
		out.Stage = "tx:added-to-pool"
	case p.sentTot != sent0:
		out.Stage = "answered"
	case cs.Peer != peerKnown:
		out.Stage = "tx:ignored-unknown-peer"
	default:
		out.Stage = "accepted-no-effect"
		if dm != nil {
			out.Stage = fmt.Sprintf("tx:%T-no-effect", dm)
		}
	}
	if !out.Decoded && !p.wasStopped() && pn == nil {
		out.Stage = "decode-error-peer-kept"
	}
	// anything the reactor acted on may have left traces in the pool or the fetcher
	if out.Decoded && cs.Peer == peerKnown || pn != nil || len(out.Viols) > 0 || pend1+q1 != pend0+q0 {
		dirty = true
	}
	if pn != nil {
		// post-condition: a well-formed message from another peer is still handled
		seeds := e.txSeeds()
		pn3, _ := guarded(func() { w.r.Receive(txChan, b, seeds[0].Bytes) })
		pe, qe := w.pool.Stats()
		if pn3 != nil || pe+qe <= pend1+q1 {
			out.viol("following-message-not-handled", "after the contained panic a valid transaction from a different peer is not added (panic=%v)", pn3)
		}
	}
	return out
}

// =============================================================================================
// evidence

const (
	evH1   = "ev-node-at-h1"
	evH3   = "ev-node-at-h3"
	evChan = evidence.EvidenceChannel
)

var evStates = []string{evH1, evH3}
var evSchema = schemaOf(reflectTypeOf(&evproto.List{}))

func (e *otherEnv) evSeeds() []gseed {
	if s, ok := e.seedCache["ev"]; ok {
		return s
	}
	src := e.source()
	// validator o[0] prevoted two different blocks at height 1, round 1
	k := src.others()[0]
	vals, err := src.N.Store.LoadValidators(1)
	if err != nil {
		panic(err)
	}
	idx, _ := vals.GetByAddress(allAddrs[k])
	idA := src.N.App.LoadBlockMeta(1).BlockID
	idB := types.BlockID{Hash: common.BytesToHash([]byte("another block")), PartsHeader: types.PartSetHeader{Total: 1, Hash: common.BytesToHash([]byte("parts"))}}
	va := signedVote(k, uint32(idx), kproto.PrevoteType, 1, 1, idA)
	vb := signedVote(k, uint32(idx), kproto.PrevoteType, 1, 1, idB)
	ev := types.NewDuplicateVoteEvidence(va, vb, src.N.App.LoadBlockMeta(1).Header.Time, vals)
	bz, err := evidence.VerifC18Encode([]types.Evidence{ev})
	if err != nil {
		panic(err)
	}
	s := []gseed{mkGSeed("EvidenceList", bz, evSchema)}
	e.seedCache["ev"] = s
	return s
}

type evWorld struct {
	c *consNode
	r *evidence.Reactor
}

func (e *otherEnv) newEv(stateName string) *evWorld {
	e.builds++
	st := stH1NewHeight
	var c *consNode
	var err error
	if stateName == evH3 {
		c, err = newConsNode(stH2NewHeight, e.cons.T)
		if err == nil {
			func() {
				defer func() {
					if p := recover(); p != nil {
						err = fmt.Errorf("%v", p)
					}
				}()
				c.commitHeight()
			}()
		}
	} else {
		c, err = newConsNode(st, e.cons.T)
	}
	if err != nil {
		panic("MACHINERY: evidence node: " + err.Error())
	}
	w := &evWorld{c: c, r: evidence.NewReactor(c.N.EvPool)}
	c.Sw.AddReactor("EVIDENCE", w.r)
	return w
}

func evPending(c *consNode) int {
	l, _ := c.N.EvPool.PendingEvidence(1 << 30)
	return len(l)
}

func (e *otherEnv) evWorldFor(state string) *evWorld {
	if e.evCache == nil {
		e.evCache = map[string]*evWorld{}
	}
	if w := e.evCache[state]; w != nil {
		return w
	}
	w := e.newEv(state)
	e.evCache[state] = w
	return w
}

func (e *otherEnv) runEv(cs *caseT) *outcome {
	out := &outcome{}
	w := e.evWorldFor(cs.State)
	dirty := false
	defer func() {
		if dirty {
			w.c.close()
			delete(e.evCache, cs.State)
		}
	}()
	p, b := newMockPeer(1), newMockPeer(2)
	msg := cs.bytes()
	_, derr := evidence.VerifC18Decode(msg)
	out.Decoded = derr == nil
	n0 := evPending(w.c)
	a0 := allocBytes()
	pn, stk := guarded(func() { w.r.Receive(cs.Ch, p, msg) })
	if pn != nil {
		runTimeErrHook(out, pn, stk)
	}
	out.Alloc = allocBytes() - a0
	if pn != nil {
		out.Contained = fmt.Sprintf("%v at %s", short(fmt.Sprint(pn), 160), panicSite(stk))
		dirty = true
	}
	if lim := allocLimit(1048576, uint64(len(msg))); out.Alloc > lim {
		out.viol("alloc", "a %d-byte message made the node allocate %d bytes (limit %d)", len(msg), out.Alloc, lim)
	}
	if !w.c.N.EvPool.VerifC18TryLock() {
		or := "lock-leaked"
		if pn != nil {
			or = "contained-panic-leaves-lock"
		}
		out.viol(or, "evidence Pool.mtx is still held after Receive returned; panic: %q", out.Contained)
		dirty = true
	}
	if held := consensus.VerifC18HeldLocks(w.c.ConR); len(held) > 0 {
		out.viol("lock-leaked", "consensus locks held after an evidence message: %v", held)
		dirty = true
	}
	if b.wasStopped() {
		out.viol("other-peer-stopped", "a peer that did not send the message was stopped")
	}
	n1 := evPending(w.c)
	switch {
	case pn != nil:
		out.Stage = "contained-panic"
	case !out.Decoded:
		out.Stage = "decode-error"
	case n1 > n0:
		out.Stage = "ev:added-to-pool"
		dirty = true
	case p.wasStopped():
		out.Stage = "rejected-peer-stopped"
	default:
		out.Stage = "accepted-no-effect"
	}
	if (p.wasStopped() || !out.Decoded) && n1 != n0 {
		out.viol("rejected-message-changed-state", "the evidence message was rejected but the pool changed (%d -> %d pending)", n0, n1)
	}
	if !out.Decoded && !p.wasStopped() && pn == nil {
		out.Stage = "decode-error-peer-kept"
	}
	if pn != nil {
		seeds := e.evSeeds()
		pn3, _ := guarded(func() { w.r.Receive(evChan, b, seeds[0].Bytes) })
		if pn3 != nil || (cs.State == evH3 && evPending(w.c) <= n1 && n1 == 0) {
			out.viol("following-message-not-handled", "after the contained panic valid evidence from a different peer is not handled (panic=%v)", pn3)
		}
	}
	return out
}

// resignEvidence signs both votes of a (mutated) duplicate-vote evidence with the key of the accused
// validator (the peer is that validator) and re-encodes the list. nil if it does not decode.
func resignEvidence(raw []byte, key int) (out []byte) {
	defer func() {
		if recover() != nil {
			out = nil
		}
	}()
	var l evproto.List
	if err := proto.Unmarshal(raw, &l); err != nil || len(l.Evidence) == 0 {
		return nil
	}
	for i, ev := range l.Evidence {
		if i >= 3 {
			break // copies of an entry carry the signature of what they copy
		}
		dv, ok := ev.Sum.(*kproto.Evidence_DuplicateVoteEvidence)
		if !ok || dv.DuplicateVoteEvidence == nil {
			return nil
		}
		for _, v := range []*kproto.Vote{dv.DuplicateVoteEvidence.VoteA, dv.DuplicateVoteEvidence.VoteB} {
			if v == nil {
				continue
			}
			if err := types.NewDefaultPrivValidator(allKeys[key]).SignVote(chainID, v); err != nil {
				return nil
			}
		}
	}
	b, err := proto.Marshal(&l)
	if err != nil {
		return nil
	}
	return b
}

// =============================================================================================
// peer exchange

const (
	pexUnsolicited = "pex-no-request-outstanding"
	pexSolicited   = "pex-request-outstanding"
	pexChan        = pex.PexChannel
)

var pexStates = []string{pexUnsolicited, pexSolicited}
var pexSchema = schemaOf(reflectTypeOf(&kp2p.Message{}))

func (e *otherEnv) pexSeeds() []gseed {
	if s, ok := e.seedCache["pex"]; ok {
		return s
	}
	s := []gseed{
		mkGSeed("PexRequest", pex.VerifC18Encode(&kp2p.PexRequest{}), pexSchema),
		mkGSeed("PexAddrs", pex.VerifC18Encode(&kp2p.PexAddrs{Addrs: []kp2p.NetAddress{
			{ID: string(peerID(77)), IP: "54.12.13.14", Port: 26656},
			{ID: string(peerID(78)), IP: "2001:4860:4860::8888", Port: 3000}}}), pexSchema),
	}
	e.seedCache["pex"] = s
	return s
}

type pexWorld struct {
	book pex.AddrBook
	r    *pex.Reactor
}

func (e *otherEnv) runPex(cs *caseT) *outcome {
	out := &outcome{}
	if e.pexCache == nil {
		e.pexCache = map[string]*pexWorld{}
	}
	pw := e.pexCache[cs.State]
	if pw == nil {
		e.builds++
		pw = &pexWorld{book: pex.NewAddrBook("/nonexistent/c18-addrbook.json", true)}
		pw.r = pex.NewReactor(pw.book, &pex.ReactorConfig{})
		sw := p2p.VerifC18NewSwitch(configs.DefaultP2PConfig())
		sw.AddReactor("PEX", pw.r)
		e.pexCache[cs.State] = pw
	}
	book, r := pw.book, pw.r
	e.pexSeq++
	// a new identity per case: the reactor keeps per-peer request bookkeeping
	p, b := newMockPeer(10+2*e.pexSeq), newMockPeer(11+2*e.pexSeq)
	defer func() {
		if out.Decoded || out.Contained != "" || len(out.Viols) > 0 || e.pexSeq > 100000 {
			delete(e.pexCache, cs.State)
			e.pexSeq = 0
		}
	}()
	p.outbound = true
	if cs.State == pexSolicited {
		r.RequestAddrs(p)
	}
	msg := cs.bytes()
	_, derr := pex.VerifC18Decode(msg)
	out.Decoded = derr == nil
	size0 := book.Size()
	sent0 := p.sentTot
	a0 := allocBytes()
	pn, stk := guarded(func() { r.Receive(cs.Ch, p, msg) })
	if pn != nil {
		runTimeErrHook(out, pn, stk)
	}
	out.Alloc = allocBytes() - a0
	if pn != nil {
		out.Contained = fmt.Sprintf("%v at %s", short(fmt.Sprint(pn), 160), panicSite(stk))
	}
	if lim := allocLimit(256*250, uint64(len(msg))); out.Alloc > lim {
		out.viol("alloc", "a %d-byte message made the node allocate %d bytes (limit %d)", len(msg), out.Alloc, lim)
	}
	if !pex.VerifC18BookTryLock(book) {
		or := "lock-leaked"
		if pn != nil {
			or = "contained-panic-leaves-lock"
		}
		out.viol(or, "the address book mutex is still held after Receive returned; panic: %q", out.Contained)
	}
	if b.wasStopped() {
		out.viol("other-peer-stopped", "a peer that did not send the message was stopped")
	}
	switch {
	case pn != nil:
		out.Stage = "contained-panic"
	case !out.Decoded:
		out.Stage = "decode-error"
	case book.Size() > size0:
		out.Stage = "pex:addresses-added"
	case p.wasStopped():
		out.Stage = "rejected-peer-stopped"
	case p.sentTot != sent0+0 && p.sentTot > sent0:
		out.Stage = "answered"
	default:
		out.Stage = "accepted-no-effect"
	}
	if !out.Decoded && !p.wasStopped() && pn == nil {
		out.Stage = "decode-error-peer-kept"
	}
	if pn != nil && pex.VerifC18BookTryLock(book) {
		seeds := e.pexSeeds()
		pn3, _ := guarded(func() { r.Receive(pexChan, b, seeds[0].Bytes) })
		if pn3 != nil || b.sentTot == 0 {
			out.viol("following-message-not-handled", "after the contained panic a PexRequest from a different peer is not answered (panic=%v)", pn3)
		}
	}
	return out
}
