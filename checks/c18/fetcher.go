package main

// Explicit-state search (E2) of the transaction FETCHER behind the tx-pool reactor: the real
// tx_pool.Reactor + real fetcher.TxFetcher (its real loop goroutine) + real TxPool, two peers {A, B},
// three transactions (h1 valid, h2 underpriced, h3 valid but never announced), every sequence of peer
// events up to a depth, states de-duplicated by a canonical dump of the fetcher's maps + pool content
// + registered peers. Time is the fetcher's own injectable clock (mclock.Simulated installed through
// the in-package accessor; the two timeouts are events that advance it). Quiescence is clock-free: the
// loop reports every completed iteration on its step channel, the number of iterations an event causes
// is known (timer callbacks are counted by the clock wrapper, Notify's pre-filter is asked through the
// accessor), and a no-op Drop is round-tripped through the loop before the maps are read.

import (
	"encoding/hex"
	"encoding/json"
	"fmt"
	"math/big"
	mrand "math/rand"
	"runtime"
	"runtime/debug"
	"sort"
	"strings"
	"sync"
	"sync/atomic"
	"time"

	"github.com/kardiachain/go-kardia/configs"
	"github.com/kardiachain/go-kardia/lib/common"
	"github.com/kardiachain/go-kardia/lib/mclock"
	"github.com/kardiachain/go-kardia/lib/p2p"
	"github.com/kardiachain/go-kardia/mainchain/fetcher"
	"github.com/kardiachain/go-kardia/mainchain/tx_pool"
	txproto "github.com/kardiachain/go-kardia/proto/kardiachain/txpool"
	"github.com/kardiachain/go-kardia/types"
)

const fetcherState = "txpool-fetcher"

// countingClock counts the timer callbacks the simulated clock executes.
type countingClock struct {
	*mclock.Simulated
	fired int64
}

func (c *countingClock) AfterFunc(d time.Duration, fn func()) mclock.Timer {
	return c.Simulated.AfterFunc(d, func() {
		atomic.AddInt64(&c.fired, 1)
		fn()
	})
}

var fetcherEvents = []string{
	"annA1", "annA2", "annA12", "annB1", "annB2", "annB12",
	"txsA1", "txsA2", "txsB1", "txsB2",
	"poolA1", "poolA2", "poolA12", "poolA3", "poolB1", "poolB2", "poolB12", "poolB3",
	"rmA", "rmB", "addA", "addB",
	"T1", "T2",
	// scheduling of the request goroutines the loop spawns (no synchronisation with Receive/RemovePeer):
	// "park" = the next request call is delayed (held at the checker's gate), "late" = it runs only now
	"park", "late",
}

var (
	fxOnce sync.Once
	fxTx   map[string]*types.Transaction // "1","2","3"
	fxName map[common.Hash]string
)

func fetcherFixtures() {
	fxOnce.Do(func() {
		fxTx = map[string]*types.Transaction{
			"1": signedTx(0, 100000, 1000000000, big.NewInt(1), nil, 4),
			"2": signedTx(0, 100000, 0, big.NewInt(7), nil, 4), // underpriced
			"3": signedTx(1, 100000, 1000000000, big.NewInt(3), nil, 4),
		}
		fxName = map[common.Hash]string{}
		for k, tx := range fxTx {
			fxName[tx.Hash()] = "h" + k
		}
	})
}

type fworld struct {
	pool     *tx_pool.TxPool
	r        *tx_pool.Reactor
	f        *fetcher.TxFetcher
	clock    *countingClock
	iters    int64 // completed loop iterations (pump)
	stopPump chan struct{}
	panicked atomic.Value // string
	peers    map[string]*mockPeer
	reg      map[string]bool
	reqSends int64
	reqWant  int64
	prev     *fetcher.VerifC18Dump
	fences   int
	// a removed peer still listed as origin of a hash (observation)
	staleOrigin string
	// request goroutines (calls of the real fetchTxs callback through the wrapper)
	gmu       sync.Mutex
	armed     bool        // the next call will be parked
	parked    *parkedCall // at most one
	started   int64
	returned  int64
	errs      int64
	errsSeen  int64
	reqPanic  atomic.Value // string
	lateCalls int64
}

type parkedCall struct {
	peer   string
	hashes []string
	gate   chan struct{}
}

func peerLabel(id string) string {
	switch p2p.ID(id) {
	case peerID(1):
		return "A"
	case peerID(2):
		return "B"
	}
	return "?" + id
}

func newFWorld() *fworld {
	fetcherFixtures()
	w := &fworld{peers: map[string]*mockPeer{}, reg: map[string]bool{}, stopPump: make(chan struct{})}
	cfg := tx_pool.DefaultTxPoolConfig
	cfg.Journal = ""
	cfg.Broadcast = true
	w.pool = tx_pool.NewTxPool(cfg, configs.TestChainConfig, newStubChain())
	w.r = tx_pool.NewReactor(cfg, w.pool)
	sw := p2p.VerifC18NewSwitch(configs.DefaultP2PConfig())
	sw.AddReactor("TXPOOL", w.r)
	w.f = w.r.VerifC18Fetcher()
	w.clock = &countingClock{Simulated: new(mclock.Simulated)}
	step := fetcher.VerifC18Instrument(w.f, w.clock, mrand.New(mrand.NewSource(1)))
	fetcher.VerifC18WrapFetch(w.f, func(orig func(string, []common.Hash) error) func(string, []common.Hash) error {
		return func(peer string, hashes []common.Hash) (err error) {
			w.gmu.Lock()
			var gate chan struct{}
			if w.armed && w.parked == nil {
				pc := &parkedCall{peer: peer, gate: make(chan struct{})}
				for _, h := range hashes {
					pc.hashes = append(pc.hashes, fxName[h])
				}
				w.parked, w.armed, gate = pc, false, pc.gate
			}
			w.gmu.Unlock()
			atomic.AddInt64(&w.started, 1)
			if gate != nil {
				<-gate // a delayed thread: it runs when the checker's "late" event says so
			}
			defer func() {
				if p := recover(); p != nil {
					// in production this goroutine has no recover: the process dies
					w.reqPanic.Store(fmt.Sprintf("%v at %s", short(fmt.Sprint(p), 200), panicSite(string(debug.Stack()))))
					err = nil // the goroutine is gone; it does not go on to Drop the peer
				}
				if err != nil {
					atomic.AddInt64(&w.errs, 1)
				}
				atomic.AddInt64(&w.returned, 1)
			}()
			return orig(peer, hashes)
		}
	})
	go func() {
		for {
			select {
			case <-step:
				atomic.AddInt64(&w.iters, 1)
			case <-w.stopPump:
				return
			}
		}
	}()
	w.r.VerifC18StartGuarded(func(p interface{}, stack string) {
		w.panicked.Store(fmt.Sprintf("%v at %s", short(fmt.Sprint(p), 200), panicSite(stack)))
	})
	for i, n := range []string{"A", "B"} {
		p := newMockPeer(i + 1)
		p.onSend = func(ch byte, b []byte) {
			if m, err := tx_pool.VerifC18Decode(b); err == nil {
				if _, ok := m.(tx_pool.RequestPooledTransactionHashes); ok {
					atomic.AddInt64(&w.reqSends, 1)
				}
			}
		}
		w.peers[n] = p
		w.r.AddPeer(p)
		w.reg[n] = true
	}
	w.prev = w.dump()
	return w
}

func (w *fworld) close() {
	// peers are removed one settled event at a time: RemovePeer unregisters the peer BEFORE it tells the
	// fetcher, and a request the loop schedules in between dereferences the missing peer in fetchTx (a
	// race of the repository, outside the sequential event model of this search; see notes.go)
	if w.dead() == "" {
		guarded(func() { w.apply("late") })
	} else {
		w.gmu.Lock()
		if w.parked != nil {
			close(w.parked.gate)
			w.parked = nil
		}
		w.gmu.Unlock()
	}
	for _, n := range []string{"A", "B"} {
		if w.reg[n] && w.dead() == "" {
			guarded(func() { w.apply("rm" + n) })
		}
	}
	w.r.VerifC18StopGuarded()
	close(w.stopPump)
	w.pool.Stop()
}

func (w *fworld) dead() string {
	if s, ok := w.panicked.Load().(string); ok {
		return s
	}
	if s, ok := w.reqPanic.Load().(string); ok {
		return s
	}
	return ""
}

func (w *fworld) parkedNow() int64 {
	w.gmu.Lock()
	defer w.gmu.Unlock()
	if w.parked != nil {
		return 1
	}
	return 0
}

func (w *fworld) dump() *fetcher.VerifC18Dump {
	return fetcher.VerifC18DumpState(w.f, func(h common.Hash) string {
		if n, ok := fxName[h]; ok {
			return n
		}
		return "?" + h.Hex()[:10]
	})
}

// waitIters spins (no clock decides anything: the iterations are guaranteed to complete) until the
// loop has completed `target` iterations; a 20 s cap turns a harness miscount into a machinery error.
func (w *fworld) waitFor(cond func() bool, what string) error {
	t0 := time.Now()
	for n := 0; !cond(); n++ {
		if w.dead() != "" {
			return nil
		}
		runtime.Gosched()
		if n%1024 == 1023 && time.Since(t0) > 20*time.Second {
			return fmt.Errorf("harness: %s did not happen (iterations %d, fired %d)", what, atomic.LoadInt64(&w.iters), atomic.LoadInt64(&w.clock.fired))
		}
	}
	return nil
}

// settle: the event is expected to cause `e` loop iterations. Afterwards timers that are due are
// fired (each is one more iteration), requests the loop issued are awaited at the peers, and a no-op
// Drop is round-tripped so that every earlier iteration is complete when the maps are read.
func (w *fworld) settle(c0 int64, e int64) error {
	target := c0 + e
	if err := w.waitFor(func() bool { return atomic.LoadInt64(&w.iters) >= target }, "the event's loop iteration"); err != nil {
		return err
	}
	for round := 0; round < 8 && w.dead() == ""; round++ {
		f0 := atomic.LoadInt64(&w.clock.fired)
		w.clock.Run(0) // timers armed with a non-positive delay
		k := atomic.LoadInt64(&w.clock.fired) - f0
		if k == 0 {
			break
		}
		target += k
		if err := w.waitFor(func() bool { return atomic.LoadInt64(&w.iters) >= target }, "a timer's loop iteration"); err != nil {
			return err
		}
	}
	if w.dead() != "" {
		return nil
	}
	for round := 0; round < 8; round++ {
		// fence: a Drop of a peer the fetcher never heard of is a read-only iteration
		if err := w.f.Drop("c18-fence"); err != nil {
			return fmt.Errorf("harness: fence refused: %v", err)
		}
		target++
		if err := w.waitFor(func() bool { return atomic.LoadInt64(&w.iters) >= target }, "the fence iteration"); err != nil {
			return err
		}
		if got := atomic.LoadInt64(&w.iters); got != target && w.dead() == "" {
			return fmt.Errorf("harness: the loop completed %d iterations where %d were expected (the event reached the loop although Notify's filter said it would not, or vice versa)", got, target)
		}
		// the request goroutines the loop spawned: each either runs to completion or sits at the gate
		d := w.dump()
		for p, r := range d.Requests {
			if r.Dangling {
				continue
			}
			if pr, ok := w.prev.Requests[p]; !ok || pr.Dangling || strings.Join(pr.Hashes, ",") != strings.Join(r.Hashes, ",") {
				w.reqWant++
			}
		}
		w.prev = d
		if err := w.waitFor(func() bool { return atomic.LoadInt64(&w.returned)+w.parkedNow() >= w.reqWant }, "the request goroutine's call"); err != nil {
			return err
		}
		if w.dead() != "" {
			return nil
		}
		// a request call that failed makes its goroutine Drop the peer: one more iteration each
		newErrs := atomic.LoadInt64(&w.errs) - w.errsSeen
		if newErrs == 0 {
			return nil
		}
		w.errsSeen += newErrs
		target += newErrs
		if err := w.waitFor(func() bool { return atomic.LoadInt64(&w.iters) >= target }, "the Drop after a failed request"); err != nil {
			return err
		}
	}
	return fmt.Errorf("harness: the fetcher did not settle in 8 rounds")
}

func txsOf(spec string) []*types.Transaction {
	var out []*types.Transaction
	for _, c := range spec {
		out = append(out, fxTx[string(c)])
	}
	return out
}

// apply executes one event; returns a harness error or "" plus what the event delivered.
func (w *fworld) apply(ev string) error {
	c0 := atomic.LoadInt64(&w.iters)
	switch {
	case ev == "T1" || ev == "T2":
		d := 600 * time.Millisecond
		if ev == "T2" {
			d = 5100 * time.Millisecond
		}
		f0 := atomic.LoadInt64(&w.clock.fired)
		w.clock.Run(d)
		return w.settle(c0, atomic.LoadInt64(&w.clock.fired)-f0)
	case ev == "park":
		w.gmu.Lock()
		if w.parked == nil {
			w.armed = true
		}
		w.gmu.Unlock()
		return nil
	case ev == "late":
		w.gmu.Lock()
		pc := w.parked
		w.parked = nil
		w.gmu.Unlock()
		if pc == nil {
			return nil
		}
		w.lateCalls++
		r0 := atomic.LoadInt64(&w.returned)
		close(pc.gate)
		if err := w.waitFor(func() bool { return atomic.LoadInt64(&w.returned) > r0 }, "the released request call"); err != nil {
			return err
		}
		if w.dead() != "" {
			return nil
		}
		newErrs := atomic.LoadInt64(&w.errs) - w.errsSeen
		w.errsSeen += newErrs
		return w.settle(c0, newErrs)
	case strings.HasPrefix(ev, "rm"):
		n := ev[2:]
		w.r.RemovePeer(w.peers[n], "removed by the checker")
		w.reg[n] = false
		return w.settle(c0, 1)
	case strings.HasPrefix(ev, "add"):
		n := ev[3:]
		if !w.reg[n] {
			w.r.AddPeer(w.peers[n])
			w.reg[n] = true
		}
		return w.settle(c0, 0)
	}
	var kind, n, spec string
	switch {
	case strings.HasPrefix(ev, "ann"):
		kind, n, spec = "ann", ev[3:4], ev[4:]
	case strings.HasPrefix(ev, "txs"):
		kind, n, spec = "txs", ev[3:4], ev[4:]
	case strings.HasPrefix(ev, "pool"):
		kind, n, spec = "pool", ev[4:5], ev[5:]
	default:
		return fmt.Errorf("harness: unknown event %q", ev)
	}
	txs := txsOf(spec)
	var raw []byte
	var e int64
	switch kind {
	case "ann":
		var hs [][]byte
		var hashes []common.Hash
		for _, tx := range txs {
			hs = append(hs, tx.Hash().Bytes())
			hashes = append(hashes, tx.Hash())
		}
		raw = txMsg(&txproto.PooledTransactionHashes{Hashes: hs})
		if w.reg[n] && fetcher.VerifC18WouldNotify(w.f, hashes) {
			e = 1
		}
	case "txs", "pool":
		var bs [][]byte
		for _, tx := range txs {
			bs = append(bs, rlpBytes(tx))
		}
		if kind == "txs" {
			raw = txMsg(&txproto.Txs{Txs: bs})
		} else {
			raw = txMsg(&txproto.PooledTransactions{Txs: bs})
		}
		if w.reg[n] {
			e = 1
		}
	}
	w.r.Receive(txChan, w.peers[n], raw)
	return w.settle(c0, e)
}

// invariants of the quiescent bookkeeping; returns (id, detail) of the first one broken.
func (w *fworld) invariants(d *fetcher.VerifC18Dump) (string, string) {
	has := func(l []string, x string) bool {
		for _, y := range l {
			if y == x {
				return true
			}
		}
		return false
	}
	live := map[string]bool{}
	for n, p := range w.peers {
		if w.reg[n] {
			live[string(p.ID())] = true
		}
	}
	// I1 waitlist / waittime / waitslots mirror each other
	for h, ps := range d.Waitlist {
		if _, ok := d.WaitAgeMs[h]; !ok {
			return "waitlist-without-waittime", h
		}
		for _, p := range ps {
			if !has(d.Waitslots[p], h) {
				return "waitlist-without-waitslot", h + "@" + peerLabel(p)
			}
		}
	}
	for h := range d.WaitAgeMs {
		if _, ok := d.Waitlist[h]; !ok {
			return "waittime-without-waitlist", h
		}
	}
	for p, hs := range d.Waitslots {
		for _, h := range hs {
			if !has(d.Waitlist[h], p) {
				return "waitslot-without-waitlist", h + "@" + peerLabel(p)
			}
		}
	}
	// I2 a hash is in exactly one stage; alternates exist exactly for the hashes being fetched
	for h := range d.Fetching {
		if _, ok := d.Alternates[h]; !ok {
			return "fetching-without-alternates", h
		}
		if _, ok := d.Announced[h]; ok {
			return "hash-in-two-stages", h + " fetching+queued"
		}
		if _, ok := d.Waitlist[h]; ok {
			return "hash-in-two-stages", h + " fetching+waiting"
		}
	}
	for h := range d.Alternates {
		if _, ok := d.Fetching[h]; !ok {
			return "alternates-without-fetching", h
		}
	}
	for h := range d.Announced {
		if _, ok := d.Waitlist[h]; ok {
			return "hash-in-two-stages", h + " queued+waiting"
		}
	}
	// I3 every hash being fetched has the request record of that peer, and vice versa
	for h, p := range d.Fetching {
		r, ok := d.Requests[p]
		if !ok {
			return "fetching-without-request", h + " from " + peerLabel(p) + " (no request record of that peer)"
		}
		if r.Dangling || !has(r.Hashes, h) {
			return "fetching-without-request", h + " from " + peerLabel(p) + " (the peer's request does not contain it)"
		}
	}
	for p, r := range d.Requests {
		for _, h := range r.Hashes {
			if has(r.Stolen, h) {
				continue
			}
			if d.Fetching[h] != p {
				return "request-without-fetching", h + " requested from " + peerLabel(p)
			}
		}
	}
	// I4 the per-peer and per-hash views of the announcements agree
	for p, hs := range d.Announces {
		for _, h := range hs {
			if !has(d.Announced[h], p) && !has(d.Alternates[h], p) {
				return "announces-without-origin", h + "@" + peerLabel(p)
			}
		}
	}
	stale := ""
	for _, m := range []map[string][]string{d.Announced, d.Alternates} {
		for h, ps := range m {
			for _, p := range ps {
				if !has(d.Announces[p], h) {
					// observation, not a violation (weakest reading, see assumptions): the drop handling removes
					// the peer from `announced` but not from the `alternates` of a hash being fetched from someone
					// else (inherited from go-ethereum); the entry survives a re-connect of the peer and is never
					// scheduled (scheduling walks announces), so it cannot be dereferenced
					stale = h + "@" + peerLabel(p)
				}
			}
		}
	}
	w.staleOrigin = stale
	// I5 nothing refers to a removed peer
	check := func(where, p string) (string, string) {
		if !live[p] {
			return "refers-to-removed-peer", where + " " + peerLabel(p)
		}
		return "", ""
	}
	for p := range d.Waitslots {
		if id, dt := check("waitslots", p); id != "" {
			return id, dt
		}
	}
	for p := range d.Announces {
		if id, dt := check("announces", p); id != "" {
			return id, dt
		}
	}
	for p := range d.Requests {
		if id, dt := check("requests", p); id != "" {
			return id, dt
		}
	}
	for h, p := range d.Fetching {
		if id, dt := check("fetching["+h+"]", p); id != "" {
			return id, dt
		}
	}
	for h, ps := range d.Waitlist {
		for _, p := range ps {
			if id, dt := check("waitlist origins of "+h, p); id != "" {
				return id, dt
			}
		}
	}
	// I6 bounded: only hashes live peers announced, nothing the pool already has, only h2 is underpriced
	tracked := map[string]bool{}
	for h := range d.Waitlist {
		tracked[h] = true
	}
	for h := range d.Announced {
		tracked[h] = true
	}
	for h := range d.Fetching {
		tracked[h] = true
	}
	for h := range tracked {
		if h != "h1" && h != "h2" {
			return "tracks-unannounced-hash", h
		}
		if w.pool.Has(fxTx[h[1:]].Hash()) {
			return "tracks-hash-in-pool", h
		}
	}
	for _, h := range d.Underpriced {
		if h != "h2" {
			return "wrong-underpriced", h
		}
	}
	return "", ""
}

func (w *fworld) key(d *fetcher.VerifC18Dump) string {
	type k struct {
		D    *fetcher.VerifC18Dump
		Pool []string
		Reg  []string
	}
	x := k{D: d}
	// peer ids -> labels happen in the JSON through a copy
	b, _ := json.Marshal(d)
	s := strings.NewReplacer(string(peerID(1)), "A", string(peerID(2)), "B").Replace(string(b))
	for _, n := range []string{"1", "2", "3"} {
		if w.pool.Has(fxTx[n].Hash()) {
			x.Pool = append(x.Pool, "h"+n)
		}
	}
	for _, n := range []string{"A", "B"} {
		if w.reg[n] {
			x.Reg = append(x.Reg, n)
		}
	}
	w.gmu.Lock()
	sched := fmt.Sprintf("|armed=%v", w.armed)
	if w.parked != nil {
		sched += "|parked=" + peerLabel(w.parked.peer) + ":" + strings.Join(w.parked.hashes, ",")
	}
	w.gmu.Unlock()
	return s + "|pool=" + strings.Join(x.Pool, ",") + "|reg=" + strings.Join(x.Reg, ",") + sched
}

func seqOf(cs *caseT) []string { return strings.Fields(cs.Desc) }

// runFetcherSeq replays the event sequence of the case on a fresh world; the oracles look at the
// state after the LAST event (earlier prefixes are cases of their own).
func (e *otherEnv) runFetcherSeq(cs *caseT) *outcome {
	out := &outcome{Decoded: true}
	e.builds++
	w := newFWorld()
	defer w.close()
	seq := seqOf(cs)
	if len(seq) == 0 {
		// the initial state (both peers registered, nothing tracked)
		out.StateKey, out.Stage = w.key(w.prev), "fetcher:idle"
		return out
	}
	for i, ev := range seq {
		last := i == len(seq)-1
		pend0, q0 := w.pool.Stats()
		a0 := allocBytes()
		var herr error
		pn, stk := guarded(func() { herr = w.apply(ev) })
		if last {
			out.Alloc = allocBytes() - a0
		}
		if pn != nil {
			if last {
				out.Contained = fmt.Sprintf("%v at %s", short(fmt.Sprint(pn), 160), panicSite(stk))
				out.Stage = "contained-panic"
			}
			out.StateKey = ""
			return out
		}
		if dead := w.dead(); dead != "" {
			if last {
				if rp, ok := w.reqPanic.Load().(string); ok {
					out.viol("request-goroutine-panic", "a request goroutine spawned by the fetcher's loop (`go func(){ f.fetchTxs(peer, hashes) }` in scheduleFetches, no recover: the process dies) panicked in the real callback: %s", rp)
					out.Stage = "fetcher:request-goroutine-panic"
				} else {
					out.viol("fetcher-goroutine-panic", "the transaction fetcher's loop goroutine (no recover in production: the process dies) panicked: %s", dead)
					out.Stage = "fetcher:loop-panic"
				}
			}
			return out
		}
		if herr != nil {
			out.viol("harness", "%v (sequence %s, event %d)", herr, cs.Desc, i)
			return out
		}
		if !last {
			continue
		}
		// --- oracles on the state after the last event
		free := false
		for k := 0; k < 2000 && !free; k++ {
			if free = w.pool.VerifC18TryLock() && w.r.VerifC18TryLock(); !free {
				time.Sleep(time.Millisecond)
			}
		}
		if !free {
			out.viol("lock-leaked", "TxPool.mu or the reactor's locks are still held after the event")
		}
		if out.Alloc > allocLimit(tx_pool.DefaultTxPoolConfig.MaxTxsBatchSize, 1024) {
			out.viol("alloc", "the event allocated %d bytes", out.Alloc)
		}
		d := w.prev
		if id, detail := w.invariants(d); id != "" {
			out.viol("fetcher-bookkeeping:"+id, "the fetcher's maps disagree after the sequence: %s (%s)", id, detail)
		}
		if w.staleOrigin != "" {
			out.StaleOrigin = true
		}
		// a valid transaction delivered by a registered peer is in the pool
		if strings.HasPrefix(ev, "txs") || strings.HasPrefix(ev, "pool") {
			n, spec := ev[3:4], ev[4:]
			if strings.HasPrefix(ev, "pool") {
				n, spec = ev[4:5], ev[5:]
			}
			if w.reg[n] {
				for _, c := range spec {
					if c != '2' && !w.pool.Has(fxTx[string(c)].Hash()) {
						out.viol("delivered-tx-not-in-pool", "the valid transaction h%c delivered by %s is not in the pool", c, n)
					}
				}
			}
		}
		if w.pool.Has(fxTx["2"].Hash()) {
			out.viol("invalid-tx-in-pool", "the underpriced transaction h2 is in the pool")
		}
		for _, p := range w.peers {
			if p.wasStopped() {
				out.viol("other-peer-stopped", "a peer was stopped by a well-formed message")
			}
		}
		pend1, q1 := w.pool.Stats()
		out.StateKey = w.key(d)
		out.LateCalls = int(w.lateCalls)
		switch {
		case pend1+q1 > pend0+q0:
			out.Stage = "fetcher:tx-added"
		case len(d.Fetching) > 0:
			out.Stage = "fetcher:fetching"
		case len(d.Announced) > 0:
			out.Stage = "fetcher:queued"
		case len(d.Waitlist) > 0:
			out.Stage = "fetcher:waiting"
		default:
			out.Stage = "fetcher:idle"
		}
	}
	return out
}

// genFetcher: breadth-first over event sequences that start with `first`, de-duplicating states.
func genFetcher(w *worker, first string, depth int, emit func(*caseT)) {
	mk := func(seq []string) *caseT {
		d := strings.Join(seq, " ")
		return &caseT{Reactor: "txpool", State: fetcherState, Peer: peerKnown, Kind: "fetcher", Msg: "fetcher-sequence", Field: "-", Class: d, Desc: d, Ch: txChan,
			Hex: hex.EncodeToString([]byte(d))}
	}
	seen := map[string]bool{}
	frontier := [][]string{}
	try := func(seq []string) {
		cs := mk(seq)
		w.last = nil
		emit(cs)
		out := w.last
		if out == nil || out.StateKey == "" {
			return // not executed in this mode, or a terminal state (the loop died, a panic, a harness error)
		}
		w.res.Notes["fetcher-states-visited"]++
		if seen[out.StateKey] {
			return
		}
		seen[out.StateKey] = true
		w.res.Notes["fetcher-distinct-states"]++
		frontier = append(frontier, seq)
	}
	// sequences whose first event changes nothing are covered, one event shorter, by the other units
	try(nil)
	frontier = nil
	try([]string{first})
	for level := 1; level < depth; level++ {
		cur := frontier
		frontier = nil
		for _, seq := range cur {
			for _, ev := range fetcherEvents {
				try(append(append([]string(nil), seq...), ev))
			}
		}
	}
}

func fetcherUnits(thorough bool) []*unit {
	depth := 5
	if thorough {
		depth = 6
	}
	var us []*unit
	evs := append([]string(nil), fetcherEvents...)
	sort.Strings(evs)
	for _, first := range fetcherEvents {
		first := first
		us = append(us, &unit{ID: "txpool/fetcher/" + first, Reactor: "txpool", State: fetcherState, Peer: peerKnown, Kind: "fetcher", Msg: "fetcher-sequence", Est: 8000, Stateful: true,
			gen: func(w *worker, u *unit, emit func(*caseT)) { genFetcher(w, first, depth, emit) }})
	}
	return us
}
