package main

// The rejection oracle: the property lists what must be REJECTED ("unknown type, nil sub-message,
// out-of-range index/round/height, oversized bit array or part, inconsistent lengths"). For the
// single-field mutations that produce exactly such a message - and only for those where the limit is a
// constant of the repository, so that no judgement is involved - the delivery must end at the decoder,
// with the sending peer stopped, or without any effect: it must not reach peer state, node state, the
// consensus queue or a pool, and must not be answered.

import (
	"fmt"
	"strings"
)

func descUint(desc, prefix string) (uint64, bool) {
	i := strings.Index(desc, prefix)
	if i < 0 {
		return 0, false
	}
	var v uint64
	if _, err := fmt.Sscanf(desc[i+len(prefix):], "%d", &v); err != nil {
		return 0, false
	}
	return v, true
}

func descLen(desc string) (int, bool) {
	v, ok := descUint(desc, "len=")
	return int(v), ok
}

// expectReject returns why the case must be rejected ("" = no expectation).
func expectReject(cs *caseT) string {
	if cs.Kind != "single" {
		return ""
	}
	val, isVal := descUint(cs.Desc, "=")
	if !strings.HasPrefix(cs.Desc, "=") {
		isVal = false
	}
	removed := cs.Desc == "field removed"
	switch cs.Reactor {
	case "consensus":
		switch {
		case cs.Msg == "BlockPart" && cs.Field == "block_part.part.bytes":
			if n, ok := descLen(cs.Desc); ok && n > 65536 {
				return "a block part larger than BlockPartSizeBytes (65536)"
			}
		// (only arrays whose words match their bit count: since ad4f98a FromProto takes an array whose bits and
		// words disagree as EMPTY, which VoteSetBits legitimately accepts and NewValidBlock rejects as empty)
		case cs.Msg == "VoteSetBits" && cs.Field == "vote_set_bits.votes" && strings.HasPrefix(cs.Desc, "bits="):
			b, ok := descUint(cs.Desc, "bits=")
			el, ok2 := descUint(cs.Desc, "elems=")
			if ok && ok2 && b > 10000 && b < 1<<62 && (b+63)/64 == el {
				return "a vote bit array larger than MaxVotesCount (10000)"
			}
		case cs.Msg == "NewValidBlock" && cs.Field == "new_valid_block.block_parts" && strings.HasPrefix(cs.Desc, "bits="):
			if b, ok := descUint(cs.Desc, "bits="); ok && b > 1601 {
				return "a block-parts bit array larger than MaxBlockPartsCount (1601)"
			}
		case (cs.Msg == "HasVote" && cs.Field == "has_vote.type") || (cs.Msg == "VoteSetMaj23" && cs.Field == "vote_set_maj23.type") ||
			(cs.Msg == "VoteSetBits" && cs.Field == "vote_set_bits.type") || (strings.HasPrefix(cs.Msg, "Vote(") && cs.Field == "vote.vote.type"):
			if removed || (isVal && int32(val) != 1 && int32(val) != 2) {
				return "a vote type that is neither prevote nor precommit"
			}
		case cs.Msg == "NewRoundStep" && cs.Field == "new_round_step.step":
			if removed {
				return "round step 0"
			}
			if isVal {
				if s := uint8(uint32(val)); s < 1 || s > 8 {
					return fmt.Sprintf("round step %d", s)
				}
			}
		case strings.HasPrefix(cs.Msg, "Vote(") && cs.Field == "vote.vote" && cs.Class == "absent":
			return "a vote message without a vote"
		case (strings.HasPrefix(cs.Msg, "Vote(") && cs.Field == "vote.vote.signature") || (cs.Msg == "Proposal" && cs.Field == "proposal.proposal.signature"):
			if n, ok := descLen(cs.Desc); (ok && n == 0) || removed {
				return "an empty signature"
			}
		}
	case "blockchain":
		switch {
		case (cs.Msg == "BlockRequest" && cs.Field == "block_request.height") || (cs.Msg == "NoBlockResponse" && cs.Field == "no_block_response.height"):
			if removed || (isVal && val == 0) {
				return "height 0"
			}
		case cs.Msg == "StatusResponse" && cs.Field == "status_response.base":
			if isVal && val > 2 {
				return "a base above the height"
			}
		case cs.Msg == "StatusResponse" && cs.Field == "status_response.height":
			if removed || (isVal && val == 0) {
				return "a height below the base"
			}
		}
	case "pex":
		if cs.Msg == "PexAddrs" && cs.Field == "pex_addrs.addrs.port" && isVal && uint32(val) >= 65536 {
			return "a port number above 65535"
		}
	case "txpool":
		if (cs.Field == "txs.txs" || cs.Field == "pooled_transactions.txs" || cs.Field == "pooled_transaction_hashes.hashes" || cs.Field == "request_pooled_transactions.hashes") && removed {
			return "an empty list"
		}
	case "evidence":
		if (cs.Field == "evidence.duplicate_vote_evidence.vote_a" || cs.Field == "evidence.duplicate_vote_evidence.vote_b") && cs.Class == "absent" {
			return "duplicate-vote evidence without one of its votes"
		}
	}
	return ""
}

// rejectedStage: the weakest reading of "rejected" - the message ended at the decoder, got its sender
// stopped (also through a contained panic), or was accepted and then ignored without touching peer
// state, node state, the consensus queue or any pool, and without an answer.
func rejectedStage(stage string) bool {
	return stage == "decode-error" || stage == "rejected-peer-stopped" || stage == "decode-error-peer-kept" || stage == "contained-panic" || stage == "accepted-no-effect" ||
		stage == "tx:ignored-unknown-peer"
}
