package main

// Oracle 5: every well-formed message survives encode/decode unchanged. For each valid seed x:
// d1 = decode(x); x2 = encode(d1); d2 = decode(x2); encode(d2) must equal x2 (the value is a fixed
// point), and where the reactor's encoder is canonical for what it decodes (consensus, block sync,
// evidence, peer exchange) x2 must equal x byte for byte.

import (
	"fmt"

	"github.com/gogo/protobuf/proto"

	"github.com/kardiachain/go-kardia/blockchain"
	"github.com/kardiachain/go-kardia/consensus"
	"github.com/kardiachain/go-kardia/lib/p2p/pex"
	"github.com/kardiachain/go-kardia/mainchain/tx_pool"
	"github.com/kardiachain/go-kardia/types"
	"github.com/kardiachain/go-kardia/types/evidence"
)

func roundTrip(reactor string, x []byte) (problem string) {
	defer func() {
		if p := recover(); p != nil {
			problem = fmt.Sprintf("panic during encode/decode of a valid message: %v", p)
		}
	}()
	switch reactor {
	case "consensus":
		d1, err := consensus.VerifC18DecodeMsg(x)
		if err != nil {
			return "valid message does not decode: " + err.Error()
		}
		x2 := consensus.MustEncode(d1)
		if !bytesEq(x2, x) {
			return fmt.Sprintf("encode(decode(x)) != x (%d vs %d bytes)", len(x2), len(x))
		}
		d2, err := consensus.VerifC18DecodeMsg(x2)
		if err != nil {
			return "re-encoded message does not decode: " + err.Error()
		}
		if !bytesEq(consensus.MustEncode(d2), x2) {
			return "decode(encode(m)) is not a fixed point"
		}
	case "blockchain":
		d1, err := blockchain.DecodeMsg(x)
		if err != nil {
			return "valid message does not decode: " + err.Error()
		}
		if err := blockchain.ValidateMsg(d1); err != nil {
			return "valid message does not validate: " + err.Error()
		}
		x2, err := blockchain.EncodeMsg(d1)
		if err != nil {
			return "decoded message does not encode: " + err.Error()
		}
		if !bytesEq(x2, x) {
			return fmt.Sprintf("encode(decode(x)) != x (%d vs %d bytes)", len(x2), len(x))
		}
	case "evidence":
		d1, err := evidence.VerifC18Decode(x)
		if err != nil {
			return "valid message does not decode: " + err.Error()
		}
		x2, err := evidence.VerifC18Encode(d1)
		if err != nil {
			return "decoded evidence does not encode: " + err.Error()
		}
		if !bytesEq(x2, x) {
			return fmt.Sprintf("encode(decode(x)) != x (%d vs %d bytes)", len(x2), len(x))
		}
	case "pex":
		d1, err := pex.VerifC18Decode(x)
		if err != nil {
			return "valid message does not decode: " + err.Error()
		}
		x2 := pex.VerifC18Encode(d1)
		if !bytesEq(x2, x) {
			return fmt.Sprintf("encode(decode(x)) != x (%d vs %d bytes)", len(x2), len(x))
		}
	case "txpool":
		d1, err := tx_pool.VerifC18Decode(x)
		if err != nil {
			return "valid message does not decode: " + err.Error()
		}
		m, ok := d1.(tx_pool.Message)
		if !ok {
			// TxsMessage has no encoder in the package (it is only ever received): compare the decoded value
			// with itself through the transactions' own codec
			tm, ok := d1.(tx_pool.TxsMessage)
			if !ok {
				return fmt.Sprintf("decoded value %T is neither encodable nor a TxsMessage", d1)
			}
			for _, tx := range tm.Txs {
				b := rlpBytes(tx)
				var t2 types.Transaction
				if err := rlpDecode(b, &t2); err != nil || t2.Hash() != tx.Hash() {
					return "a transaction does not survive its own RLP round trip"
				}
			}
			return ""
		}
		x2 := tx_pool.MustEncode(m)
		d2, err := tx_pool.VerifC18Decode(x2)
		if err != nil {
			return "re-encoded message does not decode: " + err.Error()
		}
		if fmt.Sprintf("%T", d2) != fmt.Sprintf("%T", d1) {
			return fmt.Sprintf("type changed across encode/decode: %T -> %T", d1, d2)
		}
		if !bytesEq(tx_pool.MustEncode(d2.(tx_pool.Message)), x2) {
			return "decode(encode(m)) is not a fixed point"
		}
		if txKey(d1) != txKey(d2) {
			return "the decoded value changed across encode/decode"
		}
	}
	return ""
}

func txKey(d interface{}) string {
	switch m := d.(type) {
	case tx_pool.PooledTransactions:
		s := ""
		for _, tx := range m {
			s += tx.Hash().Hex() + ","
		}
		return s
	case tx_pool.NewPooledTransactionHashes:
		return fmt.Sprint([]interface{}{m})
	case tx_pool.RequestPooledTransactionHashes:
		return fmt.Sprint([]interface{}{m})
	}
	return fmt.Sprintf("%v", d)
}

var _ = proto.Marshal
