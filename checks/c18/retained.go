package main

// Retained state: message SEQUENCES (length 3..6) from ONE peer that each make the node keep something
// (or try to), with a budget on what the node may keep on behalf of that peer afterwards. Budgets:
//   votes for untracked rounds of the current height  -> <= 2 catch-up rounds per peer (HeightVoteSet's
//       documented budget), i.e. <= 2 more tracked rounds, whatever the signatures look like;
//   VoteSetMaj23 claims                               -> nothing for untracked rounds; for tracked rounds one
//       claim per (round, type) per peer (a second, different one gets the peer stopped);
//   proposals / block parts for unknown rounds        -> nothing;
//   HasVote / NewRoundStep jumps                      -> nothing on the node side (peer state only).

import (
	"fmt"

	"github.com/kardiachain/go-kardia/consensus"
	"github.com/kardiachain/go-kardia/lib/common"
	kproto "github.com/kardiachain/go-kardia/proto/kardiachain/types"
	"github.com/kardiachain/go-kardia/types"
)

func genRetained(w *worker, st, pm string, emit func(*caseT)) {
	c := w.cons.node(st)
	h, r := c.Height, c.Round
	o0 := c.others()[0]
	junk := patternBytes(65, 0x51)
	enc := consensus.MustEncode
	seq := func(msg, field, class, desc string, ch byte, msgs [][]byte, b budgetT) {
		cs := &caseT{Reactor: "consensus", State: st, Peer: pm, Msg: msg, Kind: "retained", Field: field, Class: class, Desc: desc, Ch: ch, Budget: &b}
		for i, m := range msgs {
			if i == len(msgs)-1 {
				cs.raw = m
			} else {
				cs.pre = append(cs.pre, m)
				cs.preCh = append(cs.preCh, ch)
			}
		}
		emit(cs)
	}
	otherID := func(i int) types.BlockID {
		return types.BlockID{Hash: common.BytesToHash([]byte(fmt.Sprintf("c18 block %d", i))), PartsHeader: types.PartSetHeader{Total: 1, Hash: common.BytesToHash([]byte(fmt.Sprintf("c18 parts %d", i)))}}
	}
	for _, L := range []int{3, 4, 5, 6} {
		// votes for L distinct untracked rounds of the current height
		for _, base := range []uint32{r + 2, 100} {
			for _, sig := range []string{"junk", "valid"} {
				for _, pat := range []string{"prevotes", "precommits", "alternating"} {
					var msgs [][]byte
					for i := 0; i < L; i++ {
						t := kproto.PrevoteType
						if pat == "precommits" || (pat == "alternating" && i%2 == 1) {
							t = kproto.PrecommitType
						}
						v := signedVote(o0, c.valIndex(o0), t, h, base+uint32(i), types.BlockID{})
						if sig == "junk" {
							v = v.Copy()
							v.Signature = junk
						}
						msgs = append(msgs, enc(&consensus.VoteMessage{Vote: v}))
					}
					seq("Vote", "vote.vote.round", fmt.Sprintf("%d-distinct-untracked-rounds", L), fmt.Sprintf("%d %s (%s signature) for rounds %d..%d of the current height from one peer", L, pat, sig, base, base+uint32(L)-1),
						chVote, msgs, budgetT{Rounds: 2, Catchup: 2, Claims: 2, Why: "HeightVoteSet grants a peer two catch-up rounds per height"})
				}
			}
		}
		// majority claims for L distinct untracked rounds
		{
			var msgs [][]byte
			for i := 0; i < L; i++ {
				msgs = append(msgs, enc(&consensus.VoteSetMaj23Message{Height: h, Round: 100 + uint32(i), Type: kproto.PrevoteType, BlockID: otherID(i)}))
			}
			seq("VoteSetMaj23", "vote_set_maj23.round", fmt.Sprintf("%d-distinct-untracked-rounds", L), fmt.Sprintf("%d majority claims for untracked rounds 100..%d", L, 100+L-1), chState, msgs,
				budgetT{Why: "a claim for a round the node does not track is ignored"})
		}
		// majority claims for the tracked rounds, then different block ids for the same (round, type)
		{
			var msgs [][]byte
			i := 0
			for _, rr := range []uint32{r, r + 1} {
				for _, t := range []kproto.SignedMsgType{kproto.PrevoteType, kproto.PrecommitType} {
					if len(msgs) < L {
						msgs = append(msgs, enc(&consensus.VoteSetMaj23Message{Height: h, Round: rr, Type: t, BlockID: otherID(i)}))
						i++
					}
				}
			}
			for len(msgs) < L {
				msgs = append(msgs, enc(&consensus.VoteSetMaj23Message{Height: h, Round: r, Type: kproto.PrevoteType, BlockID: otherID(i)}))
				i++
			}
			seq("VoteSetMaj23", "vote_set_maj23.round+vote_set_maj23.type+vote_set_maj23.block_id", fmt.Sprintf("%d-claims-on-tracked-rounds", L), fmt.Sprintf("%d majority claims, distinct block ids, for rounds %d and %d (both types), then again for round %d", L, r, r+1, r),
				chState, msgs, budgetT{Claims: 8, Why: "one claim (and one per-block tally) per tracked (round, type) per peer: 2 rounds x 2 types x 2 entries"})
		}
	}
	for _, L := range []int{3, 6} {
		var props, parts, hasv, nrs [][]byte
		for i := 0; i < L; i++ {
			p := signedProposal(c.Proposer, h, 100+uint32(i), 0, otherID(i))
			p.Signature = junk
			props = append(props, enc(&consensus.ProposalMessage{Proposal: p}))
			parts = append(parts, enc(&consensus.BlockPartMessage{Height: h, Round: 100 + uint32(i), Part: c.Parts.GetPart(0)}))
			hasv = append(hasv, enc(&consensus.HasVoteMessage{Height: h, Round: 100 + uint32(i), Type: kproto.PrevoteType, Index: uint32(i)}))
			m := &consensus.NewRoundStepMessage{Height: h + uint64(i), Round: 100 * uint32(i+1), Step: 3, SecondsSinceStartTime: 1}
			if m.Height > 1 {
				m.LastCommitRound = 1
			}
			nrs = append(nrs, enc(m))
		}
		none := budgetT{Why: "nothing is kept for rounds the node is not in"}
		seq("Proposal", "proposal.proposal.round", fmt.Sprintf("%d-distinct-unknown-rounds", L), fmt.Sprintf("%d proposals (junk signature) for rounds 100..", L), chData, props, none)
		if c.N.RS().ProposalBlockParts == nil || c.N.RS().ProposalBlockParts.IsComplete() {
			seq("BlockPart", "block_part.round", fmt.Sprintf("%d-distinct-unknown-rounds", L), fmt.Sprintf("%d block parts for rounds 100..", L), chData, parts, none)
		}
		seq("HasVote", "has_vote.round", fmt.Sprintf("%d-distinct-unknown-rounds", L), fmt.Sprintf("%d HasVote for rounds 100..", L), chState, hasv, budgetT{Why: "HasVote only touches the peer's own state"})
		seq("NewRoundStep", "new_round_step.height+new_round_step.round", fmt.Sprintf("%d-jumps", L), fmt.Sprintf("%d NewRoundStep jumping heights and rounds", L), chState, nrs, budgetT{Why: "NewRoundStep only touches the peer's own state"})
	}
}
