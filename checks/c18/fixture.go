package main

// The consensus fixture: ONE real ConsensusState (the target validator) behind the real
// ConsensusManager and a real p2p.Switch; the other three validators exist only as keys held by the
// checker (they are the peers). Node states are reached by delivering correctly signed messages of
// those validators and by firing the node's own pending timeouts, the way netsim's drivers do.

import (
	"crypto/ecdsa"
	"fmt"
	"math/big"
	"time"

	"github.com/gogo/protobuf/proto"

	"github.com/kardiachain/go-kardia/configs"
	"github.com/kardiachain/go-kardia/consensus"
	cstypes "github.com/kardiachain/go-kardia/consensus/types"
	"github.com/kardiachain/go-kardia/kai/kaidb/memorydb"
	"github.com/kardiachain/go-kardia/lib/common"
	"github.com/kardiachain/go-kardia/lib/crypto"
	"github.com/kardiachain/go-kardia/lib/p2p"
	kproto "github.com/kardiachain/go-kardia/proto/kardiachain/types"
	"github.com/kardiachain/go-kardia/types"
	ktime "github.com/kardiachain/go-kardia/types/time"
)

var keyHex = []string{
	"b71c71a67e1177ad4e901695e1b4b9ee17ae16c6668d313eac2f96dbcda3f291",
	"8a1f9a8f95be41cd7ccb6168179afb4504aefe388d1e14474d32c45c72ce7b7a",
	"49a7b37aa6f6645917e7b807e9d1c00d4fa71f18343b0d4122a4d2df64dd6fee",
	"8843ebcb1021b00ae9a644db6617f9c6d870e5fd53624cefe374c1d2d710fd06",
	"77cfc693f7861a6e1ea817c593c04fbc9b63d4d3146c5753c008cfc67cffca79",
}

var (
	allKeys  []*ecdsa.PrivateKey
	allAddrs []common.Address
	baseTime = time.Date(2024, 1, 1, 0, 0, 0, 0, time.UTC)
	chainID  = "verifnet"
	// logical clock behind types/time.Now(): a pure function of the number of calls since the last
	// reset; the checker is single-threaded per process, and resets it at the start of each node build.
	clockTicks int64
)

func init() {
	for _, h := range keyHex {
		k, err := crypto.HexToECDSA(h)
		if err != nil {
			panic(err)
		}
		allKeys = append(allKeys, k)
		allAddrs = append(allAddrs, crypto.PubkeyToAddress(k.PublicKey))
	}
	tx := types.NewTransaction(0, allAddrs[4], big.NewInt(1), 21000, big.NewInt(1), []byte("c18"))
	stx, err := types.SignTx(types.HomesteadSigner{}, tx, allKeys[4])
	if err != nil {
		panic(err)
	}
	fixtureTx = stx
	ktime.VerifClock = func() time.Time {
		clockTicks++
		return baseTime.Add(time.Hour + time.Duration(clockTicks)*time.Millisecond)
	}
}

const nVals = 4

func genesis() *consensus.VerifGenesis {
	g := &consensus.VerifGenesis{ChainID: chainID, Time: baseTime, Params: types.DefaultConsensusParams()}
	for i := 0; i < nVals; i++ {
		g.Validators = append(g.Validators, types.NewValidator(allAddrs[i], 1))
	}
	return g
}

// node states
const (
	stWaitSync      = "waitsync"
	stH1NewHeight   = "h1-newheight"
	stH1Propose     = "h1-propose"
	stH1Prevote     = "h1-prevote"
	stH1PrevoteBlk  = "h1-prevote-with-block"
	stH1PrevoteWait = "h1-prevotewait"
	stH1Precommit   = "h1-precommit"
	stH1CommitWait  = "h1-commit-wait-parts"
	stH2NewHeight   = "h2-newheight"
	stH2Propose     = "h2-propose"
	stH2CommitWait  = "h2-commit-wait-parts"
	// only in the coupled/claimed-height units: a node with two committed blocks, so that the catch-up
	// branches of the gossip routines find stored commits, metas and parts for lagging peers
	stH3NewHeight = "h3-newheight"
)

var allNodeStates = []string{stWaitSync, stH1NewHeight, stH1Propose, stH1Prevote, stH1PrevoteBlk, stH1PrevoteWait, stH1Precommit, stH1CommitWait, stH2NewHeight, stH2Propose, stH2CommitWait}

type consNode struct {
	State  string
	T      int // key index of the target validator
	N      *consensus.VerifNode
	ConR   *consensus.ConsensusManager
	Sw     *p2p.Switch
	Key    string // node key right after construction
	Stamp  string // node stamp right after construction
	Height uint64
	Round  uint32
	// the valid block of the node's current height (built by the round's proposer), its parts and the
	// proposer's signed proposal
	Block    *types.Block
	Parts    *types.PartSet
	BlockID  types.BlockID
	Proposal *types.Proposal
	Proposer int // key index of the proposer of (Height, Round)
	// block of the previous height (height-2 states)
	PrevBlockID types.BlockID
	PrevRound   uint32
}

func consCfg() *configs.ConsensusConfig {
	c := configs.TestConsensusConfig()
	c.PeerGossipSleepDuration = 0
	c.PeerQueryMaj23SleepDuration = 0
	return c
}

func keyIndexOf(a common.Address) int {
	for i, x := range allAddrs {
		if x == a {
			return i
		}
	}
	return -1
}

func (c *consNode) valIndex(key int) uint32 {
	i, _ := c.N.RS().Validators.GetByAddress(allAddrs[key])
	return uint32(i)
}

func voteTime(h uint64, r uint32, t kproto.SignedMsgType, key int) time.Time {
	return baseTime.Add(2*time.Hour + time.Duration(h)*1000*time.Second + time.Duration(r)*10*time.Second + time.Duration(t)*time.Second + time.Duration(key)*time.Millisecond)
}

// signedVote makes a vote of validator `key` exactly as a correct validator would sign it.
var sigMemo = map[string][]byte{}

func signedVote(key int, valIdx uint32, t kproto.SignedMsgType, h uint64, r uint32, id types.BlockID) *types.Vote {
	mk := fmt.Sprintf("v|%d|%d|%d|%d|%d|%x|%d|%x", key, valIdx, t, h, r, id.Hash, id.PartsHeader.Total, id.PartsHeader.Hash)
	if sig, ok := sigMemo[mk]; ok {
		return &types.Vote{Type: t, Height: h, Round: r, BlockID: id, Timestamp: voteTime(h, r, t, key), ValidatorAddress: allAddrs[key], ValidatorIndex: valIdx, Signature: sig}
	}
	v := &types.Vote{Type: t, Height: h, Round: r, BlockID: id, Timestamp: voteTime(h, r, t, key), ValidatorAddress: allAddrs[key], ValidatorIndex: valIdx}
	p := v.ToProto()
	if err := types.NewDefaultPrivValidator(allKeys[key]).SignVote(chainID, p); err != nil {
		panic(err)
	}
	v.Signature = p.Signature
	sigMemo[mk] = p.Signature
	return v
}

func signedProposal(key int, h uint64, r uint32, pol uint32, id types.BlockID) *types.Proposal {
	pr := types.NewProposal(h, r, pol, id)
	pr.Timestamp = voteTime(h, r, kproto.ProposalType, key)
	p := pr.ToProto()
	if err := types.NewDefaultPrivValidator(allKeys[key]).SignProposal(chainID, p); err != nil {
		panic(err)
	}
	pr.Signature = p.Signature
	return pr
}

var fixtureTx *types.Transaction

// others lists the key indices of the validators that are not the target.
func (c *consNode) others() []int {
	var o []int
	for i := 0; i < nVals; i++ {
		if i != c.T {
			o = append(o, i)
		}
	}
	return o
}

func (c *consNode) deliver(m consensus.Message, from int) {
	c.N.DeliverPeerMsg(m, string(peerID(100+from)))
	if c.N.Failed != nil {
		panic(fmt.Sprintf("fixture: node failed while reaching %s: %v\n%s", c.State, c.N.Failed, c.N.FailStk))
	}
}

func (c *consNode) fire(step cstypes.RoundStepType) {
	to := c.N.PendingTimeout()
	if to == nil || to.Step != uint8(step) {
		panic(fmt.Sprintf("fixture: reaching %s: expected pending timeout of step %d, have %+v (node at %d/%d/%d)", c.State, step, to, c.N.RS().Height, c.N.RS().Round, c.N.RS().Step))
	}
	c.N.FireTimeout()
	if c.N.Failed != nil {
		panic(fmt.Sprintf("fixture: node failed while reaching %s: %v\n%s", c.State, c.N.Failed, c.N.FailStk))
	}
}

// makeBlock builds the valid block of the node's current height as the current round's proposer
// would (same application call the node itself would make), and the proposer's signed proposal.
func (c *consNode) makeBlock() {
	rs := c.N.RS()
	c.Height, c.Round = rs.Height, rs.Round
	vals := rs.Validators
	if rs.Round == 0 {
		// still in NewHeight: the proposer of round 1 is the one enterNewRound will rotate to
		vals = vals.Copy()
		vals.IncrementProposerPriority(1)
		c.Round = 1
	}
	prop := vals.GetProposer().Address
	c.Proposer = keyIndexOf(prop)
	var commit *types.Commit
	if rs.Height == 1 {
		commit = types.NewCommit(0, 0, types.BlockID{}, nil)
	} else {
		commit = rs.LastCommit.MakeCommit()
	}
	c.Block, c.Parts = c.N.App.CreateProposalBlock(rs.Height, c.N.State(), prop, commit)
	c.BlockID = types.BlockID{Hash: c.Block.Hash(), PartsHeader: c.Parts.Header()}
	c.Proposal = signedProposal(c.Proposer, rs.Height, c.Round, 0, c.BlockID)
}

func (c *consNode) deliverProposalAndParts() {
	c.deliver(&consensus.ProposalMessage{Proposal: c.Proposal}, c.Proposer)
	for i := 0; i < int(c.Parts.Total()); i++ {
		c.deliver(&consensus.BlockPartMessage{Height: c.Height, Round: c.Round, Part: c.Parts.GetPart(i)}, c.Proposer)
	}
}

func (c *consNode) votesFrom(t kproto.SignedMsgType, id types.BlockID, keys ...int) {
	for _, k := range keys {
		c.deliver(&consensus.VoteMessage{Vote: signedVote(k, c.valIndex(k), t, c.Height, c.Round, id)}, k)
	}
}

// commitHeight drives the node through one whole height on the valid block.
func (c *consNode) commitHeight() {
	c.fire(cstypes.RoundStepNewHeight)
	c.makeBlock()
	if c.Proposer == c.T {
		panic("fixture: target is the proposer")
	}
	c.deliverProposalAndParts()
	o := c.others()
	c.votesFrom(kproto.PrevoteType, c.BlockID, o...)
	c.votesFrom(kproto.PrecommitType, c.BlockID, o...)
	if c.N.RS().Height != c.Height+1 {
		panic(fmt.Sprintf("fixture: height %d not committed (node at %d/%d/%d)", c.Height, c.N.RS().Height, c.N.RS().Round, c.N.RS().Step))
	}
	c.PrevBlockID, c.PrevRound = c.BlockID, c.Round
}

// newConsNode builds a node in the given state with validator key t as the target. ok=false if t
// turns out to be the proposer where the script needs it not to be.
func newConsNode(state string, t int) (c *consNode, err error) {
	defer func() {
		if p := recover(); p != nil {
			err = fmt.Errorf("%v", p)
		}
	}()
	clockTicks = 0
	common.Seed(1)
	gen := genesis()
	db := memorydb.New()
	consensus.VerifWriteGenesisBlock(db, gen)
	app := &consensus.VerifSimApp{TxScript: func(h uint64, _ common.Address) []*types.Transaction { return []*types.Transaction{fixtureTx} }}
	n, e := consensus.VerifNewNode(consensus.VerifNodeConfig{Name: "target", Genesis: gen, Key: allKeys[t], DB: db, ConsCfg: consCfg(), App: app})
	if e != nil {
		return nil, e
	}
	c = &consNode{State: state, T: t, N: n}
	c.Sw = p2p.VerifC18NewSwitch(configs.DefaultP2PConfig())
	c.ConR = consensus.NewConsensusManager(n.CS, &configs.FastSyncConfig{Enable: true, TargetPending: 10})
	c.Sw.AddReactor("CONSENSUS", c.ConR) // SetSwitch; the switch tells the reactor when it removes a peer
	if e := c.ConR.Start(); e != nil {
		return nil, e
	}
	n.Begin()
	if state != stWaitSync {
		consensus.VerifC18SetWaitSync(c.ConR, false)
	}
	o := c.others()
	switch state {
	case stWaitSync, stH1NewHeight:
		c.makeBlock()
	case stH1Propose, stH1Prevote, stH1PrevoteBlk, stH1PrevoteWait, stH1Precommit, stH1CommitWait:
		c.fire(cstypes.RoundStepNewHeight)
	case stH2NewHeight, stH2Propose, stH2CommitWait:
		c.commitHeight()
	case stH3NewHeight:
		c.commitHeight()
		c.commitHeight()
	}
	// now inside the target height
	switch state {
	case stH1Propose, stH2Propose:
		if state == stH2Propose {
			c.fire(cstypes.RoundStepNewHeight)
		}
		c.makeBlock()
	case stH1Prevote:
		c.makeBlock()
		c.fire(cstypes.RoundStepPropose) // prevotes nil
	case stH1PrevoteBlk:
		c.makeBlock()
		c.deliverProposalAndParts() // complete proposal: prevotes the block
		if c.N.RS().ProposalBlock == nil {
			panic("fixture: proposal block not assembled")
		}
	case stH1PrevoteWait:
		c.makeBlock()
		c.fire(cstypes.RoundStepPropose)
		c.votesFrom(kproto.PrevoteType, types.BlockID{}, o[0])
		c.votesFrom(kproto.PrevoteType, c.BlockID, o[1]) // +2/3 any, no majority
	case stH1Precommit:
		c.makeBlock()
		c.fire(cstypes.RoundStepPropose)
		c.votesFrom(kproto.PrevoteType, types.BlockID{}, o[0], o[1]) // +2/3 nil -> precommit nil
	case stH1CommitWait, stH2CommitWait:
		if state == stH2CommitWait {
			c.fire(cstypes.RoundStepNewHeight)
		}
		c.makeBlock()
		c.votesFrom(kproto.PrecommitType, c.BlockID, o...) // +2/3 precommits for a block we do not have
	case stH2NewHeight, stH3NewHeight:
		c.makeBlock()
	}
	rs := n.RS()
	want := map[string]cstypes.RoundStepType{stWaitSync: cstypes.RoundStepNewHeight, stH1NewHeight: cstypes.RoundStepNewHeight, stH1Propose: cstypes.RoundStepPropose,
		stH1Prevote: cstypes.RoundStepPrevote, stH1PrevoteBlk: cstypes.RoundStepPrevote, stH1PrevoteWait: cstypes.RoundStepPrevoteWait, stH1Precommit: cstypes.RoundStepPrecommit, stH1CommitWait: cstypes.RoundStepCommit,
		stH2NewHeight: cstypes.RoundStepNewHeight, stH2Propose: cstypes.RoundStepPropose, stH2CommitWait: cstypes.RoundStepCommit, stH3NewHeight: cstypes.RoundStepNewHeight}[state]
	wantH := uint64(1)
	if state == stH2NewHeight || state == stH2Propose || state == stH2CommitWait {
		wantH = 2
	}
	if state == stH3NewHeight {
		wantH = 3
	}
	if rs.Step != want || rs.Height != wantH {
		return nil, fmt.Errorf("fixture: state %s not reached: node at %d/%d/%v", state, rs.Height, rs.Round, rs.Step)
	}
	// (at height 3 the node only waits in NewHeight: who proposes round 1 there does not matter)
	if c.Block != nil && c.Proposer == c.T && state != stH3NewHeight {
		return nil, fmt.Errorf("fixture: target %d is the proposer in %s", t, state)
	}
	c.Height = rs.Height
	c.Key = consensus.VerifC18NodeKey(n)
	c.Stamp = consensus.VerifC18NodeStamp(n)
	return c, nil
}

func (c *consNode) close() {
	// OnStop waits for the ConsensusState's own routine unless the reactor is in wait-sync mode; that
	// routine was never started here (the checker drives the handlers itself)
	consensus.VerifC18SetWaitSync(c.ConR, true)
	c.ConR.Stop()
	c.N.Close()
}

// pickTarget finds the validator key that is never the proposer where the scripts need a
// non-proposing target (deterministic: the first such index).
func pickTarget() int {
	for t := 0; t < nVals; t++ {
		ok := true
		for _, st := range allNodeStates {
			c, err := newConsNode(st, t)
			if err != nil {
				ok = false
				break
			}
			c.close()
		}
		if ok {
			return t
		}
	}
	panic("fixture: no validator index works as target")
}

func mustMarshal(m proto.Message) []byte {
	b, err := proto.Marshal(m)
	if err != nil {
		panic(err)
	}
	return b
}
