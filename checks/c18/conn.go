package main

// MConnection packet framing: a REAL MConnection (public constructor, Start, its own recvRoutine and
// sendRoutine goroutines) over a scripted net.Conn that yields the peer's byte stream and then EOF.
// recvRoutine ends every stream by calling onError (EOF is an error too), which is what the checker
// waits for; no timing decides anything except a 30 s "did not return" budget.

import (
	"encoding/binary"
	"fmt"
	"io"
	"net"
	"sync"
	"time"

	"github.com/kardiachain/go-kardia/lib/log"
	"github.com/kardiachain/go-kardia/lib/p2p/conn"
	kp2p "github.com/kardiachain/go-kardia/proto/kardiachain/p2p"
)

type scriptConn struct {
	mu     sync.Mutex
	data   []byte
	off    int
	closed bool
	wrote  int
}

func (c *scriptConn) Read(b []byte) (int, error) {
	c.mu.Lock()
	defer c.mu.Unlock()
	if c.closed {
		return 0, io.ErrClosedPipe
	}
	if c.off >= len(c.data) {
		return 0, io.EOF
	}
	n := copy(b, c.data[c.off:])
	c.off += n
	return n, nil
}
func (c *scriptConn) Write(b []byte) (int, error) {
	c.mu.Lock()
	c.wrote += len(b)
	c.mu.Unlock()
	return len(b), nil
}
func (c *scriptConn) Close() error                       { c.mu.Lock(); c.closed = true; c.mu.Unlock(); return nil }
func (c *scriptConn) LocalAddr() net.Addr                { return &net.TCPAddr{IP: net.IPv4(127, 0, 0, 1), Port: 1} }
func (c *scriptConn) RemoteAddr() net.Addr               { return &net.TCPAddr{IP: net.IPv4(8, 8, 8, 8), Port: 2} }
func (c *scriptConn) SetDeadline(t time.Time) error      { return nil }
func (c *scriptConn) SetReadDeadline(t time.Time) error  { return nil }
func (c *scriptConn) SetWriteDeadline(t time.Time) error { return nil }

const (
	connChA   = byte(0x20)
	connChB   = byte(0x40)
	connCapA  = 4096 // RecvMessageCapacity of channel A in the framing harness
	connCapB  = 1 << 20
	connState = "conn-open"
)

var connSchema = schemaOf(reflectTypeOf(&kp2p.Packet{}))

func frame(pkt []byte) []byte {
	var l [10]byte
	n := binary.PutUvarint(l[:], uint64(len(pkt)))
	return append(append([]byte(nil), l[:n]...), pkt...)
}

func packetMsg(ch int32, eof bool, data []byte) []byte {
	return mustMarshal(&kp2p.Packet{Sum: &kp2p.Packet_PacketMsg{PacketMsg: &kp2p.PacketMsg{ChannelID: ch, EOF: eof, Data: data}}})
}

func connCfg() conn.MConnConfig {
	c := conn.DefaulKAIConnConfig()
	c.RecvRate = 1 << 40 // the flow limiter must not sleep
	c.SendRate = 1 << 40
	c.PingInterval = time.Hour
	c.PongTimeout = time.Minute
	return c
}

type connResult struct {
	delivered []sentMsg
	errs      []string
	returned  bool
}

// feed runs one byte stream through a fresh MConnection.
func feed(stream []byte) (res connResult, alloc uint64) {
	var mu sync.Mutex
	done := make(chan struct{}, 4)
	sc := &scriptConn{data: stream}
	descs := []*conn.ChannelDescriptor{
		{ID: connChA, Priority: 1, SendQueueCapacity: 1, RecvMessageCapacity: connCapA, RecvBufferCapacity: 1024},
		{ID: connChB, Priority: 1, SendQueueCapacity: 1, RecvMessageCapacity: connCapB, RecvBufferCapacity: 4096},
	}
	onReceive := func(ch byte, b []byte) {
		mu.Lock()
		res.delivered = append(res.delivered, sentMsg{ch, len(b)})
		mu.Unlock()
	}
	onError := func(r interface{}) {
		mu.Lock()
		res.errs = append(res.errs, fmt.Sprint(r))
		mu.Unlock()
		done <- struct{}{}
	}
	a0 := allocBytes()
	mc := conn.NewMConnectionWithConfig(sc, descs, onReceive, onError, connCfg())
	mc.SetLogger(log.New()) // as p2p.peer does; the channels have no logger otherwise
	if err := mc.Start(); err != nil {
		res.errs = append(res.errs, "start: "+err.Error())
		return res, 0
	}
	select {
	case <-done:
		res.returned = true
	case <-time.After(30 * time.Second):
	}
	alloc = allocBytes() - a0
	mc.Stop()
	mu.Lock()
	defer mu.Unlock()
	return connResult{delivered: append([]sentMsg(nil), res.delivered...), errs: append([]string(nil), res.errs...), returned: res.returned}, alloc
}

// runConn: cs.raw is the whole byte stream the peer writes on the connection. cs.Field carries the
// expectation class for the framing-specific cases.
func (e *otherEnv) runConn(cs *caseT) *outcome {
	out := &outcome{}
	stream := cs.bytes()
	res, alloc := feed(stream)
	out.Alloc = alloc
	out.Decoded = len(res.delivered) > 0
	if !res.returned {
		out.viol("conn-hang", "recvRoutine did not finish a %d-byte stream within 30 s", len(stream))
		out.Stage = "conn:hang"
		return out
	}
	// fixed cost of an MConnection (buffers, timers, channel queues) is well below the slack
	if lim := allocLimit(connCapB, uint64(len(stream))); alloc > lim {
		out.viol("alloc", "a %d-byte stream made the connection allocate %d bytes (limit %d)", len(stream), alloc, lim)
	}
	for _, d := range res.delivered {
		capacity := connCapA
		if d.Ch == connChB {
			capacity = connCapB
		}
		if d.Len > capacity {
			out.viol("capacity-exceeded", "a %d-byte message was delivered on channel 0x%02x whose RecvMessageCapacity is %d", d.Len, d.Ch, capacity)
		}
		if d.Ch != connChA && d.Ch != connChB {
			out.viol("unknown-channel-delivered", "a message was delivered on unknown channel 0x%02x", d.Ch)
		}
	}
	switch cs.Class {
	case "expect-delivered":
		if len(res.delivered) == 0 {
			out.viol("framing-roundtrip", "a well-formed packet sequence was not delivered (errors %v)", res.errs)
		}
	case "expect-error-no-delivery":
		if len(res.delivered) != 0 {
			out.viol("framing-accepts-invalid", "an invalid packet sequence delivered %v", res.delivered)
		}
	}
	switch {
	case len(res.delivered) > 0:
		out.Stage = "conn:delivered"
	case len(res.errs) > 0 && res.errs[0] == "EOF":
		out.Stage = "conn:consumed-then-eof"
	default:
		out.Stage = "conn:error"
	}
	return out
}
