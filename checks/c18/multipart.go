package main

// Multi-part proposals: the node waits for the parts of a proposal whose part set has 4 (and 5) parts
// (the round's proposer - a key the checker holds - proposes a block padded over 3 / 4 part sizes), and
// receives block parts whose merkle proof has a mutated AUNTS list: last k dropped (every k), first k
// dropped, duplicated, one appended, empty - with index/total consistent with the header and the real
// leaf hash. Single-part blocks (every other unit) have no aunts at all.

import (
	"fmt"
	"math/big"

	"github.com/kardiachain/go-kardia/consensus"
	"github.com/kardiachain/go-kardia/lib/common"
	"github.com/kardiachain/go-kardia/trie"
	"github.com/kardiachain/go-kardia/types"
)

func genMultipart(w *worker, st string, emit func(*caseT)) {
	c := w.cons.node(st)
	h, r, proposer := c.Height, c.Round, c.Proposer
	for _, dataLen := range []int{200000, 270000} {
		tx := types.NewTransaction(7, allAddrs[3], big.NewInt(1), 30000000, big.NewInt(1), patternBytes(dataLen, 0x61))
		stx, err := types.SignTx(types.HomesteadSigner{}, tx, allKeys[4])
		if err != nil {
			panic(err)
		}
		hd := c.Block.Header()
		hd.LastCommitHash = common.Hash{}
		blk := types.NewBlock(hd, []*types.Transaction{stx}, c.Block.LastCommit(), nil, trie.NewStackTrie(nil))
		parts := blk.MakePartSet(types.BlockPartSizeBytes)
		total := int(parts.Total())
		if total < 4 {
			panic(fmt.Sprintf("multipart: only %d parts", total))
		}
		id := types.BlockID{Hash: blk.Hash(), PartsHeader: parts.Header()}
		prop := consensus.MustEncode(&consensus.ProposalMessage{Proposal: signedProposal(proposer, h, r, 0, id)})
		send := func(class, desc string, idx int, aunts [][]byte) {
			p := parts.GetPart(idx)
			mp := &types.Part{Index: p.Index, Bytes: p.Bytes, Proof: p.Proof}
			mp.Proof.Aunts = aunts
			emit(&caseT{Reactor: "consensus", State: st, Peer: peerKnown, Msg: "BlockPart", Kind: "multipart", Field: "block_part.part.proof.aunts", Class: class,
				Desc: fmt.Sprintf("part %d of %d, %s (the proof has %d aunts, the path %d)", idx, total, desc, len(aunts), len(p.Proof.Aunts)), Ch: chData,
				raw: consensus.MustEncode(&consensus.BlockPartMessage{Height: h, Round: r, Part: mp}), pre: [][]byte{prop}, preCh: []byte{chData}})
		}
		for idx := 0; idx < total; idx++ {
			a := parts.GetPart(idx).Proof.Aunts
			cp := func(x [][]byte) [][]byte { return append([][]byte(nil), x...) }
			send("aunts:unmodified", "valid proof", idx, cp(a))
			for k := 1; k <= len(a); k++ {
				send("aunts:last-k-dropped", fmt.Sprintf("last %d aunts dropped", k), idx, cp(a[:len(a)-k]))
				if k < len(a) {
					send("aunts:first-k-dropped", fmt.Sprintf("first %d aunts dropped", k), idx, cp(a[k:]))
				}
			}
			send("aunts:duplicated", "aunts list duplicated", idx, append(cp(a), a...))
			send("aunts:one-appended", "one aunt appended", idx, append(cp(a), patternBytes(32, 0x71)))
			if len(a) > 0 {
				sw := cp(a)
				sw[0] = patternBytes(32, 0x72)
				send("aunts:wrong-hash", "first aunt replaced", idx, sw)
			}
		}
	}
}
