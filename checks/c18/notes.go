package main

/*
FINDINGS and MUTANTS of check C18 (kept here because report files cannot be written by the authoring
agent; the same text is in the agent's final report). Numbers: unchanged tree at HEAD b270ef3.

====================================================================================================
FINDINGS.md - C18
====================================================================================================

STATUS (HEAD 2b37706): all four defects found by this check are REPAIRED in /repo by additive fix
commits; KNOWN_FINDINGS.jsonl lists the six signatures as `fixed`; `./run.sh C18 quick|thorough` exits 0
(quick 16-19 s, 1 691 856 deliveries; thorough 134 s, 10 213 922 deliveries; no worker deaths any more).

  F1 (D14)      a63377d  a precommit for height 0 must not reach the missing last commit
  F2, F4 (D18a, D18c)  ad4f98a  BitArray.FromProto takes an array whose bits and words disagree as empty
  F3 (D18b)     2b37706  SetHasProposal ignores and setProposal refuses a proposal naming more than
                         MaxBlockPartsCount parts. NOT the PartSetHeader.ValidateBasic variant suggested
                         below: that one made CanonicalizeBlockID panic on unvalidated ids (broke C11/C13/C15).
  D6  59f7795, D13 bc1fdab were fixed before this check existed; reverting either is caught (MUTANTS).

The descriptions below are kept as the record of what was found at HEAD b270ef3 (four genuine defects,
six signatures; every first occurrence re-executed 5 times on freshly built state, worker deaths 5/5 in
fresh processes; line numbers are those of b270ef3).

----------------------------------------------------------------------------------------------------
F1 (= D14)  a height-0 precommit halts consensus at the initial height

  C18|reactor=consensus|channel=0x22|msg=Vote(precommit-nil)|field=vote.vote.height|mutation=varint:0|node-state=h1-newheight+waitsync,peer=any|oracle=panic-in-handleMsg

  Where: consensus/state.go:625-632 (addVote): `if vote.Height+1 == cs.Height && vote.Type == Precommit {
    if cs.Step != NewHeight {ignore}; added, err = cs.LastCommit.AddVote(vote)`. At the initial height
    cs.LastCommit is nil and types/vote_set.go:111-113 (*VoteSet).AddVote does
    PanicSanity("AddVote() on nil VoteSet").
  Minimal message: a Vote message on VoteChannel (0x22) with type = precommit, height = 0 (field
    absent), any index/address and ANY non-empty signature bytes (the panic precedes every signature
    check). Any peer can send it, no validator key needed, while the node is in step NewHeight of
    height 1: between start-up (or the end of fast sync: votes queue up while waitSync is on) and the
    first NewHeight timeout.
  Effect: the panic is inside handleMsg: receiveRoutine's recover logs CONSENSUS FAILURE and the
    consensus state machine stops for good. 8 failing cases (2 node states x 2 peer states x {=0,
    absent}); the same with a valid validator signature.
  Why genuine: reachable from the wire with an unauthenticated ~100-byte message; Vote.ValidateBasic
    accepts height 0 and the reactor filters nothing.
  Minimal additive fix: in addVote treat a missing last commit like a late precommit:
    `if cs.Step != cstypes.RoundStepNewHeight || cs.LastCommit == nil { return false, nil }`
    (optionally also reject Height == 0 in Vote.ValidateBasic).

----------------------------------------------------------------------------------------------------
F2 (= D18a)  bit arrays are taken from the wire without relating Bits and Elems: gossip goroutines
             index out of range and the process dies

  C18|reactor=consensus|channel=0x20|msg=NewValidBlock|field=new_valid_block.block_parts|mutation=bitarray:bits/elems-inconsistent|node-state=h1-commit-wait-parts+h1-prevote-with-block+h2-commit-wait-parts,peer=known|oracle=gossip-routine-panic
  C18|reactor=consensus|channel=0x21|msg=ProposalPOL|field=proposal_pol.proposal_pol|mutation=bitarray:bits/elems-inconsistent(after NewRoundStep+Proposal)|node-state=any,peer=fresh|oracle=gossip-routine-panic

  Where: lib/common/bit_array.go:351-361 FromProto copies Bits (an int64 cast to uint) and Elems as
    sent. NewValidBlockMessage.ValidateBasic (consensus/manager.go:1397) only looks at Size(),
    ProposalPOLMessage.ValidateBasic (manager.go:860) only at Size() != 0. The arrays are stored in the
    peer state - manager.go:1139 `ps.PRS.ProposalBlockParts = msg.BlockParts`, manager.go:1349
    `ps.PRS.ProposalPOL = msg.ProposalPOL` - and consumed by goroutines that have no recover:
      gossipDataRoutine (manager.go:478) `rs.ProposalBlockParts.BitArray().Sub(prs.ProposalBlockParts.Copy())`
        -> BitArray.and bit_array.go:153 `c.Elems[i] &= o.Elems[i]`: index out of range;
      gossipVotesRoutine -> PickSendVote -> PickVoteToSend (manager.go:1118) `votes.BitArray().Sub(psVotes)`
        -> and (:153), Sub (:181) or copyBits (:112, "makeslice: len out of range" for Bits >= 2^63).
  Minimal messages:
    1. NewValidBlock{height, round, block_part_set_header = header of the block being decided,
       block_parts = {bits: 1}, is_commit: true} (elems absent; bits equals the header's total) from a
       peer that announced the node's height/round, while the node holds a part set with that header:
       in the ordinary Prevote step after the proposal and its block arrived, and while waiting for the
       parts of a committed block (3 of the 11 node states; 9 cases).
    2. NewRoundStep{H, R+1}; Proposal{H, R+1, pol_round = R, any complete block id, any 65-byte
       signature} (the POL round is copied into the peer state BEFORE any signature check,
       manager.go:326 -> :1051); ProposalPOL{H, R, proposal_pol = {bits: 4}} (elems absent). All 11 node
       states, from a fresh peer (178 cases over the bits/elems shapes).
  Effect: runtime panic in a per-peer gossip goroutine => the node process exits. No key needed.
  Minimal additive fix: validate where the array enters, e.g. in FromProto
    `if p.Bits < 0 || p.Bits > math.MaxInt32 || uint64(len(p.Elems)) != (uint64(p.Bits)+63)/64 { bA.Bits, bA.Elems = 0, nil; return }`
    (an empty array is already rejected by NewValidBlock/ProposalPOL and harmless in VoteSetBits), or an
    equivalent BitArray.ValidateBasic called from the three messages' ValidateBasic.

----------------------------------------------------------------------------------------------------
F3 (= D18b)  the part-set total of a proposal is unbounded: 256-512 MB per message in the reactor,
             16-32 GB in the consensus handler

  C18|reactor=consensus|channel=0x21|msg=Proposal|field=proposal.proposal.block_id.part_set_header.total|mutation=varint:large|node-state=all-but(h1-prevote-with-block),peer=known|oracle=alloc
  C18|reactor=consensus|channel=0x21|msg=Proposal|field=proposal.proposal.block_id.part_set_header.total|mutation=varint:large(signed)|node-state=all-but(h1-commit-wait-parts+h1-prevote-with-block+h2-commit-wait-parts),peer=any|oracle=process-death:out-of-memory

  Where: types/part_set.go:117-123 PartSetHeader.ValidateBasic checks the hash only; Proposal.ValidateBasic
    and BlockID.ValidateBasic add nothing. Consumers:
      consensus/manager.go:1050 SetHasProposal: `cmn.NewBitArray(int(proposal.POLBlockID.PartsHeader.Total))`,
        called from Receive (manager.go:326) BEFORE any signature check: total = 2^31 -> 268 443 136
        bytes, 2^32-1 -> 536 870 912 bytes for a 167-byte message (limit 5 285 632) from any peer that
        announced the node's height/round. 50 failing cases.
      consensus/state.go:514 setProposal: types.NewPartSetFromHeader(header) = make([]*Part, total) +
        NewBitArray(total): signed with the round's proposer key (a Byzantine proposer) total = 2^31-1
        asks for 17 179 869 184 bytes: "fatal error: out of memory" under the workers' 12 GB address
        space limit (80 worker deaths, 5/5 reproduced), a 16-32 GB allocation otherwise.
  Why genuine: a block has at most MaxBlockPartsCount = 1601 parts; NewValidBlock enforces that,
    the block ids of Proposal / Vote / VoteSetMaj23 / VoteSetBits do not.
  Minimal additive fix: in PartSetHeader.ValidateBasic
    `if psh.Total > MaxBlockPartsCount { return fmt.Errorf("too many parts: %d", psh.Total) }`
    (covers every message that carries a block id).

----------------------------------------------------------------------------------------------------
F4 (= D18c)  a vote bit array with Bits >= 2^63 passes the MaxVotesCount bound

  C18|reactor=consensus|channel=0x23|msg=VoteSetBits|field=vote_set_bits.votes|mutation=bitarray:bits/elems-inconsistent|node-state=any,peer=known|oracle=invalid-accepted

  Where: consensus/manager.go:973 `if m.Votes.Size() > types.MaxVotesCount`; Size() is int(bA.Bits) and
    Bits is a protobuf int64 cast to uint (bit_array.go:357), so 2^63 and 2^64-1 are negative sizes and
    pass. The message is applied: ApplyVoteSetBitsMessage (manager.go:1319) overwrites the peer's vote
    bits with the sender's words (stage peer-state-changed, 66 cases) or panics inside Receive in
    BitArray.Or (bit_array.go:135; contained, 38 cases).
  Effect: no crash by itself; the property's "oversized bit array is rejected" does not hold. Same root
    cause and same fix as F2 (validate Bits in FromProto / ValidateBasic).

----------------------------------------------------------------------------------------------------
Not violations (recorded)

  * Contained panics, 148 per quick run: Receive from a peer whose state was already removed
    (manager.go:266 "Peer has no state", 11 per message type) and BitArray.Or on VoteSetBits (F4, 38).
    Post-conditions hold: no lock held, node state unchanged, the next well-formed messages of another
    peer handled.
  * D16 (blockchain/reactor.go:495-501: Receive returns with r.mtx read-locked when BlockFromProto fails
    for a BlockResponse) is present in the source but unreachable from the wire: ValidateMsg
    (blockchain/msgs.go:86-90) runs the same BlockFromProto first and rejects the message. 0 leaked
    locks in 180 591 (quick) / 312 191 (thorough) block-sync deliveries. It becomes reachable as soon as
    ValidateMsg stops decoding the block (mutant c18-blockchain-validatemsg-skips-block-decode: caught by
    the lock probe). Suggested fix anyway: unlock before the early return.
  * Weak validation without crash: wrong-length hashes are silently cropped/padded by BytesToHash;
    NewRoundStep.step is truncated to 8 bits before IsValid (65537 is accepted as step 1);
    PacketMsg.channel_id is truncated to a byte (0x120 is delivered on channel 0x20); HasVote.index
    beyond the validator count is ignored, not rejected; no reactor's decoder has a size check of its
    own (the only cap is RecvMessageCapacity in MConnection.recvPacketMsg).
  * Measured nondeterminism: only the stage label of a few transaction-pool cases ("answered" vs
    "no-effect", +-5 of 1.5 M cases) depends on the pool's background goroutines; no oracle reads it.

====================================================================================================
MUTANTS.md - /verif/mutants/c18-*.patch, `checks/c18/mutants.sh` (quick tier, VERIF_REPO=scratch worktree)
====================================================================================================

"added" = signatures the mutant adds to the six of the unchanged tree (all six stay reproduced unless
noted). Repository tests: the touched package's own tests in the mutated worktree.

mutant                                         | repo tests of the touched package            | caught | added signatures (oracle)
c18-d6-revert-sigtopub-length-check            | lib/crypto: pass                             | YES    | 5: Vote(prevote)/Vote(precommit)/Proposal signature bytes:shorter -> panic-in-handleMsg (any state);
  (revert of the D6 fix 59f7795)               |                                              |        |    block.last_commit.signatures.signature(rehashed) -> panic-in-handleMsg (h2-propose) and block sync sync-routine-panic
c18-d13-revert-validateblock-nil-lastcommit    | kai/state/cstate: pass                       | YES    | 1: Block(signed proposal + parts) block.last_commit absent, h1-propose -> panic-in-handleMsg
  (revert of the D13 fix bc1fdab)              |                                              |        |
c18-m48-votesetbits-maxvotes-bound-removed     | consensus: same failures as unchanged tree   | YES    | 2: VoteSetBits votes bitarray:consistent (10001 bits) -> invalid-accepted; bits 2^31 -> alloc
  (M48, consensus/manager.go ValidateBasic)    |   (package panics in TestStateProposerSelection0 on HEAD too) |
c18-newvalidblock-size-vs-total-check-removed  | consensus: same failures as unchanged tree   | YES    | 1: NewValidBlock block_parts -> invalid-accepted (any state, known peer)
c18-part-validatebasic-size-check-removed      | types: pass                                  | YES    | 1: BlockPart part.bytes bytes:longer (65537) -> invalid-accepted (any state, any peer)
c18-blockchain-validatemsg-skips-block-decode  | blockchain: pass                             | YES    | 98: BlockResponse(1|2) any field that makes BlockFromProto fail -> lock-leaked (D16 becomes reachable)
  (the decode check of ValidateMsg removed)    |                                              |        |
c18-m55-conn-capacity-check-dropped            | lib/p2p/conn: pass                           | YES    | 2: PacketStream capacity+1 bytes -> capacity-exceeded, framing-accepts-invalid
  (M55, recvPacketMsg; no reactor decode has a MaxMsgSize check, this is the only size cap)
c18-netaddress-port-check-removed              | lib/p2p: same failures as unchanged tree     | YES    | 1: PexAddrs addrs.port >= 65536 -> invalid-accepted
                                               |   (TestNetAddressProperties/ReachabilityTo need DNS)
c18-m49-bitarray-setindex-bound-dropped        | lib/common: pass                             | no     | 0 - every path that reaches setIndex with a peer-chosen index (HasVote.index, Vote.validator_index,
  (M49)                                        |                                              |        |    BlockPart.part.index) is inside Receive: the panic is contained by MConnection's recover, every
                                               |                                              |        |    lock involved is released by defer, the peer is dropped: the property holds under the weakest
                                               |                                              |        |    reading. Recorded: contained_panics 148 -> 826, new site lib/common.(*BitArray).setIndex.
c18-vote-validatebasic-type-check-removed      | types: pass                                  | no     | 0 - same reason: an invalid vote type panics in GetReadableVoteTypeString inside Receive (contained),
                                               |                                              |        |    contained_panics 148 -> 1968; on the consensus side HeightVoteSet.AddVote re-checks the type.

c18-seeded-addpart-index-off-by-one            | types: pass (no test adds a part at index == total) | YES | 1: BlockPart part.index+part.proof.index+part.proof.total =1,=1,=1 (total 1) -> panic-in-handleMsg
  (independently seeded, /verif/seeded/C18: PartSet.AddPart `part.Index >= ps.total` -> `>`)     |   in the three node states that hold a part set (prevote-with-block, both commit-wait), any peer.
                                               |                                              |        |    Was MISSED by the quick tier as first delivered (pairs only on NewRoundStep/VoteSetBits; thorough
                                               |                                              |        |    caught it as a pair); quick now has the coupled-field groups (coupled.go): caught twice, same
                                               |                                              |        |    signature; thorough reports the same single signature (the pair groups are subsumed).

Coupled-field groups (kind "coupled", both tiers, 11 node states x {fresh, known} = 22 units, 22 836
cases, 5.0 worker-seconds, about +1 s wall): the full product of boundary values {0, limit-1, limit,
limit+1, limit+2, 2^31, 2^32-1 (and 2^63, 2^64-1 for 64-bit fields)} over
  BlockPart      part.index x part.proof.index x part.proof.total        (limit = part-set total)   7x9x9
  Vote (x2 seeds) validator_index x validator_address {4 validators, non-validator, len 0/19/21}, raw and signed
  Proposal       round x pol_round (limit = current round), raw and signed by the proposer
  NewValidBlock  block_part_set_header.total x block_parts (consistent arrays; limits total and 1601) x is_commit
  HasVote        index (limit = validator count; 63,64,65) x type x round
  VoteSetBits    votes (consistent arrays; limits validator count and 10000) x type x round

c18-seeded-c-pickvotetosend-getters-before-size-check | consensus: same failures as unchanged tree | YES | 1: NewRoundStep height+round+step+last_commit_round (min. case height=2^64-2, round 0, step 1,
  (independently seeded, /verif/seeded/C18c: PeerState.PickVoteToSend reads votes.GetHeight()/GetRound() |  last_commit_round 1) -> gossip-routine-panic in gossipVotesRoutine, node-state=any, peer=any, 576 cases
   before the Size()==0 check; the catch-up branch hands it a nil *Commit from LoadBlockCommit)   |

Why the quick tier (and thorough) first MISSED C18c - diagnosis:
  * not the gossip run, not the oracle, not a stub: the real gossipVotesRoutine ran on the peer state, its
    catch-up branch called the fixture's real block store (rawdb.ReadCommit);
  * the boundary set had 2^64-1 but not 2^64-2, and height 2^64-1 is masked: rawdb.WriteBlock stores a
    block's LastCommit under key height-1, so the genesis block (height 0) leaves an (empty, non-nil) commit
    under key 2^64-1 and LoadBlockCommit(2^64-1) does not return nil; 2^64-2 (prs.Height+2 wraps to 0) has
    no commit. At height 1 it additionally needs last_commit_round != 0 (a pair), at height 2 the seed's
    last_commit_round is already 1 (a single-field mutation suffices once the value exists).
Strengthened (nothing loosened): 2^64-2 added to both varint boundary sets (all single/pair/signed
  enumerations); NewRoundStep coupled group height x round x step x last_commit_round relative to the node's
  height; claimed-position sequences (genClaimed) for NewRoundStep / NewValidBlock / HasVote / VoteSetBits /
  VoteSetMaj23 / ProposalPOL; the gossip routines now also run after the preceding deliveries of a sequence
  (once after the claim alone, and after the message when the sequence as a whole changed the peer state);
  extra node state h3-newheight (two committed blocks) in these units so that the catch-up branches find
  stored commits / metas / parts (LoadBlockCommit present) as well as none. A failure caused by the claim
  alone is attributed to the claim; a coupled group is one failure class per (message, field group, oracle)
  named after its minimal failing case; between a coupled group and a single-field group of the same message
  and oracle the one failing in strictly more node states is reported.
  Coupled units now: 12 node states x {fresh, known} = 24 units, 41 792 cases, 8.6 worker-seconds; quick
  11.8-12.0 s wall on the unchanged tree (1 631 160 deliveries, distinct 73 221), thorough 101 s
  (10 028 258 deliveries, distinct 368 610), both exit 0.

c18-seeded-d-txfetcher-drop-keeps-fetching-entry | mainchain/fetcher: not run here (meta.json: unchanged) | YES | 2: fetcher-sequence "annA1 T1 rmA txsB1" -> fetcher-goroutine-panic (nil pointer at
  (independently seeded, /verif/seeded/C18d: the drop handling keeps fetching[hash] when the dropped peer |   tx_fetcher.go:555, f.requests[origin].stolen; 440 failing sequences) and "annA1 T1 rmA" ->
   was the only announcer)                                                                       |   fetcher-bookkeeping:fetching-without-alternates (3962 sequences); both stable over two runs.

Why C18d was MISSED: the fetcher was only reached through single Receive calls on a started reactor; no
  sequence of announce / timeout / peer removal / delivery was enumerated and the fetcher's timers ran on
  the wall clock (never fired within a case).
Built (fetcher.go + harness/mainchain/fetcher/zz_verif_c18_fetcher.go + accessors in
  harness/mainchain/tx_pool/zz_verif_c18_access.go): an explicit-state search (E2) of the REAL
  tx_pool.Reactor + fetcher.TxFetcher (its real loop() on its own goroutine) + real TxPool with peers {A, B}
  and transactions h1 (valid), h2 (underpriced), h3 (valid, never announced):
  * alphabet (24 events): ann{A,B}{1,2,12}; txs{A,B}{1,2} (broadcast Txs); pool{A,B}{1,2,12,3}
    (PooledTransactions: solicited or not, full / partial / wrong answers; an EMPTY answer is not
    expressible: the reactor's decoder rejects an empty list and drops the peer = rm); rm{A,B}; add{A,B};
    T1 = 600 ms (beyond txArriveTimeout), T2 = 5.1 s (beyond txFetchTimeout);
  * breadth-first per first event (24 units), depth <= 5 (thorough 6), states de-duplicated per unit by a
    canonical dump of the fetcher's maps (ages included) + pool content + registered peers; a state is
    reached by replaying its shortest sequence on a fresh world;
  * time: the fetcher's own injectable clock - mclock.Simulated installed through the accessor (the
    constructor used by the reactor, NewTxFetcher, hard-wires mclock.System; the clock/rand/step fields the
    package keeps for its own tests are set in-package before the loop starts); timers armed with a
    non-positive delay are fired after every event;
  * quiescence without a clock: the loop reports each completed iteration on its step channel (counted by
    a pump goroutine); the number of iterations an event causes is known (Enqueue and Drop always wake the
    loop once, Notify iff its pre-filter passes - asked through the accessor -, each timer callback counted
    by the clock wrapper is one iteration); then a no-op Drop("c18-fence") is round-tripped and the count
    must match exactly (a mismatch is a machinery error, not a verdict); requests the loop decided on are
    awaited at the mock peers; only then the maps are read;
  * the loop runs under a recover installed by the accessor (a panic is recorded and always a violation;
    without it every failing sequence would cost a worker process);
  * oracles after every sequence: no panic on the loop goroutine / in Receive / RemovePeer, locks free,
    allocation bounded, bookkeeping invariants (see assumptions), valid delivered transaction in the pool,
    underpriced one not, no peer stopped by a well-formed message; the next events are the "following
    well-formed message is still handled" check.
  Worker machinery: units can be `Stateful` (an explicit-state search re-executes its earlier cases after
  a restart / for a single-case re-run instead of skipping them).
  Counts: quick 60 696 sequences, 7 735 states expanded (sum over units), 60 worker-seconds, about +5 s
  wall (quick now 16-19 s, 1 691 856 deliveries); thorough 185 664 sequences, 23 998 states, 273
  worker-seconds (thorough 134 s, 10 213 922 deliveries). Both tiers exit 0 on the unchanged tree (1a77bfd).
Observations on the unchanged tree (not violations):
  * stale origin: after `ann A h, ann B h, T1 (request to one of them), rm <the other>` the removed peer stays
    in alternates[h] (drop handling cleans `announced` only; identical in go-ethereum v1.9.15). Seen in 679
    (quick) / 7 404 (thorough) sequences. Never scheduled, never dereferenced; can park a hash in `announced`.
    Suggested fix: in the drop case also `delete(f.alternates[hash], drop.peer)` for hash in announces[peer].
  * (superseded, see "F5" below) a RACE outside the sequential model: Reactor.RemovePeer unregisters the peer BEFORE it tells the
    fetcher (reactor.go RemovePeer); a request the loop schedules in between reaches Reactor.fetchTx
    (reactor.go:74-77, fetchTx) with peers.Peer(id) == nil and dereferences it in (*peer).RequestTxs (peer.go:379) on
    a goroutine without recover. Hit once by the harness's own teardown (two RemovePeer calls without
    settling in between), which is why teardown now settles each removal. Suggested fix: nil check in fetchTx
    (return an error: the fetcher then Drops the peer), or Drop before Unregister.

F5 (open at HEAD 1a77bfd, GENUINE; fix suggested in checks/c18/suggested-fix-fetchtx-unknown-peer.patch)
   a peer that disconnects while a request to it is being sent kills the process
  C18|reactor=txpool|channel=0x30|msg=fetcher-sequence|field=-|mutation=annA1 park T1 rmA late|node-state=txpool-fetcher,peer=known|oracle=request-goroutine-panic
  Minimal schedule (5 events; 12 failing sequences in quick, 167 in thorough): A announces h1; [the next
    request goroutine is delayed]; 600 ms pass: the loop moves h1 to the fetch stage and spawns
    `go func(){ f.fetchTxs(A,[h1]) }` (tx_fetcher.go:804-810, scheduleFetches); A is removed:
    Reactor.RemovePeer (reactor.go:147) unregisters A, then tells the fetcher; the delayed goroutine runs
    now: Reactor.fetchTx (reactor.go:74-77) gets peers.Peer(A) == nil and (*peer).RequestTxs (peer.go:379)
    dereferences it: nil pointer panic on a goroutine without recover => the process exits. The peer chooses
    when it disconnects; the window is between the loop's decision and the goroutine's call (and always open
    inside RemovePeer between Unregister and Drop).
  Scheduling dimension added to the fetcher search: events `park` (the next request call the loop spawns is
    held at the checker's gate; at most one at a time) and `late` (it runs only now) - an arming event plus a
    release event instead of a single retroactive `late`, so that the successors of a state depend on the
    state alone (armed flag and parked call are part of the state key) and de-duplication stays sound.
    The wrapper around f.fetchTxs (accessor VerifC18WrapFetch) recovers and records a panic of the real
    callback (chosen over the worker-death path: it is the goroutine body's callee, the observation is the
    same, and no worker process is lost per failing sequence); an error return makes the goroutine Drop the
    peer (one more counted loop iteration). Units whose first event leaves the initial state unchanged are
    not expanded (their continuations are the other units' sequences, one event shorter).
  With the suggested fix applied in a scratch worktree: quick exits 0 twice; bookkeeping, delivery and
    no-peer-stopped oracles hold on all sequences including the 383 that release a delayed call (the failed
    call returns "unknown peer", the goroutine Drops the peer, the hash is rescheduled to an alternate).
    The seeded C18d is still caught on HEAD and on the fixed tree (same two signatures; 330 / 3424-3436 sequences).
  Counts with park/late: quick 59 332 sequences, 8 092 states expanded, 52 worker-seconds (before: 60 696 /
    7 735 / 60 - not expanding no-op first events pays for the two new events), quick wall 17-19 s;
    thorough 209 768 sequences, 28 241 states, 283 worker-seconds, 141 s wall.

c18-seeded-f-heightvoteset-setround-readds-catchup-round | consensus/types: (meta) | YES | 2: Vote(prevote) / Vote(precommit-nil) height+round+signature (min. case: vote height=cur round=2 JUNK
  (independently seeded, /verif/seeded/C18f: HeightVoteSet.SetRound re-adds a round a peer vote opened as |  signature, then driven on) -> consensus-halted-later ("addRound() for an existing round"),
   catch-up round)                                                                                |  node-state=all-but(the two commit-wait states), 96 cases each; stable over two runs.

Why C18f was MISSED: nothing happens at delivery; the stored catch-up round only explodes when the node
  later enters that round. The check looked at the node right after Receive + handleMsg returned.
Built (driveon.go): DRIVE-ON. After the delivery the node is driven the way the network would drive it -
  pending timeouts fire, the other validators send correctly signed nil prevotes/precommits - until it has
  entered >= 3 more rounds; variant "commit": then the round's valid block is proposed (by the fixture's
  proposer key, or by the node itself when it is the proposer) and voted, and a height commits. Oracle
  consensus-halted-later: no recovered handler panic at any step, still signing. Applied to a new unit per
  node state (votes prevote/precommit x height {cur-1,cur,cur+1} x round {cur..cur+4,1000} x {valid, junk}
  signature; proposals likewise; block parts; commit variant for round cur+2 / cur+3) and to every valid seed.
  Counts (quick): 1 424 driven cases, 4 272 rounds entered, 130 heights committed, 22 worker-seconds (+1-2 s wall).

F6 (open at HEAD 2cbc26b, GENUINE; fix in checks/c18/suggested-fix-bitarray-or.patch)
   BitArray.Or indexes the shorter operand out of range: VoteSetBits with a short/empty array panics in Receive
  C18|reactor=consensus|channel=0x23|msg=VoteSetBits|field=vote_set_bits.votes+vote_set_bits.type+vote_set_bits.round|mutation=bitarray:empty+varint:small+varint:small|node-state=h1-commit-wait-parts+h1-prevote-with-block+h1-prevotewait+h2-commit-wait-parts,peer=known|oracle=runtime-error-in-receive
  Where: lib/common/bit_array.go:131-136 Or(): c has max(bA.Bits,o.Bits) bits, the loop runs over len(c.Elems)
    and reads o.Elems[i]: index out of range [0] with length 0 when o has fewer words. Reached from
    PeerState.ApplyVoteSetBitsMessage (manager.go) `votes.Sub(ourVotes).Or(msg.Votes)` when ourVotes != nil.
  Minimal input: VoteSetBits{height = node height, round 1, type precommit (or prevote), block_id = a block id
    for which the node holds votes, votes = {} (0 bits; any bits/elems-inconsistent array also arrives as
    empty since ad4f98a)} on channel 0x23 from a peer that announced the node's height/round and has been
    gossiped to (its vote bit arrays exist), in the node states that hold votes for the id: prevote with
    block, prevote-wait, both commit-wait states. 138 contained panics per quick run (single-field cases),
    4 in the coupled group that names the signature. Already reachable in the existing enumeration; it was
    recorded as a contained panic only. Now a violation through the new runtime-error-in-receive oracle.
  Fix (additive, as upstream): bound the loop by min(len(c.Elems), len(o.Elems)). With it: quick exits 0
    twice, thorough once (106 s), contained panics 248 -> 110 (only "Peer has no state" of removed peers);
    lib/common tests pass. It unmasks nothing else, but the rejection oracle had to stop expecting a
    rejection of INCONSISTENT oversized vote arrays (bits=10001 elems=0): those are empty arrays by ad4f98a.
  Effect on earlier mutants: M49 (setIndex bound) and similar contained runtime errors are now caught too.

c18-seeded-g-heightvoteset-catchup-budget-never-consumed | consensus/types: (meta) | YES | 1: Vote vote.vote.round "3-distinct-untracked-rounds" -> retained-state-unbounded ("after 3 messages from
  (independently seeded, /verif/seeded/C18g: HeightVoteSet.AddVote never records the catch-up round it    |  ONE peer the node tracks 3 more rounds; the budget is 2"), node-state=any, peer=any; all lengths 3..6
   grants: dead store)                                                                             |  fail (1 584 sequences); stable over two runs.

Why C18g was MISSED: (a) no case delivered more than two stored messages from one peer (single messages,
  pairs of a claim + a message); (b) the only oracle on memory was the per-delivery allocation limit - one
  RoundVoteSet is a few hundred bytes; nothing looked at what the node KEEPS.
Built (retained.go + accessors VerifC18Retained in harness/consensus, consensus/types, types): sequences of
  3..6 messages from ONE peer, and after the sequence (before any other peer speaks) the growth of
  len(roundVoteSets), len(peerCatchupRounds[peer]) and the sum of len(peerMaj23s)+len(votesByBlock) over all
  vote sets is compared with the budget of the message class (see retained_state_budgets in the evidence):
    votes for untracked rounds of the current height, any signature     <= 2 catch-up rounds, <= 2 more rounds
    VoteSetMaj23 for untracked rounds                                   0
    VoteSetMaj23 for tracked rounds, changing block ids                 1 claim + 1 tally per (round,type) per peer
    Proposal / BlockPart for unknown rounds                             0
    HasVote / NewRoundStep jumps                                        0 on the node side
  Counts (quick): 1 400 sequences (22 units), 1 144 made the node keep something, 5 worker-seconds.
  The unchanged tree (2f0de4a) keeps every budget: no unbounded per-peer store found in these classes
  (the refused third vote is visible as "no further round tracked"; tryAddVote only logs it - the peer is
  NOT dropped for ErrGotVoteFromUnwantedRound: `TODO - punish peer` in handleMsg - an observation).

c18-seeded-j-merkle-aunts-exhausted-at-depth | lib/merkle: (meta) | YES | 2: BlockPart block_part.part.proof.aunts aunts:last-k-dropped and aunts:first-k-dropped -> panic-in-handleMsg
  (independently seeded, /verif/seeded/C18j: computeHashFromAunts checks for an empty aunts list only at   |  ("slice bounds out of range [:-1]" at lib/merkle.computeHashFromAunts simple_proof.go:203), node-state=any
   the top level)                                                                                  |  (both Propose states), 24 cases each; min. case: part 3 of 4 with 1 of its 2 aunts; stable over two runs.

Why C18j was MISSED: every fixture block had ONE part (a proof without aunts, path depth 0); the aunts field
  was only mutated as an inserted field on such parts, never on a node waiting for a part set of >= 3 parts.
Built (multipart.go): in h1-propose and h2-propose the round's proposer (a key the checker holds) proposes a
  block padded with a 200 000 / 270 000-byte transaction (4 and 5 parts of the production part size 65 536;
  the part size is a constant, not lowered), then for every part index the valid part and the proof with the
  aunts list {last k dropped (every k), first k dropped, duplicated, one appended, first hash replaced};
  index/total consistent, real leaf hash. 138 cases, 0.9 worker-seconds. Unchanged tree: all rejected without
  panic (valid parts are added), exit 0.

14 of 16 caught by the quick tier (with the new runtime-error oracle M49 is expected to be caught as well: re-run mutants.sh) (exit 1, VIOLATION lines for new signatures); the two that are not
caught do not break the property as stated (contained panic = "at most the sending peer is dropped").
*/
