package main

// Targeted coupled-field groups (both tiers, every node state, fresh and known peers): fields whose
// validation is split over several checks are mutated TOGETHER, over the full product of a small
// boundary value set per field (values around 0, limit-1, limit, limit+1, max, where the limit is the
// part-set total / validator count / current round of the node state). A single-field mutation cannot
// reach code guarded by a consistency check between two fields (e.g. PartSet.AddPart compares
// part.index with part.proof.index and part.proof.total before indexing); the full pair matrix is a
// thorough-tier enumeration.

import (
	"fmt"
	"strings"

	"github.com/kardiachain/go-kardia/consensus"
	kproto "github.com/kardiachain/go-kardia/proto/kardiachain/types"
)

type cval struct {
	Class string
	Desc  string
	Node  func() *pnode // the node to put at the site (Num/F are filled by setNode)
}

type cfield struct {
	Site string // site name as produced by sitesOf (with indices)
	Vals []cval
}

type cgroup struct {
	Msg    string // seed name
	Fields []cfield
	Sign   bool // also emit the variant signed by the validator after mutation
}

func cvVarints(vals ...uint64) []cval {
	var out []cval
	seen := map[uint64]bool{}
	for _, v := range vals {
		if seen[v] {
			continue
		}
		seen[v] = true
		v := v
		out = append(out, cval{Class: varintClass(v), Desc: fmt.Sprintf("=%d", v), Node: func() *pnode { return &pnode{WT: wtVarint, V: v} }})
	}
	return out
}

// consistent bit arrays of the given sizes (all bits set)
func cvBitArrays(bits ...uint64) []cval {
	var out []cval
	seen := map[uint64]bool{}
	for _, b := range bits {
		if seen[b] {
			continue
		}
		seen[b] = true
		b := b
		elems := int((b + 63) / 64)
		out = append(out, cval{Class: bitsClass(bitsCombo{b, elems}), Desc: fmt.Sprintf("bits=%d elems=%d", b, elems), Node: func() *pnode {
			var kids []*pnode
			if b != 0 {
				kids = append(kids, &pnode{Num: 1, WT: wtVarint, V: b})
			}
			if elems > 0 {
				pk := make([]uint64, elems)
				for i := range pk {
					pk[i] = 1<<64 - 1
				}
				kids = append(kids, &pnode{Num: 2, WT: wtBytes, IsPk: true, Pk: pk})
			}
			return &pnode{WT: wtBytes, IsMsg: true, Kids: kids}
		}})
	}
	return out
}

func cvBytes(class, desc string, b []byte) cval {
	return cval{Class: class, Desc: desc, Node: func() *pnode { return &pnode{WT: wtBytes, B: append([]byte(nil), b...)} }}
}

const (
	max32 = uint64(1<<32 - 1)
	max64 = uint64(1<<64 - 1)
)

// coupledGroups builds the groups for a node state (the limits come from the node).
func coupledGroups(c *consNode) []cgroup {
	total := uint64(c.Parts.Total())
	n := uint64(nVals)
	r := uint64(c.Round)
	own := uint64(c.valIndex(c.T))
	around := func(lim uint64) []uint64 {
		v := []uint64{0}
		if lim > 0 {
			v = append(v, lim-1)
		}
		return append(v, lim, lim+1, lim+2)
	}
	idx32 := func(lim uint64) []cval { return cvVarints(append(around(lim), 1<<31, max32)...) }
	idx64 := func(lim uint64) []cval { return cvVarints(append(around(lim), 1<<31, max32, 1<<63, max64)...) }
	var addrs []cval
	for k := 0; k < nVals; k++ {
		addrs = append(addrs, cvBytes("bytes:same-length", fmt.Sprintf("address of validator key %d (index %d)", k, c.valIndex(k)), allAddrs[k].Bytes()))
	}
	addrs = append(addrs, cvBytes("bytes:same-length", "address of a non-validator", allAddrs[4].Bytes()), cvBytes("bytes:empty", "len=0", nil),
		cvBytes("bytes:shorter", "len=19", patternBytes(19, 0x11)), cvBytes("bytes:longer", "len=21", patternBytes(21, 0x11)))
	types12 := cvVarints(uint64(kproto.PrevoteType), uint64(kproto.PrecommitType))
	rounds := cvVarints(0, r, r+1)
	h := c.Height
	heights := []uint64{0, 1, 2, h, h + 1, h + 2, 1 << 63, max64 - 1, max64}
	if h >= 1 {
		heights = append(heights, h-1)
	}
	if h >= 2 {
		heights = append(heights, h-2)
	}
	gs := []cgroup{
		// the peer's claimed position: ValidateHeight couples height with last_commit_round; the gossip
		// routines compute prs.Height+1 / +2 (wrap-around), index stores by it and pick votes by round
		{Msg: "NewRoundStep", Fields: []cfield{
			{Site: "new_round_step.height", Vals: cvVarints(heights...)},
			{Site: "new_round_step.round", Vals: cvVarints(0, r, r+1, max32)},
			{Site: "new_round_step.step", Vals: cvVarints(1, 3, 8)},
			{Site: "new_round_step.last_commit_round", Vals: cvVarints(0, 1, max32)},
		}},
		// PartSet.AddPart: index < total, proof.index == index, proof.total == total, then parts[index]
		{Msg: "BlockPart", Fields: []cfield{
			{Site: "block_part.part.index", Vals: idx32(total)},
			{Site: "block_part.part.proof.index", Vals: idx64(total)},
			{Site: "block_part.part.proof.total", Vals: idx64(total)},
		}},
		// VoteSet.AddVote: index < size, address == validators[index].address, then votes[index]; PeerState.SetHasVote(index)
		{Msg: "Vote(prevote)", Sign: true, Fields: []cfield{
			{Site: "vote.vote.validator_index", Vals: cvVarints(append(around(n), own, 1<<31, max32)...)},
			{Site: "vote.vote.validator_address", Vals: addrs},
		}},
		{Msg: "Vote(precommit-nil)", Sign: true, Fields: []cfield{
			{Site: "vote.vote.validator_index", Vals: cvVarints(append(around(n), own, 1<<31, max32)...)},
			{Site: "vote.vote.validator_address", Vals: addrs},
		}},
		// setProposal: round == cs.Round, pol_round < round; PeerState.SetHasProposal copies pol_round
		{Msg: "Proposal", Sign: true, Fields: []cfield{
			{Site: "proposal.proposal.round", Vals: cvVarints(append(around(r), 1<<31, max32)...)},
			{Site: "proposal.proposal.pol_round", Vals: cvVarints(append(around(r), 1<<31, max32)...)},
		}},
		// NewValidBlock.ValidateBasic: bits == total, bits <= MaxBlockPartsCount; the array is kept in the peer state
		{Msg: "NewValidBlock", Fields: []cfield{
			{Site: "new_valid_block.block_part_set_header.total", Vals: cvVarints(append(append(around(total), around(1601)...), 1<<31, max32)...)},
			{Site: "new_valid_block.block_parts", Vals: cvBitArrays(append(append(around(total), 64, 65), around(1601)...)...)},
			{Site: "new_valid_block.is_commit", Vals: cvVarints(0, 1)},
		}},
		// PeerState.setHasVote(index) on bit arrays of the validator count
		{Msg: "HasVote", Fields: []cfield{
			{Site: "has_vote.index", Vals: cvVarints(append(around(n), 63, 64, 65, 1<<31, max32)...)},
			{Site: "has_vote.type", Vals: types12},
			{Site: "has_vote.round", Vals: rounds},
		}},
		// ApplyVoteSetBitsMessage: the sender's array against ours of the validator count
		{Msg: "VoteSetBits", Fields: []cfield{
			{Site: "vote_set_bits.votes", Vals: cvBitArrays(append(append(around(n), 64, 65), around(10000)...)...)},
			{Site: "vote_set_bits.type", Vals: types12},
			{Site: "vote_set_bits.round", Vals: rounds},
		}},
	}
	return gs
}

func findSite(root []*pnode, name string) *site {
	for _, s := range sitesOf(root, consSchema, "") {
		if s.Name == name {
			s := s
			return &s
		}
	}
	return nil
}

// genCoupled emits the full product of every group.
func genCoupled(w *worker, st, pm string, emit func(*caseT)) {
	c := w.cons.node(st)
	groups := coupledGroups(c)
	proposer, voter := c.Proposer, c.others()[0]
	seeds := w.cons.seedsFor(st)
	for _, g := range groups {
		s := seedByName(seeds, g.Msg)
		var names []string
		for _, f := range g.Fields {
			names = append(names, stripIdx(f.Site))
		}
		field := strings.Join(names, "+")
		idx := make([]int, len(g.Fields))
		for {
			root := s.Root
			var classes, descs []string
			ok := true
			for fi, f := range g.Fields {
				v := f.Vals[idx[fi]]
				at := findSite(root, f.Site)
				if at == nil {
					ok = false
					break
				}
				nd := v.Node()
				root = applyAt(root, *at, mutation{Apply: func(l []*pnode, s site) []*pnode { return setNode(l, s, nd) }})
				classes = append(classes, v.Class)
				descs = append(descs, names[fi][strings.LastIndex(names[fi], ".")+1:]+" "+v.Desc)
			}
			if ok {
				raw := encodeNodes(root)
				class, desc := strings.Join(classes, "+"), strings.Join(descs, " & ")
				emit(&caseT{Reactor: "consensus", State: st, Peer: pm, Msg: g.Msg, Kind: "coupled", Field: field, Class: class, Desc: desc, Ch: s.Home, raw: raw})
				if g.Sign {
					if signed := resign(raw, proposer, voter); signed != nil {
						emit(&caseT{Reactor: "consensus", State: st, Peer: pm, Msg: g.Msg, Kind: "coupled", Field: field, Class: class + "(signed)",
							Desc: desc + ", then signed by the validator", Ch: s.Home, raw: signed})
					}
				}
			}
			// next combination
			k := 0
			for k < len(idx) {
				idx[k]++
				if idx[k] < len(g.Fields[k].Vals) {
					break
				}
				idx[k] = 0
				k++
			}
			if k == len(idx) {
				break
			}
		}
	}
}

// genClaimed: the peer first claims a position (NewRoundStep with a height relative to the node's own
// height or at the wrap-around boundary, and the last_commit_round that passes ValidateHeight), then
// sends each message that is matched against / stored under that position. The real gossip routines
// run afterwards on the resulting peer state (catch-up branches included: the node's block store has
// or has not a commit / block meta / part for the claimed height).
func genClaimed(w *worker, st, pm string, emit func(*caseT)) {
	c := w.cons.node(st)
	h, r, n := c.Height, c.Round, uint64(nVals)
	claimed := []uint64{h, h + 1, h + 2, 1 << 63, max64 - 1, max64}
	if h >= 2 {
		claimed = append(claimed, h-1)
	}
	if h >= 3 {
		claimed = append(claimed, h-2)
	}
	total := c.Parts.Total()
	for _, ch := range claimed {
		for _, cr := range []uint32{r, r + 1} {
			nrs := &consensus.NewRoundStepMessage{Height: ch, Round: cr, Step: 3, SecondsSinceStartTime: 1}
			if ch > 1 {
				nrs.LastCommitRound = 1
			}
			pre := [][]byte{consensus.MustEncode(nrs)}
			preCh := []byte{chState}
			claim := fmt.Sprintf("after NewRoundStep(height=%d, round=%d, last_commit_round=%d)", ch, cr, nrs.LastCommitRound)
			hclass := varintClass(ch)
			if ch >= h-2 && ch <= h+2 && h >= 2 || ch <= h+2 {
				hclass = "near-own-height"
			}
			send := func(name string, home byte, field, class, desc string, m consensus.Message) {
				emit(&caseT{Reactor: "consensus", State: st, Peer: pm, Msg: name, Kind: "coupled", Field: "claimed(new_round_step.height)+" + field,
					Class: hclass + "+" + class, Desc: desc + ", " + claim, Ch: home, raw: consensus.MustEncode(m), pre: pre, preCh: preCh,
					PreMsg: "NewRoundStep", PreField: "new_round_step.height+new_round_step.round+new_round_step.last_commit_round",
					PreClass: hclass + "+" + varintClass(uint64(cr)) + "+" + varintClass(uint64(nrs.LastCommitRound)), PreDesc: claim[len("after "):]})
			}
			// the claim alone
			send("NewRoundStep", chState, "new_round_step.round", varintClass(uint64(cr)), "a second NewRoundStep(step=6) for the claimed position",
				&consensus.NewRoundStepMessage{Height: ch, Round: cr, Step: 6, SecondsSinceStartTime: 2, LastCommitRound: nrs.LastCommitRound})
			for _, commit := range []bool{false, true} {
				send("NewValidBlock", chState, "new_valid_block.height+new_valid_block.is_commit", fmt.Sprintf("claimed+%v", commit), fmt.Sprintf("NewValidBlock for the claimed height, is_commit=%v", commit),
					&consensus.NewValidBlockMessage{Height: ch, Round: cr, BlockPartsHeader: c.Parts.Header(), BlockParts: bitArray(int(total), 0), IsCommit: commit})
			}
			for _, mh := range []uint64{ch, ch - 1, ch + 1} {
				rel := map[uint64]string{ch: "claimed", ch - 1: "claimed-1", ch + 1: "claimed+1"}[mh]
				for _, t := range []kproto.SignedMsgType{kproto.PrevoteType, kproto.PrecommitType} {
					for _, idx := range []uint64{0, n - 1, n, max32} {
						send("HasVote", chState, "has_vote.height+has_vote.type+has_vote.index", fmt.Sprintf("%s+%d+%s", rel, t, varintClass(idx)),
							fmt.Sprintf("HasVote height=%d type=%d index=%d", mh, t, idx), &consensus.HasVoteMessage{Height: mh, Round: cr, Type: t, Index: uint32(idx)})
					}
					if mh != ch+1 {
						send("VoteSetBits", chBits, "vote_set_bits.height+vote_set_bits.type", fmt.Sprintf("%s+%d", rel, t), fmt.Sprintf("VoteSetBits height=%d type=%d", mh, t),
							&consensus.VoteSetBitsMessage{Height: mh, Round: cr, Type: t, BlockID: c.BlockID, Votes: bitArray(nVals, 1, 3)})
					}
				}
			}
			for _, t := range []kproto.SignedMsgType{kproto.PrevoteType, kproto.PrecommitType} {
				send("VoteSetMaj23", chState, "vote_set_maj23.height+vote_set_maj23.type", fmt.Sprintf("claimed+%d", t), fmt.Sprintf("VoteSetMaj23 height=%d type=%d", ch, t),
					&consensus.VoteSetMaj23Message{Height: ch, Round: cr, Type: t, BlockID: c.BlockID})
			}
			send("ProposalPOL", chData, "proposal_pol.height", "claimed", fmt.Sprintf("ProposalPOL height=%d", ch),
				&consensus.ProposalPOLMessage{Height: ch, ProposalPOLRound: 0, ProposalPOL: bitArray(nVals, 0, 2)})
		}
	}
}
