package main

import (
	"fmt"
	"time"

	"github.com/kardiachain/go-kardia/consensus"
)

func main() {
	t0 := time.Now()
	t := pickTarget()
	fmt.Println("target", t, time.Since(t0))
	for _, st := range allNodeStates {
		t1 := time.Now()
		c, err := newConsNode(st, t)
		if err != nil {
			fmt.Println(st, "ERR", err)
			continue
		}
		fmt.Println(st, time.Since(t1), c.Key, "proposer", c.Proposer)
		p := newMockPeer(1)
		c.ConR.InitPeer(p)
		msg := &consensus.NewRoundStepMessage{Height: c.Height, Round: c.Round, Step: 3, SecondsSinceStartTime: 1}
		if c.Height > 1 {
			msg.LastCommitRound = c.PrevRound
		}
		c.ConR.Receive(consensus.StateChannel, p, consensus.MustEncode(msg))
		ps := p.Get("ConsensusReactor.peerState")
		fmt.Println("  peer:", consensus.VerifC18PeerDigest(ps.(*consensus.PeerState)), "held:", consensus.VerifC18HeldLocks(c.ConR, ps.(*consensus.PeerState)), p.wasStopped())
		c.close()
	}
}
