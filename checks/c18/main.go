// C18: no message from a peer can crash the node.
//
// Structure-aware exhaustive small-scope enumeration (E3) of peer messages against the REAL reactors
// (consensus manager + consensus state, block sync, transaction pool, evidence, peer exchange) and the
// real MConnection packet framing. See units.go / *_units.go for the enumerated space and cons.go /
// others.go for the oracles.
//
// Process model: the parent computes the list of work units and hands them to worker processes
// (self-exec, one per CPU). A worker executes its cases one after the other in a single goroutine, so
// the allocation counter around a delivery is exact, a giant allocation or an unrecovered panic in a
// background goroutine of the code under test kills only the worker, and the parent attributes the
// death to the journalled case (re-running it alone five times before reporting it).
package main

import (
	"bufio"
	"encoding/json"
	"fmt"
	"io"
	"os"
	"os/exec"
	"path/filepath"
	"runtime"
	"runtime/debug"
	"runtime/metrics"
	"sort"
	"strconv"
	"strings"
	"sync"
	"syscall"
	"time"

	"github.com/kardiachain/go-kardia/lib/log"

	"verif/mc/report"
)

func repoRoot() string {
	if r := os.Getenv("VERIF_REPO"); r != "" {
		return r
	}
	return "/repo"
}

var allocSample = []metrics.Sample{{Name: "/gc/heap/allocs:bytes"}}

// allocBytes is the cumulative number of heap bytes allocated by this process.
func allocBytes() uint64 {
	metrics.Read(allocSample)
	return allocSample[0].Value.Uint64()
}

// ---------------------------------------------------------------------------------------------
// units of all reactors

func allUnits(thorough bool) []*unit {
	var us []*unit
	us = append(us, consUnits(thorough)...)
	us = append(us, otherUnits(thorough)...)
	// scheduling estimates (ms) measured on the unchanged tree; only the order of dispatch depends on them
	for _, u := range us {
		switch {
		case u.Kind == "byzblock":
			u.Est = 25000
		case u.Reactor == "consensus" && u.Kind == "single" && u.Msg == "Proposal" && u.Peer == peerKnown:
			u.Est = 9000
		case u.Reactor == "blockchain" && u.Kind == "bytes" && strings.HasPrefix(u.Msg, "BlockResponse"):
			u.Est = 9500
		case u.Reactor == "evidence" && u.Kind == "resigned":
			u.Est = 8000
		case u.Reactor == "txpool" && u.Kind == "resigned":
			u.Est = 7000
		case u.Reactor == "evidence" && u.Kind == "single":
			u.Est = 5500
		case u.Kind == "short" && u.Reactor == "consensus":
			u.Est = 4600
		case u.Kind == "pair":
			u.Est = 5000
		case u.Kind == "resigned":
			u.Est = 4500
		case u.Kind == "bytes":
			u.Est = 2500
		case u.Kind == "single":
			u.Est = 2000
		default:
			u.Est = 1000
		}
	}
	return us
}

// ---------------------------------------------------------------------------------------------
// worker

type worker struct {
	thorough bool
	cons     *consEnv
	oth      *otherEnv
	journal  *os.File
	out      *bufio.Writer
	unitIdx  int
	caseIdx  int
	only     int // >=0: execute only this case index of the unit
	from     int
	skip     map[int]bool
	res      *unitResult
	seenViol map[string]bool
	sinceFl  int
	buildsAt int
	capture  int // >=0: do not execute; print the case with this index
	flushAt  time.Time
	stateful bool     // the unit being run is an explicit-state search
	last     *outcome // outcome of the case emitted last (nil if it was not executed)
}

type violRec struct {
	Unit   string `json:"unit"`
	Case   *caseT `json:"case"`
	Oracle string `json:"oracle"`
	What   string `json:"what"`
}

type skippedCase struct {
	Idx  int    `json:"idx"`
	Case *caseT `json:"case"`
}

type unitResult struct {
	T          string            `json:"t"`
	Unit       int               `json:"unit"`
	Upto       int               `json:"upto"`
	WallMs     float64           `json:"wall_ms"`
	Deliveries int64             `json:"deliveries"`
	Cases      int64             `json:"cases"`
	Distinct   []string          `json:"distinct"`
	Stages     map[string]int64  `json:"stages"`
	Contained  map[string]int64  `json:"contained"`
	Viols      []violRec         `json:"viols"`
	Irrepro    []string          `json:"irrepro"`
	Samples    []json.RawMessage `json:"samples"`
	Builds     int               `json:"builds"`
	MaxAlloc   uint64            `json:"max_alloc"`
	RoundTrips int64             `json:"roundtrips"`
	Decoded    int64             `json:"decoded"`
	Notes      map[string]int64  `json:"notes"`
	Skipped    []skippedCase     `json:"skipped"`
	dset       map[string]struct{}
}

func (w *worker) writeJournalAt(idx int) {
	keep := w.caseIdx
	w.caseIdx = idx
	w.writeJournal()
	w.caseIdx = keep
}

func (w *worker) writeJournal() {
	if w.journal == nil {
		return
	}
	var b [16]byte
	for i := 0; i < 8; i++ {
		b[i] = byte(uint64(w.unitIdx) >> (8 * i))
		b[8+i] = byte(uint64(w.caseIdx) >> (8 * i))
	}
	w.journal.WriteAt(b[:], 0)
}

// execute runs the case and applies the case-level oracles that do not depend on the reactor.
func (w *worker) execute(cs *caseT) *outcome {
	out := w.execute1(cs)
	if why := expectReject(cs); why != "" {
		out.RejectExpected = true
		if !rejectedStage(out.Stage) && cs.Peer != peerGone && !(cs.Reactor == "txpool" && cs.Peer != peerKnown) {
			out.viol("invalid-accepted", "%s must be rejected (decode error, sending peer stopped, or no effect at all) but the delivery ended at stage %q", why, out.Stage)
		}
	}
	return out
}

func (w *worker) execute1(cs *caseT) *outcome {
	if cs.Kind == "roundtrip" {
		out := &outcome{Stage: "roundtrip-ok", Decoded: true}
		if pr := roundTrip(cs.Reactor, cs.bytes()); pr != "" {
			out.Stage = "roundtrip-broken"
			out.viol("roundtrip", "a well-formed %s message does not survive encode/decode: %s", cs.Msg, pr)
		}
		return out
	}
	switch cs.Reactor {
	case "consensus":
		return w.cons.run(cs)
	default:
		return w.oth.run(cs)
	}
}

func oracleSet(o *outcome) string {
	var s []string
	for _, v := range o.Viols {
		s = append(s, v.Oracle)
	}
	sort.Strings(s)
	return strings.Join(s, ",")
}

func (w *worker) emit(cs *caseT) {
	idx := w.caseIdx
	w.caseIdx++
	if w.capture >= 0 {
		if idx == w.capture {
			c := *cs
			c.freeze()
			b, _ := json.Marshal(c)
			w.out.Write(b)
			w.out.WriteByte('\n')
			w.out.Flush()
			w.capture = 1 << 60
		}
		return
	}
	w.last = nil
	if w.skip[idx] {
		// a case that killed an earlier worker: describe it for the parent, do not execute it
		c := *cs
		c.freeze()
		w.res.Skipped = append(w.res.Skipped, skippedCase{Idx: idx, Case: &c})
		return
	}
	if (w.only >= 0 && idx != w.only) || idx < w.from {
		if w.stateful && (w.only < 0 || idx < w.only) {
			// an explicit-state search needs the outcome of every earlier case to enumerate the later ones
			w.writeJournalAt(idx)
			w.last = w.execute(cs)
		}
		return
	}
	if w.sinceFl >= 1000 {
		w.flush("part", idx)
	}
	w.sinceFl++
	w.caseIdx = idx
	w.writeJournal()
	w.caseIdx = idx + 1
	out := w.execute(cs)
	w.last = out
	r := w.res
	if out.RejectExpected {
		r.Notes["rejection-expected"]++
	}
	if out.RetainedChecked {
		r.Notes["retained-checked"]++
		if out.RetainedGrew {
			r.Notes["retained-grew"]++
		}
	}
	if out.DroveRounds > 0 {
		r.Notes["drive-on-cases"]++
		r.Notes["drive-on-rounds"] += int64(out.DroveRounds)
		r.Notes["drive-on-heights"] += int64(out.DroveHeights)
	}
	if out.LateCalls > 0 {
		r.Notes["fetcher-sequences-with-a-late-request-call"]++
	}
	if out.StaleOrigin {
		r.Notes["fetcher-stale-origin-states"]++
	}
	r.Notes["gossip-runs"] += int64(out.GossipRuns)
	r.Notes["gossip-messages-sent"] += int64(out.GossipSent)
	r.Cases++
	r.Deliveries += int64(1 + len(cs.pre))
	if out.Decoded {
		r.Decoded++
	}
	if out.Alloc > r.MaxAlloc {
		r.MaxAlloc = out.Alloc
	}
	r.Stages[out.Stage]++
	if out.Contained != "" {
		site := out.Contained
		if i := strings.LastIndex(site, " at "); i >= 0 {
			site = site[i+4:]
		}
		r.Contained[cs.Reactor+"|"+cs.Msg+"|"+site]++
	}
	// distinct non-trivial case: decoded at least to the message type, or rejected at a distinct stage
	if cs.Kind == "fetcher" {
		// explicit-state search: distinct by the state reached, not by the path
		if out.StateKey != "" {
			r.dset["txpool|fetcher-state|"+out.StateKey] = struct{}{}
		}
	} else {
		r.dset[fmt.Sprintf("%s|%02x|%s|%s|%s|%s|%s|%s", cs.Reactor, cs.Ch, cs.Msg, cs.Field, cs.Class, cs.State, cs.Peer, out.Stage)] = struct{}{}
	}
	if len(r.Samples) < 1 && out.Stage != "decode-error" && out.Stage != "accepted-no-effect" && out.Stage != "roundtrip-ok" && out.Stage != "conn:error" &&
		out.Stage != "tx:ignored-unknown-peer" && cs.Kind != "valid" {
		c := *cs
		c.freeze()
		if len(c.Hex) < 1400 {
			b, _ := json.Marshal(map[string]interface{}{"case": c, "stage": out.Stage, "alloc_bytes": out.Alloc})
			r.Samples = append(r.Samples, b)
		}
	}
	if len(out.Viols) == 0 {
		return
	}
	for _, v := range out.Viols {
		if v.Oracle == "harness" {
			r.Irrepro = append(r.Irrepro, fmt.Sprintf("harness failure in %s/%s/%s: %s", cs.Reactor, cs.State, cs.Msg, v.What))
			return
		}
	}
	// confirm (5 re-executions on fresh state) the first occurrence of each class in this worker
	key := fmt.Sprintf("%s|%s|%s|%s|%s|%s|%s", cs.Reactor, cs.Msg, cs.Field, cs.Class, cs.State, cs.Peer, oracleSet(out))
	if !w.seenViol[key] {
		w.seenViol[key] = true
		want := oracleSet(out)
		for i := 0; i < 5; i++ {
			w.dropState(cs)
			again := w.execute(cs)
			if got := oracleSet(again); got != want {
				c := *cs
				c.freeze()
				b, _ := json.Marshal(c)
				r.Irrepro = append(r.Irrepro, fmt.Sprintf("violation {%s} re-executed as {%s}: %s", want, got, short(string(b), 600)))
				return
			}
		}
	}
	c := *cs
	c.freeze()
	if out.AttrPre {
		// the claim alone fails: one failure class, whatever message would have followed
		c.Msg, c.Field, c.Class, c.Desc = cs.PreMsg, cs.PreField, cs.PreClass, cs.PreDesc
	}
	for _, v := range out.Viols {
		r.Viols = append(r.Viols, violRec{Case: &c, Oracle: v.Oracle, What: v.What})
	}
}

func (w *worker) dropState(cs *caseT) {
	if cs.Reactor == "consensus" {
		w.cons.drop(cs.State)
	} else {
		w.oth.reset()
	}
}

func newUnitResult(idx int) *unitResult {
	return &unitResult{Unit: idx, Stages: map[string]int64{}, Contained: map[string]int64{}, Notes: map[string]int64{}, dset: map[string]struct{}{}}
}

// flush sends what has been accumulated so far; upto = first case index not covered.
func (w *worker) flush(kind string, upto int) {
	r := w.res
	r.T, r.Upto = kind, upto
	r.WallMs = float64(time.Since(w.flushAt).Microseconds()) / 1000
	w.flushAt = time.Now()
	r.Builds = w.cons.builds + w.oth.builds - w.buildsAt
	w.buildsAt = w.cons.builds + w.oth.builds
	for k := range r.dset {
		r.Distinct = append(r.Distinct, k)
	}
	sort.Strings(r.Distinct)
	b, _ := json.Marshal(r)
	w.out.Write(b)
	w.out.WriteByte('\n')
	w.out.Flush()
	w.res = newUnitResult(r.Unit)
	w.sinceFl = 0
}

func (w *worker) runUnit(us []*unit, idx, from, only int, skip map[int]bool) {
	u := us[idx]
	w.unitIdx, w.caseIdx, w.from, w.only, w.skip = idx, 0, from, only, skip
	w.stateful = u.Stateful
	w.res = newUnitResult(idx)
	w.sinceFl = 0
	w.flushAt = time.Now()
	w.buildsAt = w.cons.builds + w.oth.builds
	u.gen(w, u, w.emit)
	w.flush("res", w.caseIdx)
}

func setLogging() {
	// production-like: records at Info and above are formatted (into the void), Debug/Trace are filtered
	// before formatting. C18_LOG=discard turns formatting off.
	if os.Getenv("C18_LOG") == "discard" {
		log.Root().SetHandler(log.DiscardHandler())
		return
	}
	log.Root().SetHandler(log.LvlFilterHandler(log.LvlInfo, log.StreamHandler(io.Discard, log.TerminalFormat(false))))
}

func workerMain(spec string) {
	// spec: "<index>/<tier>"
	parts := strings.Split(spec, "/")
	thorough := len(parts) > 1 && parts[1] == "thorough"
	// an allocation the machine cannot serve must kill this process only, and deterministically
	lim := uint64(12 << 30)
	syscall.Setrlimit(syscall.RLIMIT_AS, &syscall.Rlimit{Cur: lim, Max: lim})
	debug.SetGCPercent(100)
	setLogging()
	w := &worker{thorough: thorough, seenViol: map[string]bool{}, only: -1, capture: -1}
	t, _ := strconv.Atoi(os.Getenv("C18_TARGET"))
	w.cons = newConsEnv(t)
	w.oth = newOtherEnv(w.cons)
	if jp := os.Getenv("C18_JOURNAL"); jp != "" {
		f, err := os.OpenFile(jp, os.O_CREATE|os.O_RDWR, 0o644)
		if err == nil {
			w.journal = f
		}
	}
	us := allUnits(thorough)
	w.out = bufio.NewWriterSize(os.Stdout, 1<<20)
	in := bufio.NewScanner(os.Stdin)
	in.Buffer(make([]byte, 1<<20), 1<<20)
	for in.Scan() {
		f := strings.Fields(in.Text())
		if len(f) == 0 {
			continue
		}
		if f[0] == "Q" {
			break
		}
		if f[0] == "C" { // print a case without executing it
			idx, _ := strconv.Atoi(f[1])
			ci, _ := strconv.Atoi(f[2])
			w.capture, w.caseIdx, w.only, w.from, w.skip = ci, 0, -1, 0, nil
			us[idx].gen(w, us[idx], w.emit)
			if w.capture == ci {
				w.out.WriteString("{}\n")
				w.out.Flush()
			}
			w.capture = -1
			continue
		}
		if f[0] == "R" { // replay a stored case
			var cs caseT
			b, _ := os.ReadFile(f[1])
			json.Unmarshal(b, &cs)
			cs.thaw()
			o := w.execute(&cs)
			ob, _ := json.Marshal(map[string]interface{}{"Stage": o.Stage, "Contained": o.Contained, "Alloc": o.Alloc, "Viols": o.Viols})
			w.out.Write(ob)
			w.out.WriteByte('\n')
			w.out.Flush()
			continue
		}
		idx, _ := strconv.Atoi(f[1])
		from, only := 0, -1
		skip := map[int]bool{}
		if len(f) > 2 {
			from, _ = strconv.Atoi(f[2])
		}
		if len(f) > 3 {
			only, _ = strconv.Atoi(f[3])
		}
		if len(f) > 4 {
			for _, x := range strings.Split(f[4], ",") {
				if n, err := strconv.Atoi(x); err == nil {
					skip[n] = true
				}
			}
		}
		w.runUnit(us, idx, from, only, skip)
	}
	os.Exit(0)
}

// ---------------------------------------------------------------------------------------------
// parent

type workerProc struct {
	id      int
	cmd     *exec.Cmd
	in      io.WriteCloser
	lines   chan []byte // output lines; closed when the process ends
	journal string
	stderr  *tailBuf
	// a worker that prints nothing for this long is killed: a handler that does not return
	hangLimit time.Duration
	hung      bool
}

const (
	hangLimitRun   = 240 * time.Second // a checkpoint (<= 1000 cases) takes seconds
	hangLimitAlone = 90 * time.Second  // one case
)

// nextLine waits for the next output line; nil if the process ended or was killed as hung.
func (wp *workerProc) nextLine() []byte {
	select {
	case l, ok := <-wp.lines:
		if !ok {
			return nil
		}
		return l
	case <-time.After(wp.hangLimit):
		wp.hung = true
		wp.cmd.Process.Kill()
		for range wp.lines {
		}
		return nil
	}
}

type tailBuf struct {
	mu sync.Mutex
	b  []byte
}

// keeps the first 8 KB (a Go crash states its reason first) and drops the rest
func (t *tailBuf) Write(p []byte) (int, error) {
	t.mu.Lock()
	if room := 8192 - len(t.b); room > 0 {
		if len(p) < room {
			room = len(p)
		}
		t.b = append(t.b, p[:room]...)
	}
	t.mu.Unlock()
	return len(p), nil
}
func (t *tailBuf) String() string { t.mu.Lock(); defer t.mu.Unlock(); return string(t.b) }

func startWorker(id int, tier string, target int) (*workerProc, error) {
	exe, _ := os.Executable()
	dir := os.Getenv("VERIF_BDIR")
	if dir == "" {
		dir = os.TempDir()
	}
	jp := filepath.Join(dir, fmt.Sprintf("c18-journal-%d-%d", os.Getpid(), id))
	os.Remove(jp)
	cmd := exec.Command(exe)
	cmd.Env = append(os.Environ(), fmt.Sprintf("C18_WORKER=%d/%s", id, tier), "C18_JOURNAL="+jp, fmt.Sprintf("C18_TARGET=%d", target), "GOMAXPROCS=2")
	in, err := cmd.StdinPipe()
	if err != nil {
		return nil, err
	}
	outp, err := cmd.StdoutPipe()
	if err != nil {
		return nil, err
	}
	tb := &tailBuf{}
	cmd.Stderr = tb
	if err := cmd.Start(); err != nil {
		return nil, err
	}
	sc := bufio.NewScanner(outp)
	sc.Buffer(make([]byte, 1<<20), 256<<20)
	wp := &workerProc{id: id, cmd: cmd, in: in, lines: make(chan []byte, 4), journal: jp, stderr: tb, hangLimit: hangLimitRun}
	go func() {
		for sc.Scan() {
			wp.lines <- append([]byte(nil), sc.Bytes()...)
		}
		close(wp.lines)
	}()
	return wp, nil
}

func (wp *workerProc) readJournal() (unit, cs int) {
	b, err := os.ReadFile(wp.journal)
	if err != nil || len(b) < 16 {
		return -1, -1
	}
	var u, c uint64
	for i := 0; i < 8; i++ {
		u |= uint64(b[i]) << (8 * i)
		c |= uint64(b[8+i]) << (8 * i)
	}
	return int(u), int(c)
}

func (wp *workerProc) stop() {
	fmt.Fprintln(wp.in, "Q")
	wp.in.Close()
	wp.cmd.Wait()
	os.Remove(wp.journal)
}

// request runs (part of) a unit and returns the partial results received; ok=false if the worker died
// (the partial results received before are still valid; upto tells where they end).
func (wp *workerProc) request(idx, from, only int, skip []int) (parts []*unitResult, upto int, ok bool) {
	var sk []string
	for _, x := range skip {
		sk = append(sk, strconv.Itoa(x))
	}
	fmt.Fprintf(wp.in, "U %d %d %d %s\n", idx, from, only, strings.Join(sk, ","))
	upto = from
	for {
		line := wp.nextLine()
		if line == nil {
			break
		}
		var r unitResult
		if err := json.Unmarshal(line, &r); err != nil {
			break
		}
		parts = append(parts, &r)
		upto = r.Upto
		if r.T == "res" {
			return parts, upto, true
		}
	}
	wp.cmd.Wait()
	return parts, upto, false
}

type deathRec struct {
	Unit   int
	Case   int
	Stderr string
	Hung   bool
}

func main() {
	if spec := os.Getenv("C18_WORKER"); spec != "" {
		workerMain(spec)
		return
	}
	if os.Getenv("C18_LIST") != "" {
		for i, u := range allUnits(os.Getenv("C18_LIST") == "thorough") {
			fmt.Println(i, u.ID, u.Est)
		}
		return
	}
	r := report.New("C18", "exploration")
	if r.ReplayPath != "" {
		replayMain(r)
		return
	}
	tier := "quick"
	if r.Thorough() {
		tier = "thorough"
		r.SetDeadline(13 * time.Minute)
	} else {
		r.SetDeadline(80 * time.Second)
	}
	setLogging()
	t0 := time.Now()
	target := pickTarget()
	us := allUnits(r.Thorough())
	order := make([]int, len(us))
	for i := range order {
		order[i] = i
	}
	sort.SliceStable(order, func(a, b int) bool { return us[order[a]].Est > us[order[b]].Est })

	nw := runtime.NumCPU()
	if s := os.Getenv("C18_WORKERS"); s != "" {
		nw, _ = strconv.Atoi(s)
	}
	if nw > len(us) {
		nw = len(us)
	}
	var mu sync.Mutex
	next := 0
	var results []*unitResult
	var deaths []deathRec
	machinery := []string{}
	expired := false
	unitsDone := 0
	var wg sync.WaitGroup
	for i := 0; i < nw; i++ {
		wg.Add(1)
		go func(id int) {
			defer wg.Done()
			wp, err := startWorker(id, tier, target)
			if err != nil {
				mu.Lock()
				machinery = append(machinery, "cannot start worker: "+err.Error())
				mu.Unlock()
				return
			}
			for {
				mu.Lock()
				if next >= len(order) || r.Expired() {
					if next < len(order) {
						expired = true
					}
					mu.Unlock()
					break
				}
				idx := order[next]
				next++
				mu.Unlock()
				from := 0
				var killers []int
				for {
					parts, upto, ok := wp.request(idx, from, -1, killers)
					mu.Lock()
					results = append(results, parts...)
					mu.Unlock()
					if ok {
						mu.Lock()
						unitsDone++
						mu.Unlock()
						if os.Getenv("C18_TIMING") != "" {
							var ms float64
							for _, p := range parts {
								ms += p.WallMs
							}
							fmt.Fprintf(os.Stderr, "T+%6.1fs worker %2d unit %-70s %8.0f ms (est %d)\n", time.Since(t0).Seconds(), id, us[idx].ID, ms, us[idx].Est)
						}
						break
					}
					// the worker died: attribute to the journalled case, continue from the last checkpoint in a new
					// worker, skipping the killer
					ju, jc := wp.readJournal()
					errTail := wp.stderr.String()
					os.Remove(wp.journal)
					mu.Lock()
					if ju != idx || jc < upto {
						machinery = append(machinery, fmt.Sprintf("worker %d died outside a journalled case (unit %d from %d, journal %d:%d): %s", id, idx, upto, ju, jc, short(errTail, 600)))
						mu.Unlock()
						return
					}
					deaths = append(deaths, deathRec{Unit: idx, Case: jc, Stderr: errTail, Hung: wp.hung})
					tooMany := len(deaths) > 100 || len(killers) > 20
					mu.Unlock()
					if tooMany {
						mu.Lock()
						machinery = append(machinery, "too many worker deaths")
						mu.Unlock()
						return
					}
					from = upto
					killers = append(killers, jc)
					wp, err = startWorker(id, tier, target)
					if err != nil {
						return
					}
				}
			}
			wp.stop()
		}(i)
	}
	wg.Wait()
	if os.Getenv("C18_TIMING") != "" {
		fmt.Fprintf(os.Stderr, "T+%6.1fs all units done\n", time.Since(t0).Seconds())
	}
	finish(r, us, results, deaths, machinery, expired, tier, target, unitsDone)
}

// keep the linker honest about packages used only in some files
var _ = time.Now
