package main

// A small protobuf wire-format tree with a schema derived by reflection from the gogo-generated Go
// types of the repository. The tree (not the Go struct) is what gets mutated: it can express every
// wire-level shape a peer can send (absent non-nullable sub-messages, inconsistent lengths, repeated
// singular fields, wrong wire types, out-of-range varints).

import (
	"encoding/binary"
	"fmt"
	"reflect"
	"sort"
	"strconv"
	"strings"
	"time"
)

const (
	wtVarint  = 0
	wtFixed64 = 1
	wtBytes   = 2
	wtFixed32 = 5
)

type fkind int

const (
	kVarint fkind = iota // uint/int/enum/bool
	kBytes               // []byte
	kString
	kMsg
	kPacked // packed repeated varint
	kFixed64
	kFixed32
)

type fieldInfo struct {
	Num      int
	Name     string
	Kind     fkind
	Bits     int // 32 or 64 for varints (Go-side width), 1 for bool
	Repeated bool
	Sub      *msgSchema
}

type msgSchema struct {
	Name   string
	Fields map[int]*fieldInfo
	order  []int
}

var schemaCache = map[reflect.Type]*msgSchema{}

var (
	timeType = reflect.TypeOf(time.Time{})
	durType  = reflect.TypeOf(time.Duration(0))
)

func timestampSchema() *msgSchema {
	return &msgSchema{Name: "Timestamp", Fields: map[int]*fieldInfo{
		1: {Num: 1, Name: "seconds", Kind: kVarint, Bits: 64},
		2: {Num: 2, Name: "nanos", Kind: kVarint, Bits: 32},
	}, order: []int{1, 2}}
}

func parseTag(tag string) (wire string, num int, name string, rep, packed, oneof bool) {
	parts := strings.Split(tag, ",")
	wire = parts[0]
	num, _ = strconv.Atoi(parts[1])
	for _, p := range parts[2:] {
		switch {
		case p == "rep":
			rep = true
		case p == "packed":
			packed = true
		case p == "oneof":
			oneof = true
		case strings.HasPrefix(p, "name="):
			name = p[5:]
		}
	}
	return
}

// schemaOf derives the schema of a generated message type (struct, not pointer).
func schemaOf(t reflect.Type) *msgSchema {
	for t.Kind() == reflect.Ptr {
		t = t.Elem()
	}
	if s, ok := schemaCache[t]; ok {
		return s
	}
	if t == timeType || t == durType {
		return timestampSchema()
	}
	s := &msgSchema{Name: t.Name(), Fields: map[int]*fieldInfo{}}
	schemaCache[t] = s
	addField := func(sf reflect.StructField) {
		tag := sf.Tag.Get("protobuf")
		if tag == "" {
			return
		}
		wire, num, name, rep, packed, _ := parseTag(tag)
		fi := &fieldInfo{Num: num, Name: name, Repeated: rep}
		ft := sf.Type
		switch wire {
		case "varint", "zigzag32", "zigzag64":
			fi.Kind = kVarint
			et := ft
			if et.Kind() == reflect.Slice {
				et = et.Elem()
				if packed || true { // proto3 repeated scalars are packed by default
					fi.Kind = kPacked
				}
			}
			switch et.Kind() {
			case reflect.Bool:
				fi.Bits = 1
			case reflect.Int32, reflect.Uint32:
				fi.Bits = 32
			default:
				fi.Bits = 64
			}
		case "fixed64":
			fi.Kind = kFixed64
		case "fixed32":
			fi.Kind = kFixed32
		case "bytes":
			et := ft
			if et.Kind() == reflect.Slice && et.Elem().Kind() != reflect.Uint8 {
				et = et.Elem() // repeated
			}
			for et.Kind() == reflect.Ptr {
				et = et.Elem()
			}
			switch {
			case et.Kind() == reflect.String:
				fi.Kind = kString
			case et.Kind() == reflect.Slice && et.Elem().Kind() == reflect.Uint8:
				fi.Kind = kBytes
			case et.Kind() == reflect.Struct || et.Kind() == reflect.Int64:
				fi.Kind = kMsg
				fi.Sub = schemaOf(et)
			default:
				fi.Kind = kBytes
			}
		default:
			fi.Kind = kBytes
		}
		s.Fields[num] = fi
	}
	for i := 0; i < t.NumField(); i++ {
		sf := t.Field(i)
		if sf.Tag.Get("protobuf_oneof") != "" {
			// wrappers
			m, ok := reflect.PtrTo(t).MethodByName("XXX_OneofWrappers")
			if !ok {
				continue
			}
			out := m.Func.Call([]reflect.Value{reflect.New(t)})
			for _, w := range out[0].Interface().([]interface{}) {
				wt := reflect.TypeOf(w).Elem()
				for j := 0; j < wt.NumField(); j++ {
					addField(wt.Field(j))
				}
			}
			continue
		}
		addField(sf)
	}
	for n := range s.Fields {
		s.order = append(s.order, n)
	}
	sort.Ints(s.order)
	return s
}

// ---------------------------------------------------------------------------------------------
// tree

type pnode struct {
	Num   int
	WT    int
	V     uint64   // varint / fixed
	B     []byte   // bytes payload (when Kids == nil and Packed == nil)
	Kids  []*pnode // parsed sub-message
	IsMsg bool
	Pk    []uint64 // packed varints
	IsPk  bool
	F     *fieldInfo
	Off   int // offset of the field's tag in the original encoding of the enclosing buffer (absolute)
	End   int
}

func appendVarint(b []byte, v uint64) []byte {
	var tmp [10]byte
	n := binary.PutUvarint(tmp[:], v)
	return append(b, tmp[:n]...)
}

func encodeNodes(ns []*pnode) []byte {
	var out []byte
	for _, n := range ns {
		out = appendVarint(out, uint64(n.Num)<<3|uint64(n.WT))
		switch n.WT {
		case wtVarint:
			out = appendVarint(out, n.V)
		case wtFixed64:
			var t [8]byte
			binary.LittleEndian.PutUint64(t[:], n.V)
			out = append(out, t[:]...)
		case wtFixed32:
			var t [4]byte
			binary.LittleEndian.PutUint32(t[:], uint32(n.V))
			out = append(out, t[:]...)
		case wtBytes:
			var pl []byte
			switch {
			case n.IsMsg:
				pl = encodeNodes(n.Kids)
			case n.IsPk:
				for _, v := range n.Pk {
					pl = appendVarint(pl, v)
				}
			default:
				pl = n.B
			}
			out = appendVarint(out, uint64(len(pl)))
			out = append(out, pl...)
		}
	}
	return out
}

// parseNodes parses b (which starts at absolute offset base of the whole message) with the schema.
func parseNodes(b []byte, s *msgSchema, base int) ([]*pnode, error) {
	var out []*pnode
	i := 0
	for i < len(b) {
		start := i
		key, n := binary.Uvarint(b[i:])
		if n <= 0 {
			return nil, fmt.Errorf("bad tag at %d", base+i)
		}
		i += n
		nd := &pnode{Num: int(key >> 3), WT: int(key & 7), Off: base + start}
		if s != nil {
			nd.F = s.Fields[nd.Num]
		}
		switch nd.WT {
		case wtVarint:
			v, n := binary.Uvarint(b[i:])
			if n <= 0 {
				return nil, fmt.Errorf("bad varint at %d", base+i)
			}
			nd.V = v
			i += n
		case wtFixed64:
			if i+8 > len(b) {
				return nil, fmt.Errorf("short fixed64")
			}
			nd.V = binary.LittleEndian.Uint64(b[i:])
			i += 8
		case wtFixed32:
			if i+4 > len(b) {
				return nil, fmt.Errorf("short fixed32")
			}
			nd.V = uint64(binary.LittleEndian.Uint32(b[i:]))
			i += 4
		case wtBytes:
			l, n := binary.Uvarint(b[i:])
			if n <= 0 || i+n+int(l) > len(b) {
				return nil, fmt.Errorf("bad length at %d", base+i)
			}
			i += n
			pl := b[i : i+int(l)]
			if nd.F != nil && nd.F.Kind == kMsg {
				kids, err := parseNodes(pl, nd.F.Sub, base+i)
				if err != nil {
					return nil, err
				}
				nd.Kids, nd.IsMsg = kids, true
			} else if nd.F != nil && nd.F.Kind == kPacked {
				nd.IsPk = true
				j := 0
				for j < len(pl) {
					v, n := binary.Uvarint(pl[j:])
					if n <= 0 {
						return nil, fmt.Errorf("bad packed varint")
					}
					nd.Pk = append(nd.Pk, v)
					j += n
				}
			} else {
				nd.B = append([]byte(nil), pl...)
			}
			i += int(l)
		default:
			return nil, fmt.Errorf("unsupported wire type %d at %d", nd.WT, base+start)
		}
		nd.End = base + i
		out = append(out, nd)
	}
	return out, nil
}

func cloneNodes(ns []*pnode) []*pnode {
	out := make([]*pnode, len(ns))
	for i, n := range ns {
		c := *n
		if n.IsMsg {
			c.Kids = cloneNodes(n.Kids)
		}
		if n.IsPk {
			c.Pk = append([]uint64(nil), n.Pk...)
		}
		out[i] = &c
	}
	return out
}

// ---------------------------------------------------------------------------------------------
// mutation sites and mutations

// A site is a schema field of one message instance in the tree: path of child indices to the
// enclosing message node (nil = root) plus the field number. The field may be present or absent.
type site struct {
	Path  []int // indices into Kids at each level, leading to the enclosing message
	F     *fieldInfo
	Idx   int    // index of the (first) node with that field number in the enclosing list, -1 if absent
	Name  string // dotted field path, e.g. "BlockPart.part.proof.total"
	Depth int
	InBA  bool // the field belongs to a BitArray message (bits / elems)
}

func collectSites(ns []*pnode, s *msgSchema, path []int, prefix string, out *[]site) {
	if s == nil {
		return
	}
	for _, num := range s.order {
		f := s.Fields[num]
		idx := -1
		for i, n := range ns {
			if n.Num == num {
				idx = i
				break
			}
		}
		name := prefix + f.Name
		*out = append(*out, site{Path: append([]int(nil), path...), F: f, Idx: idx, Name: name, Depth: len(path), InBA: s.Name == "BitArray"})
		if f.Kind == kMsg {
			// descend into every present instance (repeated fields: the first two instances)
			seen := 0
			for i, n := range ns {
				if n.Num == num && n.IsMsg {
					if seen >= 2 {
						break
					}
					pn := name
					if f.Repeated {
						pn = fmt.Sprintf("%s[%d]", name, seen)
					}
					collectSites(n.Kids, f.Sub, append(append([]int(nil), path...), i), pn+".", out)
					seen++
				}
			}
		}
	}
}

// oneofTop restricts the top-level sites of a oneof-wrapper message to the member that is present.
func sitesOf(ns []*pnode, s *msgSchema, rootName string) []site {
	var all []site
	collectSites(ns, s, nil, "", &all)
	return all
}

type mutation struct {
	Class string                                // coarse class used in signatures
	Desc  string                                // exact description
	Apply func(list []*pnode, st site) []*pnode // returns the new enclosing list
}

func listAt(root []*pnode, path []int) []*pnode {
	cur := root
	for _, i := range path {
		cur = cur[i].Kids
	}
	return cur
}

// applyAt clones the tree, applies m at site st and returns the new root list.
func applyAt(root []*pnode, st site, m mutation) []*pnode {
	r := cloneNodes(root)
	if len(st.Path) == 0 {
		return m.Apply(r, st)
	}
	// find the parent node of the enclosing list
	cur := r
	var parent *pnode
	for _, i := range st.Path {
		parent = cur[i]
		cur = parent.Kids
	}
	parent.Kids = m.Apply(cur, st)
	return r
}

func removeField(list []*pnode, num int) []*pnode {
	var out []*pnode
	for _, n := range list {
		if n.Num != num {
			out = append(out, n)
		}
	}
	return out
}

func setNode(list []*pnode, st site, nd *pnode) []*pnode {
	nd.Num = st.F.Num
	nd.F = st.F
	if st.Idx >= 0 {
		// replace the first instance, keep position
		out := append([]*pnode(nil), list...)
		out[st.Idx] = nd
		return out
	}
	// insert keeping field-number order
	out := append([]*pnode(nil), list...)
	pos := len(out)
	for i, n := range out {
		if n.Num > nd.Num {
			pos = i
			break
		}
	}
	out = append(out, nil)
	copy(out[pos+1:], out[pos:])
	out[pos] = nd
	return out
}

func varintClass(v uint64) string {
	switch {
	case v == 0:
		return "varint:0"
	case v <= 5:
		return "varint:small"
	default:
		return "varint:large"
	}
}

var varintValues = []uint64{0, 1, 2, 3, 4, 5, 63, 64, 65, 10000, 10001, 65535, 65536, 65537, 1<<31 - 1, 1 << 31, 1<<32 - 1, 1 << 32, 1<<63 - 1, 1 << 63, 1<<64 - 2, 1<<64 - 1}
var varintValuesShort = []uint64{0, 1, 2, 3, 5, 64, 10001, 1 << 31, 1<<32 - 1, 1 << 63, 1<<64 - 2, 1<<64 - 1}

func patternBytes(n int, seed byte) []byte {
	b := make([]byte, n)
	for i := range b {
		b[i] = seed + byte(i*7)
	}
	return b
}

var byteLens = []int{0, 1, 19, 20, 21, 31, 32, 33, 64, 65, 66, 65536, 65537}
var byteLensShort = []int{0, 1, 20, 32, 33, 64, 65, 66, 65537}

func bytesClass(n, orig int) string {
	switch {
	case n == 0:
		return "bytes:empty"
	case n < orig:
		return "bytes:shorter"
	case n == orig:
		return "bytes:same-length"
	default:
		return "bytes:longer"
	}
}

type bitsCombo struct {
	bits  uint64
	elems int
}

// bit-array shapes: bits in {0,1,4,5,64,65,10000,10001,2^31,2^32-1,2^63,2^64-1} x elems in {0,1,2,157}
func bitCombos(short bool) []bitsCombo {
	bitsV := []uint64{0, 1, 4, 5, 64, 65, 10000, 10001, 1 << 31, 1<<32 - 1, 1 << 63, 1<<64 - 1}
	elemsV := []int{0, 1, 2, 157}
	if short {
		bitsV = []uint64{0, 1, 4, 65, 10001, 1 << 31, 1 << 63}
		elemsV = []int{0, 1, 2}
	}
	var out []bitsCombo
	for _, b := range bitsV {
		for _, e := range elemsV {
			out = append(out, bitsCombo{b, e})
		}
	}
	return out
}

// bitsClass: a bit array is consistent when it has exactly ceil(bits/64) element words.
func bitsClass(c bitsCombo) string {
	switch {
	case c.bits == 0 && c.elems == 0:
		return "bitarray:empty"
	case c.bits < 1<<62 && (c.bits+63)/64 == uint64(c.elems):
		return "bitarray:consistent"
	default:
		return "bitarray:bits/elems-inconsistent"
	}
}

// mutate applies m at st and returns the encoding plus the (field, class) used in signatures. A
// mutation of the bits or elems field of a bit array is named after the array and classified by the
// consistency of the resulting array, so that one defect does not fan out over many signatures.
func mutate(root []*pnode, st site, m mutation) (raw []byte, field, class string) {
	r2 := applyAt(root, st, m)
	raw = encodeNodes(r2)
	field, class = stripIdx(st.Name), m.Class
	if st.InBA && len(st.Path) > 0 {
		if i := strings.LastIndex(field, "."); i > 0 {
			field = field[:i]
		}
		var bits uint64
		elems := 0
		ok := true
		for _, n := range listAt(r2, st.Path) {
			switch {
			case n.Num == 1 && n.WT == wtVarint:
				bits = n.V
			case n.Num == 2 && n.IsPk:
				elems += len(n.Pk)
			default:
				ok = false
			}
		}
		if ok {
			class = bitsClass(bitsCombo{bits, elems})
		} else {
			class = "bitarray:malformed"
		}
	}
	return raw, field, class
}

// mutationsFor lists the single-field mutations of a site. short selects the reduced value sets (used
// for pairs).
func mutationsFor(st site, root []*pnode, short bool) []mutation {
	var ms []mutation
	f := st.F
	present := st.Idx >= 0
	if present {
		// proto3: an absent scalar is its zero value
		absentClass := "absent"
		switch f.Kind {
		case kVarint, kFixed32, kFixed64:
			absentClass = "varint:0"
		case kBytes, kString:
			absentClass = "bytes:empty"
		}
		ms = append(ms, mutation{Class: absentClass, Desc: "field removed", Apply: func(l []*pnode, s site) []*pnode { return removeField(l, s.F.Num) }})
		ms = append(ms, mutation{Class: "duplicated", Desc: "field sent twice", Apply: func(l []*pnode, s site) []*pnode {
			out := append([]*pnode(nil), l...)
			c := cloneNodes([]*pnode{l[s.Idx]})[0]
			return append(out, c)
		}})
	}
	switch f.Kind {
	case kVarint:
		vals := varintValues
		if short {
			vals = varintValuesShort
		}
		for _, v := range vals {
			v := v
			if f.Bits == 1 && v > 3 && v != 1<<64-1 {
				continue
			}
			ms = append(ms, mutation{Class: varintClass(v), Desc: fmt.Sprintf("=%d", v), Apply: func(l []*pnode, s site) []*pnode {
				return setNode(l, s, &pnode{WT: wtVarint, V: v})
			}})
		}
		if !short {
			ms = append(ms, mutation{Class: "wiretype", Desc: "varint field sent as bytes", Apply: func(l []*pnode, s site) []*pnode {
				return setNode(l, s, &pnode{WT: wtBytes, B: []byte{1, 2, 3}})
			}})
		}
	case kFixed64, kFixed32:
		for _, v := range []uint64{0, 1, 1 << 31, 1<<64 - 1} {
			v := v
			wt := wtFixed64
			if f.Kind == kFixed32 {
				wt = wtFixed32
			}
			ms = append(ms, mutation{Class: varintClass(v), Desc: fmt.Sprintf("fixed=%d", v), Apply: func(l []*pnode, s site) []*pnode {
				return setNode(l, s, &pnode{WT: wt, V: v})
			}})
		}
	case kBytes, kString:
		orig := 0
		var origB []byte
		if present {
			origB = listAt(root, st.Path)[st.Idx].B
			orig = len(origB)
		}
		lens := byteLens
		if short {
			lens = byteLensShort
		}
		for _, n := range lens {
			n := n
			ms = append(ms, mutation{Class: bytesClass(n, orig), Desc: fmt.Sprintf("len=%d (pattern)", n), Apply: func(l []*pnode, s site) []*pnode {
				return setNode(l, s, &pnode{WT: wtBytes, B: patternBytes(n, 0x11)})
			}})
		}
		if present && orig > 0 && !short {
			ob := origB
			ms = append(ms, mutation{Class: "bytes:shorter", Desc: "original minus last byte", Apply: func(l []*pnode, s site) []*pnode {
				return setNode(l, s, &pnode{WT: wtBytes, B: append([]byte(nil), ob[:len(ob)-1]...)})
			}})
			ms = append(ms, mutation{Class: "bytes:longer", Desc: "original plus one byte", Apply: func(l []*pnode, s site) []*pnode {
				return setNode(l, s, &pnode{WT: wtBytes, B: append(append([]byte(nil), ob...), 0x01)})
			}})
			ms = append(ms, mutation{Class: "bytes:same-length", Desc: "original with first byte flipped", Apply: func(l []*pnode, s site) []*pnode {
				c := append([]byte(nil), ob...)
				c[0] ^= 0xff
				return setNode(l, s, &pnode{WT: wtBytes, B: c})
			}})
			ms = append(ms, mutation{Class: "bytes:same-length", Desc: "all zero", Apply: func(l []*pnode, s site) []*pnode {
				return setNode(l, s, &pnode{WT: wtBytes, B: make([]byte, len(ob))})
			}})
			ms = append(ms, mutation{Class: "bytes:same-length", Desc: "all 0xff", Apply: func(l []*pnode, s site) []*pnode {
				c := make([]byte, len(ob))
				for i := range c {
					c[i] = 0xff
				}
				return setNode(l, s, &pnode{WT: wtBytes, B: c})
			}})
		}
		if !short {
			ms = append(ms, mutation{Class: "wiretype", Desc: "bytes field sent as varint", Apply: func(l []*pnode, s site) []*pnode {
				return setNode(l, s, &pnode{WT: wtVarint, V: 7})
			}})
		}
	case kPacked:
		for _, n := range []int{0, 1, 2, 157, 16384} {
			n := n
			if short && n > 2 {
				continue
			}
			ms = append(ms, mutation{Class: "packed:len", Desc: fmt.Sprintf("%d elements", n), Apply: func(l []*pnode, s site) []*pnode {
				pk := make([]uint64, n)
				for i := range pk {
					pk[i] = 1<<64 - 1
				}
				return setNode(l, s, &pnode{WT: wtBytes, IsPk: true, Pk: pk})
			}})
		}
	case kMsg:
		ms = append(ms, mutation{Class: "submsg:empty", Desc: "empty sub-message", Apply: func(l []*pnode, s site) []*pnode {
			return setNode(l, s, &pnode{WT: wtBytes, IsMsg: true})
		}})
		if !short {
			ms = append(ms, mutation{Class: "submsg:garbage", Desc: "sub-message = 0xff", Apply: func(l []*pnode, s site) []*pnode {
				return setNode(l, s, &pnode{WT: wtBytes, B: []byte{0xff}})
			}})
			ms = append(ms, mutation{Class: "submsg:unknown-field", Desc: "sub-message with only an unknown field 1000", Apply: func(l []*pnode, s site) []*pnode {
				return setNode(l, s, &pnode{WT: wtBytes, IsMsg: true, Kids: []*pnode{{Num: 1000, WT: wtVarint, V: 1}}})
			}})
			ms = append(ms, mutation{Class: "wiretype", Desc: "message field sent as varint", Apply: func(l []*pnode, s site) []*pnode {
				return setNode(l, s, &pnode{WT: wtVarint, V: 7})
			}})
		}
		if f.Repeated && present && !short {
			for _, n := range []int{0, 2, 3, 10001} {
				n := n
				ms = append(ms, mutation{Class: "repeated:count", Desc: fmt.Sprintf("%d copies of the first element", n), Apply: func(l []*pnode, s site) []*pnode {
					first := l[s.Idx]
					out := removeField(l, s.F.Num)
					for i := 0; i < n; i++ {
						out = append(out, cloneNodes([]*pnode{first})[0])
					}
					return out
				}})
			}
		}
		if f.Sub != nil && f.Sub.Name == "BitArray" {
			for _, c := range bitCombos(short) {
				c := c
				ms = append(ms, mutation{Class: bitsClass(c), Desc: fmt.Sprintf("bits=%d elems=%d", c.bits, c.elems), Apply: func(l []*pnode, s site) []*pnode {
					var kids []*pnode
					if c.bits != 0 {
						kids = append(kids, &pnode{Num: 1, WT: wtVarint, V: c.bits})
					}
					if c.elems > 0 {
						pk := make([]uint64, c.elems)
						for i := range pk {
							pk[i] = 1<<64 - 1
						}
						kids = append(kids, &pnode{Num: 2, WT: wtBytes, IsPk: true, Pk: pk})
					}
					return setNode(l, s, &pnode{WT: wtBytes, IsMsg: true, Kids: kids})
				}})
			}
		}
	}
	return ms
}

// fieldAtOffset names the deepest known field whose encoding covers byte offset off.
func fieldAtOffset(ns []*pnode, prefix string, off int) string {
	for _, n := range ns {
		if off >= n.Off && off < n.End {
			name := prefix + "#" + strconv.Itoa(n.Num)
			if n.F != nil {
				name = prefix + n.F.Name
			}
			if n.IsMsg {
				if d := fieldAtOffset(n.Kids, name+".", off); d != "" {
					return d
				}
			}
			return name
		}
	}
	return ""
}

func stripIdx(name string) string {
	// "evidence[0].vote_a.height" -> "evidence.vote_a.height"
	var sb strings.Builder
	skip := false
	for _, c := range name {
		switch {
		case c == '[':
			skip = true
		case c == ']':
			skip = false
		case !skip:
			sb.WriteRune(c)
		}
	}
	return sb.String()
}
