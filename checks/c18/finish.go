package main

// Aggregation of the workers' results into the report: counters, the distinct-case set, violation
// signatures (derived mechanically from the failing cases), worker deaths, vacuity guards; and replay.

import (
	"encoding/json"
	"fmt"
	"os"
	"sort"
	"strings"
	"sync"

	"verif/mc/report"
)

type vgroup struct {
	Reactor, Msg, Field, Class, Oracle string
	Ch                                 byte
	Kind                               string
	States, Peers                      map[string]bool
	Count                              int
	What                               string
	Case                               *caseT
	Family                             string
}

func familyOf(u *unit) string { return u.Reactor + "|" + u.Kind + "|" + u.Msg }

func setStr(have map[string]bool, full map[string]bool) string {
	var l []string
	for k := range have {
		l = append(l, k)
	}
	sort.Strings(l)
	all := len(full) > 1
	for k := range full {
		if !have[k] {
			all = false
		}
	}
	if all {
		return "any"
	}
	// the shorter of the list and its complement
	var missing []string
	for k := range full {
		if !have[k] {
			missing = append(missing, k)
		}
	}
	sort.Strings(missing)
	if len(full) > 1 && len(missing) > 0 && len(missing) < len(l) {
		return "all-but(" + strings.Join(missing, "+") + ")"
	}
	return strings.Join(l, "+")
}

func caseLess(a, b *caseT) bool {
	if len(a.Hex) != len(b.Hex) {
		return len(a.Hex) < len(b.Hex)
	}
	if a.State != b.State {
		return a.State < b.State
	}
	if a.Peer != b.Peer {
		return a.Peer < b.Peer
	}
	if a.Hex != b.Hex {
		return a.Hex < b.Hex
	}
	if a.Class != b.Class {
		return a.Class < b.Class
	}
	return a.Desc < b.Desc
}

func primaryKind(k string) bool {
	return k == "multipart" || k == "retained" || k == "drive-on" || k == "fetcher" || k == "single" || k == "valid" || k == "resigned" || k == "byzblock" || k == "framing" || k == "roundtrip" || k == "rehashed" || k == "second-claim" || k == "pol-sequence"
}

func finish(r *report.Run, us []*unit, results []*unitResult, deaths []deathRec, machinery []string, expired bool, tier string, target int, unitsDone int) {
	famStates := map[string]map[string]bool{}
	famPeers := map[string]map[string]bool{}
	for _, u := range us {
		f := familyOf(u)
		if famStates[f] == nil {
			famStates[f], famPeers[f] = map[string]bool{}, map[string]bool{}
		}
		famStates[f][u.State] = true
		famPeers[f][u.Peer] = true
	}
	stages := map[string]int64{}
	contained := map[string]int64{}
	var containedTotal, builds, cases, decoded int64
	var maxAlloc uint64
	groups := map[string]*vgroup{}
	var irrepro []string
	notes := map[string]int64{}
	perReactor := map[string]int64{}
	var samples []json.RawMessage
	sampleOf := map[string]json.RawMessage{}
	statesSeen := map[string]bool{}
	wallKind := map[string]float64{}
	casesKind := map[string]int64{}
	for _, res := range results {
		u := us[res.Unit]
		wallKind[u.Reactor+"/"+u.Kind] += res.WallMs / 1000
		casesKind[u.Reactor+"/"+u.Kind] += res.Cases
		r.Add("evaluations", res.Deliveries)
		perReactor[u.Reactor] += res.Deliveries
		cases += res.Cases
		decoded += res.Decoded
		builds += int64(res.Builds)
		if res.MaxAlloc > maxAlloc {
			maxAlloc = res.MaxAlloc
		}
		for _, k := range res.Distinct {
			r.Distinct("distinct_nontrivial", k)
		}
		for k, v := range res.Stages {
			stages[k] += v
		}
		for k, v := range res.Notes {
			notes[k] += v
		}
		for k, v := range res.Contained {
			contained[k] += v
			containedTotal += v
		}
		if res.Cases > 0 {
			statesSeen[u.Reactor+"/"+u.State] = true
		}
		irrepro = append(irrepro, res.Irrepro...)
		if len(res.Samples) > 0 && sampleOf[u.Reactor+"/"+u.Kind] == nil {
			sampleOf[u.Reactor+"/"+u.Kind] = res.Samples[0]
		}
		for _, v := range res.Viols {
			c := v.Case
			gk := fmt.Sprintf("%s|%02x|%s|%s|%s|%s", c.Reactor, c.Ch, c.Msg, c.Field, c.Class, v.Oracle)
			if c.Kind == "fetcher" {
				// an explicit-state search reports one failure class per oracle, named after the shortest (then
				// lexicographically first) failing event sequence
				gk = fmt.Sprintf("%s|%02x|%s|%s|%s|%s", c.Reactor, c.Ch, c.Msg, "-", "*sequence*", v.Oracle)
			}
			if c.Kind == "retained" {
				gk = fmt.Sprintf("%s|%02x|%s|%s|%s|%s", c.Reactor, c.Ch, c.Msg, c.Field, "*retained*", v.Oracle)
			}
			if c.Kind == "drive-on" {
				gk = fmt.Sprintf("%s|%02x|%s|%s|%s|%s", c.Reactor, c.Ch, c.Msg, c.Field, "*drive-on*", v.Oracle)
			}
			if c.Kind == "coupled" {
				// a coupled group is one failure class per (message, field group, oracle): the mutation class of the
				// signature is the one of the minimal failing case (the enumeration is exhaustive and deterministic)
				gk = fmt.Sprintf("%s|%02x|%s|%s|%s|%s", c.Reactor, c.Ch, c.Msg, c.Field, "*coupled*", v.Oracle)
			}
			g := groups[gk]
			if g == nil {
				g = &vgroup{Reactor: c.Reactor, Msg: c.Msg, Field: c.Field, Class: c.Class, Oracle: v.Oracle, Ch: c.Ch, Kind: c.Kind, States: map[string]bool{}, Peers: map[string]bool{},
					What: v.What, Case: c, Family: familyOf(u)}
				groups[gk] = g
			}
			g.Count++
			g.States[c.State] = true
			g.Peers[c.Peer] = true
			if caseLess(c, g.Case) {
				g.Case, g.What = c, v.What
				if c.Kind == "coupled" || c.Kind == "fetcher" || c.Kind == "drive-on" || c.Kind == "retained" {
					g.Class = c.Class
				}
			}
		}
	}
	// worker deaths: the restarted workers described the killer cases; the first death of each class is
	// re-executed alone five times in fresh processes (in parallel), all five must die
	if len(deaths) > 0 {
		killers := map[string]*caseT{}
		for _, res := range results {
			for _, sk := range res.Skipped {
				killers[fmt.Sprintf("%d:%d", res.Unit, sk.Idx)] = sk.Case
			}
		}
		sort.Slice(deaths, func(i, j int) bool {
			if deaths[i].Unit != deaths[j].Unit {
				return deaths[i].Unit < deaths[j].Unit
			}
			return deaths[i].Case < deaths[j].Case
		})
		type dgroup struct {
			first  deathRec
			cs     *caseT
			states map[string]bool
			peers  map[string]bool
			count  int
			fam    string
		}
		dgs := map[string]*dgroup{}
		var order []string
		for _, d := range deaths {
			cs := killers[fmt.Sprintf("%d:%d", d.Unit, d.Case)]
			if cs == nil {
				machinery = append(machinery, fmt.Sprintf("a worker died at unit %s case %d but the case was not described by the restarted worker", us[d.Unit].ID, d.Case))
				continue
			}
			gk := fmt.Sprintf("%s|%02x|%s|%s|%s", cs.Reactor, cs.Ch, cs.Msg, cs.Field, cs.Class)
			g := dgs[gk]
			if g == nil {
				g = &dgroup{first: d, cs: cs, states: map[string]bool{}, peers: map[string]bool{}, fam: familyOf(us[d.Unit])}
				dgs[gk] = g
				order = append(order, gk)
			}
			g.count++
			g.states[cs.State] = true
			g.peers[cs.Peer] = true
		}
		type conf struct {
			died int
			tail string
		}
		confs := make([]conf, len(order))
		var wg sync.WaitGroup
		sem := make(chan struct{}, 8)
		for i, gk := range order {
			wg.Add(1)
			go func(i int, g *dgroup) {
				defer wg.Done()
				sem <- struct{}{}
				defer func() { <-sem }()
				n := 5
				if g.first.Hung {
					n = 2 // each re-execution of a hang costs the whole single-case budget
				}
				died, tail := rerunAlone(g.first.Unit, g.first.Case, tier, target, n, i)
				if g.first.Hung && died == n {
					died = 5
				}
				confs[i] = conf{died, tail}
			}(i, dgs[gk])
		}
		wg.Wait()
		for i, gk := range order {
			g := dgs[gk]
			if confs[i].died != 5 {
				irrepro = append(irrepro, fmt.Sprintf("worker death at unit %s case %d reproduced %d/5 times: %s", us[g.first.Unit].ID, g.first.Case, confs[i].died, short(confs[i].tail, 300)))
				continue
			}
			why := deathReason(confs[i].tail)
			if g.first.Hung {
				why = "no-return"
			}
			cs := g.cs
			k := fmt.Sprintf("%s|%02x|%s|%s|%s|%s", cs.Reactor, cs.Ch, cs.Msg, cs.Field, cs.Class, "process-death:"+why)
			groups[k] = &vgroup{Reactor: cs.Reactor, Msg: cs.Msg, Field: cs.Field, Class: cs.Class, Oracle: "process-death:" + why, Ch: cs.Ch, Kind: cs.Kind, States: g.states, Peers: g.peers,
				What: deathWhat(g.first.Hung) + short(firstLines(confs[i].tail, 3), 400), Case: cs, Family: g.fam, Count: g.count}
		}
		r.Set("worker_deaths", len(deaths))
	}
	// drop derived-enumeration groups that are subsumed by a primary (single-field) group
	prim := map[string][]*vgroup{}
	coupledPrim := map[string][]*vgroup{}
	for _, g := range groups {
		if g.Kind == "coupled" {
			k := g.Reactor + "|" + strings.SplitN(g.Msg, "(", 2)[0] + "|" + g.Oracle
			coupledPrim[k] = append(coupledPrim[k], g)
			continue
		}
		if primaryKind(g.Kind) {
			k := g.Reactor + "|" + strings.SplitN(g.Msg, "(", 2)[0] + "|" + g.Oracle
			prim[k] = append(prim[k], g)
		}
	}
	subsumed := 0
	var keys []string
	// coupled groups against single-field groups of the same message and oracle: whichever fails in strictly
	// more node states names the defect (a coupled group contains the single-field values); coupled groups
	// over a subset of another coupled group's fields are folded into it
	dropped := map[*vgroup]bool{}
	fieldSet := func(g *vgroup) map[string]bool {
		m := map[string]bool{}
		for _, f := range strings.Split(g.Field, "+") {
			m[f] = true
		}
		return m
	}
	covers := func(a, b *vgroup) bool { // a's node states and peers include b's
		for s := range b.States {
			if !a.States[s] {
				return false
			}
		}
		for s := range b.Peers {
			if !a.Peers[s] {
				return false
			}
		}
		return true
	}
	var ckeys []string
	for k, g := range groups {
		if g.Kind == "coupled" {
			ckeys = append(ckeys, k)
		}
	}
	sort.Strings(ckeys)
	for _, k := range ckeys {
		g := groups[k]
		k2 := g.Reactor + "|" + strings.SplitN(g.Msg, "(", 2)[0] + "|" + g.Oracle
		fs := fieldSet(g)
		for _, p := range prim[k2] {
			if !fs[p.Field] {
				continue
			}
			if covers(g, p) && len(g.States) > len(p.States) {
				dropped[p] = true
			} else {
				dropped[g] = true
			}
		}
	}
	for _, k := range ckeys {
		g := groups[k]
		if dropped[g] {
			continue
		}
		k2 := g.Reactor + "|" + strings.SplitN(g.Msg, "(", 2)[0] + "|" + g.Oracle
		fs := fieldSet(g)
		for _, q := range coupledPrim[k2] {
			if q == g || dropped[q] {
				continue
			}
			qs := fieldSet(q)
			sub := len(fs) < len(qs)
			for f := range fs {
				if !qs[f] {
					sub = false
				}
			}
			if sub && covers(q, g) {
				dropped[g] = true
			}
		}
	}
	// the same failure on several channel ids is one failure: keep the channel with the most node states
	best := map[string]*vgroup{}
	for _, g := range groups {
		k := fmt.Sprintf("%s|%s|%s|%s|%s", g.Reactor, g.Msg, g.Field, g.Class, g.Oracle)
		if b := best[k]; b == nil || len(g.States) > len(b.States) || (len(g.States) == len(b.States) && g.Ch < b.Ch) {
			best[k] = g
		}
	}
	for k, g := range groups {
		if best[fmt.Sprintf("%s|%s|%s|%s|%s", g.Reactor, g.Msg, g.Field, g.Class, g.Oracle)] != g {
			subsumed++
			continue
		}
		if (g.Kind == "resigned" || g.Kind == "coupled") && strings.HasSuffix(g.Class, "(signed)") && !strings.HasPrefix(g.Oracle, "process-death") {
			// the same mutation fails without a valid signature too: one defect, one signature
			base := strings.TrimSuffix(g.Class, "(signed)")
			if _, ok := groups[fmt.Sprintf("%s|%02x|%s|%s|%s|%s", g.Reactor, g.Ch, g.Msg, g.Field, base, g.Oracle)]; ok {
				subsumed++
				continue
			}
		}
		if dropped[g] {
			subsumed++
			continue
		}
		if !primaryKind(g.Kind) && g.Kind != "coupled" {
			k2 := g.Reactor + "|" + strings.SplitN(g.Msg, "(", 2)[0] + "|" + g.Oracle
			sub := false
			// a coupled-group failure covers the pair failures over a subset of its fields
			if g.Kind != "coupled" {
				for _, p := range coupledPrim[k2] {
					pf := map[string]bool{}
					for _, f := range strings.Split(p.Field, "+") {
						pf[f] = true
					}
					all := true
					for _, f := range strings.Split(g.Field, "+") {
						if !pf[f] {
							all = false
						}
					}
					if all {
						sub = true
					}
				}
			}
			for _, p := range prim[k2] {
				for _, f := range strings.Split(g.Field, "+") {
					if f == p.Field || strings.HasPrefix(f, p.Field+".") || strings.HasPrefix(p.Field, f+".") {
						sub = true
					}
				}
			}
			if sub {
				subsumed++
				continue
			}
		}
		keys = append(keys, k)
	}
	sort.Strings(keys)
	for _, k := range keys {
		g := groups[k]
		sig := fmt.Sprintf("C18|reactor=%s|channel=0x%02x|msg=%s|field=%s|mutation=%s|node-state=%s,peer=%s|oracle=%s", g.Reactor, g.Ch, g.Msg, g.Field, g.Class,
			setStr(g.States, famStates[g.Family]), setStr(g.Peers, famPeers[g.Family]), g.Oracle)
		r.Violation(sig, fmt.Sprintf("%s [minimal case: %s; %d failing cases]", g.What, g.Case.Desc, g.Count), g.Case)
	}
	r.Set("subsumed_violation_groups", subsumed)
	r.Set("stages", stages)
	r.Set("contained_panics", containedTotal)
	r.Set("contained_panic_sites", contained)
	r.Set("cases_with_rejection_expected", notes["rejection-expected"])
	r.Set("fetcher_sequences_executed", casesKind["txpool/fetcher"])
	r.Set("fetcher_states_expanded_per_unit_sum", notes["fetcher-distinct-states"])
	r.Set("fetcher_states_with_a_stale_origin_observed", notes["fetcher-stale-origin-states"])
	r.Set("fetcher_sequences_with_a_late_request_call", notes["fetcher-sequences-with-a-late-request-call"])
	r.Set("retained_state_sequences", notes["retained-checked"])
	r.Set("retained_state_sequences_that_made_the_node_keep_something", notes["retained-grew"])
	r.Set("retained_state_budgets", map[string]string{
		"votes for untracked rounds of the current height (any signature)": "<= 2 catch-up rounds per peer, <= 2 more tracked rounds",
		"VoteSetMaj23 for untracked rounds":                                "0",
		"VoteSetMaj23 for tracked rounds":                                  "1 claim + 1 per-block tally per (round, type) per peer; a different second claim stops the peer",
		"Proposal / BlockPart for unknown rounds":                          "0",
		"HasVote / NewRoundStep jumps":                                     "0 on the node side (peer state only)",
	})
	r.Set("drive_on_cases", notes["drive-on-cases"])
	r.Set("drive_on_rounds_entered", notes["drive-on-rounds"])
	r.Set("drive_on_heights_committed", notes["drive-on-heights"])
	r.Set("gossip_routine_runs", notes["gossip-runs"])
	r.Set("gossip_messages_sent", notes["gossip-messages-sent"])
	r.Set("cases", cases)
	r.Set("cases_decoded_to_a_message", decoded)
	r.Set("node_builds", builds)
	r.Set("max_alloc_bytes_one_delivery", maxAlloc)
	r.Set("deliveries_per_reactor", perReactor)
	r.Set("worker_seconds_per_kind", wallKind)
	r.Set("cases_per_kind", casesKind)
	r.Set("units", len(us))
	r.Set("units_done", unitsDone)
	r.Set("target_validator_key", target)
	// one real case per reactor first, then per kind
	var skeys []string
	for k := range sampleOf {
		skeys = append(skeys, k)
	}
	sort.Strings(skeys)
	seenReactor := map[string]bool{}
	for _, k := range skeys {
		re := strings.SplitN(k, "/", 2)[0]
		if !seenReactor[re] && len(samples) < 6 && !strings.HasSuffix(k, "/short") && !strings.HasSuffix(k, "/bytes") {
			seenReactor[re] = true
			samples = append(samples, sampleOf[k])
		}
	}
	for _, s := range samples {
		var x interface{}
		json.Unmarshal(s, &x)
		r.Sample(x)
	}
	r.Set("rule", ruleText)
	for _, a := range assumptions {
		r.Assume(a)
	}
	if expired || unitsDone < len(us) {
		r.NotExhaustive(fmt.Sprintf("deadline: %d of %d work units finished", unitsDone, len(us)))
	} else {
		r.Exhaustive(true)
	}
	// vacuity guards
	r.Require(r.Get("evaluations") > 0, "no delivery executed")
	if !expired {
		for _, st := range allNodeStates {
			r.Require(statesSeen["consensus/"+st], "consensus node state "+st+" never exercised")
		}
		for _, st := range []string{"node-state-changed", "peer-state-changed", "rejected-peer-stopped", "decode-error", "accepted-no-effect"} {
			r.Require(stages[st] > 0, "no case ended at stage "+st)
		}
		for _, re := range []string{"consensus", "blockchain", "txpool", "evidence", "pex", "conn"} {
			r.Require(perReactor[re] > 0, "reactor "+re+" received nothing")
		}
		r.Require(stages["bc:block-applied"] > 0, "block sync never applied a block (valid seeds do not reach the processor)")
		r.Require(stages["tx:added-to-pool"] > 0, "no transaction ever entered the pool")
		r.Require(stages["ev:added-to-pool"] > 0, "no evidence ever entered the pool")
		r.Require(stages["pex:addresses-added"] > 0, "no address ever entered the address book")
		r.Require(stages["conn:delivered"] > 0, "connection framing never delivered a message")
		r.Require(notes["gossip-runs"] > 1000 && notes["gossip-messages-sent"] > 1000, "the gossip routines hardly ran / sent nothing")
		r.Require(notes["rejection-expected"] > 100, "the rejection oracle was applied to fewer than 100 cases")
		for _, st := range []string{"fetcher:waiting", "fetcher:queued", "fetcher:fetching", "fetcher:tx-added", "fetcher:idle"} {
			r.Require(stages[st] > 0, "the fetcher search never reached stage "+st)
		}
		r.Require(notes["fetcher-sequences-with-a-late-request-call"] > 50, "fewer than 50 fetcher sequences released a delayed request call")
		r.Require(notes["drive-on-cases"] > 500 && notes["drive-on-rounds"] >= 3*notes["drive-on-cases"] && notes["drive-on-heights"] > 20, "the drive-on hardly ran")
		r.Require(casesKind["consensus/multipart"] >= 100, "the multi-part proposal unit hardly ran")
		r.Require(notes["retained-checked"] > 500 && notes["retained-grew"] > 100, "the retained-state sequences hardly ran / never made the node keep anything")
		r.Require(notes["fetcher-distinct-states"] > 500, "the fetcher search expanded fewer than 500 states")
		r.Require(stages["roundtrip-ok"] >= 24, "fewer than 24 message types went through the encode/decode round trip")
	}
	fmt.Printf("summary: tier=%s deliveries=%d cases=%d distinct_nontrivial=%d contained_panics=%d worker_deaths=%d units=%d/%d node_builds=%d\n", tier, r.Get("evaluations"), cases,
		r.DistinctCount("distinct_nontrivial"), containedTotal, len(deaths), unitsDone, len(us), builds)
	var cks []string
	for k := range contained {
		cks = append(cks, k)
	}
	sort.Strings(cks)
	for _, k := range cks {
		fmt.Printf("contained-panic: %s x%d\n", k, contained[k])
	}
	if len(machinery) > 0 {
		for _, m := range machinery {
			fmt.Printf("MACHINERY-ERROR property=C18 %s\n", m)
		}
		os.Exit(2)
	}
	if len(irrepro) > 0 {
		for i, m := range irrepro {
			if i > 10 {
				break
			}
			fmt.Printf("MACHINERY-ERROR property=C18 irreproducible: %s\n", m)
		}
		os.Exit(3)
	}
	r.Finish()
}

func deathWhat(hung bool) string {
	if hung {
		return "the delivery does not return: the worker printed nothing for the whole budget and was killed (reproduced in fresh processes) "
	}
	return "the node process dies (5/5 re-executions in fresh processes): "
}

func firstLines(s string, n int) string {
	l := strings.Split(strings.TrimSpace(s), "\n")
	// the interesting part of a Go crash is its first lines ("panic: ..." / "fatal error: ...")
	for i, x := range l {
		if strings.HasPrefix(x, "panic:") || strings.HasPrefix(x, "fatal error:") || strings.HasPrefix(x, "runtime:") {
			l = l[i:]
			break
		}
	}
	if len(l) > n {
		l = l[:n]
	}
	return strings.Join(l, " / ")
}

func deathReason(tail string) string {
	switch {
	case strings.Contains(tail, "out of memory") || strings.Contains(tail, "cannot allocate memory") || strings.Contains(tail, "makeslice: len out of range"):
		return "out-of-memory"
	case strings.Contains(tail, "panic:"):
		return "unrecovered-panic"
	case strings.Contains(tail, "fatal error:"):
		return "fatal-error"
	default:
		return "killed"
	}
}

// rerunAlone executes one case of one unit alone in n fresh worker processes; returns how many of
// them died and the last stderr.
func rerunAlone(unitIdx, caseIdx int, tier string, target int, n int, slot int) (int, string) {
	died := 0
	tail := ""
	for i := 0; i < n; i++ {
		wp, err := startWorker(900+slot*10+i, tier, target)
		if err != nil {
			return 0, err.Error()
		}
		wp.hangLimit = hangLimitAlone
		_, _, ok := wp.request(unitIdx, 0, caseIdx, nil)
		if !ok {
			died++
			tail = wp.stderr.String()
			os.Remove(wp.journal)
		} else {
			wp.stop()
		}
	}
	return died, tail
}

// ---------------------------------------------------------------------------------------------
// replay

func replayMain(r *report.Run) {
	var cs caseT
	if err := r.LoadReplay(&cs); err != nil {
		fmt.Println("cannot load replay file:", err)
		os.Exit(2)
	}
	b, _ := json.Marshal(cs)
	tmp, _ := os.CreateTemp("", "c18-replay-*.json")
	tmp.Write(b)
	tmp.Close()
	defer os.Remove(tmp.Name())
	target := pickTarget()
	wp, err := startWorker(990, "quick", target)
	if err != nil {
		fmt.Println("cannot start worker:", err)
		os.Exit(2)
	}
	fmt.Fprintf(wp.in, "R %s\n", tmp.Name())
	wp.hangLimit = hangLimitAlone
	line := wp.nextLine()
	if line == nil {
		wp.cmd.Wait()
		fmt.Printf("replay: %s/%s state=%s peer=%s field=%s (%s): the worker process DIED: %s\n", cs.Reactor, cs.Msg, cs.State, cs.Peer, cs.Field, cs.Desc, short(firstLines(wp.stderr.String(), 4), 600))
		fmt.Println("replay: still violates")
		os.Exit(1)
	}
	var o struct {
		Stage     string
		Contained string
		Alloc     uint64
		Viols     []violT
	}
	json.Unmarshal(line, &o)
	wp.stop()
	fmt.Printf("replay: %s/%s state=%s peer=%s channel=0x%02x field=%s (%s)\n", cs.Reactor, cs.Msg, cs.State, cs.Peer, cs.Ch, cs.Field, cs.Desc)
	fmt.Printf("replay: stage=%s alloc=%d bytes contained-panic=%q\n", o.Stage, o.Alloc, o.Contained)
	for _, v := range o.Viols {
		fmt.Printf("replay: VIOLATES oracle=%s: %s\n", v.Oracle, v.What)
	}
	if len(o.Viols) > 0 {
		fmt.Println("replay: still violates")
		os.Exit(1)
	}
	fmt.Println("replay: no violation observed")
	os.Exit(0)
}
