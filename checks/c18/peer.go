package main

// A recording implementation of the exported p2p.Peer interface (what lib/p2p/mock.Peer is, with a
// fixed identity, a send log and a bounded IsRunning budget so that the real gossip routines, which
// poll IsRunning at the top of every iteration, return after a fixed number of iterations).

import (
	"fmt"
	"net"
	"sync"

	"github.com/kardiachain/go-kardia/lib/log"
	"github.com/kardiachain/go-kardia/lib/p2p"
	"github.com/kardiachain/go-kardia/lib/p2p/conn"
)

type sentMsg struct {
	Ch  byte
	Len int
}

type mockPeer struct {
	mu       sync.Mutex
	id       p2p.ID
	ip       net.IP
	addr     *p2p.NetAddress
	kv       map[string]interface{}
	started  bool
	stopped  bool
	stops    int
	sent     []sentMsg
	sentTot  int
	polls    int // IsRunning budget: <0 unlimited, otherwise the number of further "true" answers
	outbound bool
	quit     chan struct{}
	onSend   func(ch byte, b []byte) // optional observer of what the node sends to the peer
}

// ids are 40 hex characters (20 bytes), the format p2p.ID validation expects
func peerID(n int) p2p.ID { return p2p.ID(fmt.Sprintf("%040x", 0xc18000+n)) }

func newMockPeer(n int) *mockPeer {
	ip := net.IPv4(8, 8, byte(n>>8), byte(n))
	id := peerID(n)
	a := p2p.NewNetAddressIPPort(ip, 26656)
	a.ID = id
	return &mockPeer{id: id, ip: ip, addr: a, kv: map[string]interface{}{}, started: true, polls: -1, quit: make(chan struct{})}
}

func (p *mockPeer) Start() error   { p.started = true; return nil }
func (p *mockPeer) OnStart() error { return nil }
func (p *mockPeer) Stop() error {
	p.mu.Lock()
	defer p.mu.Unlock()
	p.stops++
	if !p.stopped {
		p.stopped = true
		close(p.quit)
	}
	return nil
}
func (p *mockPeer) OnStop()        {}
func (p *mockPeer) Reset() error   { return nil }
func (p *mockPeer) OnReset() error { return nil }
func (p *mockPeer) IsRunning() bool {
	p.mu.Lock()
	defer p.mu.Unlock()
	if p.stopped || !p.started {
		return false
	}
	if p.polls < 0 {
		return true
	}
	if p.polls == 0 {
		return false
	}
	p.polls--
	return true
}
func (p *mockPeer) Quit() <-chan struct{}  { return p.quit }
func (p *mockPeer) String() string         { return "peer-" + string(p.id[34:]) }
func (p *mockPeer) SetLogger(l log.Logger) {}
func (p *mockPeer) Wait()                  {}
func (p *mockPeer) FlushStop()             { p.Stop() }
func (p *mockPeer) ID() p2p.ID             { return p.id }
func (p *mockPeer) RemoteIP() net.IP       { return p.ip }
func (p *mockPeer) RemoteAddr() net.Addr   { return &net.TCPAddr{IP: p.ip, Port: 26656} }
func (p *mockPeer) IsOutbound() bool       { return p.outbound }
func (p *mockPeer) IsPersistent() bool     { return false }
func (p *mockPeer) CloseConn() error       { return nil }
func (p *mockPeer) NodeInfo() p2p.NodeInfo {
	return p2p.DefaultNodeInfo{DefaultNodeID: p.id, ListenAddr: p.addr.DialString()}
}
func (p *mockPeer) Status() conn.ConnectionStatus { return conn.ConnectionStatus{} }
func (p *mockPeer) SocketAddr() *p2p.NetAddress   { return p.addr }
func (p *mockPeer) Send(ch byte, b []byte) bool {
	if p.onSend != nil {
		p.onSend(ch, b)
	}
	p.mu.Lock()
	defer p.mu.Unlock()
	if len(p.sent) < 64 {
		p.sent = append(p.sent, sentMsg{ch, len(b)})
	}
	p.sentTot++
	return true
}
func (p *mockPeer) TrySend(ch byte, b []byte) bool { return p.Send(ch, b) }
func (p *mockPeer) Set(k string, v interface{}) {
	p.mu.Lock()
	p.kv[k] = v
	p.mu.Unlock()
}
func (p *mockPeer) Get(k string) interface{} {
	p.mu.Lock()
	defer p.mu.Unlock()
	return p.kv[k]
}

func (p *mockPeer) wasStopped() bool {
	p.mu.Lock()
	defer p.mu.Unlock()
	return p.stopped
}

// running tells whether the peer is still up, without consuming the poll budget.
func (p *mockPeer) running() bool { return !p.wasStopped() }

var _ p2p.Peer = (*mockPeer)(nil)
