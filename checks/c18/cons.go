package main

// Consensus reactor: seeds (valid messages per node state), case execution and the oracles.

import (
	"encoding/hex"
	"fmt"
	"runtime"
	"runtime/debug"
	"strings"

	"github.com/kardiachain/go-kardia/consensus"
	"github.com/kardiachain/go-kardia/lib/common"
	kcons "github.com/kardiachain/go-kardia/proto/kardiachain/consensus"
	kproto "github.com/kardiachain/go-kardia/proto/kardiachain/types"
	"github.com/kardiachain/go-kardia/types"
)

const (
	chState   = consensus.StateChannel
	chData    = consensus.DataChannel
	chVote    = consensus.VoteChannel
	chBits    = consensus.VoteSetBitsChannel
	chWrong   = byte(0x24)
	consCap   = 1048576 // RecvMessageCapacity of every consensus channel
	allocSlk  = 4 << 20
	allocAmp  = 256 // allocation proportional to what the peer really sent is bounded
	peerFresh = "fresh"
	peerKnown = "known"
	peerGone  = "removed"
)

var consChans = []byte{chState, chData, chVote, chBits, chWrong}

// a seed is a valid message for a node state
type seed struct {
	Msg   string // message type name
	Home  byte   // the channel on which the reactor acts on this type
	Bytes []byte
	Root  []*pnode
	Sites []site
}

var consSchema = schemaOf(reflectTypeOf(&kcons.Message{}))

func mkSeed(name string, home byte, m consensus.Message) seed {
	b := consensus.MustEncode(m)
	root, err := parseNodes(b, consSchema, 0)
	if err != nil {
		panic(fmt.Sprintf("seed %s does not parse: %v", name, err))
	}
	if !bytesEq(encodeNodes(root), b) {
		panic(fmt.Sprintf("seed %s: tree re-encoding differs", name))
	}
	return seed{Msg: name, Home: home, Bytes: b, Root: root, Sites: sitesOf(root, consSchema, name)}
}

func allocLimit(capacity int, sent uint64) uint64 { return uint64(capacity) + allocSlk + allocAmp*sent }

func bytesEq(a, b []byte) bool { return string(a) == string(b) }

func bitArray(bits int, set ...int) *common.BitArray {
	ba := common.NewBitArray(bits)
	for _, i := range set {
		ba.SetIndex(i, true)
	}
	return ba
}

// consSeeds builds the valid messages for the node's state. The node is only read.
func consSeeds(c *consNode) []seed {
	o := c.others()
	nrs := &consensus.NewRoundStepMessage{Height: c.Height, Round: c.Round, Step: 3, SecondsSinceStartTime: 1}
	if c.Height > 1 {
		nrs.LastCommitRound = c.PrevRound
	}
	prevote := signedVote(o[0], c.valIndex(o[0]), kproto.PrevoteType, c.Height, c.Round, c.BlockID)
	precommit := signedVote(o[1], c.valIndex(o[1]), kproto.PrecommitType, c.Height, c.Round, types.BlockID{})
	return []seed{
		mkSeed("NewRoundStep", chState, nrs),
		mkSeed("NewValidBlock", chState, &consensus.NewValidBlockMessage{Height: c.Height, Round: c.Round, BlockPartsHeader: c.Parts.Header(),
			BlockParts: bitArray(int(c.Parts.Total()), 0), IsCommit: true}),
		mkSeed("HasVote", chState, &consensus.HasVoteMessage{Height: c.Height, Round: c.Round, Type: kproto.PrevoteType, Index: 1}),
		mkSeed("VoteSetMaj23", chState, &consensus.VoteSetMaj23Message{Height: c.Height, Round: c.Round, Type: kproto.PrevoteType, BlockID: c.BlockID}),
		mkSeed("Proposal", chData, &consensus.ProposalMessage{Proposal: c.Proposal}),
		mkSeed("ProposalPOL", chData, &consensus.ProposalPOLMessage{Height: c.Height, ProposalPOLRound: 0, ProposalPOL: bitArray(nVals, 0, 2)}),
		mkSeed("BlockPart", chData, &consensus.BlockPartMessage{Height: c.Height, Round: c.Round, Part: c.Parts.GetPart(0)}),
		mkSeed("Vote(prevote)", chVote, &consensus.VoteMessage{Vote: prevote}),
		mkSeed("Vote(precommit-nil)", chVote, &consensus.VoteMessage{Vote: precommit}),
		mkSeed("VoteSetBits", chBits, &consensus.VoteSetBitsMessage{Height: c.Height, Round: c.Round, Type: kproto.PrevoteType, BlockID: c.BlockID, Votes: bitArray(nVals, 1, 3)}),
	}
}

// ---------------------------------------------------------------------------------------------
// node cache (per process)

type consEnv struct {
	T       int
	nodes   map[string]*consNode
	seeds   map[string][]seed
	builds  int
	runs    int
	logInfo bool
}

func newConsEnv(t int) *consEnv {
	return &consEnv{T: t, nodes: map[string]*consNode{}, seeds: map[string][]seed{}}
}

func (e *consEnv) node(state string) *consNode {
	if c := e.nodes[state]; c != nil {
		return c
	}
	c, err := newConsNode(state, e.T)
	if err != nil {
		panic(fmt.Sprintf("MACHINERY: cannot build node state %s: %v", state, err))
	}
	e.builds++
	e.nodes[state] = c
	return c
}

func (e *consEnv) drop(state string) {
	if c := e.nodes[state]; c != nil {
		c.close()
		delete(e.nodes, state)
	}
}

func (e *consEnv) seedsFor(state string) []seed {
	if s, ok := e.seeds[state]; ok {
		return s
	}
	s := consSeeds(e.node(state))
	e.seeds[state] = s
	return s
}

// ---------------------------------------------------------------------------------------------
// case and outcome

type deliv struct {
	Ch  byte   `json:"ch"`
	Hex string `json:"hex"`
}

type caseT struct {
	Reactor string  `json:"reactor"`
	State   string  `json:"state"`
	Peer    string  `json:"peer"`
	Kind    string  `json:"kind"` // valid | single | pair | truncate | subst | short | resigned | byzblock | ...
	Msg     string  `json:"msg"`
	Field   string  `json:"field"`
	Class   string  `json:"class"`
	Desc    string  `json:"desc"`
	Ch      byte    `json:"channel"`
	Pre     []deliv `json:"pre,omitempty"` // well-formed deliveries that precede the message under test
	// claimed-position sequences: what the preceding delivery is, for attributing a failure that the
	// claim alone causes (the gossip routines run once after the claim, before the message under test)
	PreMsg   string `json:"pre_msg,omitempty"`
	PreField string `json:"pre_field,omitempty"`
	PreClass string `json:"pre_class,omitempty"`
	PreDesc  string `json:"pre_desc,omitempty"`
	// drive the node on after the delivery: "rounds" (at least 3 more rounds) or "commit" (and a height)
	Drive string `json:"drive,omitempty"`
	// retained-state budget of the whole sequence (pre + message), all from ONE peer: how many more rounds
	// / majority claims the node may track afterwards; nil = no budget stated
	Budget *budgetT `json:"budget,omitempty"`
	Hex    string   `json:"hex,omitempty"`
	raw    []byte
	pre    [][]byte
	preCh  []byte
}

func (c *caseT) bytes() []byte {
	if c.raw == nil && c.Hex != "" {
		c.raw, _ = hex.DecodeString(c.Hex)
	}
	return c.raw
}

func (c *caseT) freeze() {
	if c.Hex == "" && c.raw != nil {
		if len(c.raw) > 4096 {
			c.Hex = hex.EncodeToString(c.raw) // kept whole: needed for replay
		} else {
			c.Hex = hex.EncodeToString(c.raw)
		}
	}
	c.Pre = nil
	for i, p := range c.pre {
		c.Pre = append(c.Pre, deliv{Ch: c.preCh[i], Hex: hex.EncodeToString(p)})
	}
}

func (c *caseT) thaw() {
	c.bytes()
	c.pre, c.preCh = nil, nil
	for _, d := range c.Pre {
		b, _ := hex.DecodeString(d.Hex)
		c.pre = append(c.pre, b)
		c.preCh = append(c.preCh, d.Ch)
	}
}

type budgetT struct {
	Rounds  int    `json:"rounds"`  // tracked rounds (vote sets) may grow by at most this
	Catchup int    `json:"catchup"` // catch-up rounds granted to the sending peer
	Claims  int    `json:"claims"`  // majority claims + per-block tallies may grow by at most this
	Why     string `json:"why"`
}

type violT struct {
	Oracle string `json:"oracle"`
	What   string `json:"what"`
}

type outcome struct {
	Stage     string // where the message ended (for the distinct-case rule)
	Decoded   bool
	Contained string // recovered panic inside Receive ("" = none)
	Viols     []violT
	Alloc     uint64
	NodeDirty bool
	Queued    int // messages the reactor forwarded to the consensus state's queue
	// the rejection oracle applies to this case
	RejectExpected bool
	// the violations were caused by the preceding claim alone (attributed to caseT.Pre*)
	AttrPre bool
	// explicit-state searches: canonical key of the state reached ("" = none / terminal)
	StateKey string
	// fetcher search: a removed peer is still listed as an origin (observation)
	StaleOrigin bool
	// fetcher search: delayed request calls released in the sequence
	LateCalls int
	// drive-on: rounds the node entered and heights it committed after the delivery
	DroveRounds, DroveHeights int
	// retained-state budget checked / the sequence made the node keep something
	RetainedChecked, RetainedGrew bool
	GossipSent                    int // messages the gossip routines sent to the peer
	GossipRuns                    int
}

func (o *outcome) viol(oracle, f string, a ...interface{}) {
	o.Viols = append(o.Viols, violT{Oracle: oracle, What: fmt.Sprintf(f, a...)})
}

func panicSite(stk string) string {
	// first frame inside the repository below the panic machinery
	lines := strings.Split(stk, "\n")
	for i := 0; i+1 < len(lines); i++ {
		l := lines[i]
		if strings.HasPrefix(l, "github.com/kardiachain/go-kardia/") && !strings.Contains(l, "VerifC18") && !strings.Contains(l, "(*VerifNode)") &&
			!strings.Contains(l, "lib/common.PanicSanity") {
			fn := strings.TrimPrefix(l, "github.com/kardiachain/go-kardia/")
			if j := strings.LastIndex(fn, "("); j > 0 {
				fn = fn[:j]
			}
			loc := strings.TrimSpace(lines[i+1])
			if j := strings.Index(loc, " +0x"); j > 0 {
				loc = loc[:j]
			}
			loc = strings.TrimPrefix(loc, repoRoot()+"/")
			return fn + " @ " + loc
		}
	}
	return "?"
}

// guarded runs f and returns the recovered panic (nil if none) and the stack.
func guarded(f func()) (p interface{}, stk string) {
	defer func() {
		if r := recover(); r != nil {
			p = r
			stk = string(debug.Stack())
		}
	}()
	f()
	return nil, ""
}

// runtimeErrorInReceive: a Go runtime error (index out of range, nil dereference, slice bounds, makeslice)
// inside Receive's own stack is a violation ("does not panic"), although MConnection's recover contains it
// and only the sending peer is dropped: such a panic is never intended. Explicit panics of the
// repository's own code (panic("Peer has no state"), PanicSanity, ...) stay recorded-only under the
// contained-panic rule.
func runtimeErrorInReceive(out *outcome, pn interface{}, stk string) {
	if _, ok := pn.(runtime.Error); ok {
		out.viol("runtime-error-in-receive", "Receive panicked with a Go runtime error on a message of a live peer (contained by the connection's recover, the peer is dropped; the property says the node does not panic): %v at %s",
			short(fmt.Sprint(pn), 200), panicSite(stk))
	}
}

func short(s string, n int) string {
	if len(s) > n {
		return s[:n] + "..."
	}
	return s
}

// ---------------------------------------------------------------------------------------------
// execution

const (
	gossipDataIters  = 6
	gossipVoteIters  = 12
	gossipMaj23Iters = 2
)

func (e *consEnv) gossip(c *consNode, p *mockPeer, ps *consensus.PeerState, out *outcome, when string) {
	sent := p.sentTot
	defer func() { out.GossipSent += p.sentTot - sent; out.GossipRuns++ }()
	for _, g := range []struct {
		which string
		iters int
	}{{"data", gossipDataIters}, {"votes", gossipVoteIters}, {"maj23", gossipMaj23Iters}} {
		p.mu.Lock()
		p.polls = g.iters
		p.mu.Unlock()
		pn, stk := guarded(func() { consensus.VerifC18Gossip(c.ConR, g.which, p, ps) })
		p.mu.Lock()
		p.polls = -1
		p.mu.Unlock()
		if pn != nil {
			out.viol("gossip-routine-panic", "%s: the real gossip routine %q (running outside Receive, no recover in production: the process dies) panicked on the peer's claimed state: %v at %s",
				when, g.which, short(fmt.Sprint(pn), 200), panicSite(stk))
			return
		}
	}
}

func (e *consEnv) drain(c *consNode, out *outcome) {
	for i := 0; i < 2000; i++ {
		m, from, ok := consensus.VerifC18PopPeerMsg(c.N.CS)
		if !ok {
			return
		}
		out.Queued++
		c.N.DeliverPeerMsg(m, from)
		if c.N.Failed != nil {
			out.viol("panic-in-handleMsg", "CONSENSUS FAILURE: the consensus handler panicked on a message accepted by the reactor: %v at %s",
				short(fmt.Sprint(c.N.Failed), 200), panicSite(c.N.FailStk))
			return
		}
	}
}

func psOf(p *mockPeer) *consensus.PeerState {
	ps, _ := p.Get(types.PeerStateKey).(*consensus.PeerState)
	return ps
}

// wellFormedFollowUp delivers a valid NewRoundStep and HasVote from a different peer and tells
// whether the reactor still handles them.
func (e *consEnv) followUp(c *consNode, b *mockPeer, out *outcome) {
	seeds := e.seedsFor(c.State)
	before := consensus.VerifC18PeerDigest(psOf(b))
	pn, stk := guarded(func() {
		c.ConR.Receive(chState, b, seeds[0].Bytes) // NewRoundStep
		c.ConR.Receive(chState, b, seeds[2].Bytes) // HasVote
		c.ConR.Receive(chState, b, seeds[3].Bytes) // VoteSetMaj23 (takes ConsensusState.mtx, answers)
	})
	if pn != nil {
		out.viol("following-message-not-handled", "after the contained panic a well-formed message from a different peer panics: %v at %s", short(fmt.Sprint(pn), 160), panicSite(stk))
		return
	}
	if b.wasStopped() {
		out.viol("following-message-not-handled", "after the contained panic a well-formed message from a different peer gets that peer stopped")
		return
	}
	if consensus.VerifC18PeerDigest(psOf(b)) == before {
		out.viol("following-message-not-handled", "after the contained panic a well-formed NewRoundStep from a different peer no longer updates its peer state")
	}
}

// run executes one consensus case on the cached node of its state.
func (e *consEnv) run(cs *caseT) *outcome {
	out := &outcome{}
	c := e.node(cs.State)
	common.Seed(7) // the gossip routines pick bits with the global PRNG
	p, b := newMockPeer(1), newMockPeer(2)
	c.ConR.InitPeer(p)
	c.ConR.InitPeer(b)
	seeds := e.seedsFor(cs.State)
	switch cs.Peer {
	case peerKnown:
		// the peer announced the node's own height/round and has been gossiped to for a while
		c.ConR.Receive(chState, p, seeds[0].Bytes)
		e.gossip(c, p, psOf(p), out, "while gossiping to a peer that only sent a valid NewRoundStep")
		if len(out.Viols) > 0 {
			// a gossip routine that panics on an honest peer: the violation stands, the case proper is moot
			out.Stage = "warm-up-gossip-panic"
			e.drop(cs.State)
			return out
		}
		if p.wasStopped() {
			out.viol("harness", "warm-up of a known peer failed: the peer was stopped")
			e.drop(cs.State)
			return out
		}
	case peerGone:
		c.ConR.RemovePeer(p, "gone")
	}
	ret0r, _, ret0c, ret0b := consensus.VerifC18Retained(c.N.CS)
	digPre := consensus.VerifC18PeerDigest(psOf(p))
	for i, pre := range cs.pre {
		c.ConR.Receive(cs.preCh[i], p, pre)
		e.drain(c, out)
	}
	if cs.PreField != "" && c.N.Failed == nil && psOf(p) != nil && consensus.VerifC18PeerDigest(psOf(p)) != digPre {
		e.gossip(c, p, psOf(p), out, "after the peer's claim alone ("+cs.PreDesc+")")
		if len(out.Viols) > 0 {
			out.AttrPre = true
			out.Stage = "claim-gossip-panic"
			e.drop(cs.State)
			return out
		}
	}
	stamp0 := consensus.VerifC18NodeStamp(c.N)
	key0 := c.Key
	if len(cs.pre) > 0 || stamp0 != c.Stamp {
		key0 = consensus.VerifC18NodeKey(c.N)
		if key0 != c.Key && len(cs.pre) == 0 {
			// the warm-up must not move the node
			out.viol("harness", "node key moved before the delivery: %s -> %s", c.Key, key0)
			e.drop(cs.State)
			return out
		}
	}
	ps := psOf(p)
	dig0 := consensus.VerifC18PeerDigest(ps)
	sent0 := p.sentTot
	msg := cs.bytes()

	// is it well-formed for the decoder? (classification only)
	_, derr := consensus.VerifC18DecodeMsg(msg)
	out.Decoded = derr == nil

	a0 := allocBytes()
	pn, stk := guarded(func() { c.ConR.Receive(cs.Ch, p, msg) })
	if pn != nil {
		out.Contained = fmt.Sprintf("%v at %s", short(fmt.Sprint(pn), 160), panicSite(stk))
		if cs.Peer != peerGone {
			runtimeErrorInReceive(out, pn, stk)
		}
	}
	out.Queued = 0
	e.drain(c, out)
	out.Alloc = allocBytes() - a0
	// what the node keeps now (before any follow-up message of another peer)
	ret1r, ret1cu, ret1c, ret1b := 0, map[string]int{}, 0, 0
	if cs.Budget != nil && c.N.Failed == nil {
		ret1r, ret1cu, ret1c, ret1b = consensus.VerifC18Retained(c.N.CS)
	}
	sentBytes := uint64(len(msg))
	for _, pre := range cs.pre {
		sentBytes += uint64(len(pre))
	}
	if lim := allocLimit(consCap, sentBytes); out.Alloc > lim {
		out.viol("alloc", "a %d-byte message (%d bytes sent by the peer in this case) made the node allocate %d bytes (limit %d = channel capacity %d + %d slack + %dx the bytes sent)",
			len(msg), sentBytes, out.Alloc, lim, consCap, allocSlk, allocAmp)
	}
	failed := c.N.Failed != nil

	// (2) leaked locks
	held := consensus.VerifC18HeldLocks(c.ConR, psOf(p), psOf(b))
	if len(held) > 0 {
		or := "lock-leaked"
		if pn != nil {
			or = "contained-panic-leaves-lock"
		}
		out.viol(or, "after the delivery these mutexes are still held (every later user hangs): %s; panic: %s", strings.Join(held, ", "), out.Contained)
		e.drop(cs.State)
		out.NodeDirty = true
		out.Stage = "lock-leaked"
		return out
	}
	// (4) at most the sender is stopped
	if b.wasStopped() {
		out.viol("other-peer-stopped", "a peer that did not send the message was stopped")
	}
	key1 := key0
	e.runs++
	if !failed {
		if st1 := consensus.VerifC18NodeStamp(c.N); st1 != stamp0 || e.runs%64 == 0 {
			key1 = consensus.VerifC18NodeKey(c.N)
			if st1 == stamp0 && key1 != key0 {
				out.viol("harness", "node stamp unchanged but node key changed: %s -> %s", key0, key1)
			}
		}
	}
	dig1 := consensus.VerifC18PeerDigest(psOf(p))
	rejected := !out.Decoded || p.wasStopped()
	switch {
	case failed:
		out.Stage = "handler-panic"
	case pn != nil:
		out.Stage = "contained-panic"
	case !out.Decoded:
		out.Stage = "decode-error"
	case p.wasStopped():
		out.Stage = "rejected-peer-stopped"
	case key1 != key0:
		out.Stage = "node-state-changed"
	case dig1 != dig0:
		out.Stage = "peer-state-changed"
	case p.sentTot != sent0:
		out.Stage = "answered"
	case out.Queued > 0:
		out.Stage = "forwarded-to-consensus-no-effect"
	default:
		out.Stage = "accepted-no-effect"
	}
	if !failed && key1 != key0 && (rejected || pn != nil) {
		out.viol("rejected-message-changed-state", "the message was rejected (decode error / peer stopped / panic) but the node state changed: %s -> %s", key0, key1)
	}
	if !out.Decoded && !p.wasStopped() && pn == nil && cs.Peer != peerGone {
		// undecodable bytes must get the peer dropped (that is the reactor's stated policy); record only
		out.Stage = "decode-error-peer-kept"
	}
	// contained panic: post-conditions
	if pn != nil && !failed {
		e.followUp(c, b, out)
		if h := consensus.VerifC18HeldLocks(c.ConR, psOf(p), psOf(b)); len(h) > 0 {
			out.viol("contained-panic-leaves-lock", "locks held after the follow-up: %s", strings.Join(h, ", "))
		}
	}
	// gossip on peer-controlled state (only when something the routines read has changed)
	// (with preceding deliveries: also when those changed what the routines read)
	if !failed && cs.Peer != peerGone && (dig1 != dig0 || key1 != key0 || (len(cs.pre) > 0 && dig1 != digPre)) && psOf(p) != nil {
		a1 := allocBytes()
		e.gossip(c, p, psOf(p), out, "after the delivery")
		if d := allocBytes() - a1; d > allocLimit(consCap, sentBytes) {
			out.viol("alloc", "gossiping to the peer after its %d-byte message allocated %d bytes", len(msg), d)
		}
		if h := consensus.VerifC18HeldLocks(c.ConR, psOf(p), psOf(b)); len(h) > 0 {
			out.viol("lock-leaked", "locks held after the gossip routines ran: %s", strings.Join(h, ", "))
		}
	}
	if cs.Budget != nil && !failed {
		r1, cu, c1, b1 := ret1r, ret1cu, ret1c, ret1b
		mine := cu[string(p.ID())]
		seqLen := len(cs.pre) + 1
		if r1-ret0r > cs.Budget.Rounds {
			out.viol("retained-state-unbounded", "after %d messages from ONE peer the node tracks %d more rounds (vote sets) for this height; the budget is %d (%s)", seqLen, r1-ret0r, cs.Budget.Rounds, cs.Budget.Why)
		}
		if mine > cs.Budget.Catchup {
			out.viol("retained-state-unbounded", "after %d messages the peer holds %d catch-up rounds; the budget is %d (%s)", seqLen, mine, cs.Budget.Catchup, cs.Budget.Why)
		}
		if (c1-ret0c)+(b1-ret0b) > cs.Budget.Claims {
			out.viol("retained-state-unbounded", "after %d messages from ONE peer the node keeps %d more majority claims / per-block tallies; the budget is %d (%s)", seqLen, (c1-ret0c)+(b1-ret0b), cs.Budget.Claims, cs.Budget.Why)
		}
		out.RetainedChecked = true
		if r1-ret0r > 0 || mine > 0 || c1 > ret0c {
			out.RetainedGrew = true
		}
	}
	if cs.Drive != "" && !failed {
		e.driveOn(c, out, cs.Drive == "commit")
		failed = true // the node has moved on: it is rebuilt for the next case
	}
	// preceding deliveries may have moved the node as well: compare with the key the node was built with
	preMoved := len(cs.pre) > 0 && (failed || consensus.VerifC18NodeKey(c.N) != c.Key)
	if failed || pn != nil || key1 != key0 || preMoved || consensus.VerifC18QueueLen(c.N.CS) != 0 {
		out.NodeDirty = true
		e.drop(cs.State)
	} else {
		// same key (handler steps that changed nothing move the stamp only)
		c.Stamp = consensus.VerifC18NodeStamp(c.N)
	}
	return out
}

// ---------------------------------------------------------------------------------------------
