#!/bin/bash
# Demonstrates that C18 fails on each mutant: applies every /verif/mutants/c18-*.patch (or the ones
# named on the command line) to a scratch worktree of /repo, runs the repository's own tests of the
# touched package and the quick check, and prints the signatures the mutant ADDS to what the
# unchanged tree already reports (the unchanged tree has genuine findings, see FINDINGS.md), plus the
# change of the contained-panic count.
export GOFLAGS=-mod=mod GOPROXY=off GOSUMDB=off GOTOOLCHAIN=local
sigs_of() { grep '^violation:' | sed 's/^violation: \(C18|.*|oracle=[a-zA-Z:-]*\): .*/\1/' | sort -u; }
BASE=/tmp/c18-base-sigs.$$
WT=/tmp/wt-c18-$$
trap 'git -C /repo worktree remove --force "$WT" >/dev/null 2>&1; rm -f "$BASE"' EXIT
git -C /repo worktree add --detach "$WT" HEAD >/dev/null 2>&1 || { echo "worktree failed"; exit 2; }
VERIF_REPO="$WT" VERIF_NOEVIDENCE=1 timeout 900 /verif/run.sh C18 quick 2>/dev/null | sigs_of > "$BASE"
echo "unchanged tree: $(wc -l < "$BASE") signatures"
sed 's/^/   base: /' "$BASE"
git -C /repo worktree remove --force "$WT"
if [ $# -gt 0 ]; then LIST=("$@"); else LIST=(/verif/mutants/c18-*.patch); fi
for p in "${LIST[@]}"; do
  name=$(basename "$p" .patch)
  git -C /repo worktree add --detach "$WT" HEAD >/dev/null 2>&1 || { echo "$name: worktree failed"; continue; }
  if ! git -C "$WT" apply "$p"; then echo "$name: patch does not apply"; git -C /repo worktree remove --force "$WT"; continue; fi
  pkgs=$(git -C "$WT" diff --name-only | xargs -n1 dirname | sort -u | sed 's#^#./#; s#$#/#' | tr '\n' ' ')
  tests=FAIL
  if (cd "$WT" && timeout 900 go test -vet=off -count=1 $pkgs >/tmp/c18-mut-test.log 2>&1); then tests=pass; else
    # packages whose tests fail on the unchanged tree too (consensus: panics in TestStateProposerSelection0;
    # lib/p2p: TestNetAddressReachabilityTo needs DNS): compare the set of failing tests with the unchanged tree
    fm=$(grep -- '^--- FAIL\|^panic:' /tmp/c18-mut-test.log | awk '{print $1,$2,$3}' | sort -u | tr '\n' ';')
    (cd /repo && timeout 900 go test -vet=off -count=1 $pkgs >/tmp/c18-base-test.log 2>&1)
    fb=$(grep -- '^--- FAIL\|^panic:' /tmp/c18-base-test.log | awk '{print $1,$2,$3}' | sort -u | tr '\n' ';')
    if [ "$fm" = "$fb" ]; then tests="same failures as the unchanged tree ($fb)"; else tests="NEW FAILURES ($fm) vs unchanged ($fb)"; fi
  fi
  out=$(VERIF_REPO="$WT" VERIF_NOEVIDENCE=1 timeout 900 /verif/run.sh C18 quick 2>/dev/null)
  rc=$?
  new=$(echo "$out" | sigs_of | comm -23 - "$BASE")
  gone=$(echo "$out" | sigs_of | comm -13 - "$BASE" | wc -l)
  nv=$(echo "$out" | grep -c '^VIOLATION')
  echo "$name | repo tests ($pkgs): $tests | exit $rc | VIOLATION lines: $nv | base signatures not reproduced: $gone | added signatures: $(echo "$new" | grep -c .)"
  echo "$new" | sed 's/^/      + /'
  echo "$out" | grep 'MACHINERY\|VACUOUS' | head -3 | cut -c1-300 | sed 's/^/      ! /'
  git -C /repo worktree remove --force "$WT"
done
