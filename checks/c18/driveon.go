package main

// Drive-on: "alive right after Receive returns" is not enough for messages the consensus state STORES
// (votes open catch-up rounds, proposals and parts are kept). After the delivery the node is driven on
// the way the network would drive it - its own timeouts fire, the other validators vote nil - until it
// has entered at least 3 more rounds (and, in the "commit" variant, committed a height on a valid
// block), and must still be alive: no recovered panic of the handlers (CONSENSUS FAILURE), still signing.

import (
	"fmt"

	"github.com/kardiachain/go-kardia/consensus"
	cstypes "github.com/kardiachain/go-kardia/consensus/types"
	kproto "github.com/kardiachain/go-kardia/proto/kardiachain/types"
	"github.com/kardiachain/go-kardia/types"
)

func (e *consEnv) driveOn(c *consNode, out *outcome, commit bool) {
	n := c.N
	rs := n.RS()
	type hr struct {
		h uint64
		r uint32
	}
	seen := map[hr]bool{{rs.Height, rs.Round}: true}
	startH := rs.Height
	signed0 := len(n.Signed)
	o := c.others()
	halted := func(when string) bool {
		if n.Failed == nil {
			return false
		}
		out.viol("consensus-halted-later", "CONSENSUS FAILURE some time after the delivery (%s, node at %d/%d/%v; it had entered %d more rounds): %v at %s",
			when, rs.Height, rs.Round, rs.Step, len(seen)-1, short(fmt.Sprint(n.Failed), 200), panicSite(n.FailStk))
		return true
	}
	vote := func(t kproto.SignedMsgType, id types.BlockID, keys ...int) {
		for _, k := range keys {
			if n.Failed != nil {
				return
			}
			idx, _ := rs.Validators.GetByAddress(allAddrs[k])
			n.DeliverPeerMsg(&consensus.VoteMessage{Vote: signedVote(k, uint32(idx), t, rs.Height, rs.Round, id)}, string(peerID(100+k)))
		}
	}
	note := func() { seen[hr{rs.Height, rs.Round}] = true }
	// phase 1: at least 3 more rounds on nil votes
	for step := 0; step < 80 && len(seen) < 4; step++ {
		if halted("while advancing rounds") {
			return
		}
		if n.PendingTimeout() != nil {
			n.FireTimeout()
			note()
			continue
		}
		switch rs.Step {
		case cstypes.RoundStepPrevote:
			vote(kproto.PrevoteType, types.BlockID{}, o[0], o[1])
		case cstypes.RoundStepPrecommit:
			vote(kproto.PrecommitType, types.BlockID{}, o[0], o[1])
		case cstypes.RoundStepCommit:
			// waiting for the parts of a committed block: the fixture's valid block of this height
			if rs.ProposalBlockParts != nil && rs.ProposalBlockParts.HasHeader(c.Parts.Header()) && rs.Height == c.Height {
				for i := 0; i < int(c.Parts.Total()); i++ {
					n.DeliverPeerMsg(&consensus.BlockPartMessage{Height: rs.Height, Round: rs.Round, Part: c.Parts.GetPart(i)}, string(peerID(100+o[0])))
				}
			} else {
				step = 1 << 20
			}
		default:
			step = 1 << 20 // nothing the environment can do (should not happen)
		}
		note()
	}
	if halted("while advancing rounds") {
		return
	}
	out.DroveRounds = len(seen) - 1
	if out.DroveRounds < 3 {
		out.viol("harness", "drive-on: the node entered only %d more rounds (at %d/%d/%v)", out.DroveRounds, rs.Height, rs.Round, rs.Step)
		return
	}
	// phase 2 (variant): commit the current height on a valid block
	if commit && rs.Height == startH || commit && len(n.App.Saved) == 0 {
		h0 := rs.Height
		for step := 0; step < 40 && rs.Height == h0; step++ {
			if halted("while committing a height") {
				return
			}
			switch rs.Step {
			case cstypes.RoundStepNewHeight, cstypes.RoundStepNewRound, cstypes.RoundStepPrevoteWait, cstypes.RoundStepPrecommitWait:
				if n.PendingTimeout() == nil {
					step = 1 << 20
					break
				}
				n.FireTimeout()
			case cstypes.RoundStepPropose:
				if rs.ProposalBlock == nil {
					pn, _ := guarded(func() {
						c.makeBlock()
						n.DeliverPeerMsg(&consensus.ProposalMessage{Proposal: c.Proposal}, string(peerID(100+c.Proposer)))
						for i := 0; i < int(c.Parts.Total()) && n.Failed == nil; i++ {
							n.DeliverPeerMsg(&consensus.BlockPartMessage{Height: c.Height, Round: c.Round, Part: c.Parts.GetPart(i)}, string(peerID(100+c.Proposer)))
						}
					})
					if pn != nil {
						out.viol("harness", "drive-on: cannot propose: %v", pn)
						return
					}
				} else if n.PendingTimeout() != nil {
					n.FireTimeout()
				}
			case cstypes.RoundStepPrevote, cstypes.RoundStepPrecommit:
				if rs.ProposalBlock == nil || rs.ProposalBlockParts == nil {
					// a nil round: get to the next one
					t := kproto.PrevoteType
					if rs.Step == cstypes.RoundStepPrecommit {
						t = kproto.PrecommitType
					}
					vote(t, types.BlockID{}, o[0], o[1])
					break
				}
				id := types.BlockID{Hash: rs.ProposalBlock.Hash(), PartsHeader: rs.ProposalBlockParts.Header()}
				if rs.Step == cstypes.RoundStepPrevote {
					vote(kproto.PrevoteType, id, o...)
				} else {
					vote(kproto.PrecommitType, id, o...)
				}
			default:
				if n.PendingTimeout() != nil {
					n.FireTimeout()
				} else {
					step = 1 << 20
				}
			}
		}
		if halted("while committing a height") {
			return
		}
		if rs.Height == h0 {
			out.viol("harness", "drive-on: the node did not commit height %d (at %d/%d/%v)", h0, rs.Height, rs.Round, rs.Step)
			return
		}
		out.DroveHeights = 1
	}
	if len(n.Signed) <= signed0 {
		out.viol("consensus-halted-later", "the node signed nothing while it was driven through %d rounds after the delivery", out.DroveRounds)
	}
}

// genDriveOn: the consensus-state message classes for current / next / far rounds and heights, with a
// valid and with a junk signature, each followed by the drive-on.
func genDriveOn(w *worker, st string, emit func(*caseT)) {
	c := w.cons.node(st)
	h, r := c.Height, c.Round
	heights := []uint64{h, h + 1}
	if h >= 2 {
		heights = append(heights, h-1)
	}
	rounds := []uint32{r, r + 1, r + 2, r + 3, r + 4, 1000}
	o0 := c.others()[0]
	junk := patternBytes(65, 0x41)
	rel := func(v, cur uint64) string {
		switch {
		case v == cur:
			return "cur"
		case v == cur+1:
			return "cur+1"
		case v+1 == cur:
			return "cur-1"
		case v > cur && v-cur < 10:
			return fmt.Sprintf("cur+%d", v-cur)
		}
		return "far"
	}
	send := func(msg, field, class, desc string, ch byte, m consensus.Message, drive string) {
		emit(&caseT{Reactor: "consensus", State: st, Peer: peerFresh, Msg: msg, Kind: "drive-on", Field: field, Class: class, Desc: desc + "; then the node is driven on (" + drive + ")",
			Ch: ch, raw: consensus.MustEncode(m), Drive: drive})
	}
	for _, mh := range heights {
		for _, mr := range rounds {
			cl := "height=" + rel(mh, h) + ",round=" + rel(uint64(mr), uint64(r))
			drives := []string{"rounds"}
			if mh == h && (mr == r+2 || mr == r+3) {
				drives = append(drives, "commit")
			}
			for _, drive := range drives {
				for _, sig := range []string{"valid", "junk"} {
					for _, t := range []kproto.SignedMsgType{kproto.PrevoteType, kproto.PrecommitType} {
						id := c.BlockID
						name := "Vote(prevote)"
						if t == kproto.PrecommitType {
							id, name = types.BlockID{}, "Vote(precommit-nil)"
						}
						v := signedVote(o0, c.valIndex(o0), t, mh, mr, id)
						if sig == "junk" {
							v = v.Copy()
							v.Signature = junk
						}
						send(name, "vote.vote.height+vote.vote.round+vote.vote.signature", cl+",sig="+sig, fmt.Sprintf("vote height=%d round=%d %s signature", mh, mr, sig), chVote,
							&consensus.VoteMessage{Vote: v}, drive)
					}
					p := signedProposal(c.Proposer, mh, mr, 0, c.BlockID)
					if sig == "junk" {
						p.Signature = junk
					}
					send("Proposal", "proposal.proposal.height+proposal.proposal.round+proposal.proposal.signature", cl+",sig="+sig, fmt.Sprintf("proposal height=%d round=%d %s signature", mh, mr, sig), chData,
						&consensus.ProposalMessage{Proposal: p}, drive)
				}
				send("BlockPart", "block_part.height+block_part.round", cl, fmt.Sprintf("part height=%d round=%d", mh, mr), chData,
					&consensus.BlockPartMessage{Height: mh, Round: mr, Part: c.Parts.GetPart(0)}, drive)
			}
		}
	}
}
