package main

// Work units of the non-consensus reactors and of the connection framing.

import (
	"fmt"

	"github.com/gogo/protobuf/proto"

	"github.com/kardiachain/go-kardia/blockchain"
	"github.com/kardiachain/go-kardia/lib/p2p/pex"
	"github.com/kardiachain/go-kardia/mainchain/tx_pool"
	bcproto "github.com/kardiachain/go-kardia/proto/kardiachain/blockchain"
	kp2p "github.com/kardiachain/go-kardia/proto/kardiachain/p2p"
	txproto "github.com/kardiachain/go-kardia/proto/kardiachain/txpool"
	kproto "github.com/kardiachain/go-kardia/proto/kardiachain/types"
	"github.com/kardiachain/go-kardia/types/evidence"
)

type reactorSpec struct {
	Name   string
	States []string
	Peers  []string
	Chans  []byte // first = the reactor's own channel; the rest are foreign ids
	Seeds  func(e *otherEnv) []gseed
	Names  []string
	Decode func([]byte) error
	// byte-level enumeration only for seeds up to this size (0 = all)
	BytesMax int
	// states in which every 1-2 byte string is delivered (elsewhere only the decodable ones, quick tier)
	ShortFull map[string]bool
}

func genericUnits(sp reactorSpec, thorough bool) []*unit {
	var us []*unit
	add := func(u *unit) {
		u.Reactor = sp.Name
		u.ID = fmt.Sprintf("%s/%s/%s/%s/%s", sp.Name, u.Kind, u.State, u.Peer, u.Msg)
		us = append(us, u)
	}
	find := func(e *otherEnv, name string) gseed {
		for _, s := range sp.Seeds(e) {
			if s.Msg == name {
				return s
			}
		}
		panic("no seed " + name)
	}
	for _, st := range sp.States {
		for _, pm := range sp.Peers {
			for _, name := range sp.Names {
				st, pm, name := st, pm, name
				add(&unit{State: st, Peer: pm, Kind: "single", Msg: name, Est: 2500, gen: func(w *worker, u *unit, emit func(*caseT)) {
					s := find(w.oth, name)
					base := caseT{Reactor: sp.Name, State: st, Peer: pm, Msg: name}
					{
						c := base
						c.Kind, c.Field, c.Class, c.Desc, c.Ch, c.raw = "roundtrip", "-", "valid", "encode/decode round trip", sp.Chans[0], s.Bytes
						emit(&c)
					}
					for _, ch := range sp.Chans {
						c := base
						c.Kind, c.Field, c.Class, c.Desc, c.Ch, c.raw = "valid", "-", "valid", "unmodified", ch, s.Bytes
						emit(&c)
					}
					for _, site := range s.Sites {
						for _, m := range mutationsFor(site, s.Root, false) {
							c := base
							raw, mf, mc := mutate(s.Root, site, m)
							c.Kind, c.Field, c.Class, c.Desc, c.Ch, c.raw = "single", mf, mc, m.Desc, sp.Chans[0], raw
							emit(&c)
						}
					}
				}})
				add(&unit{State: st, Peer: pm, Kind: "bytes", Msg: name, Est: 1500, gen: func(w *worker, u *unit, emit func(*caseT)) {
					s := find(w.oth, name)
					if sp.BytesMax > 0 && len(s.Bytes) > sp.BytesMax && !thorough {
						return
					}
					for n := 0; n < len(s.Bytes); n++ {
						emit(&caseT{Reactor: sp.Name, State: st, Peer: pm, Msg: name, Kind: "truncate", Field: stripIdx(fieldAtOffset(s.Root, "", n)), Class: "truncated",
							Desc: fmt.Sprintf("first %d of %d bytes", n, len(s.Bytes)), Ch: sp.Chans[0], raw: s.Bytes[:n]})
					}
					for off := 0; off < len(s.Bytes); off++ {
						for _, v := range substAlphabet {
							if s.Bytes[off] == v {
								continue
							}
							raw := append([]byte(nil), s.Bytes...)
							raw[off] = v
							emit(&caseT{Reactor: sp.Name, State: st, Peer: pm, Msg: name, Kind: "subst", Field: stripIdx(fieldAtOffset(s.Root, "", off)), Class: "byte-substituted",
								Desc: fmt.Sprintf("byte %d = 0x%02x", off, v), Ch: sp.Chans[0], raw: raw})
						}
					}
				}})
			}
		}
		// every 1- and 2-byte string; the ones the decoder rejects only from the first peer mode
		for hi := 0; hi < 4; hi++ {
			st, hi := st, hi
			add(&unit{State: st, Peer: sp.Peers[0], Kind: "short", Msg: fmt.Sprintf("raw-%d", hi), Est: 20000, gen: func(w *worker, u *unit, emit func(*caseT)) {
				try := func(raw []byte) {
					derr := sp.Decode(raw)
					if derr != nil && !thorough && sp.ShortFull != nil && !sp.ShortFull[st] {
						return
					}
					for i, pm := range sp.Peers {
						if i > 0 && derr != nil && !thorough {
							continue
						}
						emit(&caseT{Reactor: sp.Name, State: st, Peer: pm, Msg: "raw", Kind: "short", Field: "-", Class: fmt.Sprintf("%d-byte-string", len(raw)),
							Desc: fmt.Sprintf("% x", raw), Ch: sp.Chans[0], raw: raw})
					}
				}
				if hi == 0 {
					try([]byte{})
				}
				for a := hi * 64; a < hi*64+64; a++ {
					try([]byte{byte(a)})
					for b := 0; b < 256; b++ {
						try([]byte{byte(a), byte(b)})
					}
				}
			}})
		}
	}
	return us
}

func otherUnits(thorough bool) []*unit {
	var us []*unit
	// ---- block sync
	bc := reactorSpec{Name: "blockchain", States: bcStates, Peers: []string{peerKnown}, Chans: []byte{bcChan, 0x41},
		Seeds:  func(e *otherEnv) []gseed { return e.bcSeeds() },
		Names:  []string{"BlockRequest", "NoBlockResponse", "StatusRequest", "StatusResponse", "BlockResponse(1)", "BlockResponse(2)"},
		Decode: func(b []byte) error { _, err := blockchain.DecodeMsg(b); return err }, ShortFull: map[string]bool{bcIdle: true, bcSyncFresh: true}}
	us = append(us, genericUnits(bc, thorough)...)
	// blocks assembled by the peer through the public constructor (header hashes recomputed)
	for _, st := range []string{bcSyncReq, bcSyncReq2} {
		for _, name := range []string{"BlockResponse(1)", "BlockResponse(2)"} {
			st, name := st, name
			if st == bcSyncReq2 && name == "BlockResponse(1)" {
				continue
			}
			us = append(us, &unit{ID: "blockchain/rehashed/" + st + "/" + name, Reactor: "blockchain", State: st, Peer: peerKnown, Kind: "rehashed", Msg: name, Est: 3000,
				gen: func(w *worker, u *unit, emit func(*caseT)) {
					var s gseed
					for _, x := range w.oth.bcSeeds() {
						if x.Msg == name {
							s = x
						}
					}
					for _, site := range s.Sites {
						if site.Depth < 2 {
							continue
						}
						for _, m := range mutationsFor(site, s.Root, false) {
							raw, mf, mc := mutate(s.Root, site, m)
							var msg bcproto.Message
							if proto.Unmarshal(raw, &msg) != nil {
								continue
							}
							br, ok := msg.Sum.(*bcproto.Message_BlockResponse)
							if !ok || br.BlockResponse == nil || br.BlockResponse.Block == nil {
								continue
							}
							re := rehash(mustMarshal(br.BlockResponse.Block))
							if re == nil {
								continue
							}
							var pb kproto.Block
							if proto.Unmarshal(re, &pb) != nil {
								continue
							}
							out := bcEncode(&bcproto.BlockResponse{Block: &pb})
							if bytesEq(out, raw) {
								continue
							}
							emit(&caseT{Reactor: "blockchain", State: st, Peer: peerKnown, Msg: name, Kind: "rehashed", Field: mf, Class: mc + "(rehashed)",
								Desc: m.Desc + ", header hashes recomputed by types.NewBlock", Ch: bcChan, raw: out})
						}
					}
				}})
		}
	}
	// ---- transaction pool
	tx := reactorSpec{Name: "txpool", States: txStates, Peers: []string{peerKnown, peerFresh}, Chans: []byte{txChan, 0x31},
		Seeds:  func(e *otherEnv) []gseed { return e.txSeeds() },
		Names:  []string{"Txs", "PooledTransactions", "PooledTransactionHashes", "RequestPooledTransactions"},
		Decode: func(b []byte) error { _, err := tx_pool.VerifC18Decode(b); return err }}
	us = append(us, genericUnits(tx, thorough)...)
	for _, st := range txStates {
		st := st
		us = append(us, &unit{ID: "txpool/signed-variants/" + st, Reactor: "txpool", State: st, Peer: peerKnown, Kind: "resigned", Msg: "Txs", Est: 40000,
			gen: func(w *worker, u *unit, emit func(*caseT)) {
				txFixtures()
				for _, v := range txVariants() {
					for _, wrap := range []string{"Txs", "PooledTransactions"} {
						var raw []byte
						if wrap == "Txs" {
							raw = txMsg(&txproto.Txs{Txs: [][]byte{rlpBytes(v.Tx)}})
						} else {
							raw = txMsg(&txproto.PooledTransactions{Txs: [][]byte{rlpBytes(v.Tx)}})
						}
						emit(&caseT{Reactor: "txpool", State: st, Peer: peerKnown, Msg: wrap, Kind: "resigned", Field: "txs.tx", Class: "signed-tx:" + v.Name,
							Desc: "a correctly signed transaction with " + v.Name, Ch: txChan, raw: raw})
					}
				}
				// many transactions / hashes in one message
				var many [][]byte
				for i := 0; i < 5000; i++ {
					many = append(many, rlpBytes(txGood))
				}
				emit(&caseT{Reactor: "txpool", State: st, Peer: peerKnown, Msg: "Txs", Kind: "resigned", Field: "txs", Class: "repeated:count", Desc: "5000 copies of one transaction",
					Ch: txChan, raw: txMsg(&txproto.Txs{Txs: many})})
				var hs [][]byte
				for i := 0; i < 20000; i++ {
					h := make([]byte, 32)
					h[0], h[1], h[2] = byte(i), byte(i>>8), 0xc1
					hs = append(hs, h)
				}
				emit(&caseT{Reactor: "txpool", State: st, Peer: peerKnown, Msg: "PooledTransactionHashes", Kind: "resigned", Field: "hashes", Class: "repeated:count",
					Desc: "20000 distinct announced hashes", Ch: txChan, raw: txMsg(&txproto.PooledTransactionHashes{Hashes: hs})})
				emit(&caseT{Reactor: "txpool", State: st, Peer: peerKnown, Msg: "RequestPooledTransactions", Kind: "resigned", Field: "hashes", Class: "repeated:count",
					Desc: "20000 distinct requested hashes", Ch: txChan, raw: txMsg(&txproto.RequestPooledTransactions{Hashes: hs})})
			}})
	}
	us = append(us, fetcherUnits(thorough)...)
	// ---- evidence
	ev := reactorSpec{Name: "evidence", States: evStates, Peers: []string{peerFresh}, Chans: []byte{evChan, 0x39},
		Seeds: func(e *otherEnv) []gseed { return e.evSeeds() }, Names: []string{"EvidenceList"},
		Decode: func(b []byte) error { _, err := evidence.VerifC18Decode(b); return err }}
	us = append(us, genericUnits(ev, thorough)...)
	for _, st := range evStates {
		for chunk := 0; chunk < 6; chunk++ {
			st, chunk := st, chunk
			us = append(us, &unit{ID: fmt.Sprintf("evidence/resigned/%s/%d", st, chunk), Reactor: "evidence", State: st, Peer: peerFresh, Kind: "resigned", Msg: "EvidenceList", Est: 12000,
				gen: func(w *worker, u *unit, emit func(*caseT)) {
					s := w.oth.evSeeds()[0]
					key := w.oth.source().others()[0]
					for si, site := range s.Sites {
						if site.F.Name == "signature" || si%6 != chunk {
							continue
						}
						for _, m := range mutationsFor(site, s.Root, false) {
							raw0, mf, mc := mutate(s.Root, site, m)
							raw := resignEvidence(raw0, key)
							if raw == nil {
								continue
							}
							emit(&caseT{Reactor: "evidence", State: st, Peer: peerFresh, Msg: "EvidenceList", Kind: "resigned", Field: mf, Class: mc + "(signed)",
								Desc: m.Desc + ", both votes then signed by the accused validator", Ch: evChan, raw: raw})
						}
					}
				}})
		}
	}
	// ---- peer exchange
	px := reactorSpec{Name: "pex", States: pexStates, Peers: []string{peerFresh}, Chans: []byte{pexChan, 0x01},
		Seeds: func(e *otherEnv) []gseed { return e.pexSeeds() }, Names: []string{"PexRequest", "PexAddrs"},
		Decode: func(b []byte) error { _, err := pex.VerifC18Decode(b); return err }}
	us = append(us, genericUnits(px, thorough)...)
	us = append(us, &unit{ID: "pex/address-values", Reactor: "pex", State: pexSolicited, Peer: peerFresh, Kind: "resigned", Msg: "PexAddrs", Est: 100,
		gen: func(w *worker, u *unit, emit func(*caseT)) {
			ids := []string{"", "zz", string(peerID(77)), string(peerID(77)) + "00", "deadbeef"}
			ips := []string{"", "0.0.0.0", "127.0.0.1", "255.255.255.255", "10.0.0.1", "54.12.13.14", "::", "::1", "1.2.3", "1.2.3.4.5", "[::1]", "2001:4860:4860::8888", "not an ip", "999.1.1.1"}
			ports := []uint32{0, 1, 65535, 65536, 1<<32 - 1}
			for _, id := range ids {
				for _, ip := range ips {
					for _, port := range ports {
						raw := pex.VerifC18Encode(&kp2p.PexAddrs{Addrs: []kp2p.NetAddress{{ID: id, IP: ip, Port: port}}})
						emit(&caseT{Reactor: "pex", State: pexSolicited, Peer: peerFresh, Msg: "PexAddrs", Kind: "resigned", Field: "addrs", Class: "address-value",
							Desc: fmt.Sprintf("id=%q ip=%q port=%d", id, ip, port), Ch: pexChan, raw: raw})
					}
				}
			}
			var many []kp2p.NetAddress
			for i := 0; i < 20000; i++ {
				many = append(many, kp2p.NetAddress{ID: string(peerID(1000 + i)), IP: fmt.Sprintf("54.%d.%d.%d", i>>16&255, i>>8&255, i&255), Port: 26656})
			}
			emit(&caseT{Reactor: "pex", State: pexSolicited, Peer: peerFresh, Msg: "PexAddrs", Kind: "resigned", Field: "addrs", Class: "repeated:count", Desc: "20000 addresses",
				Ch: pexChan, raw: pex.VerifC18Encode(&kp2p.PexAddrs{Addrs: many})})
		}})
	// ---- connection framing
	us = append(us, connUnits(thorough)...)
	return us
}

func connUnits(thorough bool) []*unit {
	var us []*unit
	mk := func(field, class, desc string, stream []byte) *caseT {
		return &caseT{Reactor: "conn", State: connState, Peer: peerFresh, Msg: "PacketStream", Kind: "framing", Field: field, Class: class, Desc: desc, Ch: connChA, raw: stream}
	}
	us = append(us, &unit{ID: "conn/framing", Reactor: "conn", State: connState, Peer: peerFresh, Kind: "framing", Msg: "PacketStream", Est: 3000,
		gen: func(w *worker, u *unit, emit func(*caseT)) {
			pay := func(n int) []byte { return patternBytes(n, 0x21) }
			cat := func(bs ...[]byte) []byte {
				var o []byte
				for _, b := range bs {
					o = append(o, b...)
				}
				return o
			}
			// well-formed sequences (round trip through the framing)
			emit(mk("-", "expect-delivered", "one packet with EOF", frame(packetMsg(int32(connChA), true, pay(10)))))
			emit(mk("-", "expect-delivered", "empty message (EOF, no data)", frame(packetMsg(int32(connChA), true, nil))))
			emit(mk("-", "expect-delivered", "three packets, last with EOF", cat(frame(packetMsg(int32(connChA), false, pay(1000))), frame(packetMsg(int32(connChA), false, pay(1000))),
				frame(packetMsg(int32(connChA), true, pay(24))))))
			emit(mk("-", "expect-delivered", "message of exactly the channel capacity", cat(frame(packetMsg(int32(connChA), false, pay(1024))), frame(packetMsg(int32(connChA), false, pay(1024))),
				frame(packetMsg(int32(connChA), false, pay(1024))), frame(packetMsg(int32(connChA), true, pay(1024))))))
			emit(mk("-", "expect-delivered", "interleaved channels", cat(frame(packetMsg(int32(connChA), false, pay(10))), frame(packetMsg(int32(connChB), false, pay(20))),
				frame(packetMsg(int32(connChA), true, pay(10))), frame(packetMsg(int32(connChB), true, pay(20))))))
			emit(mk("-", "expect-delivered", "ping, pong, then a message", cat(frame(mustMarshal(&kp2p.Packet{Sum: &kp2p.Packet_PacketPing{PacketPing: &kp2p.PacketPing{}}})),
				frame(mustMarshal(&kp2p.Packet{Sum: &kp2p.Packet_PacketPong{PacketPong: &kp2p.PacketPong{}}})), frame(packetMsg(int32(connChA), true, pay(5))))))
			// invalid sequences
			emit(mk("channel_id", "expect-error-no-delivery", "unknown channel 0x33", frame(packetMsg(0x33, true, pay(10)))))
			emit(mk("data", "expect-error-no-delivery", "capacity + 1 bytes without EOF in 1024-byte packets, then EOF", cat(frame(packetMsg(int32(connChA), false, pay(1024))),
				frame(packetMsg(int32(connChA), false, pay(1024))), frame(packetMsg(int32(connChA), false, pay(1024))), frame(packetMsg(int32(connChA), false, pay(1024))),
				frame(packetMsg(int32(connChA), true, pay(1))))))
			var endless []byte
			for i := 0; i < 3000; i++ {
				endless = append(endless, frame(packetMsg(int32(connChB), false, pay(1024)))...)
			}
			emit(mk("eof", "expect-error-no-delivery", "3000 packets of 1024 bytes, never EOF (3 MB on a 1 MB channel)", endless))
			emit(mk("data", "expect-error-no-delivery", "one packet with a 2000-byte payload (above MaxPacketMsgPayloadSize)", frame(packetMsg(int32(connChA), true, pay(2000)))))
			emit(mk("data", "expect-error-no-delivery", "one packet with a 1 MB payload", frame(packetMsg(int32(connChB), true, pay(1<<20)))))
			for _, l := range []uint64{1 << 20, 1 << 31, 1<<32 - 1, 1 << 32, 1<<63 - 1, 1 << 63, 1<<64 - 1} {
				var lb [10]byte
				n := binary_PutUvarint(lb[:], l)
				emit(mk("length-prefix", "expect-error-no-delivery", fmt.Sprintf("length prefix %d followed by 3 bytes", l), append(append([]byte(nil), lb[:n]...), 1, 2, 3)))
			}
			emit(mk("length-prefix", "expect-error-no-delivery", "11-byte varint length prefix", []byte{0xff, 0xff, 0xff, 0xff, 0xff, 0xff, 0xff, 0xff, 0xff, 0xff, 0x01, 0x00}))
			// structure-aware single-field mutations of a valid PacketMsg packet
			valid := packetMsg(int32(connChA), true, pay(10))
			root, err := parseNodes(valid, connSchema, 0)
			if err != nil {
				panic(err)
			}
			for _, site := range sitesOf(root, connSchema, "Packet") {
				for _, m := range mutationsFor(site, root, false) {
					emit(mk("packet."+stripIdx(site.Name), m.Class, m.Desc, frame(encodeNodes(applyAt(root, site, m)))))
				}
			}
			// every truncation and every single-byte substitution of a valid two-packet stream
			two := cat(frame(packetMsg(int32(connChA), false, pay(6))), frame(packetMsg(int32(connChA), true, pay(6))))
			for n := 0; n < len(two); n++ {
				emit(mk("-", "truncated", fmt.Sprintf("first %d of %d bytes", n, len(two)), two[:n]))
			}
			for off := 0; off < len(two); off++ {
				for _, v := range substAlphabet {
					if two[off] == v {
						continue
					}
					raw := append([]byte(nil), two...)
					raw[off] = v
					emit(mk("-", "byte-substituted", fmt.Sprintf("byte %d = 0x%02x", off, v), raw))
				}
			}
		}})
	// raw garbage: every 1- and 2-byte stream
	for hi := 0; hi < 16; hi++ {
		hi := hi
		us = append(us, &unit{ID: fmt.Sprintf("conn/short/%d", hi), Reactor: "conn", State: connState, Peer: peerFresh, Kind: "short", Msg: fmt.Sprintf("raw-%d", hi), Est: 4000,
			gen: func(w *worker, u *unit, emit func(*caseT)) {
				if hi == 0 {
					emit(mk("-", "0-byte-string", "empty stream", []byte{}))
				}
				for a := hi * 16; a < hi*16+16; a++ {
					emit(mk("-", "1-byte-string", fmt.Sprintf("%02x", a), []byte{byte(a)}))
					for b := 0; b < 256; b++ {
						emit(mk("-", "2-byte-string", fmt.Sprintf("%02x %02x", a, b), []byte{byte(a), byte(b)}))
					}
				}
			}})
	}
	return us
}

func binary_PutUvarint(b []byte, v uint64) int {
	i := 0
	for v >= 0x80 {
		b[i] = byte(v) | 0x80
		v >>= 7
		i++
	}
	b[i] = byte(v)
	return i + 1
}

var ruleText = "Per reactor (consensus manager incl. consensus state, block sync incl. scheduler/processor, transaction pool, evidence, peer exchange) and for the MConnection framing: " +
	"the valid message of every type (round-trip oracle) and EVERY single-field mutation of its protobuf tree (field absent / duplicated / wrong wire type; varints {0,1,2,3,4,5,63,64,65,10000,10001,65535,65536,65537,2^31-1,2^31,2^32-1,2^32,2^63-1,2^63,2^64-2,2^64-1}; " +
	"byte fields of length {0,1,19,20,21,31,32,33,64,65,66,65536,65537} plus original-1/+1 byte/bit-flipped/all-0/all-ff; sub-messages empty/garbage/unknown-field; repeated fields x{0,2,3,10001}; bit arrays bits{0,1,4,5,64,65,10000,10001,2^31,2^32-1,2^63,2^64-1} x elems{0,1,2,157}); " +
	"every pair of (reduced-set) mutations on NewRoundStep and VoteSetBits; the full product of boundary values {0, limit-1, limit, limit+1, limit+2, 2^31, max} over each group of semantically coupled fields whose validation is split over several checks (BlockPart part.index x proof.index x proof.total around the part-set total; Vote validator_index x validator_address, raw and signed; Proposal round x pol_round, raw and signed; NewValidBlock part_set_header.total x block_parts bits x is_commit; HasVote index x type x round and VoteSetBits votes bits x type x round around the validator count; NewRoundStep height {0,1,2,h-2..h+2,2^63,2^64-2,2^64-1} x round x step x last_commit_round {0,1,max}), and claimed-position sequences (a NewRoundStep claiming height {h-2..h+2, 2^63, 2^64-2, 2^64-1} with the last_commit_round that passes ValidateHeight, then NewRoundStep / NewValidBlock / HasVote / VoteSetBits / VoteSetMaj23 / ProposalPOL for the claimed height +-1), each followed by the real gossipData / gossipVotes / queryMaj23 routines on the resulting peer state (catch-up branches against the node's real block store, stored commit present and absent), in every node state plus a node at height 3, both tiers; every truncation and every single-byte substitution (alphabet 00 01 08 7f 80 ff) of each valid encoding; every 1- and 2-byte string; " +
	"votes/proposals/evidence mutated before signing (the peer is a validator); every single-field mutation of the proposed block by the round's proposer, raw and with header hashes recomputed; " +
	"multi-part proposals (the round's proposer proposes a block padded to 4 and to 5 parts; the node waits for its parts): for every part index the valid part and its merkle proof with the aunts list mutated {last k dropped for every k, first k dropped, duplicated, one appended, first hash replaced}, index/total consistent with the header and the real leaf hash, in the two Propose states; " +
	"message SEQUENCES of length 3..6 from ONE peer with a retained-state budget measured through in-package accessors (tracked rounds, catch-up rounds per peer, majority claims and per-block tallies of the height vote set): votes (prevotes / precommits / alternating; junk and valid signatures) for distinct untracked rounds of the current height (budget: 2 catch-up rounds per peer, 2 more tracked rounds), VoteSetMaj23 for untracked rounds (0) and for the tracked rounds with changing block ids (1 claim + 1 tally per (round, type) per peer), proposals / block parts for unknown rounds (0), HasVote and NewRoundStep jumps (0 on the node side), in every node state x {fresh, known}; " +
	"stored consensus messages followed by a DRIVE-ON (votes prevote/precommit, proposals, block parts for height {cur-1,cur,cur+1} x round {cur..cur+4, 1000} x signature {valid, junk}, and every valid seed): after the delivery the node's own timeouts fire and the other validators vote nil until it has entered >= 3 more rounds (variant: and commits a height on a valid block); it must still be alive (no recovered handler panic = CONSENSUS FAILURE, still signing); " +
	"transaction fetcher (explicit-state search on the real tx_pool.Reactor + fetcher.TxFetcher loop goroutine + TxPool): every sequence of <= 5 (thorough 6) events over {A/B announces h1 | h2 | h1+h2; A/B broadcasts Txs{h1} | Txs{h2}; A/B sends PooledTransactions{h1} | {h2} | {h1,h2} | {h3 never announced} (solicited or not: full / partial / wrong answers); A/B removed; A/B re-added; time passes beyond the arrival timeout (600 ms) / beyond the request timeout (5.1 s) on the fetcher's own injected mclock.Simulated; park = the next request goroutine the loop spawns is delayed at its call of the real fetchTxs callback; late = that call runs only now}, breadth-first per first event, states de-duplicated by a canonical dump of the fetcher's maps + pool content + registered peers, quiescence by counted loop iterations and a no-op Drop round trip (no wall clock); " +
	"delivered on every channel id of the reactor plus a foreign id, in node states {wait-sync, NewHeight, Propose, Prevote (nil), Prevote (proposal and block received), PrevoteWait, Precommit, Commit-waiting-for-parts at height 1; NewHeight, Propose, Commit-waiting at height 2} x peer {fresh, known (announced the node's round, gossiped to), removed}. " +
	"Thorough tier: pairs on every consensus message type. Quick tier: pairs, byte-level cases and foreign channels in 3 of the 11 states; strings the decoder rejects (they end before any state is read) in 2 states and from fresh peers only. " +
	"A case is distinct by (reactor, channel, message type, field, mutation class, node state, peer state, stage reached) where stage is one of decode-error / rejected-peer-stopped / accepted-no-effect / answered / peer-state-changed / node-state-changed / contained-panic / handler-panic / reactor-specific effects."

var assumptions = []string{
	"A Go runtime error (index out of range, nil dereference, slice bounds, makeslice) inside Receive's own stack on a message of a live peer is a violation (oracle runtime-error-in-receive: the property says the node does not panic), although the connection's recover contains it; explicit panics of the repository's own code in Receive (e.g. 'Peer has no state' for an already removed peer) stay recorded-only under the contained-panic rule.",
	"Drive-on: the environment after a delivery is the netsim one (the node's pending timeouts fire, the other three validators send correctly signed nil votes, in the commit variant the round's proposer's valid block and votes for it); 'alive' = the synchronously driven handlers did not panic (VerifNode.Failed == nil, the analogue of receiveRoutine's CONSENSUS FAILURE recover) and the node kept signing.",
	"Rejection oracle for bit arrays: only arrays whose word count matches their bit count are expected to be rejected when oversized; since ad4f98a an array whose bits and words disagree is taken as EMPTY by FromProto, which VoteSetBits accepts by design.",
	"Transaction fetcher search: the fetcher's real loop() runs on its own goroutine under a recover installed by the in-package accessor; a panic there is ALWAYS a violation (production has no recover: the process dies). The clock is the fetcher's own injectable clock (mclock.Simulated set through the accessor before the loop starts), iteration order its own deterministic test mode (rand seeded with 1). Oracles after every sequence: no panic on the loop goroutine or inside Receive/RemovePeer, no lock held, the bookkeeping maps agree (waitlist/waittime/waitslots mirror each other; a hash is in exactly one stage; alternates exist exactly for hashes being fetched; every hash being fetched has the request record of that peer and vice versa; announces has an origin for each of its entries; nothing that is scheduled or dereferenced - waitslots, waitlist, announces, requests, fetching - names a removed peer; only announced hashes not in the pool are tracked), a valid transaction delivered by a registered peer is in the pool, the underpriced one never is.",
	"Request goroutines of the fetcher (`go func(){ f.fetchTxs(peer, hashes) }` in scheduleFetches) have no synchronisation with Receive/RemovePeer: the search delays at most one such call at a time (events park/late) through a wrapper around the fetchTxs callback installed by the in-package accessor; the wrapper recovers and records a panic of the real callback (it is the goroutine body's callee, so this is exactly the panic that kills the process in production: always a violation); a callback error makes the goroutine Drop the peer, which the quiescence accounting counts as one more loop iteration.",
	"Weakest reading, recorded as an observation (fetcher_states_with_a_stale_origin_observed) and not as a violation: the drop handling removes a peer from `announced` but not from the `alternates` of a hash being fetched from another peer (same code as go-ethereum v1.9.15); the stale origin is never scheduled (scheduling walks `announces`) and so is never dereferenced; it can leave a hash parked in `announced` until somebody announces or delivers it again.",
	"A panic inside Reactor.Receive's own stack is contained by MConnection.recvRoutine's recover (the sending peer is dropped): it is recorded (contained_panics) and is a violation only if a lock stays held, the node state changed or a following well-formed message of another peer is no longer handled (weakest reading).",
	"Panics in ConsensusState.handleMsg, in the three consensus gossip routines and in the block-sync scheduler/processor are always violations: in production they run in goroutines without recover (consensus halts / the process dies). The gossip routines are the real functions, run synchronously for a bounded number of iterations with gossip sleeps of 0.",
	"ConsensusState is driven synchronously (netsim harness: WAL write + handleMsg + own-message drain) instead of by its receiveRoutine; block-sync events are routed by a transcription of demux's switch statements; the application is the deterministic simulated application of the netsim harness.",
	"Allocation oracle: heap bytes allocated during the delivery (and the handling of what it queued) <= channel RecvMessageCapacity + 4 MB + 256 x the bytes the peer sent in the case; allocation proportional to what the peer really sent is not 'unbounded'. Log records at Info and above are formatted (production default), Debug/Trace are not.",
	"Worker processes run with RLIMIT_AS = 12 GB: an allocation the limit cannot serve kills the worker (reported as process-death after 5/5 re-executions of the journalled case in fresh processes).",
	"Worker deaths: the first death of each (reactor, message, field, mutation class) is re-executed 5 times; further deaths of the same class are counted with their node state.",
	"The peer may hold a validator key (it is a validator): messages signed by it after mutation are part of the space; more than 1/3 Byzantine voting power is not.",
	"Hang = leaked lock (exact TryLock probe of every mutex the handlers take); a handler that does not return would stop the run (worker supervision), no timing oracle is used except the 30 s 'recvRoutine did not finish a finite stream' budget of the framing harness.",
}
