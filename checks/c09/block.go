package main

import (
	"fmt"
	"math/big"
	"runtime/debug"
	"sort"
	"strings"
	"sync"

	"github.com/kardiachain/go-kardia/kai/state"
	"github.com/kardiachain/go-kardia/kvm"
	"github.com/kardiachain/go-kardia/lib/common"
	"github.com/kardiachain/go-kardia/mainchain/blockchain"
	"github.com/kardiachain/go-kardia/types"
)

// ---------------------------------------------------------------------------------------------
// Blocks of <= 2 transactions through the real commitBlock (path = commitBlock).

// fixed programs pre-deployed (genesis) for the block path
var (
	blockProgB = []int{aXfer, aSClear}           // moves value out, earns a refund
	blockProgC = []int{aCall + aSDSelf, aCreate} // destroys value (self-destruct to self in a callee), creates a child
	blockInit  = []int{aSSet}                    // init code of the creation transaction
	hBig       = uint64(10000000)                // header gas limit under which nothing is exhausted
	bigPrice   = new(big.Int).Exp(big.NewInt(10), big.NewInt(19), nil)
)

// menuTx is one entry of the transaction menu of the block path.
type menuTx struct {
	Name   string
	Sender int
	NonceD int    // -1, 0, +1
	Value  string // "0" | "1" | "balance+1"
	Gas    string // "intrinsic-1" | "intrinsic" | number
	Price  *big.Int
	Target string // "eoa" | "pb" | "pc" | "leaf-burn" | "create"
}

func blockMenu() []menuTx {
	one, gwei := big.NewInt(1), big.NewInt(1000000000)
	var m []menuTx
	for s := 0; s < nSenders; s++ {
		n := senderNames[s]
		m = append(m,
			menuTx{n + ":ok-transfer", s, 0, "1", "intrinsic", one, "eoa"},
			menuTx{n + ":ok-call-xfer-refund", s, 0, "0", "300000", one, "pb"},
			menuTx{n + ":ok-call-sdself-create", s, 0, "1", "300000", one, "pc"},
			menuTx{n + ":ok-create", s, 0, "1", "300000", one, "create"},
			menuTx{n + ":ok-burn-all-gas", s, 0, "0", "200000", one, "leaf-burn"},
			menuTx{n + ":next-nonce", s, 1, "1", "intrinsic", one, "eoa"},
			menuTx{n + ":nonce-low", s, -1, "1", "intrinsic", one, "eoa"},
			menuTx{n + ":intrinsic-gas", s, 0, "1", "intrinsic-1", gwei, "eoa"},
			menuTx{n + ":funds-for-transfer", s, 0, "balance+1", "intrinsic", one, "eoa"},
			menuTx{n + ":funds-for-gas", s, 0, "0", "1000000", bigPrice, "eoa"},
			menuTx{n + ":big-gas-limit", s, 0, "0", "4000000", big.NewInt(0), "eoa"},
		)
	}
	// collision family: creations whose derived address is occupied in the genesis (executed, fail, nonce must advance)
	m = append(m,
		menuTx{"collider-code:create-into-occupied", 2, 0, "1", "300000", one, "create"},
		menuTx{"collider-nonce:create-into-occupied", 3, 0, "0", "300000", gwei, "create"},
	)
	return m
}

type builtTx struct {
	m     menuTx
	tx    *types.Transaction
	gas   uint64
	price *big.Int
	value *big.Int
}

func buildMenuTx(fork int, m menuTx) builtTx {
	var to *common.Address
	var data []byte
	switch m.Target {
	case "eoa":
		a := addrEOA
		to = &a
	case "pb":
		a := addrPB
		to = &a
	case "pc":
		a := addrPC
		to = &a
	case "leaf-burn":
		a := leafAddr(aBurn)
		to = &a
	case "create":
		data = progInitCode(blockInit)
	}
	intr := intrinsic(fork, to == nil, data)
	var gas uint64
	switch m.Gas {
	case "intrinsic-1":
		gas = intr - 1
	case "intrinsic":
		gas = intr
	default:
		fmt.Sscan(m.Gas, &gas)
	}
	var value *big.Int
	switch m.Value {
	case "0":
		value = big.NewInt(0)
	case "1":
		value = big.NewInt(1)
	default:
		value = new(big.Int).Add(senderBalance(m.Sender), big.NewInt(1))
	}
	nonce := uint64(senderNonce + m.NonceD)
	var tx *types.Transaction
	if to == nil {
		tx = types.NewContractCreation(nonce, value, gas, m.Price, data)
	} else {
		tx = types.NewTransaction(nonce, *to, value, gas, m.Price, data)
	}
	signed, err := types.SignTx(signerFor(fork), tx, senderKey(m.Sender))
	if err != nil {
		panic(err)
	}
	return builtTx{m: m, tx: signed, gas: gas, price: m.Price, value: value}
}

// blockCase is the replay case of the block path.
type blockCase struct {
	Path  string   `json:"path"` // "commitBlock"
	Fork  int      `json:"fork"`
	Txs   []int    `json:"txs"` // indices into the menu
	Names []string `json:"names,omitempty"`
	H     uint64   `json:"header_gas_limit"`
}

func (c blockCase) key() string { return fmt.Sprintf("%d|%v|%d", c.Fork, c.Txs, c.H) }

func (c blockCase) String() string {
	return fmt.Sprintf("%s headerGasLimit=%d txs=[%s]", forkNames[c.Fork], c.H, strings.Join(c.Names, ", "))
}

type rcSummary struct {
	Idx      int // position in the block
	Hash     common.Hash
	Status   uint64
	GasUsed  uint64
	Cumul    uint64
	Contract common.Address
	NLogs    int
}

type blockRun struct {
	c        blockCase
	err      string
	snap     *snapshot
	rcs      []rcSummary
	accepted []bool
	rejects  []string // rejection class per rejected tx, in block order
	rejOf    []string // per position: "" accepted, else class
	gasUsed  uint64
	rewards  *big.Int
	vals     string
	finds    []finding
	burn     *big.Int
}

func (b *blockRun) pattern() string {
	if len(b.rejOf) == 0 {
		return "empty"
	}
	p := make([]string, len(b.rejOf))
	for i, c := range b.rejOf {
		if c == "" {
			p[i] = "accepted"
		} else {
			p[i] = "rejected:" + c
		}
	}
	return strings.Join(p, "+")
}

// class is the coarse block class used in signatures (the full accept/reject pattern is in the text).
func (b *blockRun) class() string {
	if len(b.rejOf) == 0 {
		return "empty"
	}
	for _, c := range b.rejOf {
		if c != "" {
			return "with-rejected"
		}
	}
	return "executed-only"
}

func (b *blockRun) fail(oracle, what string) {
	b.finds = append(b.finds, finding{fmt.Sprintf("C09|path=commitBlock|block=%s|oracle=%s", b.class(), oracle), what + " :: pattern " + b.pattern() + " :: " + b.c.String()})
}

type blockWorld struct {
	menus [nForks][]builtTx
	base  *snapshot
	cache sync.Map // key -> *blockRun
}

var bw *blockWorld

func buildBlockWorld() {
	bw = &blockWorld{}
	menu := blockMenu()
	for f := 0; f < nForks; f++ {
		for _, m := range menu {
			bw.menus[f] = append(bw.menus[f], buildMenuTx(f, m))
		}
	}
	s, err := observe(w.freshState(), nil)
	if err != nil {
		panic(err)
	}
	bw.base = s
}

// runBlock executes the real commitBlock on a fresh copy of the head state and applies the
// block-level oracles that need no second run. Results are cached: the function is pure.
func runBlock(c blockCase) *blockRun {
	if v, ok := bw.cache.Load(c.key()); ok {
		return v.(*blockRun)
	}
	b := execBlock(c)
	if prev, loaded := bw.cache.LoadOrStore(c.key(), b); loaded {
		return prev.(*blockRun) // computed twice concurrently: same result, counted once
	}
	r.Add("commitBlock_runs", 1)
	return b
}

func execBlock(c blockCase) *blockRun {
	menu := bw.menus[c.Fork]
	c.Names = nil
	var txs types.Transactions
	for _, i := range c.Txs {
		txs = append(txs, menu[i].tx)
		c.Names = append(c.Names, menu[i].m.Name)
	}
	b := &blockRun{c: c, burn: new(big.Int), rewards: new(big.Int)}
	lg := &recLogger{}
	bo := blockchain.NewBlockOperations(lg, w.bc, nil, nil, w.staking)
	st := w.freshState()
	hdr := header(forkHeight(c.Fork), c.H)
	var (
		vals     []*types.Validator
		info     *types.BlockInfo
		err      error
		panicked string
	)
	func() {
		defer func() {
			if p := recover(); p != nil {
				panicked = fmt.Sprintf("%v\n%s", p, debug.Stack())
			}
		}()
		vals, info, err = bo.VerifC09CommitBlock(st, txs, hdr, w.lastCommit(), nil)
	}()
	b.rejOf = make([]string, len(txs))
	if panicked != "" {
		b.err = "panic"
		b.fail("no-panic", "commitBlock panicked: "+strings.SplitN(panicked, "\n", 2)[0])
		return b
	}
	if err != nil {
		b.err = err.Error()
		b.fail("commit-succeeds", "commitBlock returned "+err.Error())
		return b
	}
	snap, oerr := observe(st, bw.base)
	if oerr != nil {
		b.err = oerr.Error()
		b.fail("state-readable", oerr.Error())
		return b
	}
	b.snap = snap
	b.gasUsed = info.GasUsed
	if info.Rewards != nil {
		b.rewards = info.Rewards
	}
	var vs []string
	for _, v := range vals {
		vs = append(vs, fmt.Sprintf("%x:%d", v.Address, v.VotingPower))
	}
	b.vals = strings.Join(vs, ",")

	// which transactions got a receipt (receipts are in block order)
	b.accepted = make([]bool, len(txs))
	pos := 0
	var cumul uint64
	for _, rc := range info.Receipts {
		for pos < len(txs) && txs[pos].Hash() != rc.TxHash {
			pos++
		}
		if pos == len(txs) {
			b.fail("receipts-match-block", fmt.Sprintf("receipt for %x is not a transaction of the block (or out of order)", rc.TxHash))
			return b
		}
		b.accepted[pos] = true
		cumul += rc.GasUsed
		b.rcs = append(b.rcs, rcSummary{pos, rc.TxHash, rc.Status, rc.GasUsed, rc.CumulativeGasUsed, rc.ContractAddress, len(rc.Logs)})
		if rc.GasUsed > menu[c.Txs[pos]].gas {
			b.fail("gas-used-le-limit", fmt.Sprintf("tx %d used %d gas, limit %d", pos, rc.GasUsed, menu[c.Txs[pos]].gas))
		}
		if rc.CumulativeGasUsed != cumul {
			b.fail("gas-reported-consistently", fmt.Sprintf("tx %d cumulative gas %d, sum of gas used so far %d", pos, rc.CumulativeGasUsed, cumul))
		}
		pos++
	}
	for i := range txs {
		for j := i + 1; j < len(txs); j++ {
			if b.accepted[i] && b.accepted[j] && txs[i].Hash() == txs[j].Hash() {
				b.fail("tx-executed-at-most-once", fmt.Sprintf("the same signed transaction (positions %d and %d) was executed twice in one block", i, j))
			}
		}
	}
	nrej := 0
	for i, a := range b.accepted {
		if !a {
			cls := "unknown"
			if nrej < len(lg.rejects) {
				cls = rejectClass(lg.rejects[nrej])
			}
			b.rejOf[i] = cls
			b.rejects = append(b.rejects, cls)
			nrej++
		}
	}
	if nrej != len(lg.rejects) {
		b.fail("receipts-match-block", fmt.Sprintf("%d transactions without receipt but %d rejections reported", nrej, len(lg.rejects)))
	}
	if info.GasUsed != cumul {
		b.fail("gas-reported-consistently", fmt.Sprintf("BlockInfo.GasUsed %d, sum over receipts %d", info.GasUsed, cumul))
	}
	if cumul > c.H {
		b.fail("block-gas-limit", fmt.Sprintf("block used %d gas, header gas limit %d", cumul, c.H))
	}

	// sequential traced replay of the accepted transactions on the plain head state: measures the value
	// destroyed by self-destruct-to-self (commitBlock runs the KVM without tracer). It must reproduce the
	// receipts, otherwise the measurement does not apply and that itself is reported.
	seq := w.freshState()
	gp := new(types.GasPool).AddGas(1 << 40)
	var used uint64
	k := 0
	seqOK := true
	for i, a := range b.accepted {
		if !a {
			continue
		}
		tr := &burnTracer{createGas: 32000}
		if c.Fork == 0 {
			tr.createGas = 64000
		}
		seq.Prepare(txs[i].Hash(), common.Hash{}, k)
		rc, _, err, panicked := applyReal(seq, gp, hdr, txs[i], &used, kvm.Config{Debug: true, Tracer: tr})
		if panicked != "" || err != nil || rc == nil || rc.GasUsed != b.rcs[k].GasUsed || rc.Status != b.rcs[k].Status {
			seqOK = false
			b.fail("block-exec-equals-sequential", fmt.Sprintf("tx %d: commitBlock receipt (status %d, gas %d) is not reproduced by ApplyTransaction in sequence (err=%v panic=%v receipt=%+v)",
				i, b.rcs[k].Status, b.rcs[k].GasUsed, err, panicked != "", rc))
			break
		}
		if tr.burn != nil {
			b.burn.Add(b.burn, tr.burn)
		}
		if tr.gasViol != "" {
			b.fail("frame-gas-not-minted", fmt.Sprintf("tx %d: %s", i, tr.gasViol))
		}
		k++
	}
	// conservation over ALL accounts: minted reward in (Mint credits it to the staking contract), destroyed value out
	if seqOK {
		want := new(big.Int).Add(bw.base.sum, b.rewards)
		want.Sub(want, b.burn)
		if snap.sum.Cmp(want) != 0 {
			b.fail("conservation", fmt.Sprintf("sum of all balances %v -> %v, expected %v (minted %v, destroyed by self-destruct-to-self %v); changes: %s",
				bw.base.sum, snap.sum, want, b.rewards, b.burn, describeDiff(bw.base, snap)))
		}
	}
	// nonces and coinbase
	fees := new(big.Int)
	perSender := make([]uint64, len(senders))
	k = 0
	for i, a := range b.accepted {
		if a {
			mt := menu[c.Txs[i]]
			perSender[mt.m.Sender]++
			fees.Add(fees, new(big.Int).Mul(new(big.Int).SetUint64(b.rcs[k].GasUsed), mt.price))
			k++
		}
	}
	for s := range senders {
		if n0, n1 := bw.base.get(senders[s]).Nonce, snap.get(senders[s]).Nonce; n1 != n0+perSender[s] {
			b.fail("sender-nonce-plus-one", fmt.Sprintf("sender %s nonce %d -> %d with %d of its transactions executed", senderNames[s], n0, n1, perSender[s]))
		}
	}
	if d := new(big.Int).Sub(snap.get(addrCoinbase).Balance, bw.base.get(addrCoinbase).Balance); d.Cmp(fees) != 0 {
		b.fail("coinbase-fee", fmt.Sprintf("proposer gained %v, sum of gasUsed*price = %v", d, fees))
	}
	return b
}

func without(a []int, k int) []int {
	out := append([]int{}, a[:k]...)
	return append(out, a[k+1:]...)
}

// checkBlock = runBlock + the "as if it had not been in the block" relation: removing the FIRST rejected
// transaction must change nothing (state root, every account, receipts, gas used, reward, validators).
func checkBlock(c blockCase) (*blockRun, []finding) {
	b := runBlock(c)
	finds := append([]finding{}, b.finds...)
	if b.err != "" {
		return b, finds
	}
	first := -1
	for i, cls := range b.rejOf {
		if cls != "" {
			first = i
			break
		}
	}
	if first < 0 {
		return b, finds
	}
	c2 := blockCase{Path: c.Path, Fork: c.Fork, Txs: without(c.Txs, first), H: c.H}
	b2, f2 := checkBlock(c2)
	finds = append(finds, f2...)
	if b2.err != "" {
		return b, finds
	}
	cls := b.rejOf[first]
	var diffs []string
	poolShaped := false
	// align receipts: position i in b2 corresponds to position i (+1 if >= first) in b
	acc1 := map[common.Hash]rcSummary{}
	for _, x := range b.rcs {
		acc1[x.Hash] = x
	}
	acc2 := map[common.Hash]rcSummary{}
	for _, x := range b2.rcs {
		acc2[x.Hash] = x
	}
	for i, x := range b2.rcs {
		y, ok := acc1[x.Hash]
		if !ok {
			orig := x.Idx
			if orig >= first {
				orig++
			}
			diffs = append(diffs, fmt.Sprintf("tx %q is executed when the rejected one is absent but rejected (%s) when it is present", b.c.Names[orig], b.rejOf[orig]))
			if b.rejOf[orig] == "block-gas-exhausted" {
				poolShaped = true
			}
			continue
		}
		if x.Status != y.Status || x.GasUsed != y.GasUsed || x.Cumul != y.Cumul || x.Contract != y.Contract || x.NLogs != y.NLogs {
			diffs = append(diffs, fmt.Sprintf("receipt %d differs: %+v vs %+v", i, y, x))
		}
	}
	for _, y := range b.rcs {
		if _, ok := acc2[y.Hash]; !ok {
			diffs = append(diffs, fmt.Sprintf("tx %q is executed only when the rejected one is present", b.c.Names[y.Idx]))
		}
	}
	if b.gasUsed != b2.gasUsed {
		diffs = append(diffs, fmt.Sprintf("block gas used %d vs %d", b.gasUsed, b2.gasUsed))
	}
	if b.rewards.Cmp(b2.rewards) != 0 {
		diffs = append(diffs, fmt.Sprintf("reward %v vs %v", b.rewards, b2.rewards))
	}
	if b.vals != b2.vals {
		diffs = append(diffs, "validator sets differ")
	}
	if b.snap.root != b2.snap.root || len(diff(b.snap, b2.snap)) != 0 {
		diffs = append(diffs, "state (block without it -> block with it): "+describeDiff(b2.snap, b.snap))
	}
	if len(diffs) > 0 {
		oracle := "state-as-if-absent"
		if poolShaped {
			oracle = "gas-pool-restored"
		}
		sort.Strings(diffs)
		finds = append(finds, finding{fmt.Sprintf("C09|path=commitBlock|reject=%s|oracle=%s", cls, oracle),
			fmt.Sprintf("the block with the rejected transaction %q (%s) differs from the block without it: %s :: %s", b.c.Names[first], cls, strings.Join(diffs, "; "), b.c.String())})
	}
	return b, finds
}

// blockCases enumerates, for one ordered pair (or single, or the empty block), the header gas limits
// of the stated family. used1 comes from the run under hBig.
func gasLimitsFor(fork int, idxs []int) []uint64 {
	menu := bw.menus[fork]
	set := map[uint64]bool{hBig: true}
	switch len(idxs) {
	case 1:
		g := menu[idxs[0]].gas
		set[g], set[g-1] = true, true
	case 2:
		g1, g2 := menu[idxs[0]].gas, menu[idxs[1]].gas
		set[g2], set[g1+g2-1] = true, true
		big := runBlock(blockCase{Path: "commitBlock", Fork: fork, Txs: idxs, H: hBig})
		if len(big.accepted) == 2 && big.accepted[0] && len(big.rcs) > 0 {
			u := big.rcs[0].GasUsed
			set[u+g2], set[u+g2-1] = true, true
		}
	}
	var out []uint64
	for h := range set {
		out = append(out, h)
	}
	sort.Slice(out, func(i, j int) bool { return out[i] > out[j] })
	return out
}

// checkConsecutive: block h with [tx], then block h+1 on the resulting state with the SAME signed transaction again.
// If the first block executed it, the second block must refuse it: no receipt, and the state after the second block is
// bit-identical to the state after an EMPTY second block (not charged twice). Real commitBlock for all three runs.
func checkConsecutive(fork, idx int) (executedFirst bool, finds []finding) {
	mt := bw.menus[fork][idx]
	name := mt.m.Name
	fail := func(oracle, what string) {
		finds = append(finds, finding{fmt.Sprintf("C09|path=commitBlock|blocks=same-tx-in-consecutive-blocks|oracle=%s", oracle),
			fmt.Sprintf("%s :: %s tx=%q", what, forkNames[fork], name)})
	}
	run := func(st *state.StateDB, height uint64, txs types.Transactions) (info *types.BlockInfo, ok bool) {
		defer func() {
			if p := recover(); p != nil {
				fail("no-panic", fmt.Sprintf("commitBlock panicked: %v", p))
				ok = false
			}
		}()
		bo := blockchain.NewBlockOperations(&recLogger{}, w.bc, nil, nil, w.staking)
		_, info, err := bo.VerifC09CommitBlock(st, txs, header(height, hBig), w.lastCommit(), nil)
		if err != nil {
			fail("commit-succeeds", "commitBlock returned "+err.Error())
			return nil, false
		}
		return info, true
	}
	r.Add("commitBlock_runs", 3)
	h := forkHeight(fork)
	st := w.freshState()
	info1, ok := run(st, h, types.Transactions{mt.tx})
	if !ok {
		return false, finds
	}
	st.IntermediateRoot(true)
	if len(info1.Receipts) == 0 {
		return false, finds
	}
	withTx, empty := st.Copy(), st.Copy()
	info2, ok := run(withTx, h+1, types.Transactions{mt.tx})
	if !ok {
		return true, finds
	}
	if _, ok = run(empty, h+1, nil); !ok {
		return true, finds
	}
	sa, e1 := observe(withTx, nil)
	sb, e2 := observe(empty, nil)
	if e1 != nil || e2 != nil {
		fail("state-readable", fmt.Sprint(e1, e2))
		return true, finds
	}
	if len(info2.Receipts) != 0 {
		fail("executed-tx-not-executed-again", fmt.Sprintf("the transaction executed in block %d (gas %d) was executed again in block %d (gas %d)", h, info1.Receipts[0].GasUsed, h+1, info2.Receipts[0].GasUsed))
	}
	if sa.root != sb.root || len(diff(sa, sb)) != 0 {
		fail("executed-tx-not-charged-again", "offering the executed transaction again changed the state (empty second block -> second block with it): "+describeDiff(sb, sa))
	}
	return true, finds
}
