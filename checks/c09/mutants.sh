#!/bin/bash
# Demonstrates that C09 fails on each mutant: applies every /verif/mutants/c09-*.patch (or the ones
# named on the command line) to a scratch worktree of /repo, runs the repository's own tests of the
# touched package and the quick check, and prints the signatures the mutant ADDS to what the
# unchanged tree already reports (the unchanged tree has a genuine finding, see FINDINGS.md).
export GOFLAGS=-mod=mod GOPROXY=off GOSUMDB=off GOTOOLCHAIN=local
sigs_of() { grep '^violation:' | sed 's/^violation: \(C09|[^ ]*\): .*/\1/' | sort -u; }
BASE=/tmp/c09-base-sigs.$$
WT=/tmp/wt-c09-$$
git -C /repo worktree add --detach "$WT" HEAD >/dev/null 2>&1 || { echo "worktree failed"; exit 2; }
VERIF_REPO="$WT" VERIF_NOEVIDENCE=1 timeout 900 /verif/run.sh C09 quick 2>/dev/null | sigs_of > "$BASE"
echo "unchanged tree: $(tr '\n' ' ' < "$BASE")"
git -C /repo worktree remove --force "$WT"
if [ $# -gt 0 ]; then LIST=("$@"); else LIST=(/verif/mutants/c09-*.patch); fi
for p in "${LIST[@]}"; do
  name=$(basename "$p" .patch)
  git -C /repo worktree add --detach "$WT" HEAD >/dev/null 2>&1 || { echo "$name: worktree failed"; continue; }
  if ! git -C "$WT" apply "$p"; then echo "$name: patch does not apply"; git -C /repo worktree remove --force "$WT"; continue; fi
  pkgs=$(git -C "$WT" diff --name-only | xargs -n1 dirname | sort -u | sed 's|^|./|; s|$|/|' | tr '\n' ' ')
  if (cd "$WT" && timeout 900 go test -vet=off -count=1 $pkgs >/tmp/c09-mut-test.log 2>&1); then tests=pass; else
    tests="FAIL($(grep -- '^--- FAIL\|^FAIL' /tmp/c09-mut-test.log | awk '{print $3 $2}' | sort -u | tr '\n' ',' ))"; fi
  out=$(VERIF_REPO="$WT" VERIF_NOEVIDENCE=1 timeout 900 /verif/run.sh C09 quick 2>/dev/null)
  rc=$?
  new=$(echo "$out" | sigs_of | comm -23 - "$BASE" | tr '\n' ' ')
  nv=$(echo "$out" | grep -c '^VIOLATION')
  echo "$name | repo tests ($pkgs): $tests | exit $rc | VIOLATION lines: $nv | added: $new"
  git -C /repo worktree remove --force "$WT"
done
git -C /repo worktree prune
rm -f "$BASE"
