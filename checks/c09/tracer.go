package main

import (
	"math/big"
	"time"

	"github.com/kardiachain/go-kardia/kvm"
	"github.com/kardiachain/go-kardia/lib/common"
)

// burnTracer observes one transaction through the KVM's own tracing hooks. It measures
//   - the balance destroyed by SELFDESTRUCTs that name the executing contract itself as beneficiary and
//     that survive (no enclosing frame failed): the only way value may leave the system (A.6);
//   - the gas the top-level call/create consumed (before the refund), and the refund counter at that point;
//   - which of the action opcodes really executed (vacuity guards, classification).
//
// Frames: CaptureEnter pushes, CaptureExit pops; a frame that exits with an error discards the events
// recorded below it, exactly as the state journal discards its effects.
type burnTracer struct {
	env       *kvm.KVM
	started   bool
	ended     bool
	frames    [][]*big.Int
	burn      *big.Int
	vmGas     uint64
	endErr    error
	refundCtr uint64
	ops       uint32 // bit set of executed action opcodes, see op* constants
	steps     int
	maxDepth  int
}

const (
	opCall = 1 << iota
	opCreate
	opRevert
	opInvalid
	opStatic
	opSDSelf
	opSDOther
	opSStore
	opCallFailed   // some inner frame exited with an error
	opCallReverted // ... specifically with REVERT
)

func (t *burnTracer) CaptureStart(env *kvm.KVM, from common.Address, to common.Address, create bool, input []byte, gas uint64, value *big.Int) {
	t.env = env
	t.started = true
	t.frames = [][]*big.Int{nil}
}

func (t *burnTracer) CaptureState(pc uint64, op kvm.OpCode, gas, cost uint64, scope *kvm.ScopeContext, rData []byte, depth int, err error) {
	t.steps++
	if depth > t.maxDepth {
		t.maxDepth = depth
	}
	switch op {
	case kvm.CALL:
		t.ops |= opCall
	case kvm.CREATE:
		t.ops |= opCreate
	case kvm.REVERT:
		t.ops |= opRevert
	case kvm.STATICCALL:
		t.ops |= opStatic
	case kvm.SSTORE:
		if err == nil {
			t.ops |= opSStore
		}
	case kvm.OpCode(0xfe):
		t.ops |= opInvalid
	}
}

func (t *burnTracer) CaptureFault(pc uint64, op kvm.OpCode, gas, cost uint64, scope *kvm.ScopeContext, depth int, err error) {
}

func (t *burnTracer) CaptureEnter(typ kvm.OpCode, from common.Address, to common.Address, input []byte, gas uint64, value *big.Int) {
	if typ == kvm.SELFDESTRUCT {
		if from == to {
			t.ops |= opSDSelf
			if len(t.frames) > 0 && value != nil {
				top := len(t.frames) - 1
				t.frames[top] = append(t.frames[top], new(big.Int).Set(value))
			}
		} else {
			t.ops |= opSDOther
		}
	}
	t.frames = append(t.frames, nil)
}

func (t *burnTracer) CaptureExit(output []byte, gasUsed uint64, err error) {
	n := len(t.frames)
	if n < 2 {
		return
	}
	f := t.frames[n-1]
	t.frames = t.frames[:n-1]
	if err == nil {
		t.frames[n-2] = append(t.frames[n-2], f...)
	} else {
		t.ops |= opCallFailed
		if err == kvm.ErrExecutionReverted {
			t.ops |= opCallReverted
		}
	}
}

func (t *burnTracer) CaptureEnd(output []byte, gasUsed uint64, d time.Duration, err error) {
	t.ended = true
	t.vmGas = gasUsed
	t.endErr = err
	t.burn = new(big.Int)
	if err == nil && len(t.frames) > 0 {
		for _, b := range t.frames[0] {
			t.burn.Add(t.burn, b)
		}
	}
	if t.env != nil {
		t.refundCtr = t.env.StateDB.GetRefund()
	}
}
