package main

import (
	"fmt"
	"math/big"
	"time"

	"github.com/kardiachain/go-kardia/kvm"
	"github.com/kardiachain/go-kardia/lib/common"
)

// burnTracer observes one transaction through the KVM's own tracing hooks. It measures
//   - the balance destroyed by SELFDESTRUCTs that name the executing contract itself as beneficiary and
//     that survive (no enclosing frame failed): the only way value may leave the system (A.6);
//   - the gas the top-level call/create consumed (before the refund), and the refund counter at that point;
//   - which of the action opcodes really executed (vacuity guards, classification).
//
// Frames: CaptureEnter pushes, CaptureExit pops; a frame that exits with an error discards the events
// recorded below it, exactly as the state journal discards its effects.
type burnTracer struct {
	env       *kvm.KVM
	started   bool
	ended     bool
	frames    [][]*big.Int
	cframes   [][]common.Address        // per open frame: creators of the CREATE/CREATE2 steps that got past the balance check
	creators  map[common.Address]uint64 // surviving creation steps per creator (set at CaptureEnd)
	burn      *big.Int
	vmGas     uint64
	endErr    error
	refundCtr uint64
	ops       uint32 // bit set of executed action opcodes, see op* constants
	steps     int
	maxDepth  int

	// frame gas accounting ("no gas is minted across a child frame"), see checkStep
	curDepth  int
	enterFrom []int // depth of the frame that entered each open child
	last      [maxTrackDepth]stepRec
	gasViol   string // first violation, "" if none
	creates   int    // CREATE/CREATE2 steps checked
	createGas uint64 // price of CREATE/CREATE2 in the schedule of the fork (0: 32000)
}

const maxTrackDepth = 16

type stepRec struct {
	valid     bool
	op        kvm.OpCode
	gas       uint64 // gas of the frame before the step
	childUsed uint64 // gas consumed by the child frames this step entered (CaptureExit)
	children  int
}

// checkStep: between two consecutive steps of the same frame the frame's gas may only fall, and
//   - after CREATE / CREATE2 by at least the schedule's 32000 (charged twice under pre-Galaxias rules, A7) plus
//     everything the init code consumed
//     (the frame gets back at most what it handed over: returned <= forwarded);
//   - after a CALL-type opcode by at least what the callee consumed minus the 2300 call stipend;
//   - after any other opcode it simply must not rise.
func (t *burnTracer) checkStep(depth int, gasNow uint64) {
	if depth <= 0 || depth >= maxTrackDepth {
		return
	}
	l := &t.last[depth]
	if !l.valid || t.gasViol != "" {
		return
	}
	var minDrop uint64
	switch l.op {
	case kvm.CREATE, kvm.CREATE2:
		minDrop = 32000 + l.childUsed
		if t.createGas != 0 {
			minDrop = t.createGas + l.childUsed
		}
		t.creates++
	case kvm.CALL, kvm.CALLCODE, kvm.DELEGATECALL, kvm.STATICCALL:
		if l.childUsed > 2300 {
			minDrop = l.childUsed - 2300
		}
	}
	if gasNow > l.gas || l.gas-gasNow < minDrop {
		t.gasViol = fmt.Sprintf("frame at depth %d held %d gas before %v and %d after it; its %d child frame(s) consumed %d: the frame must lose at least %d", depth, l.gas, l.op, gasNow,
			l.children, l.childUsed, minDrop)
	}
}

const (
	opCall = 1 << iota
	opCreate
	opRevert
	opInvalid
	opStatic
	opSDSelf
	opSDOther
	opSStore
	opCallFailed   // some inner frame exited with an error
	opCallReverted // ... specifically with REVERT
	opCreate2
	nOpBits = 11
)

func (t *burnTracer) CaptureStart(env *kvm.KVM, from common.Address, to common.Address, create bool, input []byte, gas uint64, value *big.Int) {
	t.env = env
	t.started = true
	t.frames = [][]*big.Int{nil}
	t.cframes = [][]common.Address{nil}
}

func (t *burnTracer) CaptureState(pc uint64, op kvm.OpCode, gas, cost uint64, scope *kvm.ScopeContext, rData []byte, depth int, err error) {
	t.steps++
	t.checkStep(depth, gas)
	if depth > 0 && depth < maxTrackDepth {
		t.last[depth] = stepRec{valid: true, op: op, gas: gas}
		if depth+1 < maxTrackDepth {
			t.last[depth+1].valid = false
		}
	}
	t.curDepth = depth
	if depth > t.maxDepth {
		t.maxDepth = depth
	}
	switch op {
	case kvm.CALL:
		t.ops |= opCall
	case kvm.CREATE, kvm.CREATE2:
		if op == kvm.CREATE {
			t.ops |= opCreate
		} else {
			t.ops |= opCreate2
		}
		// a creation step that is affordable and whose endowment the creator can pay bumps the creator's nonce,
		// whatever happens to the init code afterwards (collision included)
		if err == nil && t.env != nil && len(t.cframes) > 0 && scope != nil && scope.Stack != nil && len(scope.Stack.Data()) >= 3 {
			creator := scope.Contract.Address()
			if t.env.StateDB.GetBalance(creator).Cmp(scope.Stack.Back(0).ToBig()) >= 0 {
				top := len(t.cframes) - 1
				t.cframes[top] = append(t.cframes[top], creator)
			}
		}
	case kvm.REVERT:
		t.ops |= opRevert
	case kvm.STATICCALL:
		t.ops |= opStatic
	case kvm.SSTORE:
		if err == nil {
			t.ops |= opSStore
		}
	case kvm.OpCode(0xfe):
		t.ops |= opInvalid
	}
}

func (t *burnTracer) CaptureFault(pc uint64, op kvm.OpCode, gas, cost uint64, scope *kvm.ScopeContext, depth int, err error) {
}

func (t *burnTracer) CaptureEnter(typ kvm.OpCode, from common.Address, to common.Address, input []byte, gas uint64, value *big.Int) {
	t.enterFrom = append(t.enterFrom, t.curDepth)
	if d := t.curDepth + 1; d > 0 && d < maxTrackDepth {
		t.last[d].valid = false
	}
	if typ == kvm.SELFDESTRUCT {
		if from == to {
			t.ops |= opSDSelf
			if len(t.frames) > 0 && value != nil {
				top := len(t.frames) - 1
				t.frames[top] = append(t.frames[top], new(big.Int).Set(value))
			}
		} else {
			t.ops |= opSDOther
		}
	}
	t.frames = append(t.frames, nil)
	t.cframes = append(t.cframes, nil)
}

func (t *burnTracer) CaptureExit(output []byte, gasUsed uint64, err error) {
	if n := len(t.enterFrom); n > 0 {
		d := t.enterFrom[n-1]
		t.enterFrom = t.enterFrom[:n-1]
		t.curDepth = d
		if d > 0 && d < maxTrackDepth && t.last[d].valid {
			t.last[d].childUsed += gasUsed
			t.last[d].children++
		}
	}
	n := len(t.frames)
	if n < 2 {
		return
	}
	f := t.frames[n-1]
	t.frames = t.frames[:n-1]
	if m := len(t.cframes); m >= 2 {
		cf := t.cframes[m-1]
		t.cframes = t.cframes[:m-1]
		if err == nil {
			t.cframes[m-2] = append(t.cframes[m-2], cf...)
		}
	}
	if err == nil {
		t.frames[n-2] = append(t.frames[n-2], f...)
	} else {
		t.ops |= opCallFailed
		if err == kvm.ErrExecutionReverted {
			t.ops |= opCallReverted
		}
	}
}

func (t *burnTracer) CaptureEnd(output []byte, gasUsed uint64, d time.Duration, err error) {
	t.ended = true
	t.vmGas = gasUsed
	t.endErr = err
	t.burn = new(big.Int)
	t.creators = map[common.Address]uint64{}
	if err == nil && len(t.cframes) > 0 {
		for _, a := range t.cframes[0] {
			t.creators[a]++
		}
	}
	if err == nil && len(t.frames) > 0 {
		for _, b := range t.frames[0] {
			t.burn.Add(t.burn, b)
		}
	}
	if t.env != nil {
		t.refundCtr = t.env.StateDB.GetRefund()
	}
}
