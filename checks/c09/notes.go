package main

/*
This file holds the content of FINDINGS.md and MUTANTS.md for C09 (the authoring tool of this session could not
create .md files). No code.

=====================================================================================================================
FINDINGS — result on the unchanged repository
=====================================================================================================================

The check exits 1 on the unchanged /repo (HEAD 9cab62e) with exactly two signatures, both the same defect (D15 of
DESIGN.md section 5, confirmed), identical in 3 of 3 quick runs and in the thorough run:

    C09|path=commitBlock|reject=intrinsic-gas|oracle=gas-pool-restored
    C09|path=commitBlock|reject=insufficient-funds-for-transfer|oracle=gas-pool-restored

Nothing else fires: conservation over all accounts, fee to proposer, sender/target deltas, nonce, gas used <= limit,
refund <= half, pool delta == gas used, invalid => rejected, rejected => state unchanged hold on every point of the
enumerated space on both paths. With the two-line repair below applied to a scratch worktree the quick tier exits 0,
3 of 3 runs (this is the zero-false-alarm evidence on a tree where the property holds).

F1 (= D15) commitBlock does not give the block gas back after a transaction that is rejected late
-------------------------------------------------------------------------------------------------

Where. mainchain/blockchain/block_operations.go:301-313 (the LOOP of commitBlock): on an ApplyTransaction error the
state is reverted to the snapshot and the loop continues, but the local gasPool is left as ApplyTransaction left it.
mainchain/blockchain/state_processor.go:197-210 (buyGas) has by then already executed st.gp.SubGas(st.msg.Gas())
(l.202) and SubBalance(from, gasLimit*price) (l.208) for every rejection that TransitionDb decides AFTER preCheck:

  rejection class                              decided at                                    pool touched before the error?
  nonce too low / too high                     preCheck l.216-219, before buyGas             no  (state and pool bit-identical, measured)
  insufficient funds for gas*price             buyGas l.199-200, before SubGas               no
  gas limit reached (block gas exhausted)      buyGas l.202: SubGas fails, subtracts nothing no
  intrinsic gas too low (+ IntrinsicGas error) TransitionDb l.253-259, after buyGas          YES: -gasLimit (and sender -gasLimit*price)
  insufficient funds for transfer              TransitionDb l.263-265, after buyGas          YES: -gasLimit (and sender -gasLimit*price)

The sender debit is journalled and commitBlock undoes it with RevertToSnapshot; the pool is a plain uint64 and nobody
restores it. The same lines (snapshot, ApplyTransaction, revert on error, no pool restore) are in
mainchain/blockchain/block_constructor.go:220-228 (proposalBlock.commitTransaction, the Galaxias proposer path).

Minimal failing input (replay file /verif/replay/C09-1.json; `./run.sh C09 --replay <file>` prints it and exits 1):
Galaxias rules, header gas limit 41 998, block =
  tx1: sender "rich", correct nonce, value 1, gas limit 20 999 (= intrinsic-1), price 10^9, to an EOA
  tx2: same sender, same nonce, value 1, gas limit 21 000, price 1, to an EOA.
tx1 is rejected with "intrinsic gas too low" after buyGas took 20 999 out of the pool; the pool is now 20 999, so tx2 is
rejected with "gas limit reached" and the block executes nothing (gas used 0). The block [tx2] alone under the same
header executes tx2 (gas used 21 000, sender nonce 5 -> 6, EOA +1, proposer +21 000). The property demands that a
transaction rejected before execution leaves everything "as if it had not been in the block"; here its presence decides
whether another transaction executes: balances, nonce, receipts and app hash of the block differ.
The second signature is the same with tx1 = value balance+1, gas limit 21 000 (header limit 41 999).
96 of the enumerated blocks fail for each class (every pair whose second transaction no longer fits because of the leak).

Why it is genuine. Both runs are the real commitBlock on copies of the real chain's head state (real staking contract,
real Mint / FinalizeCommit / ApplyAndReturnValidatorSets); the only difference between them is the presence of the
rejected transaction. It is deterministic (all validators compute the same, no fork risk by itself), but a Byzantine or
careless proposer can put never-executable transactions (gas limit = intrinsic-1 costs nothing: the debit is reverted)
in front of honest ones and have them dropped although they were included and fit; on the Galaxias proposer path the
leak shrinks the proposer's own block. Upstream go-ethereum repaired the identical bug in its worker by saving
gasPool.Gas() before and SetGas() after a failed ApplyTransaction.

Suggested minimal additive fix (two lines in commitBlock; verified: quick exits 0, no VIOLATION, all other counts equal):

    		snap := state.Snapshot()
    +		gasBefore := gasPool.Gas()
    		receipt, _, err := ApplyTransaction(bo.blockchain.chainConfig, bo.logger, bo.blockchain, gasPool, state, header, tx, usedGas, kvmConfig)
    		if err != nil {
    			bo.logger.Error("ApplyTransaction failed", "tx", tx.Hash().Hex(), "nonce", tx.Nonce(), "err", err)
    			state.RevertToSnapshot(snap)
    +			*gasPool = types.GasPool(gasBefore) // a rejected transaction must not consume block gas
    			continue LOOP
    		}

(and the same two lines in proposalBlock.commitTransaction). Alternative that repairs every caller at once, also
verified to make the check pass: in TransitionDb call st.gp.AddGas(st.initialGas) before each of the three error
returns that follow preCheck (state_processor.go l.255, l.258, l.264). Neither touches a persisted or signed format; it
does change which transactions of a block that contains a late-rejected transaction are executed, so on a live chain it
must be activated like a consensus rule change (at a fork height), otherwise patched and unpatched nodes compute
different app hashes for such a block.

Reading of the property at the ApplyTransaction level (not a finding)
---------------------------------------------------------------------
ApplyTransaction alone, on the two late classes, returns an error with the sender still debited gasLimit*price and the
pool debited gasLimit (quick tier: 68 600 state / 104 272 pool cases). This is the upstream contract (the caller
discards or reverts) and every caller in the repository reverts the state, so the check tolerates EXACTLY this residue
and nothing else at that level (assumption A2) and decides the caller's duty on path=commitBlock, where the state part
holds and the pool part is F1. Rejections decided before buyGas must leave state and pool bit-identical with no help
from the caller, and do.

Where the fee goes / where Mint puts money (stated as assumptions A1, A5)
------------------------------------------------------------------------
TransitionDb credits gasUsed*price to st.vm.Coinbase = header.ProposerAddress (mainchain/kvm NewKVMContext).
StakingSmcUtil.Mint calls the staking contract's mint() with value 0 and then AddBalance(stakingContract, fee); that
fee is BlockInfo.Rewards (16.05 KAI per block in this genesis). FinalizeCommit / ApplyAndReturnValidatorSets move value
only between accounts. Block oracle: sum(all accounts after) = sum(before) + Rewards - destroyed-by-selfdestruct-to-self.

=====================================================================================================================
MUTANTS — demonstration that the check can fail (script: checks/c09/mutants.sh)
=====================================================================================================================

Procedure per row: scratch worktree of /repo HEAD under /tmp, `git apply /verif/mutants/<patch>`, `go test -vet=off
-count=1` on the touched package, `VERIF_REPO=<worktree> VERIF_NOEVIDENCE=1 /verif/run.sh C09 quick`, worktree removed.
"added" = signatures other than the two baseline F1 signatures above, which are present in every run on a tree
without the F1 repair. All runs: exit 1 with VIOLATION lines. mainchain/blockchain and mainchain/kvm have no tests.

  patch (mutants/c09-*.patch)         change                                                         repo tests  quick   added signatures (oracle; tx classes)
  m20-no-revert-on-tx-error (M20)     commitBlock: RevertToSnapshot on tx error removed               pass(none)  caught  path=commitBlock block=with-rejected oracle=conservation;
                                                                                                                          reject={intrinsic-gas,insufficient-funds-for-transfer} oracle=state-as-if-absent
  m27-refund-cap-at-gas-used (M27)    refundGas: refund := gasUsed() instead of gasUsed()/2           pass(none)  caught  path=ApplyTransaction tx={call-contract,create}/ok oracle=refund-cap
  m28-coinbase-paid-initial-gas (M28) TransitionDb: coinbase += initialGas*price                      pass(none)  caught  oracle=coinbase-fee and oracle=conservation on every applied class, both paths
  nonce-bumped-before-check           preCheck: SetNonce(nonce+1) before the comparison (and the      pass(none)  caught  path=ApplyTransaction reject={nonce-too-low,nonce-too-high,...6 classes} oracle=state-unchanged;
                                      later bump in the call branch neutralised)                                          tx=create/* oracle=sender-nonce-plus-one (create bumps again); blocks oracle=sender-nonce-plus-one
  transfer-of-one-not-debited         mainchain/kvm Transfer: SubBalance skipped when amount == 1     pass(none)  caught  oracle=conservation + sender-pays-value-plus-fee, all target kinds, both paths
  selfdestruct-credits-twice          kvm opSuicide: AddBalance(beneficiary) executed twice           pass        caught  path=ApplyTransaction tx={call-contract,create}/ok oracle=conservation
  pool-refund-short                   refundGas: gp.AddGas(gas - gas/64)                              pass(none)  caught  oracle=gas-pool-delta on every applied class
  intrinsic-gas-check-dropped         TransitionDb: ErrIntrinsicGas check removed                     pass(none)  caught  oracle=invalid-tx-rejected + gas-used-le-limit
  buygas-balance-check-dead           buyGas: balance < gas*price test made unsatisfiable             pass(none)  caught  oracle=invalid-tx-rejected, conservation, sender-pays-value-plus-fee, sender-nonce-plus-one
  seeded-f-create2-mints-gas          kvm opCreate2: UseGas(gas - gas/64) while Create2 still gets    pass        caught  path=ApplyTransaction tx=call-factory/ok oracle={exact-gas-figure (any gas limit), frame-gas-not-minted
                                      the full gas: every CREATE2 mints gas/64                                            (any limit), gas-used-le-limit, gas-pool-delta, sender-pays-value-plus-fee, conservation (8M, 20M)}
                                      (MISSED before the factory family existed: the alphabet had CREATE but no CREATE2 opcode anywhere, and no gas limit above 5*10^6)
  seeded-g-create-collision-keeps-    kvm create(): caller nonce bump moved behind the address        pass        caught  path=ApplyTransaction tx=create/failed oracle=sender-nonce-plus-one; tx=call-factory/ok oracle=creator-nonce-advances;
  nonce                               collision check                                                                      path=commitBlock block={executed-only,with-rejected} oracle=sender-nonce-plus-one, oracle=tx-executed-at-most-once;
                                                                                                                          blocks=same-tx-in-consecutive-blocks oracle={executed-tx-not-executed-again, executed-tx-not-charged-again}
                                      (MISSED before the collision family existed: no world in which CreateAddress(sender, nonce) or a factory's derived address was occupied, no CREATE2 with a repeated salt)
  seeded-j-selfdestruct-repeat-keeps- kvm opSuicide: Suicide(self) only if !HasSuicided(self), the     pass        caught  path=ApplyTransaction tx=call-factory/ok oracle=conservation (driver 3x CALL with value into SELFDESTRUCT-to-another-EOA:
  balance                             beneficiary is still credited every time                                            sum of all balances +1000)
                                      (MISSED by quick before the driver family existed: it needs three entries into one self-destructing contract in one transaction, i.e. a 3-action
                                      program [CALL(SDOTHER)]x3, which only the thorough tier enumerates)
  (not a mutant) F1 repair            commitBlock restores the pool / TransitionDb returns the gas    -           exit 0  none

9 of 9 mutants survive the repository's own tests of the touched package; every one is caught by the quick tier.

Signature format
    C09|path=ApplyTransaction|tx=<eoa|fresh-empty|self|call-contract|create|call-factory>/<ok|failed>|oracle=<id>
    C09|path=ApplyTransaction|reject=<class>|oracle=<state-unchanged|gas-pool-unchanged|state-unchanged-after-revert|rejected-reports-nothing>
    C09|path=commitBlock|block=<empty|executed-only|with-rejected>|oracle=<id>
    C09|path=commitBlock|reject=<class of the first rejected tx>|oracle=<gas-pool-restored|state-as-if-absent>
    C09|path=commitBlock|blocks=same-tx-in-consecutive-blocks|oracle=<executed-tx-not-executed-again|executed-tx-not-charged-again>
  class in {nonce-too-low, nonce-too-high, insufficient-funds-for-gas, block-gas-exhausted, intrinsic-gas,
  insufficient-funds-for-transfer}. Each signature's replay case is the smallest failing point in enumeration order.

Observation while building the exact gas figures (not a C09 finding; gas-schedule conformance is C10's subject)
  kvm/gas.go: gasCreate2 = pureMemoryGascost, i.e. CREATE2 does not charge EIP-1014's 6 gas per hashed init code word, and
  opCreate2 forwards ALL remaining gas to the init code where CREATE (and upstream CREATE2) keep one 64th back; the
  pre-Galaxias interpreter charges the constant price of every opcode with a dynamic part twice. The exact figures take
  the chain's schedule as it is (assumption A7); value and gas accounting stay consistent under it.

Not covered from the DESIGN.md section
  - the refund bound is observed through the KVM tracer (gas used before refund = intrinsic + CaptureEnd gas) instead of an
    injected accessor in package blockchain: TransitionDb keeps no record of the refund, an accessor would have had to
    re-implement it;
  - "call C_j (j<i)" is concretised as CALL into each of the 9 one-action leaf contracts (call depth 2; depth 3 only through
    STATICW -> leaf); calls into longer programs are not enumerated;
  - blocks are enumerated over a 24-entry menu, not over the full transaction product; block programs are three fixed ones;
  - rejected points are not repeated for creations with init codes of >= 2 actions and calls into programs of 3 actions.
*/
