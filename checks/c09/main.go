// C09 — transaction execution conserves value and accounts for gas and nonces exactly.
//
// Engine E3 (small-scope exhaustive enumeration) on the REAL blockchain.ApplyTransaction and the REAL
// (unexported) BlockOperations.commitBlock, over a real BlockChain whose genesis holds the staking
// contract, one validator and a small universe of accounts and checker-assembled contracts.
//
//	path=ApplyTransaction: the full product  fork{pre-Galaxias,Galaxias} x sender{rich,poor} x nonce{cur-1,cur,cur+1}
//	   x value{0,1,balance-fee,balance-fee+1,balance+1} x gasLimit{intrinsic-1,intrinsic,intrinsic+30000,ample,pool,pool+1}
//	   x price{0,1,10^9} x target{EOA, fresh empty account, sender itself (each also with proposer = sender), call(P),
//	   create(P as init code)} for every program P of <= 2 (quick) / <= 3 (thorough) actions over an 18-token alphabet
//	   (rejected points are not repeated for the longest programs, see the rule string).
//	   Factory family: call(F) / call(wrapper->F) for 8 CREATE/CREATE2 factories with gas limits up to 2*10^7 and an exact
//	   expected gas figure from the gas schedule; frame-level "no gas minted" accounting on every evaluation.
//	path=commitBlock: the empty block, every single and every ordered pair (incl. the same tx twice) of a 24-entry transaction menu (both forks), the same tx in two consecutive blocks,
//	   each under the header gas limits {big, g2, g1+g2-1, used1+g2, used1+g2-1} that force pool exhaustion on the second.
//
// Oracle: DESIGN.md appendix A.6 (see notes.go for the exact reading and the findings).
package main

import (
	"encoding/json"
	"fmt"
	"os"
	"sort"
	"strings"
	"sync"
	"time"

	"github.com/kardiachain/go-kardia/lib/log"
	"github.com/kardiachain/go-kardia/types"

	"verif/mc/par"
	"verif/mc/report"
)

var r *report.Run

type replayCase struct {
	Path  string     `json:"path"`
	Tx    *txSpec    `json:"tx,omitempty"`
	Block *blockCase `json:"block,omitempty"`
}

// ---------------------------------------------------------------------------------------------
// violation collection: per signature keep the smallest case (rank), confirm at the end.

type cand struct {
	rank  int64
	what  string
	rc    replayCase
	count int64
}

var (
	candMu sync.Mutex
	cands  = map[string]*cand{}
)

func note(sig, what string, rank int64, rc replayCase) {
	candMu.Lock()
	defer candMu.Unlock()
	c := cands[sig]
	if c == nil {
		cands[sig] = &cand{rank: rank, what: what, rc: rc, count: 1}
		return
	}
	c.count++
	if rank < c.rank {
		c.rank, c.what, c.rc = rank, what, rc
	}
}

// sigsOf re-executes a replay case and returns the sorted signatures it produces now.
func sigsOf(rc replayCase) ([]finding, string) {
	switch rc.Path {
	case "ApplyTransaction":
		spec := *rc.Tx
		tx, c, ok := spec.build()
		if !ok {
			return nil, "degenerate point (skipped by the enumeration)"
		}
		var prog []int
		if spec.Target == tCall || spec.Target == tCreate {
			prog = spec.Prog
		}
		res := evalTx(buildPre(prog), spec, tx, c)
		return res.finds, res.obs
	case "consecutiveBlocks":
		executed, finds := checkConsecutive(rc.Block.Fork, rc.Block.Txs[0])
		return finds, fmt.Sprintf("first block executed the transaction: %v", executed)
	case "commitBlock":
		bw.cache = sync.Map{}
		b, finds := checkBlock(*rc.Block)
		return finds, fmt.Sprintf("pattern=%s gasUsed=%d reward=%v burn=%v", b.pattern(), b.gasUsed, b.rewards, b.burn)
	}
	return nil, "unknown path"
}

func hasSig(fs []finding, sig string) bool {
	for _, f := range fs {
		if f.sig == sig {
			return true
		}
	}
	return false
}

// ---------------------------------------------------------------------------------------------
// per-unit aggregation (flushed once per program to keep the shared counters cold)

type agg struct {
	n        map[string]int64
	distinct map[string]struct{}
	combos   map[string]struct{}
}

func newAgg() *agg {
	return &agg{n: map[string]int64{}, distinct: map[string]struct{}{}, combos: map[string]struct{}{}}
}

func (a *agg) flush() {
	for k, v := range a.n {
		r.Add(k, v)
	}
	for k := range a.distinct {
		r.Distinct("distinct_nontrivial", k)
	}
	for k := range a.combos {
		r.Distinct("factory_x_gas_x_depth_combinations_executed", k)
	}
}

func gasNameOf(s txSpec) string {
	if s.Target == tFactory {
		return factoryGasNames[s.Gas]
	}
	return gasNames[s.Gas]
}

func (a *agg) record(res *txResult) {
	a.n["evaluations"]++
	a.n["applytx_evaluations"]++
	s := res.spec
	if res.class != "" {
		a.n["applytx_rejected"]++
		a.n["applytx_rejected:"+res.class]++
		if res.residue {
			a.n["applytx_late_reject_left_gas_purchase_in_state"]++
		}
		if res.poolLeak {
			a.n["applytx_late_reject_left_gas_purchase_in_pool"]++
		}
		a.distinct[fmt.Sprintf("A|%s|%s|%s|%s|rejected:%s|residue=%v", forkNames[s.Fork], targetNames[s.Target], valueNames[s.Value], gasNameOf(s), res.class, res.residue)] = struct{}{}
		return
	}
	a.n["applytx_applied"]++
	a.n["applytx_applied:"+targetNames[s.Target]+"/"+res.status]++
	if res.burn.Sign() > 0 {
		a.n["applytx_value_destroyed_by_selfdestruct_to_self"]++
	}
	if res.refund > 0 {
		a.n["applytx_refund_granted"]++
	}
	if res.capBinds {
		a.n["applytx_refund_cap_binding"]++
	}
	for i := uint(0); i < nOpBits; i++ {
		if res.ops&(1<<i) != 0 {
			a.n["ops_executed:"+opsString(1<<i)]++
		}
	}
	if s.Target == tFactory && s.Fact >= fDriver0 && res.status == "ok" && res.ops&(opSDOther|opSDSelf) != 0 {
		a.n[fmt.Sprintf("driver_runs_completed:%d-selfdestructs", (s.Fact-fDriver0)/3+1)]++
	}
	if s.Target == tFactory {
		a.n["factory_applied:"+factoryName(s.Fact)]++
		a.combos[factoryName(s.Fact)+"/"+factoryGasNames[s.Gas]+fmt.Sprintf("/via-call=%v", s.ViaCal)] = struct{}{}
		if res.exactGas {
			a.n["factory_exact_gas_figures_checked"]++
		}
	}
	if res.collision {
		a.n["applytx_creation_collisions_executed"]++
		a.n["applytx_creation_collisions_executed:"+senderNames[s.Sender]]++
	}
	if res.creatorChecks > 0 {
		a.n["applytx_creator_nonce_checks"] += int64(res.creatorChecks)
	}
	if res.creates > 0 {
		a.n["applytx_create_steps_frame_gas_checked"] += int64(res.creates)
	}
	tn := targetNames[s.Target]
	if s.Target == tFactory {
		tn += ":" + factoryName(s.Fact) + fmt.Sprintf(":via-call=%v", s.ViaCal)
	}
	a.distinct[fmt.Sprintf("A|%s|%s|%s|%s|%v|%s|cb=%v|%s|%s|burn=%v|refund=%v|cap=%v", forkNames[s.Fork], senderNames[s.Sender], valueNames[s.Value], gasNameOf(s),
		prices[s.Price], tn, s.CbSend, opsString(res.ops), res.status, res.burn.Sign() > 0, res.refund > 0, res.capBinds)] = struct{}{}
	if s.CbSend {
		a.n["applytx_applied_with_proposer_is_sender"]++
	}
}

// ---------------------------------------------------------------------------------------------

type txKey struct{ fork, sender, nonce, value, gas, price, target int }

func main() {
	r = report.New("C09", "exploration")
	log.Root().SetHandler(log.DiscardHandler())
	w = buildWorld()
	buildBlockWorld()

	if os.Getenv("VERIF_C09_DEBUG") != "" {
		var ks []string
		for k := range bw.base.leaves {
			ks = append(ks, k)
		}
		sort.Strings(ks)
		for _, k := range ks {
			l := bw.base.leaves[k]
			fmt.Printf("leaf %-20s balance=%v nonce=%d codehash=%x\n", w.nameOf(k), l.a.Balance, l.a.Nonce, l.a.CodeHash[:4])
		}
	}
	if r.ReplayPath != "" {
		var rc replayCase
		if err := r.LoadReplay(&rc); err != nil {
			fmt.Println("cannot load replay:", err)
			os.Exit(2)
		}
		finds, obs := sigsOf(rc)
		b, _ := json.Marshal(rc)
		fmt.Printf("replay case: %s\nobserved: %s\n", b, obs)
		for _, f := range finds {
			fmt.Printf("violation: %s: %s\n", f.sig, f.what)
		}
		if len(finds) > 0 {
			os.Exit(1)
		}
		fmt.Println("no violation on this case")
		os.Exit(0)
	}

	maxLen := 2
	if r.Thorough() {
		maxLen = 3
		r.SetDeadline(13 * time.Minute)
	} else {
		r.SetDeadline(52 * time.Second)
	}
	r.Set("rule", "path=ApplyTransaction: every point of fork{pre-Galaxias,Galaxias} x sender{rich,poor} x nonce{cur-1,cur,cur+1} x value{0,1,balance-fee,balance-fee+1,balance+1} x "+
		"gasLimit{intrinsic-1,intrinsic,intrinsic+30000,10^6,pool,pool+1} x price{0,1,10^9} x target{EOA, fresh empty account, the sender itself (each also with proposer = sender), call(P), "+
		"create(P as init code)} for EVERY program P of <= "+fmt.Sprint(maxLen)+" actions over the 18-token alphabet {XFER half of own balance, CREATE child with value, REVERT, SELFDESTRUCT to self, "+
		"SELFDESTRUCT to another account, INVALID (burn all gas), SSTORE set, SSTORE clear (refund), STATICCALL-into-writer then write, CALL(each of the 9 one-action leaf contracts) with value 3}; P and the "+
		"leaves hold value and a set storage slot in the pre-state. Stated exceptions (all counted): points whose 'balance-fee' would be negative are skipped; points that the checker's reference "+
		"pre-check classifies as rejected are enumerated for creations with one-action init codes and for calls into programs of <= 2 actions only (a rejection never reads the target). "+
		"Factory family (same path): call(F) and call(wrapper that CALLs F with all gas) for 20 fixed contracts: F = {CREATE, CREATE2} x init code {empty, deploying one byte, burning (INVALID), reverting}, endowment 1, plus "+
		"CREATE2 twice with the same salt (empty / deploying init code: the second collides), CREATE into an address occupied in the genesis, and 9 drivers that CALL a self-destructing contract k in {1,2,3} times with value 1000 "+
		"(beneficiary another EOA / the caller / the contract itself); 20 contracts x fork x sender x value{0,1} x gasLimit{intrinsic+40000, 200000, 8*10^6, 2*10^7} x "+
		"price{0,1,10^9}, correct nonce, pool 25*10^6 (3840 points); on the direct calls into the 8 single-creation factories the gas used must equal the figure the checker computes from the gas schedule; every pre-existing "+
		"contract's nonce must advance by exactly the number of creation steps it performed in surviving frames. "+
		"Collision family (same path): creation transactions from two senders whose CreateAddress(sender, nonce) is occupied in the genesis (by an account with code / with only a non-zero nonce) x fork x nonce{cur-1,cur,cur+1} x "+
		"value{0,1} x gasLimit{intrinsic, intrinsic+30000, 10^6} x price{0,1,10^9} x init code{[SSET],[CREATE]} (432 points). "+
		"On every executed frame of every evaluation: the frame's gas never rises between two of its steps and falls by >= the CREATE price + the init code's consumption after CREATE/CREATE2 (no gas minted across a child frame). "+
		"path=commitBlock: the empty block, all singles and all ordered pairs INCLUDING the same signed transaction twice, of a 24-entry transaction menu (valid transfer/call/create/burn, next nonce, and one "+
		"transaction per rejection class, for a rich and a poor sender; a creation into an occupied address for each collider sender) per fork, each under the header gas limits {10^7, g2, g1+g2-1, used1+g2, used1+g2-1} (singles {10^7, g1, g1-1}); and, per menu entry and fork, two CONSECUTIVE blocks that both contain the same signed transaction (second block compared with an empty second block). "+
		"Each evaluation runs the real ApplyTransaction / commitBlock on a copy of the real chain's head state (genesis with staking contract and validator) and sums ALL account leaves of the state trie. "+
		"distinct_nontrivial = distinct (transaction class, set of action opcodes that really executed in that evaluation, outcome class incl. rejection class / left-over gas purchase / value destroyed / "+
		"refund granted / refund cap binding); for blocks distinct (fork, accept/reject pattern with classes, tight header limit, value destroyed). Every evaluation reaches TransitionDb of the real code.")
	r.Assume(
		"A1 fee recipient: in this code base the fee goes to header.ProposerAddress (KVM Coinbase), credited in TransitionDb as gasUsed*price; the oracle checks exactly that account.",
		"A2 weakest reading of 'rejected leaves everything unchanged' at the ApplyTransaction level: rejections decided before buyGas (nonce, funds for gas, block gas) must leave state AND pool "+
			"bit-identical with no help from the caller; rejections decided after buyGas (intrinsic gas, funds for transfer) may leave exactly the gas purchase behind (sender -gasLimit*price, pool -gasLimit, "+
			"nothing else) because, as upstream, undoing it is the caller's duty (commitBlock reverts to a snapshot); after that revert the state must be bit-identical. Whether the CALLER restores "+
			"everything, including the pool, is decided strictly on path=commitBlock by comparing the block with and without the rejected transaction.",
		"A3 value destroyed by self-destruct-to-self is measured through the KVM's own tracer hooks (CaptureEnter(SELFDESTRUCT, from==to, balance), discarded when an enclosing frame exits with an error); "+
			"commitBlock runs without tracer, so for blocks it is measured by re-applying the accepted transactions in order with ApplyTransaction, which must reproduce the receipts.",
		"A4 gas used before refund = checker-computed intrinsic gas + gas reported by the tracer's CaptureEnd for the top-level call/create.",
		"A5 minted reward = BlockInfo.Rewards (the value Mint returned and credited to the staking contract); staking calls move value only between accounts.",
		"A6 a failed execution (receipt status 0) returns the transferred value to the sender: sender loses gasUsed*price only.",
		"A7 exact gas figures (direct calls into the 8 CREATE/CREATE2 factories) use this chain's schedule as it is: an opcode with a dynamic price part is charged its constant part twice under "+
			"pre-Galaxias rules, CREATE2 charges no per-word hashing price, CREATE forwards all but one 64th; for CREATE2 with the burning init code both forwarding rules (everything / all but one 64th) are accepted. "+
			"Independent of any schedule detail: between two steps of one frame its gas must fall by >= 32000 + the gas its init code consumed after CREATE/CREATE2, by >= callee's use - 2300 after a CALL, and never rise.",
		"Trusted: go-kardia trie iteration and RLP decoding of account leaves, ECDSA signing/recovery, the staking contract byte code.",
	)

	// ------------------------------------------------------------------ path = commitBlock
	tPhase := time.Now()
	type unit struct {
		fork int
		idxs []int
	}
	var units []unit
	nMenu := len(bw.menus[0])
	for f := nForks - 1; f >= 0; f-- {
		units = append(units, unit{f, nil})
		for i := 0; i < nMenu; i++ {
			units = append(units, unit{f, []int{i}})
		}
		for i := 0; i < nMenu; i++ {
			for j := 0; j < nMenu; j++ {
				units = append(units, unit{f, []int{i, j}}) // i == j: the same signed transaction twice in one block
			}
		}
	}
	doneBlocks := par.For(int64(len(units)), 4, r.Expired, func(u int64) {
		un := units[u]
		a := newAgg()
		defer a.flush()
		for _, h := range gasLimitsFor(un.fork, un.idxs) {
			c := blockCase{Path: "commitBlock", Fork: un.fork, Txs: un.idxs, H: h}
			b, finds := checkBlock(c)
			a.n["evaluations"]++
			a.n["block_cases"]++
			for _, f := range finds {
				cc := c
				cc.Names = b.c.Names
				note(f.sig, f.what, int64(len(un.idxs))<<40|u<<8, replayCase{Path: "commitBlock", Block: &cc})
			}
			if b.err != "" {
				continue
			}
			nAcc, nRej := 0, 0
			for i, cls := range b.rejOf {
				if cls == "" {
					nAcc++
				} else {
					nRej++
					a.n["block_rejected:"+cls]++
					if lateClass(cls) {
						a.n["block_late_rejections"]++
					}
					if i == 1 && cls == "block-gas-exhausted" && h != hBig {
						// exhaustion is forced iff the same transaction is executed under the big limit
						if big := runBlock(blockCase{Path: "commitBlock", Fork: un.fork, Txs: un.idxs, H: hBig}); len(big.accepted) == 2 && big.accepted[1] {
							a.n["block_second_tx_rejected_by_forced_pool_exhaustion"]++
						}
					}
				}
			}
			if nAcc > 0 && nRej > 0 {
				a.n["block_mixing_accepted_and_rejected"]++
			}
			if len(un.idxs) == 2 && un.idxs[0] == un.idxs[1] {
				a.n["block_same_tx_twice"]++
				if nAcc == 1 && b.rejOf[1] == "nonce-too-low" {
					a.n["block_same_tx_twice_second_refused_nonce_too_low"]++
				}
			}
			for i, cls := range b.rejOf {
				if cls == "" && bw.menus[un.fork][un.idxs[i]].m.Sender >= 2 {
					a.n["block_creation_collisions_executed"]++
				}
			}
			if nAcc == 2 {
				a.n["block_two_executed"]++
			}
			if b.rewards.Sign() > 0 {
				a.n["block_minted_reward_positive"]++
			}
			if b.burn.Sign() > 0 {
				a.n["block_value_destroyed_by_selfdestruct_to_self"]++
			}
			a.distinct[fmt.Sprintf("B|%s|%s|tight=%v|burn=%v", forkNames[un.fork], b.pattern(), h != hBig, b.burn.Sign() > 0)] = struct{}{}
		}
	})
	if doneBlocks < int64(len(units)) {
		r.NotExhaustive(fmt.Sprintf("deadline: %d of %d block units of path=commitBlock finished", doneBlocks, len(units)))
	}
	// the same signed transaction in two consecutive blocks
	par.For(int64(nForks*nMenu), 1, r.Expired, func(u int64) {
		fork, idx := int(u)/nMenu, int(u)%nMenu
		executed, finds := checkConsecutive(fork, idx)
		r.Add("evaluations", 1)
		r.Add("consecutive_block_cases", 1)
		if executed {
			r.Add("consecutive_block_cases_first_executed", 1)
		}
		r.Distinct("distinct_nontrivial", fmt.Sprintf("C|%s|%s|executed-first=%v", forkNames[fork], bw.menus[fork][idx].m.Name, executed))
		for _, f := range finds {
			note(f.sig, f.what, int64(3)<<40|u, replayCase{Path: "consecutiveBlocks", Block: &blockCase{Path: "consecutiveBlocks", Fork: fork, Txs: []int{idx}, Names: []string{bw.menus[fork][idx].m.Name}, H: hBig}})
		}
	})
	r.Set("phase_commitBlock_wall_s", time.Since(tPhase).Seconds())
	tPhase = time.Now()
	// ------------------------------------------------------------------ path = ApplyTransaction, factory family
	// call(F) and call(wrapper -> F) for the 8 CREATE/CREATE2 factories x fork x sender x value{0,1} x gas{intrinsic+40000, 200000, 8*10^6, 2*10^7}
	// x price{0,1,10^9}, correct nonce, pool 25*10^6.
	{
		fr := []int{nPrices, len(factoryGasNames), 2, nSenders, nForks, 2, nFactories}
		nF := par.Product(fr)
		doneF := par.For(nF, 16, r.Expired, func(i int64) {
			d := make([]int, len(fr))
			par.MixedRadix(i, fr, d)
			spec := txSpec{Path: "ApplyTransaction", Fork: d[4], Sender: d[3], Nonce: 1, Value: d[2], Gas: d[1], Price: d[0], Target: tFactory, Fact: d[6], ViaCal: d[5] == 1}
			tx, c, ok := spec.build()
			if !ok {
				return
			}
			a := newAgg()
			res := evalTx(buildPre(nil), spec, tx, c)
			a.record(res)
			for _, f := range res.finds {
				note(f.sig, f.what, int64(1)<<39|i, replayCase{Path: "ApplyTransaction", Tx: &spec})
			}
			a.flush()
		})
		// collision family: creation transactions from the two senders whose derived address is occupied in the genesis
		cr := []int{nPrices, 3, 2, nNonces, 2, nForks, 2}
		nC := par.Product(cr)
		collProgs := [][]int{{aSSet}, {aCreate}}
		doneC := par.For(nC, 8, r.Expired, func(i int64) {
			d := make([]int, len(cr))
			par.MixedRadix(i, cr, d)
			spec := txSpec{Path: "ApplyTransaction", Fork: d[5], Sender: 2 + d[4], Nonce: d[3], Value: d[2], Gas: 1 + d[1], Price: d[0], Target: tCreate, Prog: collProgs[d[6]]}
			tx, c, ok := spec.build()
			if !ok {
				return
			}
			a := newAgg()
			res := evalTx(buildPre(nil), spec, tx, c)
			a.record(res)
			for _, f := range res.finds {
				note(f.sig, f.what, int64(1)<<38|i, replayCase{Path: "ApplyTransaction", Tx: &spec})
			}
			a.flush()
		})
		r.Set("collision_points", nC)
		if doneC < nC {
			r.NotExhaustive(fmt.Sprintf("deadline: %d of %d points of the collision family finished", doneC, nC))
		}
		if doneF < nF {
			r.NotExhaustive(fmt.Sprintf("deadline: %d of %d points of the factory family finished", doneF, nF))
		}
		r.Set("factory_points", nF)
	}
	// ------------------------------------------------------------------ path = ApplyTransaction
	progs := append([][]int{nil}, allPrograms(maxLen)...) // unit 0: the program-independent targets
	radices := []int{nPrices, nGas, nValues, nNonces, nSenders, nForks}
	nPoints := par.Product(radices)

	// transactions that do not depend on the program are signed once
	shared := map[txKey]*types.Transaction{}
	sharedC := map[txKey]concrete{}
	{
		var mu sync.Mutex
		type job struct {
			k txKey
			s txSpec
		}
		var jobs []job
		for _, tg := range []int{tEOA, tEmpty, tSelf, tCall} {
			for i := int64(0); i < nPoints; i++ {
				d := make([]int, len(radices))
				par.MixedRadix(i, radices, d)
				k := txKey{d[5], d[4], d[3], d[2], d[1], d[0], tg}
				jobs = append(jobs, job{k, txSpec{Path: "ApplyTransaction", Fork: k.fork, Sender: k.sender, Nonce: k.nonce, Value: k.value, Gas: k.gas, Price: k.price, Target: tg}})
			}
		}
		par.Each(len(jobs), func(i int) {
			tx, c, ok := jobs[i].s.build()
			if !ok {
				return
			}
			tx.Hash()
			mu.Lock()
			shared[jobs[i].k], sharedC[jobs[i].k] = tx, c
			mu.Unlock()
		})
	}

	var doneUnits int64
	doneUnits = par.For(int64(len(progs)), 1, r.Expired, func(u int64) {
		prog := progs[u]
		a := newAgg()
		defer a.flush()
		pre := buildPre(prog)
		targets := []int{tCall, tCreate}
		if prog == nil {
			targets = []int{tEOA, tEmpty, tSelf, -tEOA - 1, -tEmpty - 1, -tSelf - 1} // negative: the same with proposer = sender
		}
		d := make([]int, len(radices))
		for _, tg := range targets {
			cbSend := tg < 0
			if cbSend {
				tg = -tg - 1
			}
			for i := int64(0); i < nPoints; i++ {
				par.MixedRadix(i, radices, d)
				k := txKey{d[5], d[4], d[3], d[2], d[1], d[0], tg}
				spec := txSpec{Path: "ApplyTransaction", Fork: k.fork, Sender: k.sender, Nonce: k.nonce, Value: k.value, Gas: k.gas, Price: k.price, Target: tg, CbSend: cbSend}
				var tx *types.Transaction
				var c concrete
				if tg == tCreate {
					spec.Prog = prog
					var ok bool
					if c, ok = spec.concrete(); !ok {
						a.n["skipped_degenerate_points"]++
						continue
					}
					if len(prog) >= 2 && !c.expValid {
						a.n["rejected_points_left_to_shorter_programs"]++
						continue // see rule: creations that fail a pre-check are enumerated for one-action init codes only
					}
					tx, c, _ = spec.build()
				} else if c0, ok := sharedC[k]; ok && len(prog) >= 3 && !c0.expValid {
					a.n["rejected_points_left_to_shorter_programs"]++
					continue // see rule: calls that fail a pre-check are enumerated for programs of <= 2 actions only
				} else {
					if tg == tCall {
						spec.Prog = prog
					}
					var ok bool
					if tx, ok = shared[k]; !ok {
						a.n["skipped_degenerate_points"]++
						continue
					}
					c = sharedC[k]
				}
				res := evalTx(pre, spec, tx, c)
				a.record(res)
				for _, f := range res.finds {
					note(f.sig, f.what, int64(len(prog))<<40|u<<16|i, replayCase{Path: "ApplyTransaction", Tx: &spec})
				}
			}
		}
		a.n["programs"]++
	})
	if doneUnits < int64(len(progs)) {
		r.NotExhaustive(fmt.Sprintf("deadline: %d of %d program units of path=ApplyTransaction finished", doneUnits, len(progs)))
	}

	r.Set("phase_ApplyTransaction_wall_s", time.Since(tPhase).Seconds())
	if doneUnits == int64(len(progs)) && doneBlocks == int64(len(units)) {
		r.Exhaustive(true)
	}
	r.Set("contract_programs", len(progs)-1)
	r.Set("block_units", len(units))

	// ------------------------------------------------------------------ vacuity guards
	for _, cls := range []string{"nonce-too-low", "nonce-too-high", "insufficient-funds-for-gas", "block-gas-exhausted", "intrinsic-gas", "insufficient-funds-for-transfer"} {
		r.Require(r.Get("applytx_rejected:"+cls) > 0, "no transaction was rejected with class "+cls+" on path=ApplyTransaction")
		r.Require(r.Get("block_rejected:"+cls) > 0, "no transaction was rejected with class "+cls+" on path=commitBlock")
	}
	for _, k := range []string{"eoa/ok", "fresh-empty/ok", "self/ok", "call-contract/ok", "call-contract/failed", "create/ok", "create/failed"} {
		r.Require(r.Get("applytx_applied:"+k) > 0, "no applied transaction of kind "+k)
	}
	for i := uint(0); i < nOpBits; i++ {
		r.Require(r.Get("ops_executed:"+opsString(1<<i)) > 0, "action opcode never executed: "+opsString(1<<i))
	}
	for k := 0; k < nFactories; k++ {
		r.Require(r.Get("factory_applied:"+factoryName(k)) > 0, "factory "+factoryName(k)+" never executed")
	}
	r.Require(r.DistinctCount("factory_x_gas_x_depth_combinations_executed") == nFactories*len(factoryGasNames)*2 || r.Expired(),
		"not every (factory, gas limit, direct/wrapped) combination executed")
	r.Require(r.Get("applytx_creation_collisions_executed:collider-code") > 0 && r.Get("applytx_creation_collisions_executed:collider-nonce") > 0,
		"no creation transaction ran into an occupied address (account with code / with only a nonce)")
	r.Require(r.Get("applytx_creator_nonce_checks") > 0, "no contract's nonce advance was compared with its creation steps")
	r.Require(r.Get("block_creation_collisions_executed") > 0, "no block executed a creation into an occupied address")
	r.Require(r.Get("block_same_tx_twice_second_refused_nonce_too_low") > 0, "no block offered an executed transaction a second time")
	r.Require(r.Get("consecutive_block_cases_first_executed") > 0, "no pair of consecutive blocks offered an executed transaction again")
	for k := 1; k <= 3; k++ {
		r.Require(r.Get(fmt.Sprintf("driver_runs_completed:%d-selfdestructs", k)) > 0, fmt.Sprintf("no driver completed %d calls into a self-destructing contract", k))
	}
	r.Require(r.Get("factory_exact_gas_figures_checked") > 0, "no exact gas figure was checked")
	r.Require(r.Get("applytx_create_steps_frame_gas_checked") > 0, "no CREATE/CREATE2 step had its frame gas accounting checked")
	r.Require(r.Get("applytx_value_destroyed_by_selfdestruct_to_self") > 0, "no execution destroyed value by self-destruct-to-self")
	r.Require(r.Get("applytx_refund_granted") > 0, "no execution earned a refund")
	r.Require(r.Get("applytx_refund_cap_binding") > 0, "the refund counter never exceeded half of the gas used (cap never binding)")
	r.Require(r.Get("block_second_tx_rejected_by_forced_pool_exhaustion") > 0, "no block forced gas-pool exhaustion on its second transaction")
	r.Require(r.Get("block_mixing_accepted_and_rejected") > 0, "no block mixed executed and rejected transactions")
	r.Require(r.Get("block_two_executed") > 0, "no block executed two transactions")
	r.Require(r.Get("block_minted_reward_positive") > 0, "Mint never minted: the reward term of the block oracle was never exercised")
	r.Require(r.Get("block_value_destroyed_by_selfdestruct_to_self") > 0, "no block destroyed value")
	r.Require(r.Get("block_late_rejections") > 0, "no block contained a rejection decided after buyGas")
	{
		// the empty block must leave the universe alone (the block oracles rely on it for the coinbase)
		e := runBlock(blockCase{Path: "commitBlock", Fork: 1, H: hBig})
		ok := e.err == ""
		if ok {
			for _, k := range diff(bw.base, e.snap) {
				if n := w.nameOf(k); n != "staking-contract" && n != "validator" && !strings.HasPrefix(n, "acct#") {
					ok = false
				}
			}
		}
		r.Require(ok, "the empty block changes accounts of the checker's universe")
	}

	// ------------------------------------------------------------------ samples (fixed cases, re-executed)
	sample := func(rc replayCase) {
		finds, obs := sigsOf(rc)
		var sg []string
		for _, f := range finds {
			sg = append(sg, f.sig)
		}
		desc := ""
		if rc.Tx != nil {
			desc = rc.Tx.String()
		} else {
			desc = rc.Block.String()
		}
		r.Sample(map[string]interface{}{"case": rc, "desc": desc, "observed": obs, "violations": sg})
	}
	sample(replayCase{Path: "ApplyTransaction", Tx: &txSpec{Path: "ApplyTransaction", Fork: 1, Sender: 0, Nonce: 1, Value: 1, Gas: 3, Price: 2, Target: tCall, Prog: []int{aCall + aSDSelf, aSClear}}})
	sample(replayCase{Path: "ApplyTransaction", Tx: &txSpec{Path: "ApplyTransaction", Fork: 0, Sender: 1, Nonce: 1, Value: 2, Gas: 3, Price: 2, Target: tCreate, Prog: []int{aCreate, aSDOther}}})
	sample(replayCase{Path: "ApplyTransaction", Tx: &txSpec{Path: "ApplyTransaction", Fork: 1, Sender: 0, Nonce: 1, Value: 4, Gas: 1, Price: 1, Target: tEOA}})
	sample(replayCase{Path: "ApplyTransaction", Tx: &txSpec{Path: "ApplyTransaction", Fork: 1, Sender: 0, Nonce: 1, Value: 1, Gas: 3, Price: 1, Target: tFactory, Fact: fCreate2*nFactoryInits + iDeploy}})
	{
		names := func(f int, idx []int) (n []string) {
			for _, i := range idx {
				n = append(n, bw.menus[f][i].m.Name)
			}
			return
		}
		sample(replayCase{Path: "commitBlock", Block: &blockCase{Path: "commitBlock", Fork: 1, Txs: []int{2, 11 + 1}, Names: names(1, []int{2, 12}), H: hBig}})
		sample(replayCase{Path: "commitBlock", Block: &blockCase{Path: "commitBlock", Fork: 1, Txs: []int{6, 11}, Names: names(1, []int{6, 11}), H: bw.menus[1][11].gas}})
	}

	// ------------------------------------------------------------------ confirm and report violations
	var sigs []string
	for s := range cands {
		sigs = append(sigs, s)
	}
	sort.Strings(sigs)
	for _, s := range sigs {
		c := cands[s]
		sig := s
		rc := c.rc
		r.ViolationConfirmed(sig, fmt.Sprintf("%s (x%d cases)", c.what, c.count), rc, func() string {
			finds, _ := sigsOf(rc)
			if hasSig(finds, sig) {
				return sig
			}
			return "not-reproduced"
		})
	}
	r.Finish()
}
