package main

import (
	"fmt"
	"math/big"
	"runtime/debug"
	"strings"

	"github.com/kardiachain/go-kardia/kai/state"
	"github.com/kardiachain/go-kardia/kvm"
	"github.com/kardiachain/go-kardia/lib/common"
	"github.com/kardiachain/go-kardia/lib/crypto"
	"github.com/kardiachain/go-kardia/mainchain/blockchain"
	"github.com/kardiachain/go-kardia/types"
)

// ---------------------------------------------------------------------------------------------
// The enumerated transaction space (path = ApplyTransaction).

const (
	tEOA = iota
	tEmpty
	tCall
	tCreate
	tSelf    // the sender pays itself (aliasing of the two sides of Transfer)
	tFactory // call into a CREATE/CREATE2 factory (directly or through a wrapper), own gas classes and pool
	nTargets
)

var targetNames = []string{"eoa", "fresh-empty", "call-contract", "create", "self", "call-factory"}

// gas classes and pool of the factory family
const factoryPool = 25000000

var factoryGasNames = []string{"intrinsic+40000", "200000", "8000000", "20000000"}

func plainTarget(t int) bool { return t == tEOA || t == tEmpty || t == tSelf }

const (
	nForks   = 2
	nSenders = 2
	nNonces  = 3
	nValues  = 5
	nGas     = 6
	nPrices  = 3
)

var valueNames = []string{"0", "1", "balance-fee", "balance-fee+1", "balance+1"}
var gasNames = []string{"intrinsic-1", "intrinsic", "intrinsic+30000", "ample", "pool", "pool+1"}
var nonceNames = []string{"cur-1", "cur", "cur+1"}
var forkNames = []string{"pre-galaxias", "galaxias"}
var senderNames = []string{"rich", "poor", "collider-code", "collider-nonce"}

// txSpec is one point of the product domain; it is also the replay case.
type txSpec struct {
	Path   string `json:"path"` // "ApplyTransaction"
	Fork   int    `json:"fork"`
	Sender int    `json:"sender"`
	Nonce  int    `json:"nonce_class"`
	Value  int    `json:"value_class"`
	Gas    int    `json:"gas_class"`
	Price  int    `json:"price_class"`
	Target int    `json:"target"`
	CbSend bool   `json:"coinbase_is_sender,omitempty"` // the block proposer is the sender itself (aliasing)
	Prog   []int  `json:"program,omitempty"`
	Fact   int    `json:"factory,omitempty"`  // tFactory: which factory
	ViaCal bool   `json:"via_call,omitempty"` // tFactory: through the wrapper contract (CREATE* runs at depth 2)
	Desc   string `json:"desc,omitempty"`
}

func (s txSpec) String() string {
	gn := gasNames[s.Gas]
	if s.Target == tFactory {
		gn = factoryGasNames[s.Gas]
	}
	d := fmt.Sprintf("%s sender=%s nonce=%s value=%s gas=%s price=%v target=%s", forkNames[s.Fork], senderNames[s.Sender], nonceNames[s.Nonce],
		valueNames[s.Value], gn, prices[s.Price], targetNames[s.Target])
	if s.Target == tFactory {
		d += " factory=" + factoryName(s.Fact)
		if s.ViaCal {
			d += " via-wrapper-CALL"
		}
	}
	if s.Target == tCall || s.Target == tCreate {
		d += " program=" + progName(s.Prog)
	}
	if s.CbSend {
		d += " proposer=sender"
	}
	return d
}

// intrinsic is the checker's own statement of the intrinsic gas rule of this chain.
func intrinsic(fork int, create bool, data []byte) uint64 {
	var g uint64
	switch {
	case create:
		g = 53000
	case fork == 0:
		g = 29000
	default:
		g = 21000
	}
	for _, b := range data {
		if b == 0 {
			g += 4
		} else {
			g += 68
		}
	}
	return g
}

// concrete derives the numbers of a spec. ok=false: the value class is degenerate for this
// (sender, gas, price) combination (balance-fee would be negative) and the point is skipped.
type concrete struct {
	to       *common.Address
	data     []byte
	nonce    uint64
	gas      uint64
	price    *big.Int
	value    *big.Int
	intr     uint64
	fee      *big.Int // gas limit * price
	balance  *big.Int
	pool     uint64 // gas pool handed to ApplyTransaction
	expValid bool
	expClass string // first failing pre-check in the order of the specification, "" if valid
}

func (s txSpec) concrete() (c concrete, ok bool) {
	switch s.Target {
	case tEOA:
		a := addrEOA
		c.to = &a
	case tEmpty:
		a := addrEmpty
		c.to = &a
	case tCall:
		a := addrP
		c.to = &a
	case tCreate:
		c.data = progInitCode(s.Prog)
	case tSelf:
		a := senders[s.Sender]
		c.to = &a
	case tFactory:
		a := factoryAddr(s.Fact)
		if s.ViaCal {
			a = wrapperAddr(s.Fact)
		}
		c.to = &a
	}
	c.pool = poolInit
	c.intr = intrinsic(s.Fork, s.Target == tCreate, c.data)
	c.nonce = uint64(senderNonce + s.Nonce - 1)
	if s.Target == tFactory {
		c.pool = factoryPool
		c.gas = []uint64{c.intr + 40000, 200000, 8000000, 20000000}[s.Gas]
	} else {
		switch s.Gas {
		case 0:
			c.gas = c.intr - 1
		case 1:
			c.gas = c.intr
		case 2:
			c.gas = c.intr + gasTightPlus
		case 3:
			c.gas = gasAmple
		case 4:
			c.gas = poolInit
		case 5:
			c.gas = poolInit + 1
		}
	}
	c.price = prices[s.Price]
	c.balance = senderBalance(s.Sender)
	c.fee = new(big.Int).Mul(new(big.Int).SetUint64(c.gas), c.price)
	rest := new(big.Int).Sub(c.balance, c.fee)
	switch s.Value {
	case 0:
		c.value = big.NewInt(0)
	case 1:
		c.value = big.NewInt(1)
	case 2:
		if rest.Sign() < 0 {
			return c, false
		}
		c.value = rest
	case 3:
		if rest.Sign() < 0 {
			return c, false
		}
		c.value = new(big.Int).Add(rest, big.NewInt(1))
	case 4:
		c.value = new(big.Int).Add(c.balance, big.NewInt(1))
	}
	switch {
	case s.Nonce == 0:
		c.expClass = "nonce-too-low"
	case s.Nonce == 2:
		c.expClass = "nonce-too-high"
	case c.balance.Cmp(c.fee) < 0:
		c.expClass = "insufficient-funds-for-gas"
	case c.gas > c.pool:
		c.expClass = "block-gas-exhausted"
	case c.gas < c.intr:
		c.expClass = "intrinsic-gas"
	case c.value.Cmp(rest) > 0:
		c.expClass = "insufficient-funds-for-transfer"
	}
	c.expValid = c.expClass == ""
	return c, true
}

func signerFor(fork int) types.Signer {
	h := forkHeight(fork)
	return types.MakeSigner(w.cfg, &h)
}

func (s txSpec) build() (*types.Transaction, concrete, bool) {
	c, ok := s.concrete()
	if !ok {
		return nil, c, false
	}
	var tx *types.Transaction
	if c.to == nil {
		tx = types.NewContractCreation(c.nonce, c.value, c.gas, c.price, c.data)
	} else {
		tx = types.NewTransaction(c.nonce, *c.to, c.value, c.gas, c.price, c.data)
	}
	signed, err := types.SignTx(signerFor(s.Fork), tx, senderKey(s.Sender))
	if err != nil {
		panic(fmt.Sprintf("SignTx: %v", err))
	}
	return signed, c, true
}

// ---------------------------------------------------------------------------------------------
// Pre-state of one program: head state of the real chain + the program installed at addrP.

type preState struct {
	st0  *state.StateDB
	snap *snapshot
}

func buildPre(prog []int) *preState {
	st := w.freshState()
	st.SetCode(addrP, progCode(prog))
	st.SetNonce(addrP, 1)
	st.SetBalance(addrP, big.NewInt(progBalance))
	st.SetState(addrP, slotOne, slotVal)
	snap, err := observe(st, nil)
	if err != nil {
		panic(fmt.Sprintf("pre-state does not read back: %v", err))
	}
	return &preState{st0: st, snap: snap}
}

// ---------------------------------------------------------------------------------------------
// One evaluation.

type finding struct {
	sig  string
	what string
}

type txResult struct {
	spec          txSpec
	conc          concrete
	errStr        string
	class         string // rejection class, "" when applied
	status        string // "rejected:<class>" | "ok" | "failed"
	gasUsed       uint64
	usedPre       uint64 // gas used before the refund (0 if unknown)
	refund        uint64
	capBinds      bool
	exactGas      bool // the exact gas figure was checked
	collision     bool // creation transaction into an occupied address
	creatorChecks int  // contracts whose nonce advance was compared with their creation steps
	creates       int  // CREATE/CREATE2 steps whose frame gas accounting was checked
	burn          *big.Int
	ops           uint32
	residue       bool // late rejection left exactly the gas purchase behind (tolerated, see assumptions)
	poolLeak      bool
	finds         []finding
	obs           string
}

func (r *txResult) fail(oracle, what string) {
	var sig string
	if r.class != "" {
		sig = fmt.Sprintf("C09|path=ApplyTransaction|reject=%s|oracle=%s", r.class, oracle)
	} else {
		// (the proposer-is-sender variants share the signature of their target kind; the case text tells them apart)
		sig = fmt.Sprintf("C09|path=ApplyTransaction|tx=%s/%s|oracle=%s", targetNames[r.spec.Target], r.status, oracle)
	}
	r.finds = append(r.finds, finding{sig, what + " :: " + r.spec.String()})
}

func applyReal(st *state.StateDB, gp *types.GasPool, hdr *types.Header, tx *types.Transaction, used *uint64, cfg kvm.Config) (rc *types.Receipt, gas uint64, err error, panicked string) {
	defer func() {
		if p := recover(); p != nil {
			panicked = fmt.Sprintf("%v\n%s", p, debug.Stack())
		}
	}()
	rc, gas, err = blockchain.ApplyTransaction(w.cfg, &recLogger{}, w.bc, gp, st, hdr, tx, used, cfg)
	return
}

func evalTx(p *preState, spec txSpec, tx *types.Transaction, c concrete) *txResult {
	r := &txResult{spec: spec, conc: c, burn: new(big.Int)}
	st := p.st0.Copy()
	before := p.snap
	pool := c.pool
	gp := new(types.GasPool).AddGas(pool)
	used := uint64(0)
	hdr := header(forkHeight(spec.Fork), pool)
	coinbase := addrCoinbase
	if spec.CbSend {
		coinbase = senders[spec.Sender]
		hdr.ProposerAddress = coinbase
	}
	tr := &burnTracer{createGas: 32000}
	if spec.Fork == 0 {
		tr.createGas = 64000 // the pre-Galaxias interpreter charges the constant part of CREATE/CREATE2 twice (A7)
	}
	st.Prepare(tx.Hash(), common.Hash{}, 0)
	rev := st.Snapshot()
	rc, gasRet, err, panicked := applyReal(st, gp, hdr, tx, &used, kvm.Config{Debug: true, Tracer: tr})
	r.ops = tr.ops
	r.creates = tr.creates
	if panicked != "" {
		r.class, r.status = "panic", "panic"
		r.fail("no-panic", "ApplyTransaction panicked: "+strings.SplitN(panicked, "\n", 2)[0])
		return r
	}
	sender := senders[spec.Sender]
	poolAfter := gp.Gas()

	if err != nil {
		// ---------------- rejected: as if it had not been there
		r.errStr = err.Error()
		r.class = rejectClass(r.errStr)
		r.status = "rejected:" + r.class
		if rc != nil || gasRet != 0 || used != 0 {
			r.fail("rejected-reports-nothing", fmt.Sprintf("error %q but receipt=%v gas=%d cumulative=%d", r.errStr, rc != nil, gasRet, used))
		}
		// strict view: what the state would be if the caller finalised it now (on a copy, the original keeps its journal)
		// (the root commits to every leaf: when it is unchanged the full read-back is skipped)
		strict := before
		stateDirty := false
		if sc := st.Copy(); sc.IntermediateRoot(true) != before.root {
			var oerr error
			if strict, oerr = observe(sc, before); oerr != nil {
				r.fail("state-readable", oerr.Error())
				return r
			}
			stateDirty = true
		}
		poolDelta := int64(pool) - int64(poolAfter)
		if stateDirty || poolDelta != 0 {
			// Tolerated residue (assumption A2): a rejection decided after buyGas may leave exactly the purchase
			// behind -- sender debited gasLimit*price, pool debited gasLimit -- for the caller to undo.
			stateOK, poolOK := !stateDirty, poolDelta == 0
			if lateClass(r.class) {
				if stateDirty {
					d := diff(before, strict)
					sk := string(crypto.Keccak256(sender[:]))
					a, b := before.get(sender), strict.get(sender)
					want := new(big.Int).Sub(a.Balance, c.fee)
					stateOK = len(d) == 1 && d[0] == sk && b.Balance.Cmp(want) == 0 && b.Nonce == a.Nonce && b.Root == a.Root && string(b.CodeHash) == string(a.CodeHash)
				}
				poolOK = poolDelta == 0 || poolDelta == int64(c.gas)
			}
			if !stateOK {
				r.fail("state-unchanged", fmt.Sprintf("rejected with %q but the state differs before any caller-side revert: %s", r.errStr, describeDiff(before, strict)))
			}
			if !poolOK {
				r.fail("gas-pool-unchanged", fmt.Sprintf("rejected with %q but the gas pool went %d -> %d", r.errStr, pool, poolAfter))
			}
			r.residue = stateDirty && stateOK
			r.poolLeak = poolDelta != 0 && poolOK
		}
		// weak view: after the revert every caller in the repository performs. (When the strict view is already
		// bit-identical there is nothing a revert could restore; the second read-back is skipped.)
		if stateDirty {
			st.RevertToSnapshot(rev)
			weak, oerr := observe(st, before)
			if oerr != nil {
				r.fail("state-readable", oerr.Error())
				return r
			}
			if weak.root != before.root || len(diff(before, weak)) != 0 {
				r.fail("state-unchanged-after-revert", fmt.Sprintf("rejected with %q and reverted to the snapshot, but the state differs: %s", r.errStr, describeDiff(before, weak)))
			}
		}
		r.obs = fmt.Sprintf("rejected %q pool %d->%d residue=%v", r.errStr, pool, poolAfter, r.residue)
		return r
	}

	// ---------------- applied
	if rc == nil {
		r.status = "ok"
		r.fail("receipt-present", "no error and no receipt")
		return r
	}
	if rc.Status == types.ReceiptStatusSuccessful {
		r.status = "ok"
	} else {
		r.status = "failed"
	}
	r.gasUsed = rc.GasUsed
	if !c.expValid {
		r.fail("invalid-tx-rejected", fmt.Sprintf("transaction violates pre-check %q but was applied (gasUsed %d)", c.expClass, rc.GasUsed))
	}
	after, oerr := observe(st, before)
	if oerr != nil {
		r.fail("state-readable", oerr.Error())
		return r
	}
	// gas
	if gasRet != rc.GasUsed || used != rc.GasUsed || rc.CumulativeGasUsed != rc.GasUsed {
		r.fail("gas-reported-consistently", fmt.Sprintf("receipt.GasUsed=%d returned=%d cumulative=%d/%d", rc.GasUsed, gasRet, used, rc.CumulativeGasUsed))
	}
	if rc.GasUsed > c.gas {
		r.fail("gas-used-le-limit", fmt.Sprintf("gas used %d > gas limit %d", rc.GasUsed, c.gas))
	}
	if poolAfter > pool || pool-poolAfter != rc.GasUsed {
		r.fail("gas-pool-delta", fmt.Sprintf("pool %d -> %d but gas used %d", pool, poolAfter, rc.GasUsed))
	}
	if tr.gasViol != "" {
		r.fail("frame-gas-not-minted", tr.gasViol)
	}
	if tr.started && tr.ended {
		r.usedPre = c.intr + tr.vmGas
		r.burn = tr.burn
		switch {
		case r.usedPre > c.gas:
			r.fail("gas-used-le-limit", fmt.Sprintf("gas used before refund %d (intrinsic %d + vm %d) > gas limit %d", r.usedPre, c.intr, tr.vmGas, c.gas))
		case rc.GasUsed > r.usedPre:
			r.fail("refund-cap", fmt.Sprintf("gas used %d exceeds gas used before refund %d", rc.GasUsed, r.usedPre))
		default:
			r.refund = r.usedPre - rc.GasUsed
			if r.refund > r.usedPre/2 {
				r.fail("refund-cap", fmt.Sprintf("refund %d > half of the gas used before refund (%d/2); refund counter %d", r.refund, r.usedPre, tr.refundCtr))
			}
			r.capBinds = tr.refundCtr > r.usedPre/2
		}
	}
	// exact gas figure of the direct factory calls, from the gas schedule (no refunds in these programs)
	if spec.Target == tFactory && !spec.ViaCal && spec.Fact < nExactFactories && c.gas >= c.intr {
		want, _ := factoryGas(spec.Fork, spec.Fact, c.gas-c.intr)
		ok := false
		for _, u := range want {
			if rc.GasUsed == c.intr+u {
				ok = true
			}
		}
		r.exactGas = true
		if !ok {
			r.fail("exact-gas-figure", fmt.Sprintf("gas used %d, the gas schedule gives intrinsic %d + %v for this program", rc.GasUsed, c.intr, want))
		}
	}
	fee := new(big.Int).Mul(new(big.Int).SetUint64(rc.GasUsed), c.price)
	// conservation over ALL accounts
	wantSum := new(big.Int).Sub(before.sum, r.burn)
	if after.sum.Cmp(wantSum) != 0 {
		r.fail("conservation", fmt.Sprintf("sum of all balances %v -> %v, expected %v (destroyed by self-destruct-to-self: %v); changes: %s",
			before.sum, after.sum, wantSum, r.burn, describeDiff(before, after)))
	}
	// nonce
	if n0, n1 := before.get(sender).Nonce, after.get(sender).Nonce; n1 != n0+1 {
		r.fail("sender-nonce-plus-one", fmt.Sprintf("sender nonce %d -> %d", n0, n1))
	}
	// a contract that performed n creation steps (CREATE/CREATE2 it could afford, in frames that were not reverted) has its
	// nonce advanced by exactly n, collisions included (checked for contracts that exist before and after)
	if tr.started && tr.ended {
		for a, n := range tr.creators {
			if !before.has(a) || !after.has(a) {
				continue
			}
			r.creatorChecks++
			if n0, n1 := before.get(a).Nonce, after.get(a).Nonce; n1 != n0+n {
				r.fail("creator-nonce-advances", fmt.Sprintf("contract %s performed %d creation step(s) but its nonce went %d -> %d", w.nameOf(string(crypto.Keccak256(a[:]))), n, n0, n1))
			}
		}
	}
	// a creation transaction whose derived address is occupied (measured for the vacuity guards; what the property demands
	// of it -- executed, so nonce +1, fee paid, nothing else moved -- is demanded by the general oracles)
	if spec.Target == tCreate && before.has(crypto.CreateAddress(sender, c.nonce)) && r.status == "failed" && !tr.started {
		r.collision = true
	}
	// Expected balance deltas of the parties, summed per account (the parties may alias):
	//   sender   -(value + gasUsed*price)   (the value comes back when the execution failed, A6)
	//   proposer +gasUsed*price             (header.ProposerAddress is the KVM coinbase in this code base, A1)
	//   target   +value                     (only predicted for targets without code)
	pay := new(big.Int).Set(fee)
	if r.status == "ok" {
		pay.Add(pay, c.value)
	}
	type party struct {
		a      common.Address
		oracle string
		want   *big.Int
	}
	parties := []party{{sender, "sender-pays-value-plus-fee", new(big.Int).Neg(pay)}}
	addParty := func(a common.Address, oracle string, v *big.Int) {
		for i := range parties {
			if parties[i].a == a {
				parties[i].want.Add(parties[i].want, v)
				return
			}
		}
		parties = append(parties, party{a, oracle, new(big.Int).Set(v)})
	}
	addParty(coinbase, "coinbase-fee", fee)
	if plainTarget(spec.Target) {
		if r.status != "ok" {
			r.fail("plain-transfer-succeeds", "transfer to an account without code reported failure")
		}
		addParty(*c.to, "target-gains-value", c.value)
	}
	for _, p := range parties {
		if d := new(big.Int).Sub(after.get(p.a).Balance, before.get(p.a).Balance); d.Cmp(p.want) != 0 {
			r.fail(p.oracle, fmt.Sprintf("balance of %s changed by %v, expected %v (value %v, gasUsed %d * price %v = %v, status %s)",
				w.nameOf(string(crypto.Keccak256(p.a[:]))), d, p.want, c.value, rc.GasUsed, c.price, fee, r.status))
		}
	}
	if plainTarget(spec.Target) {
		if dd := diff(before, after); len(dd) > len(parties) {
			r.fail("only-parties-change", "plain transfer changed other accounts: "+describeDiff(before, after))
		}
	}
	if spec.Target == tCreate {
		want := crypto.CreateAddress(sender, c.nonce)
		if rc.ContractAddress != want {
			r.fail("create-address", fmt.Sprintf("receipt names %x, expected %x", rc.ContractAddress, want))
		}
	}
	r.obs = fmt.Sprintf("%s gasUsed=%d beforeRefund=%d refund=%d burn=%v ops=%s", r.status, rc.GasUsed, r.usedPre, r.refund, r.burn, opsString(r.ops))
	return r
}

func opsString(o uint32) string {
	names := []string{"CALL", "CREATE", "REVERT", "INVALID", "STATICCALL", "SD-SELF", "SD-OTHER", "SSTORE", "inner-failed", "inner-reverted", "CREATE2"}
	var out []string
	for i, n := range names {
		if o&(1<<uint(i)) != 0 {
			out = append(out, n)
		}
	}
	if len(out) == 0 {
		return "-"
	}
	return strings.Join(out, "+")
}
