package main

import (
	"crypto/ecdsa"
	"fmt"
	"math/big"
	"sort"
	"strings"
	"sync"
	"time"

	"github.com/kardiachain/go-kardia/configs"
	"github.com/kardiachain/go-kardia/kai/kaidb/memorydb"
	"github.com/kardiachain/go-kardia/kai/state"
	"github.com/kardiachain/go-kardia/lib/common"
	"github.com/kardiachain/go-kardia/lib/crypto"
	"github.com/kardiachain/go-kardia/lib/log"
	"github.com/kardiachain/go-kardia/lib/rlp"
	"github.com/kardiachain/go-kardia/mainchain/blockchain"
	"github.com/kardiachain/go-kardia/mainchain/genesis"
	"github.com/kardiachain/go-kardia/mainchain/staking"
	stypes "github.com/kardiachain/go-kardia/mainchain/staking/types"
	"github.com/kardiachain/go-kardia/types"
)

// ---------------------------------------------------------------------------------------------
// The fixed universe. Every account that a transaction of the enumerated space can touch is listed
// here for naming only; the conservation sum itself iterates the whole account trie.

func fixedAddr(tag string, n byte) common.Address {
	var a common.Address
	copy(a[:], []byte(tag))
	a[19] = n
	return a
}

var (
	keyHex = []string{
		"b71c71a67e1177ad4e901695e1b4b9ee17ae16c6668d313eac2f96dbcda3f291", // rich
		"8a1f9a8f95be41cd7ccb6168179afb4504aefe388d1e14474d32c45c72ce7b7a", // poor
		"49a7b37aa6f6645917e7b807e9d1c00d4fa71f18343b0d4122a4d2df64dd6fee", // validator (funds the staking contract only)
		"0cf7ae0332a891044cc8c63d6cb6e8a4a2fa1e9b3c5d7f0123456789abcdef01", // collider-code: CreateAddress(it, its nonce) holds an account with code
		"1ab7ae0332a891044cc8c63d6cb6e8a4a2fa1e9b3c5d7f0123456789abcdef02", // collider-nonce: ... holds an account with only a non-zero nonce
	}
	keys    []*ecdsa.PrivateKey
	senders []common.Address // 0 rich, 1 poor, 2 collider-code, 3 collider-nonce (the last two only in the collision family)
	valAddr common.Address

	addrCoinbase = fixedAddr("c09-coinbase", 1)
	addrEOA      = fixedAddr("c09-eoa-target", 2)
	addrEmpty    = fixedAddr("c09-fresh-empty", 3) // not in the pre-state
	addrX        = fixedAddr("c09-xfer-sink", 4)
	addrBenef    = fixedAddr("c09-sd-benef", 5)
	addrP        = fixedAddr("c09-program", 6) // the program under test is installed here
	addrPB       = fixedAddr("c09-program-b", 7)
	addrPC       = fixedAddr("c09-program-c", 8)
)

const (
	senderNonce  = 5 // current nonce of both senders in the pre-state
	progBalance  = 1000
	leafBalance  = 500
	poolInit     = 5000000 // gas pool handed to a single ApplyTransaction
	gasAmple     = 1000000
	gasTightPlus = 30000
	galaxiasAt   = 100
	heightPre    = 50  // pre-Galaxias rules: Homestead signer, 29000 base gas for calls
	heightPost   = 150 // Galaxias rules: chain-id signer, 21000 base gas
)

var (
	richBalance, _ = new(big.Int).SetString("1000000000000000000000000", 10) // 10^24
	poorBalance    = new(big.Int).Add(new(big.Int).Exp(big.NewInt(10), big.NewInt(15), nil), big.NewInt(12345))
	prices         = []*big.Int{big.NewInt(0), big.NewInt(1), big.NewInt(1000000000)}
	slotOne        = common.BigToHash(big.NewInt(1))
	slotVal        = common.BigToHash(big.NewInt(0x77))
)

func senderBalance(s int) *big.Int {
	if s == 1 {
		return poorBalance
	}
	return richBalance
}

// senderKey: the private key of sender s (keys[2] is the validator).
func senderKey(s int) *ecdsa.PrivateKey {
	if s < 2 {
		return keys[s]
	}
	return keys[s+1]
}

// ---------------------------------------------------------------------------------------------
// Action alphabet and the assembler of the contract family.

const (
	aXfer    = iota // CALL X with value = SELFBALANCE/2
	aCreate         // CREATE a child with endowment 1
	aRevert         // REVERT(0,0)
	aSDSelf         // SELFDESTRUCT(ADDRESS)
	aSDOther        // SELFDESTRUCT(benef)
	aBurn           // INVALID: consumes all gas of the frame
	aSSet           // SSTORE(2, 5)
	aSClear         // SSTORE(1, 0) on a slot that holds 0x77 in the pre-state: refund
	aStaticW        // STATICCALL(leaf SSET) with 10000 gas (write protection fault), then SSTORE(3, 9)
	nLeaf           // number of leaf actions
	// aCall+k : CALL leaf contract k (the one-action program k) with value 3 and all gas
	aCall    = nLeaf
	nActions = 2 * nLeaf
)

var actionNames = []string{"XFER", "CREATE", "REVERT", "SDSELF", "SDOTHER", "BURN", "SSET", "SCLEAR", "STATICW"}

func actionName(a int) string {
	if a < nLeaf {
		return actionNames[a]
	}
	return "CALL(" + actionNames[a-aCall] + ")"
}

func progName(p []int) string {
	s := make([]string, len(p))
	for i, a := range p {
		s[i] = actionName(a)
	}
	return "[" + strings.Join(s, ";") + "]"
}

func leafAddr(k int) common.Address { return fixedAddr("c09-leaf", byte(0x10+k)) }

func push20(a common.Address) []byte { return append([]byte{0x73}, a[:]...) }

// actionCode returns the stack-neutral code fragment of one action.
func actionCode(a int) []byte {
	zero4 := []byte{0x60, 0, 0x60, 0, 0x60, 0, 0x60, 0} // outSize outOff inSize inOff
	switch {
	case a == aXfer:
		c := append([]byte{}, zero4...)
		c = append(c, 0x60, 2, 0x47, 0x04) // PUSH1 2, SELFBALANCE, DIV -> balance/2
		c = append(c, push20(addrX)...)
		return append(c, 0x5a, 0xf1, 0x50) // GAS CALL POP
	case a == aCreate:
		// child init code "PUSH1 1 PUSH1 0 RETURN" (runtime = one STOP byte) placed at memory[27..32)
		return []byte{0x64, 0x60, 0x01, 0x60, 0x00, 0xf3, 0x60, 0x00, 0x52, 0x60, 0x05, 0x60, 0x1b, 0x60, 0x01, 0xf0, 0x50}
	case a == aRevert:
		return []byte{0x60, 0, 0x60, 0, 0xfd}
	case a == aSDSelf:
		return []byte{0x30, 0xff}
	case a == aSDOther:
		return append(push20(addrBenef), 0xff)
	case a == aBurn:
		return []byte{0xfe}
	case a == aSSet:
		return []byte{0x60, 5, 0x60, 2, 0x55}
	case a == aSClear:
		return []byte{0x60, 0, 0x60, 1, 0x55}
	case a == aStaticW:
		c := append([]byte{}, zero4...)
		c = append(c, push20(leafAddr(aSSet))...)
		c = append(c, 0x61, 0x27, 0x10, 0xfa, 0x50) // PUSH2 10000 STATICCALL POP
		return append(c, 0x60, 9, 0x60, 3, 0x55)
	case a >= aCall && a < nActions:
		c := append([]byte{}, zero4...)
		c = append(c, 0x60, 3)
		c = append(c, push20(leafAddr(a-aCall))...)
		return append(c, 0x5a, 0xf1, 0x50)
	}
	panic("bad action")
}

func progCode(p []int) []byte {
	var c []byte
	for _, a := range p {
		c = append(c, actionCode(a)...)
	}
	return append(c, 0x00) // STOP
}

// progInitCode: the same actions run as init code of a contract creation, then a 1-byte runtime
// (memory[0] is always zero) is returned.
func progInitCode(p []int) []byte {
	var c []byte
	for _, a := range p {
		c = append(c, actionCode(a)...)
	}
	return append(c, 0x60, 0x01, 0x60, 0x00, 0xf3)
}

// ---------------------------------------------------------------------------------------------
// Factory family: fixed contracts that do nothing but one CREATE or CREATE2 (endowment 1) with a given
// init code, and wrappers that CALL such a factory with all gas. They are called with large gas limits;
// for the direct calls the exact gas figure is computed from the gas schedule (factoryGas).

const (
	fCreate = iota
	fCreate2
	nFactoryOps
)
const (
	iEmpty  = iota // empty init code: costs nothing, leaves an account without code
	iDeploy        // PUSH1 1 PUSH1 0 RETURN: deploys a one-byte runtime
	iBurn          // INVALID: consumes everything it was given
	iRevert        // PUSH1 0 DUP1 REVERT
	nFactoryInits
)
const (
	nExactFactories = nFactoryOps * nFactoryInits // the single-creation factories, with an exact gas figure
	fTwiceEmpty     = nExactFactories             // CREATE2 twice, same salt, empty init code: the second collides
	fTwiceDeploy    = nExactFactories + 1         // CREATE2 twice, same salt, deploying init code: the second collides
	fOccupied       = nExactFactories + 2         // CREATE (empty init) into an address that is occupied in the genesis
	fDriver0        = nExactFactories + 3         // 9 drivers: CALL a self-destructing contract k in {1,2,3} times with value 1000, beneficiary in {other EOA, the caller, the contract itself}
	nDrivers        = 9
	nFactories      = fDriver0 + nDrivers
)

var factoryOpNames = []string{"CREATE", "CREATE2"}
var factoryInitNames = []string{"empty-init", "deploying-init", "burning-init", "reverting-init"}

var driverBenefNames = []string{"another-EOA", "the-caller", "itself"}

var addrSDCaller = fixedAddr("c09-sd-to-caller", 9) // CALLER SELFDESTRUCT

// driverTarget: the self-destructing contract a driver calls.
func driverTarget(benef int) common.Address {
	switch benef {
	case 0:
		return leafAddr(aSDOther)
	case 1:
		return addrSDCaller
	}
	return leafAddr(aSDSelf)
}

func factoryName(k int) string {
	if k >= fDriver0 {
		d := k - fDriver0
		return fmt.Sprintf("DRIVER(%dx CALL with value into SELFDESTRUCT-to-%s)", d/3+1, driverBenefNames[d%3])
	}
	switch k {
	case fTwiceEmpty:
		return "CREATE2-twice-same-salt(empty-init)"
	case fTwiceDeploy:
		return "CREATE2-twice-same-salt(deploying-init)"
	case fOccupied:
		return "CREATE-into-occupied-address(empty-init)"
	}
	return factoryOpNames[k/nFactoryInits] + "(" + factoryInitNames[k%nFactoryInits] + ")"
}
func factoryAddr(k int) common.Address { return fixedAddr("c09-factory", byte(0x40+k)) }
func wrapperAddr(k int) common.Address { return fixedAddr("c09-factory-wrap", byte(0x60+k)) }

// factoryInit: the init code, and how the factory puts it into memory (prelude, offset, size).
func factoryInit(init int) (prelude []byte, offset, size byte) {
	switch init {
	case iEmpty:
		return nil, 0, 0
	case iDeploy:
		return []byte{0x64, 0x60, 0x01, 0x60, 0x00, 0xf3, 0x60, 0x00, 0x52}, 27, 5 // PUSH5 <init> PUSH1 0 MSTORE
	case iBurn:
		return []byte{0x60, 0xfe, 0x60, 0x00, 0x53}, 0, 1 // PUSH1 0xfe PUSH1 0 MSTORE8
	case iRevert:
		return []byte{0x63, 0x60, 0x00, 0x80, 0xfd, 0x60, 0x00, 0x52}, 28, 4 // PUSH4 <init> PUSH1 0 MSTORE
	}
	panic("bad init")
}

func factoryCode(k int) []byte {
	if k >= fDriver0 {
		d := k - fDriver0
		var c []byte
		for i := 0; i <= d/3; i++ {
			c = append(c, 0x60, 0, 0x60, 0, 0x60, 0, 0x60, 0, 0x61, 0x03, 0xe8) // outSize outOff inSize inOff value=1000
			c = append(c, push20(driverTarget(d%3))...)
			c = append(c, 0x5a, 0xf1, 0x50) // GAS CALL POP
		}
		return append(c, 0x00)
	}
	switch k {
	case fTwiceEmpty, fTwiceDeploy:
		// CREATE2 POP CREATE2 (end of code): the colliding second CREATE2 leaves the frame without gas, so nothing may follow it
		init := iEmpty
		if k == fTwiceDeploy {
			init = iDeploy
		}
		pre, off, size := factoryInit(init)
		c := append([]byte{}, pre...)
		one := []byte{0x60, 0x2a, 0x60, size, 0x60, off, 0x60, 0x01, 0xf5}
		c = append(c, one...)
		c = append(c, 0x50)
		return append(c, one...)
	case fOccupied:
		k = fCreate*nFactoryInits + iEmpty
	}
	op, init := k/nFactoryInits, k%nFactoryInits
	c, off, size := factoryInit(init)
	c = append([]byte{}, c...)
	if op == fCreate2 {
		c = append(c, 0x60, 0x2a) // salt
	}
	c = append(c, 0x60, size, 0x60, off, 0x60, 0x01) // size offset endowment
	if op == fCreate {
		c = append(c, 0xf0)
	} else {
		c = append(c, 0xf5)
	}
	return append(c, 0x50, 0x00) // POP STOP
}

// factoryCreations: how many CREATE/CREATE2 the factory performs when it runs to its end.
func factoryCreations(k int) uint64 {
	if k == fTwiceEmpty || k == fTwiceDeploy {
		return 2
	}
	return 1
}

func wrapperCode(k int) []byte {
	c := []byte{0x60, 0, 0x60, 0, 0x60, 0, 0x60, 0, 0x60, 0} // outSize outOff inSize inOff value=0
	c = append(c, push20(factoryAddr(k))...)
	return append(c, 0x5a, 0xf1, 0x50, 0x00) // GAS CALL POP STOP
}

// factoryGas is the checker's own statement of the gas a DIRECT call into factory k consumes inside the KVM
// (without the intrinsic gas) when it is given `gas`, from the gas schedule of the fork:
//
//	PUSHn 3, POP 2, MSTORE/MSTORE8 3 + 3 for the first memory word, CREATE/CREATE2 32000 (+6 per init code word
//	hashed by CREATE2), RETURN/REVERT 0 + memory, DUP 3, code deposit 200 per byte; an opcode whose price has a
//	dynamic part is charged its constant part twice under pre-Galaxias rules (historic behaviour of that
//	interpreter); CREATE hands the init code all but one 64th of the remaining gas. CREATE2 in this code base
//	hands over everything, the other reading (all but one 64th) only differs for the burning init code, for
//	which both figures are returned. failed = the factory frame itself ran out of gas (everything consumed).
func factoryGas(fork, k int, gas uint64) (used []uint64, failed bool) {
	op, init := k/nFactoryInits, k%nFactoryInits
	left := gas
	charge := func(constant, dynamic uint64, hasDynamic bool) bool {
		cost := constant + dynamic
		if hasDynamic && fork == 0 {
			cost += constant
		}
		if left < cost {
			return false
		}
		left -= cost
		return true
	}
	fail := func() ([]uint64, bool) { return []uint64{gas}, true }
	// prelude
	switch init {
	case iDeploy, iRevert, iBurn:
		if !charge(3, 0, false) || !charge(3, 0, false) || !charge(3, 3, true) {
			return fail()
		}
	}
	pushes := 3
	if op == fCreate2 {
		pushes = 4
	}
	for i := 0; i < pushes; i++ {
		if !charge(3, 0, false) {
			return fail()
		}
	}
	// (this chain's CREATE2 does not charge EIP-1014's 6 gas per hashed init code word: gasCreate2 is the pure
	// memory price; the schedule of the chain is taken as it is, assumption A7)
	if !charge(32000, 0, true) {
		return fail()
	}
	// the init code
	var childCost, deposit uint64
	childFails := false
	switch init {
	case iEmpty:
	case iDeploy:
		childCost, deposit = 3+3+3, 200
	case iBurn:
		childFails = true
	case iRevert:
		childCost = 3 + 3
	}
	finish := func(forwarded uint64) (uint64, bool) {
		l := left - forwarded
		switch {
		case childFails || forwarded < childCost || forwarded-childCost < deposit:
			// init code fails (or cannot pay for its code): everything handed over is gone
		default:
			l += forwarded - childCost - deposit
		}
		if l < 2 { // POP
			return gas, true
		}
		return gas - (l - 2), false
	}
	if op == fCreate {
		u, f := finish(left - left/64)
		return []uint64{u}, f
	}
	u, f := finish(left)
	if init == iBurn {
		u2, f2 := finish(left - left/64)
		if u2 != u {
			return []uint64{u, u2}, f && f2
		}
	}
	return []uint64{u}, f
}

// allPrograms enumerates every action sequence of length 1..maxLen in length-then-lexicographic order.
func allPrograms(maxLen int) [][]int {
	var out [][]int
	for l := 1; l <= maxLen; l++ {
		idx := make([]int, l)
		for {
			out = append(out, append([]int{}, idx...))
			k := l - 1
			for k >= 0 {
				idx[k]++
				if idx[k] < nActions {
					break
				}
				idx[k] = 0
				k--
			}
			if k < 0 {
				break
			}
		}
	}
	return out
}

// ---------------------------------------------------------------------------------------------
// The real chain: genesis with the staking contract, one validator, the universe.

type world struct {
	bc       *blockchain.BlockChain
	cfg      *configs.ChainConfig
	staking  *staking.StakingSmcUtil
	valPower *big.Int
	names    map[string]string // keccak(address) -> name
}

var w *world

var configsOnce sync.Once
var genesisContracts map[string]string

func buildWorld() *world {
	for _, h := range keyHex {
		k, err := crypto.HexToECDSA(h)
		if err != nil {
			panic(err)
		}
		keys = append(keys, k)
	}
	senders = []common.Address{crypto.PubkeyToAddress(keys[0].PublicKey), crypto.PubkeyToAddress(keys[1].PublicKey),
		crypto.PubkeyToAddress(keys[3].PublicKey), crypto.PubkeyToAddress(keys[4].PublicKey)}
	valAddr = crypto.PubkeyToAddress(keys[2].PublicKey)

	configsOnce.Do(func() {
		// global configuration tables of the repository: plain maps, filled exactly once
		configs.AddDefaultContract()
		genesisContracts = map[string]string{}
		for key, contract := range configs.GetContracts() {
			configs.LoadGenesisContract(key, contract.Address, contract.ByteCode, contract.ABI)
			if key != configs.StakingContractKey {
				genesisContracts[contract.Address] = contract.ByteCode
			}
		}
	})
	valFunds, _ := new(big.Int).SetString("1000000000000000000000000000", 10)
	g := genesis.DefaulTestnetFullGenesisBlock(map[string]*big.Int{valAddr.Hex(): valFunds}, genesisContracts)
	if g == nil {
		panic("genesis construction failed")
	}
	gal := uint64(galaxiasAt)
	g.Config = &configs.ChainConfig{ChainID: big.NewInt(242), GalaxiasBlock: &gal, Kaicon: &configs.KaiconConfig{Period: 15, Epoch: 30000}}
	g.ChainID = "verif-c09"
	g.Timestamp = time.Unix(1605528000, 0).UTC()
	g.Validators = []*genesis.GenesisValidator{{
		Name: "val1", Address: valAddr.Hex(), CommissionRate: "100000000000000000", MaxRate: "250000000000000000",
		MaxChangeRate: "50000000000000000", SelfDelegate: "12500000000000000000000000", StartWithGenesis: true,
	}}
	// the universe
	g.Alloc[senders[0]] = genesis.GenesisAccount{Balance: richBalance, Nonce: senderNonce}
	g.Alloc[senders[1]] = genesis.GenesisAccount{Balance: poorBalance, Nonce: senderNonce}
	// collision family: the address a creation by these senders at their current nonce derives is already occupied
	g.Alloc[senders[2]] = genesis.GenesisAccount{Balance: richBalance, Nonce: senderNonce}
	g.Alloc[senders[3]] = genesis.GenesisAccount{Balance: richBalance, Nonce: senderNonce}
	g.Alloc[crypto.CreateAddress(senders[2], senderNonce)] = genesis.GenesisAccount{Balance: big.NewInt(21), Nonce: 1, Code: []byte{0x00}}
	g.Alloc[crypto.CreateAddress(senders[3], senderNonce)] = genesis.GenesisAccount{Balance: big.NewInt(0), Nonce: 1}
	// ... and so is the address the CREATE of the "occupied" factory derives (factory nonce 1)
	g.Alloc[crypto.CreateAddress(factoryAddr(fOccupied), 1)] = genesis.GenesisAccount{Balance: big.NewInt(23), Nonce: 1, Code: []byte{0x00}}
	g.Alloc[addrCoinbase] = genesis.GenesisAccount{Balance: big.NewInt(17)}
	g.Alloc[addrEOA] = genesis.GenesisAccount{Balance: big.NewInt(7)}
	g.Alloc[addrX] = genesis.GenesisAccount{Balance: big.NewInt(11)}
	g.Alloc[addrBenef] = genesis.GenesisAccount{Balance: big.NewInt(13)}
	for k := 0; k < nLeaf; k++ {
		g.Alloc[leafAddr(k)] = genesis.GenesisAccount{Balance: big.NewInt(int64(leafBalance + k)), Nonce: 1, Code: progCode([]int{k}),
			Storage: map[common.Hash]common.Hash{slotOne: slotVal}}
	}
	for k := 0; k < nFactories; k++ {
		fb := int64(progBalance)
		if k >= fDriver0 {
			fb = 10000 // a driver hands out up to 3 x 1000
		}
		g.Alloc[factoryAddr(k)] = genesis.GenesisAccount{Balance: big.NewInt(fb), Nonce: 1, Code: factoryCode(k)}
		g.Alloc[wrapperAddr(k)] = genesis.GenesisAccount{Balance: big.NewInt(progBalance), Nonce: 1, Code: wrapperCode(k)}
	}
	g.Alloc[addrSDCaller] = genesis.GenesisAccount{Balance: big.NewInt(509), Nonce: 1, Code: []byte{0x33, 0xff}}
	// fixed programs used by the block path
	g.Alloc[addrPB] = genesis.GenesisAccount{Balance: big.NewInt(progBalance), Nonce: 1, Code: progCode(blockProgB),
		Storage: map[common.Hash]common.Hash{slotOne: slotVal}}
	g.Alloc[addrPC] = genesis.GenesisAccount{Balance: big.NewInt(progBalance), Nonce: 1, Code: progCode(blockProgC),
		Storage: map[common.Hash]common.Hash{slotOne: slotVal}}

	cache := &blockchain.CacheConfig{TrieCleanLimit: 16, TrieDirtyLimit: 16, TrieTimeLimit: 5 * time.Minute}
	bc, err := blockchain.NewBlockChain(memorydb.New(), cache, g)
	if err != nil {
		panic(fmt.Sprintf("NewBlockChain: %v", err))
	}
	su, err := staking.NewSmcStakingUtil()
	if err != nil {
		panic(err)
	}
	wd := &world{bc: bc, cfg: bc.Config(), staking: su, names: map[string]string{}}
	sd, _ := new(big.Int).SetString("12500000000000000000000000", 10)
	wd.valPower = new(big.Int).Div(sd, configs.PowerReduction)
	name := func(a common.Address, n string) { wd.names[string(crypto.Keccak256(a[:]))] = n }
	name(senders[0], "sender-rich")
	name(senders[1], "sender-poor")
	name(senders[2], "sender-collider-code")
	name(senders[3], "sender-collider-nonce")
	name(crypto.CreateAddress(senders[2], senderNonce), "occupant-with-code")
	name(crypto.CreateAddress(senders[3], senderNonce), "occupant-with-nonce-only")
	name(crypto.CreateAddress(factoryAddr(fOccupied), 1), "occupant-of-factory-create-address")
	name(valAddr, "validator")
	name(addrCoinbase, "coinbase")
	name(addrEOA, "eoa-target")
	name(addrEmpty, "fresh-empty")
	name(addrX, "xfer-sink")
	name(addrBenef, "sd-beneficiary")
	name(addrP, "program")
	name(addrSDCaller, "sd-to-caller")
	name(addrPB, "program-b")
	name(addrPC, "program-c")
	name(common.HexToAddress(configs.DefaultStakingContractAddress), "staking-contract")
	name(configs.GenesisDeployerAddr, "genesis-deployer")
	for k := 0; k < nLeaf; k++ {
		name(leafAddr(k), "leaf-"+actionNames[k])
	}
	for k := 0; k < nFactories; k++ {
		name(factoryAddr(k), "factory-"+factoryName(k))
		name(wrapperAddr(k), "wrapper-of-factory-"+factoryName(k))
	}
	return wd
}

func (wd *world) nameOf(hashed string) string {
	if n, ok := wd.names[hashed]; ok {
		return n
	}
	return fmt.Sprintf("acct#%x", hashed[:6])
}

// freshState opens the head (genesis) state; every caller gets its own object.
func (wd *world) freshState() *state.StateDB {
	st, err := wd.bc.State()
	if err != nil {
		panic(fmt.Sprintf("head state: %v", err))
	}
	return st
}

func (wd *world) lastCommit() stypes.LastCommitInfo {
	return stypes.LastCommitInfo{Votes: []stypes.VoteInfo{{Address: valAddr, VotingPower: new(big.Int).Set(wd.valPower), SignedLastBlock: true}}}
}

func header(height uint64, gasLimit uint64) *types.Header {
	return &types.Header{Height: height, Time: time.Unix(1605528000+int64(height)*5, 0).UTC(), GasLimit: gasLimit, ProposerAddress: addrCoinbase}
}

func forkHeight(fork int) uint64 {
	if fork == 0 {
		return heightPre
	}
	return heightPost
}

// ---------------------------------------------------------------------------------------------
// Full-state observation: every leaf of the account trie.

type acct struct {
	Nonce    uint64
	Balance  *big.Int
	Root     common.Hash
	CodeHash []byte
}

type leaf struct {
	raw []byte
	a   acct
}

type snapshot struct {
	root   common.Hash
	leaves map[string]*leaf // keccak(address) -> account leaf (raw RLP + decoded)
	sum    *big.Int
}

func decodeAcct(b []byte) (acct, error) {
	var a acct
	err := rlp.DecodeBytes(b, &a)
	return a, err
}

// observe finalises the state (exactly what ApplyTransaction / the next IntermediateRoot do) and
// reads ALL accounts back from the trie. ref (may be nil) only saves decoding work: a leaf whose raw
// bytes equal the leaf of ref under the same key shares its decoded form.
func observe(st *state.StateDB, ref *snapshot) (*snapshot, error) {
	s := &snapshot{leaves: map[string]*leaf{}, sum: new(big.Int)}
	if ref != nil {
		s.leaves = make(map[string]*leaf, len(ref.leaves)+4)
	}
	s.root = st.IntermediateRoot(true)
	var derr error
	err := st.VerifC09AccountLeaves(func(hk, pre, val []byte) {
		var l *leaf
		if ref != nil {
			if o, ok := ref.leaves[string(hk)]; ok && string(o.raw) == string(val) {
				l = o
			}
		}
		if l == nil {
			a, e := decodeAcct(val)
			if e != nil {
				derr = fmt.Errorf("account %x does not decode: %v", hk, e)
				return
			}
			if a.Balance == nil || a.Balance.Sign() < 0 {
				derr = fmt.Errorf("account %x has a negative balance", hk)
				return
			}
			l = &leaf{raw: val, a: a}
		}
		s.leaves[string(hk)] = l
		s.sum.Add(s.sum, l.a.Balance)
	})
	if err != nil {
		return nil, err
	}
	return s, derr
}

func (s *snapshot) get(a common.Address) acct {
	l, ok := s.leaves[string(crypto.Keccak256(a[:]))]
	if !ok {
		return acct{Balance: new(big.Int)}
	}
	return l.a
}

func (s *snapshot) has(a common.Address) bool {
	_, ok := s.leaves[string(crypto.Keccak256(a[:]))]
	return ok
}

// diff returns the sorted hashed keys whose leaf differs between the two snapshots.
func diff(a, b *snapshot) []string {
	var d []string
	for k, v := range a.leaves {
		if w, ok := b.leaves[k]; !ok || (w != v && string(w.raw) != string(v.raw)) {
			d = append(d, k)
		}
	}
	for k := range b.leaves {
		if _, ok := a.leaves[k]; !ok {
			d = append(d, k)
		}
	}
	sort.Strings(d)
	return d
}

func describeDiff(a, b *snapshot) string {
	var out []string
	for _, k := range diff(a, b) {
		x, y := acct{Balance: new(big.Int)}, acct{Balance: new(big.Int)}
		if v, ok := a.leaves[k]; ok {
			x = v.a
		}
		if v, ok := b.leaves[k]; ok {
			y = v.a
		}
		out = append(out, fmt.Sprintf("%s: balance %v->%v nonce %d->%d storage-changed=%v code-changed=%v", w.nameOf(k), x.Balance, y.Balance,
			x.Nonce, y.Nonce, x.Root != y.Root, string(x.CodeHash) != string(y.CodeHash)))
	}
	return strings.Join(out, "; ")
}

// ---------------------------------------------------------------------------------------------
// A silent logger that remembers the errors commitBlock reports for rejected transactions.

type recLogger struct {
	rejects []string // "err" values of "ApplyTransaction failed" records, in order
}

func (l *recLogger) New(ctx ...interface{}) log.Logger    { return l }
func (l *recLogger) AddTag(tag string)                    {}
func (l *recLogger) GetHandler() log.Handler              { return log.DiscardHandler() }
func (l *recLogger) SetHandler(h log.Handler)             {}
func (l *recLogger) Trace(msg string, ctx ...interface{}) {}
func (l *recLogger) Debug(msg string, ctx ...interface{}) {}
func (l *recLogger) Info(msg string, ctx ...interface{})  {}
func (l *recLogger) Warn(msg string, ctx ...interface{})  {}
func (l *recLogger) Crit(msg string, ctx ...interface{})  { panic("log.Crit: " + msg) }
func (l *recLogger) Error(msg string, ctx ...interface{}) {
	if msg != "ApplyTransaction failed" {
		return
	}
	for i := 0; i+1 < len(ctx); i += 2 {
		if k, ok := ctx[i].(string); ok && k == "err" {
			l.rejects = append(l.rejects, fmt.Sprint(ctx[i+1]))
		}
	}
}

// rejectClass maps an error of the transaction pre-checks to the class names of the property.
func rejectClass(err string) string {
	switch {
	case strings.Contains(err, "nonce too low"):
		return "nonce-too-low"
	case strings.Contains(err, "nonce too high"):
		return "nonce-too-high"
	case strings.Contains(err, "insufficient funds for transfer"):
		return "insufficient-funds-for-transfer"
	case strings.Contains(err, "insufficient funds"):
		return "insufficient-funds-for-gas"
	case strings.Contains(err, "gas limit reached"):
		return "block-gas-exhausted"
	case strings.Contains(err, "intrinsic gas too low"):
		return "intrinsic-gas"
	case strings.Contains(err, "panic"):
		return "panic"
	}
	return "other"
}

// lateClass: rejections that TransitionDb decides only after buyGas has debited the sender and
// the pool (see the assumption recorded in main).
func lateClass(c string) bool {
	return c == "intrinsic-gas" || c == "insufficient-funds-for-transfer"
}
