// The oracles: each function executes operations on the REAL ValidatorSet and compares with the
// reference model. They are pure functions of (real object, operation) so that the explorer and
// the replay mode share them.
package main

import (
	"fmt"
	"math/big"
	"reflect"
	"runtime/debug"
	"strings"

	"github.com/kardiachain/go-kardia/types"
)

var capv int64      // types.MaxTotalVotingPower, read from the code under test
var capBig *big.Int // the same, as specified: floor(MaxInt64 / 8), computed by the checker

type opRec struct {
	Kind    string  `json:"kind"` // "inc" | "upd"
	Times   int     `json:"times,omitempty"`
	Changes []entry `json:"changes,omitempty"`
}

func (o opRec) String() string {
	if o.Kind == "inc" {
		return fmt.Sprintf("Increment(%d)", o.Times)
	}
	var p []string
	for _, e := range o.Changes {
		p = append(p, fmt.Sprintf("a%d:%s=%d", e.Addr, e.Tok, e.Power))
	}
	return "Update{" + strings.Join(p, ", ") + "}"
}

type finding struct {
	Sig  string
	What string
	lazy func() string // What is formatted only when the finding is kept
}

func (f finding) what() string {
	if f.lazy != nil {
		return f.What + f.lazy()
	}
	return f.What
}

// safely runs f and reports whether it panicked.
func safely(f func()) (panicked bool, val string) {
	defer func() {
		if p := recover(); p != nil {
			st := string(debug.Stack())
			// keep the frames of the code under test, not the checker's own
			if i := strings.Index(st, "panic("); i >= 0 {
				st = st[i:]
			}
			if len(st) > 700 {
				st = st[:700] + " ..."
			}
			panicked, val = true, fmt.Sprintf("%v\n%s", p, st)
		}
	}()
	f()
	return
}

func refString(s refState) string {
	var p []string
	for _, v := range s.vals {
		p = append(p, fmt.Sprintf("a%d:p=%v,prio=%v", v.addr, v.power, v.prio))
	}
	return "[" + strings.Join(p, " ") + "] proposer=a" + fmt.Sprint(s.proposer)
}

// proposerOf is the observable proposer: GetProposer() of the real set.
func proposerOf(vs *types.ValidatorSet) int {
	p := vs.GetProposer()
	if p == nil {
		return -1
	}
	if i, ok := poolIndex[p.Address]; ok {
		return i
	}
	return -2
}

// stepResult of executing one operation on a copy of the real set.
type stepResult struct {
	accepted bool                // the operation changed the set (increment, or update without error)
	child    *types.ValidatorSet // the real object after the operation (canonical entry order)
	st       state
	execs    int    // executions of the operation on the real object (1 + permutations)
	rej      string // reference's rejection class ("" = valid)
	grey     bool
	rescaled bool // the reference had to rescale in this step
}

// checkIncrement: same priorities, same order, same proposer as the specification.
func checkIncrement(vs *types.ValidatorSet, st state, times int) (stepResult, []finding) {
	var fs []finding
	res := stepResult{execs: 1}
	c := vs.Copy()
	panicked, pv := safely(func() { c.IncrementProposerPriority(int64(times)) })
	if panicked {
		return res, []finding{{"C12|oracle=panic|op=increment", "IncrementProposerPriority panics on a well-formed set: " + pv, nil}}
	}
	got := extract(c)
	exp, info := refIncrement(st.toRef(), times, true)
	res.accepted, res.child, res.st, res.rescaled = true, c, got, info.rescaled
	ok, diff := sameAsRef(got, exp)
	gp := proposerOf(c)
	if ok && (got.Prop != exp.proposer || gp != exp.proposer) {
		ok, diff = false, "proposer"
	}
	if ok {
		return res, nil
	}
	tm := "1"
	if times > 1 {
		tm = "many"
	}
	what := func() string {
		return fmt.Sprintf("after IncrementProposerPriority(%d) on %s the set is %s (GetProposer=a%d), the specification gives %s", times, st, got, gp, refString(exp))
	}
	switch {
	case info.leftInt64:
		fs = append(fs, finding{"C12|oracle=int64-range|op=increment", "a priority computed by the specification leaves the int64 range; ", what})
	case info.rescaled && matchesNoWindowIncrement(st, times, got, gp):
		fs = append(fs, finding{"C12|oracle=priority-window|op=increment",
			"priorities spread over more than twice the total power are not rescaled into the window: ", what})
	default:
		fs = append(fs, finding{"C12|oracle=increment-result|diff=" + diff + "|times=" + tm, "", what})
	}
	return res, fs
}

// matchesNoWindow*: classification only — does the implementation behave exactly like the
// specification with the window rule removed?
func matchesNoWindowIncrement(st state, times int, got state, gp int) bool {
	alt, _ := refIncrement(st.toRef(), times, false)
	ok, _ := sameAsRef(got, alt)
	return ok && got.Prop == alt.proposer && gp == alt.proposer
}

func matchesNoWindowUpdate(st state, cs []entry, got state) bool {
	alt, rej, _ := refUpdate(st.toRef(), toChanges(cs), capBig, false)
	if rej != rejNone {
		return false
	}
	ok, _ := sameAsRef(got, alt)
	return ok
}

// checkUpdate: every ordering of the change set is executed on its own copy of the real set.
func checkUpdate(vs *types.ValidatorSet, st state, cs []entry, allPerms bool) (stepResult, []finding) {
	var extra [][]entry
	if allPerms {
		extra = permutations(cs)
	}
	return checkUpdateOrders(vs, st, cs, extra)
}

// checkUpdateOrders executes cs and each of the given re-orderings of cs, each on its own copy.
func checkUpdateOrders(vs *types.ValidatorSet, st state, cs []entry, extra [][]entry) (stepResult, []finding) {
	var fs []finding
	res := stepResult{}
	exp, rej, info := refUpdate(st.toRef(), toChanges(cs), capBig, true)
	res.rej, res.grey, res.rescaled = rej, info.grey, info.rescaled
	if !wellFormed(st) {
		return res, []finding{{"C12|oracle=member-well-formed", "operation offered on a malformed set: " + st.String(), nil}}
	}
	orders := append([][]entry{cs}, extra...)
	shape := func() string { return shapeOf(cs) }
	var firstErr bool
	var firstKey string
	for i, ord := range orders {
		c := vs.Copy()
		var err error
		res.execs++
		panicked, pv := safely(func() { err = c.UpdateWithChangeSet(toValidators(ord)) })
		desc := func() string {
			return fmt.Sprintf("UpdateWithChangeSet(%s) on %s", opRec{Kind: "upd", Changes: ord}, st)
		}
		if panicked {
			cls := rej
			if cls == rejNone {
				cls = "valid"
			}
			fs = append(fs, finding{"C12|oracle=panic|op=update|class=" + cls, desc() + " panics: " + pv, nil})
			continue
		}
		got := extract(c)
		if i == 0 {
			firstErr, firstKey = err != nil, got.key()
			if err == nil {
				res.accepted, res.child, res.st = true, c, got
			}
		} else if (err != nil) != firstErr || got.key() != firstKey {
			fs = append(fs, finding{"C12|oracle=permutation-dependence|shape=" + shape(),
				fmt.Sprintf("%s gives err=%v set=%s, but the same entries in the order %s gave err=%v and a different result",
					desc(), err, got, opRec{Kind: "upd", Changes: cs}, firstErr), nil})
		}
		switch {
		case rej != rejNone && err == nil:
			fs = append(fs, finding{"C12|oracle=invalid-accepted|class=" + rej, desc() + " is accepted (result " + got.String() + ") although the change set is invalid: " + rej, nil})
		case err != nil && rej == rejNone && info.grey:
			// the resulting total is within the cap; only the total before the removals is above it
			fs = append(fs, finding{"C12|oracle=valid-rejected|class=cap-checked-before-removals", desc() + " is rejected (" + err.Error() +
				") although the total of the resulting set does not exceed the cap (removals are applied before the cap check)", nil})
		case err != nil && rej == rejNone:
			fs = append(fs, finding{"C12|oracle=valid-rejected|shape=" + shape(), desc() + " is rejected (" + err.Error() + ") although the change set is valid", nil})
		case err != nil:
			// correctly rejected: the set must be deep-equal to what it was
			if !reflect.DeepEqual(c, vs) {
				cls := rej
				fs = append(fs, finding{"C12|oracle=all-or-nothing|class=" + cls, desc() + " returns an error (" + err.Error() + ") but leaves the set changed: " + got.String(), nil})
			}
		default:
			// accepted and valid: must equal the specification
			ok, diff := sameAsRef(got, exp)
			if ok {
				break
			}
			what := func() string {
				return fmt.Sprintf("%s gives %s, the specification gives %s", desc(), got, refString(exp))
			}
			switch {
			case info.leftInt64:
				fs = append(fs, finding{"C12|oracle=int64-range|op=update", "a value computed by the specification leaves the int64 range; ", what})
			case info.rescaled && matchesNoWindowUpdate(st, cs, got):
				fs = append(fs, finding{"C12|oracle=priority-window|op=update",
					"priorities spread over more than twice the new total power are not rescaled into the window: ", what})
			default:
				fs = append(fs, finding{"C12|oracle=update-result|diff=" + diff + "|shape=" + shape(), "", what})
			}
		}
	}
	return res, fs
}

// checkProbes: cached total and the exported RescalePriorities on a reached state.
func checkProbes(vs *types.ValidatorSet, st state) (fs []finding, outsideWindow bool) {
	T := st.total()
	var tot int64
	c := vs.Copy()
	if panicked, pv := safely(func() { tot = c.TotalVotingPower() }); panicked {
		return []finding{{"C12|oracle=panic|op=total-power", "TotalVotingPower panics on " + st.String() + ": " + pv, nil}}, false
	}
	if bi(tot).Cmp(T) != 0 || bi(cachedTotal(vs)).Cmp(T) != 0 || T.Cmp(capBig) > 0 {
		fs = append(fs, finding{"C12|oracle=total-power", fmt.Sprintf("total voting power of %s: TotalVotingPower()=%d cached=%d, sum of powers=%v, cap=%v", st, tot, cachedTotal(vs), T, capBig), nil})
		return fs, false
	}
	for _, v := range st.Vals {
		if v.P <= 0 || v.A < 0 {
			fs = append(fs, finding{"C12|oracle=member-well-formed", "reached set has a member with non-positive power or an address that was never offered: " + st.String(), nil})
			return fs, false
		}
	}
	win := new(big.Int).Mul(bigTwo, T)
	if !win.IsInt64() {
		return fs, false
	}
	panicked, pv := safely(func() { c.RescalePriorities(win.Int64()) })
	if panicked {
		return append(fs, finding{"C12|oracle=panic|op=rescale", "RescalePriorities panics on " + st.String() + ": " + pv, nil}), false
	}
	got := extract(c)
	exp := st.toRef()
	var info stepInfo
	refRescale(&exp, T, &info)
	if ok, _ := sameAsRef(got, exp); !ok {
		what := func() string {
			return fmt.Sprintf("RescalePriorities(2*total=%v) on %s gives %s, the specification gives %s", win, st, got, refString(exp))
		}
		if info.rescaled && got.equalVals(st) {
			fs = append(fs, finding{"C12|oracle=priority-window|op=rescale", "the window of twice the total power is not enforced: ", what})
		} else {
			fs = append(fs, finding{"C12|oracle=rescale-result", "", what})
		}
	}
	return fs, info.rescaled
}

const seqMaxTotal = 2000

type seqStats struct {
	rounds                int64
	refMaxDev             int64 // reference self-test: max |turns in the last T rounds - power|
	refFirstTurnExceeded  int64
	implStreak, refStreak int64 // longest run of one proposer, measured on equal-power sets with n >= 2
	refRescaledDuringRun  bool
}

// checkSequence: from a reached state, the proposers of the next `rounds` rounds
// (IncrementProposerPriority(1) each) equal the specification's.
func checkSequence(vs *types.ValidatorSet, st state, rounds int) ([]finding, seqStats) {
	var stats seqStats
	if !wellFormed(st) || rounds <= 0 {
		return nil, stats
	}
	c := vs.Copy()
	impl := make([]int, 0, rounds)
	panicked, pv := safely(func() {
		for i := 0; i < rounds; i++ {
			c.IncrementProposerPriority(1)
			impl = append(impl, proposerOf(c))
		}
	})
	stats.rounds = int64(len(impl))
	if panicked {
		return []finding{{"C12|oracle=panic|op=increment", fmt.Sprintf("IncrementProposerPriority(1) panics in round %d after %s: %s", len(impl)+1, st, pv), nil}}, stats
	}
	run := func(withWindow bool) (seq []int, firstRescale int, left bool, end refState) {
		s := st.toRef()
		firstRescale = -1
		for i := 0; i < rounds; i++ {
			var info stepInfo
			T := s.total()
			if withWindow {
				refRescale(&s, T, &info)
			}
			refCentre(&s, &info)
			refRound(&s, T, &info)
			if info.rescaled && firstRescale < 0 {
				firstRescale = i
			}
			left = left || info.leftInt64
			seq = append(seq, s.proposer)
		}
		return seq, firstRescale, left, s
	}
	ref, firstRescale, left, end := run(true)
	stats.refRescaledDuringRun = firstRescale >= 0
	mismatch := -1
	for i := range ref {
		if impl[i] != ref[i] {
			mismatch = i
			break
		}
	}
	endOK, _ := sameAsRef(extract(c), end)
	var fs []finding
	if mismatch >= 0 || !endOK {
		at := mismatch
		what := ""
		if mismatch >= 0 {
			what = fmt.Sprintf("from %s the proposer of round +%d is a%d, the specification gives a%d", st, mismatch+1, impl[mismatch], ref[mismatch])
		} else {
			at = rounds
			what = fmt.Sprintf("from %s the proposers of %d rounds agree but the priorities afterwards are %s, the specification gives %s", st, rounds, extract(c), refString(end))
		}
		cause := "other"
		if left {
			cause = "int64-range"
		} else if firstRescale >= 0 && firstRescale <= at {
			alt, _, _, altEnd := run(false)
			same := true
			for i := range alt {
				if alt[i] != impl[i] {
					same = false
					break
				}
			}
			if ok, _ := sameAsRef(extract(c), altEnd); same && ok {
				cause = "priority-window"
			}
		}
		kind := "proposer"
		if mismatch < 0 {
			kind = "priorities"
		}
		fs = append(fs, finding{"C12|oracle=proposer-sequence|diff=" + kind + "|cause=" + cause, what, nil})
	}
	// reference self-test and descriptive measurements (never a violation)
	n := len(st.Vals)
	T := st.total().Int64()
	if int64(rounds) >= 2*T {
		turns := map[int]int64{}
		for _, a := range ref[int64(rounds)-T:] {
			turns[a]++
		}
		first := map[int]int{}
		for i, a := range ref {
			if _, ok := first[a]; !ok {
				first[a] = i + 1
			}
		}
		for _, v := range st.Vals {
			d := turns[v.A] - v.P
			if d < 0 {
				d = -d
			}
			if d > stats.refMaxDev {
				stats.refMaxDev = d
			}
			bound := (2125*T)/(1000*v.P) + int64(n) + 1
			if f, ok := first[v.A]; !ok || int64(f) > bound {
				stats.refFirstTurnExceeded++
			}
		}
	}
	equal := n >= 2
	for _, v := range st.Vals {
		if v.P != st.Vals[0].P {
			equal = false
		}
	}
	if equal {
		streak := func(seq []int) int64 {
			best, cur := int64(0), int64(0)
			for i, a := range seq {
				if i > 0 && a == seq[i-1] {
					cur++
				} else {
					cur = 1
				}
				if cur > best {
					best = cur
				}
			}
			return best
		}
		stats.implStreak, stats.refStreak = streak(impl), streak(ref)
	}
	return fs, stats
}
