// Phase "wide change sets": change sets of 1..17 entries whose partial and total sums cross the cap
// (2^60-1), 2^62, 2^63 and 2^64, so that a 64-bit running sum wraps where the unbounded reference
// does not. Judged by the same oracles as every other step (checkUpdateOrders / checkProbes /
// checkIncrement): reject iff the resulting total exceeds the cap, deep-equal after rejection, no
// panic, independence of the order of the entries (rotations and reversal, not all n! orders).
package main

import (
	"bytes"
	"fmt"
	"math/big"

	"github.com/kardiachain/go-kardia/lib/common"
)

const wideMaxEntries = 17

var mainPool, widePool []common.Address

// initWidePool: 24 addresses, strictly ascending in byte order (first byte 10*i+5), the remaining
// bytes descending / scrambled so that no other byte position gives the same order.
func initWidePool() bool {
	widePool = nil
	for i := 0; i < 24; i++ {
		var a common.Address
		for j := range a {
			a[j] = byte(0xff - 9*i - j)
		}
		a[0] = byte(10*i + 5)
		a[len(a)-1] = byte(i) ^ 0x55
		widePool = append(widePool, a)
	}
	// three addresses whose byte order and Hex() order disagree pairwise, inserted in byte order
	// (first bytes 0xc5, 0xca, 0xcb lie between entries 19 (0xc3) and 20 (0xcd)): indices 20, 21, 22
	t, ok := findCaseTriple(2)
	if !ok {
		return false
	}
	widePool = append(append(append([]common.Address{}, widePool[:20]...), t[0], t[1], t[2]), widePool[20:]...)
	if !hexDisagree(widePool[20], widePool[21]) || !hexDisagree(widePool[21], widePool[22]) {
		return false
	}
	for i := 1; i < len(widePool); i++ {
		if bytes.Compare(widePool[i-1][:], widePool[i][:]) >= 0 {
			return false
		}
	}
	return true
}

func usePool(p []common.Address) {
	pool = p
	poolIndex = map[common.Address]int{}
	for i, a := range p {
		poolIndex[a] = i
	}
}

// wideNewAddrs: new addresses are taken in this order: below the existing validators (which sit at
// pool indices initOrder[0..1] = 2,3), above them, then upwards.
func wideNewAddrs() []int {
	out := []int{21, 20, 22, 1, 4, 0} // the case-adversarial triple first: equal-power newcomers tie
	for i := 5; i < len(widePool); i++ {
		if i < 20 || i > 22 {
			out = append(out, i)
		}
	}
	return out
}

func wideRoots() [][]int64 {
	return [][]int64{{1}, {1, 2}, {capv / 2}, {capv/4 + 1, 1}}
}

func widePowers() []int64 {
	return []int64{capv, capv - 1, capv/2 + 1, capv/4 + 1, capv/8 + 1, capv/16 + 1, 1}
}

type wideSet struct {
	variant string
	cs      []entry
}

// wideChangeSets: every variant of exactly n entries for power P in state st.
func wideChangeSets(st state, P int64, n int) []wideSet {
	fresh := wideNewAddrs()
	adds := func(k int, power func(i int) int64) []entry {
		var es []entry
		for i := 0; i < k; i++ {
			es = append(es, entry{fresh[i], power(i), "add:wide"})
		}
		return es
	}
	constP := func(int) int64 { return P }
	var out []wideSet
	out = append(out, wideSet{"adds", adds(n, constP)})
	e := len(st.Vals)
	if n >= e {
		var raise []entry
		for _, v := range st.Vals {
			raise = append(raise, entry{v.A, P, "set:wide"})
		}
		out = append(out, wideSet{"raise+adds", append(raise, adds(n-e, constP)...)})
		rm := []entry{{st.Vals[0].A, 0, "remove"}}
		for _, v := range st.Vals[1:] {
			rm = append(rm, entry{v.A, P, "set:wide"})
		}
		out = append(out, wideSet{"remove+raise+adds", append(rm, adds(n-e, constP)...)})
	}
	cyc := []int64{P, 1, capv/4 + 1}
	out = append(out, wideSet{"mixed-powers", adds(n, func(i int) int64 { return cyc[i%3] })})
	// exact-cap / cap+1: n-1 adds of P and a last add that makes the resulting total exactly the cap,
	// resp. one more than the cap (when such a last power is a legal power)
	rest := new(big.Int).Sub(capBig, st.total())
	rest.Sub(rest, new(big.Int).Mul(bi(int64(n-1)), bi(P)))
	for d, name := range []string{"exact-cap", "cap-plus-one"} {
		last := new(big.Int).Add(rest, bi(int64(d)))
		if last.Sign() > 0 && last.Cmp(capBig) <= 0 {
			l := last.Int64()
			out = append(out, wideSet{name, adds(n, func(i int) int64 {
				if i == n-1 {
					return l
				}
				return P
			})})
		}
	}
	return out
}

// wideOrders: a sample of re-orderings: rotation by 1, rotation by n/2, reversal.
func wideOrders(cs []entry) [][]entry {
	n := len(cs)
	if n < 2 {
		return nil
	}
	rot := func(k int) []entry { return append(append([]entry{}, cs[k:]...), cs[:k]...) }
	rev := make([]entry, n)
	for i, e := range cs {
		rev[n-1-i] = e
	}
	cands := [][]entry{rot(1), rot(n / 2), rev}
	same := func(a, b []entry) bool {
		for i := range a {
			if a[i].Addr != b[i].Addr || a[i].Power != b[i].Power {
				return false
			}
		}
		return true
	}
	var out [][]entry
	for _, c := range cands {
		dup := same(c, cs)
		for _, o := range out {
			dup = dup || same(c, o)
		}
		if !dup {
			out = append(out, c)
		}
	}
	return out
}

// wideBucket classifies the unbounded total of the set that the change set asks for.
func wideBucket(st state, cs []entry) string {
	t := st.total()
	for _, e := range cs {
		if e.Power < 0 {
			continue
		}
		old, _ := st.has(e.Addr)
		t.Add(t, bi(e.Power))
		t.Sub(t, bi(old))
	}
	pow := func(k uint) *big.Int { return new(big.Int).Lsh(bigOne, k) }
	switch {
	case t.Cmp(capBig) <= 0:
		return "<=cap"
	case t.Cmp(pow(62)) < 0:
		return "(cap,2^62)"
	case t.Cmp(pow(63)) < 0:
		return "[2^62,2^63)"
	case t.Cmp(pow(64)) < 0:
		return "[2^63,2^64)"
	}
	return ">=2^64"
}

// checkWide judges one wide change set on a root: the update in several orders and, when it is
// accepted, the per-state oracles and one round on the result.
func checkWide(root *node, cs []entry) (res stepResult, bucket string, fs []finding) {
	bucket = wideBucket(root.st, cs)
	res, ufs := checkUpdateOrders(root.vs, root.st, cs, wideOrders(cs))
	for _, f := range ufs {
		f.Sig += "|wide-total=" + bucket
		fs = append(fs, f)
	}
	if res.accepted && res.child != nil && wellFormed(res.st) {
		pfs, _ := checkProbes(res.child, res.st)
		_, ifs := checkIncrement(res.child, res.st, 1)
		for _, f := range append(pfs, ifs...) {
			f.Sig += "|after=wide-update"
			fs = append(fs, f)
		}
	}
	return res, bucket, fs
}

func runWide() {
	okPool := initWidePool()
	r.Require(okPool, "wide address pool is not strictly ascending")
	mainPool = pool
	usePool(widePool)
	defer usePool(mainPool)
	seen := map[string]struct{}{}
	for _, vec := range wideRoots() {
		vs, st, cfs := checkConstruct(vec)
		r.Add("transitions", 1)
		recordFindings(cfs, vcase{Check: "construct", Vector: vec, Wide: true})
		if vs == nil || len(cfs) > 0 {
			continue
		}
		root := &node{vs: vs, st: st}
		for _, P := range widePowers() {
			for n := 1; n <= wideMaxEntries; n++ {
				for _, w := range wideChangeSets(st, P, n) {
					res, bucket, fs := checkWide(root, w.cs)
					r.Add("wide_change_sets", 1)
					r.Add("wide_executions", int64(res.execs))
					r.Add("transitions", int64(res.execs))
					r.Max("wide_max_entries", int64(len(w.cs)))
					r.Distinct("wide_total_buckets", bucket)
					r.Distinct("wide_variants", w.variant)
					switch {
					case res.rej != rejNone:
						r.Add("wide_rejected_by_reference_"+res.rej, 1)
					case res.accepted:
						r.Add("wide_accepted", 1)
						r.Add("transitions", 2) // RescalePriorities probe and one round on the result
						r.Max("wide_max_set_size", int64(len(res.st.Vals)))
						seen[res.st.key()] = struct{}{}
					}
					if res.grey {
						r.Add("wide_within_cap_only_after_removals", 1)
					}
					op := opRec{Kind: "upd", Changes: w.cs}
					recordFindings(fs, vcase{Check: "wide", Vector: vec, Op: &op, Wide: true, State: st.String()})
				}
			}
		}
	}
	runNearCap(seen)
	r.Add("wide_distinct_states", int64(len(seen)))
	r.Add("states", int64(len(seen)))
	r.Require(r.DistinctCount("wide_total_buckets") == 5, "wide phase: not every total class (<=cap, <2^62, <2^63, <2^64, >=2^64) was offered")
	r.Require(r.Get("wide_accepted") > 0 && r.Get("wide_rejected_by_reference_"+rejCap) > 0, "wide phase: no accepted or no above-cap change set")
	r.Require(r.Get("wide_max_entries") == wideMaxEntries && r.Get("wide_max_set_size") >= 16, "wide phase: no 17-entry change set or no wide set was accepted")
}

func replayWide(c vcase) []finding {
	vs, err := build(c.Vector, nil)
	if err != nil || c.Op == nil {
		return []finding{{"C12|oracle=harness-replay", fmt.Sprint(err), nil}}
	}
	_, _, fs := checkWide(&node{vs: vs, st: extract(vs)}, c.Op.Changes)
	return fs
}

// ---------------------------------------------------------------------------------------------
// near-cap replacement sets: ONE change set that removes a validator and adds / raises another, on
// sets whose total is at or just below the cap, so that "current total + update deltas" exceeds the
// cap while the total of the resulting set does not (and the neighbouring cases where it does).

func nearCapRoots() [][]int64 {
	h := capv / 2 // 2^59-1; two of them total cap-1
	q := capv / 4
	return [][]int64{{h, h}, {h + 1, h}, {h + 1, h - 1}, {capv - 10, 10}, {capv - 1, 1}, {capv - 11, 10}, {h, q, q}, {h, q + 1, q + 1}}
}

// nearCapChangeSets: every removal (one member, or two members of a three-member set) combined with
// every gain entry: a newcomer, or a raise of a remaining member, with powers that take the
// resulting total to cap-5, cap-1, cap, cap+1 and with the fixed near-cap powers; plus the
// three-entry form remove + add + raise.
func nearCapChangeSets(st state) [][]entry {
	T := st.total()
	var fresh []int
	for _, a := range wideNewAddrs() {
		if _, in := st.has(a); !in {
			fresh = append(fresh, a)
		}
	}
	var out [][]entry
	legal := func(p *big.Int) (int64, bool) {
		if p.Sign() <= 0 || p.Cmp(capBig) > 0 {
			return 0, false
		}
		return p.Int64(), true
	}
	targets := []*big.Int{new(big.Int).Sub(capBig, bi(5)), new(big.Int).Sub(capBig, bigOne), capBig, new(big.Int).Add(capBig, bigOne)}
	fixed := []int64{1, 10, capv / 2, capv/2 + 1, capv - 10, capv - 5, capv - 1, capv}
	var removalSets [][]sval
	for _, m := range st.Vals {
		removalSets = append(removalSets, []sval{m})
	}
	if len(st.Vals) == 3 {
		removalSets = append(removalSets, []sval{st.Vals[1], st.Vals[2]}, []sval{st.Vals[0], st.Vals[2]})
	}
	for _, rm := range removalSets {
		var rmEntries []entry
		rest := new(big.Int).Set(T)
		gone := map[int]bool{}
		var goneSum int64
		for _, m := range rm {
			rmEntries = append(rmEntries, entry{m.A, 0, "remove"})
			rest.Sub(rest, bi(m.P))
			gone[m.A] = true
			goneSum += m.P
		}
		with := func(gain ...entry) { out = append(out, append(append([]entry{}, rmEntries...), gain...)) }
		// newcomer
		powers := map[int64]bool{goneSum: true}
		for _, f := range fixed {
			powers[f] = true
		}
		for _, t := range targets {
			if p, ok := legal(new(big.Int).Sub(t, rest)); ok {
				powers[p] = true
			}
		}
		var ps []int64
		for p := range powers {
			if p >= 1 && p <= capv {
				ps = append(ps, p)
			}
		}
		sortInt64(ps)
		for _, p := range ps {
			with(entry{fresh[0], p, "add:nearcap"})
		}
		// raise of a remaining member
		for _, o := range st.Vals {
			if gone[o.A] {
				continue
			}
			others := new(big.Int).Sub(rest, bi(o.P))
			raise := map[int64]bool{}
			if p, ok := legal(new(big.Int).Add(bi(o.P), bi(goneSum))); ok {
				raise[p] = true
			}
			for _, t := range targets {
				if p, ok := legal(new(big.Int).Sub(t, others)); ok {
					raise[p] = true
				}
			}
			var rs []int64
			for p := range raise {
				rs = append(rs, p)
			}
			sortInt64(rs)
			for _, p := range rs {
				with(entry{o.A, p, "set:nearcap"})
			}
			// remove + add half + raise by the other half (resulting total = current total), and one more
			if half := goneSum / 2; half >= 1 {
				for _, extra := range []int64{0, 1} {
					if p, ok := legal(new(big.Int).Add(bi(o.P), bi(goneSum-half+extra))); ok {
						with(entry{fresh[0], half, "add:nearcap"}, entry{o.A, p, "set:nearcap"})
					}
				}
			}
		}
	}
	return out
}

func sortInt64(a []int64) {
	for i := 1; i < len(a); i++ {
		for j := i; j > 0 && a[j-1] > a[j]; j-- {
			a[j-1], a[j] = a[j], a[j-1]
		}
	}
}

func runNearCap(seen map[string]struct{}) {
	for _, vec := range nearCapRoots() {
		vs, st, cfs := checkConstruct(vec)
		r.Add("transitions", 1)
		recordFindings(cfs, vcase{Check: "construct", Vector: vec, Wide: true})
		if vs == nil || len(cfs) > 0 {
			continue
		}
		root := &node{vs: vs, st: st}
		for _, cs := range nearCapChangeSets(st) {
			res, _, fs := checkWide(root, cs)
			r.Add("nearcap_change_sets", 1)
			r.Add("nearcap_executions", int64(res.execs))
			r.Add("transitions", int64(res.execs))
			switch {
			case res.rej != rejNone:
				r.Add("nearcap_rejected_by_reference_"+res.rej, 1)
			case res.grey:
				r.Add("nearcap_valid_within_cap_only_after_removals", 1)
			default:
				r.Add("nearcap_valid_other", 1)
			}
			if res.accepted {
				r.Add("nearcap_accepted", 1)
				r.Add("transitions", 2)
				seen[res.st.key()] = struct{}{}
			}
			op := opRec{Kind: "upd", Changes: cs}
			recordFindings(fs, vcase{Check: "wide", Vector: vec, Op: &op, Wide: true, State: st.String()})
		}
	}
	r.Require(r.Get("nearcap_valid_within_cap_only_after_removals") >= 50 && r.Get("nearcap_rejected_by_reference_"+rejCap) > 0 && r.Get("nearcap_accepted") > 0,
		"near-cap phase: too few replacement sets that are within the cap only after the removals, or none above the cap, or none accepted")
}
