// Stage "history through the executor": the REAL cstate.BlockExecutor.ApplyBlock (real store on
// memorydb, valid blocks with signed commits, genesis state from the real MakeGenesisState) is driven
// over every history of L consecutive blocks in which the application answers each block with a FULL
// validator list drawn from a small alphabet relative to its current list. After every block
// Validators / NextValidators / LastValidators (members, powers, priorities, order, proposer) and
// LastHeightValidatorsChanged are compared with the reference (ref.go) applied to the same history:
// the change set of a block is the difference between the reported list and the set it is applied to
// (NextValidators), it is in force two heights later, and every height advances the rotation by one
// round. A history the reference accepts must be accepted, one it rejects must be rejected with the
// state unchanged. From the final state the proposer sequence is compared with the reference.
package main

import (
	"bytes"
	"crypto/ecdsa"
	"fmt"
	"math/big"
	"sort"
	"time"

	"github.com/kardiachain/go-kardia/configs"
	"github.com/kardiachain/go-kardia/kai/kaidb/memorydb"
	"github.com/kardiachain/go-kardia/kai/state/cstate"
	"github.com/kardiachain/go-kardia/lib/common"
	"github.com/kardiachain/go-kardia/lib/crypto"
	"github.com/kardiachain/go-kardia/lib/log"
	"github.com/kardiachain/go-kardia/mainchain/genesis"
	stypes "github.com/kardiachain/go-kardia/mainchain/staking/types"
	kproto "github.com/kardiachain/go-kardia/proto/kardiachain/types"
	"github.com/kardiachain/go-kardia/trie"
	"github.com/kardiachain/go-kardia/types"

	"verif/mc/par"
)

const execChainID = "verif-c12"

var (
	execPool        []common.Address      // ascending; index = address index of the reference
	execPrivs       []types.PrivValidator // aligned with execPool
	execBus         *types.EventBus
	execGenesisTime = time.Unix(1600000000, 0).UTC()
)

// initExecPool derives the validator keys deterministically (keccak of a counter) and picks five of
// them such that the two lowest addresses x < y (byte order) sort the other way round in the real
// Address.Hex() spelling - they are members 0 and 1 of the equal-power base set, which tie every time.
func initExecPool() error {
	type kp struct {
		k *ecdsa.PrivateKey
		a common.Address
	}
	var ks []kp
	for i := 0; len(ks) < 96 && i < 200; i++ {
		k, err := crypto.ToECDSA(crypto.Keccak256([]byte(fmt.Sprintf("verif-c12-validator-key-%d", i))))
		if err != nil {
			continue
		}
		ks = append(ks, kp{k, crypto.PubkeyToAddress(k.PublicKey)})
	}
	sort.Slice(ks, func(i, j int) bool { return bytes.Compare(ks[i].a[:], ks[j].a[:]) < 0 })
	var pick []kp
	for i := 0; i < len(ks) && pick == nil; i++ {
		for j := i + 1; j+3 < len(ks); j++ {
			if hexDisagree(ks[i].a, ks[j].a) {
				pick = []kp{ks[i], ks[j], ks[j+1], ks[j+2], ks[j+3]}
				break
			}
		}
	}
	if pick == nil {
		return fmt.Errorf("no key pair whose addresses order differently as bytes and as Hex() strings")
	}
	execPool, execPrivs = nil, nil
	for i, k := range pick {
		if i > 0 && bytes.Compare(pick[i-1].a[:], k.a[:]) >= 0 {
			return fmt.Errorf("executor pool not strictly ascending")
		}
		execPool = append(execPool, k.a)
		execPrivs = append(execPrivs, types.NewDefaultPrivValidator(k.k))
	}
	if !hexDisagree(execPool[0], execPool[1]) {
		return fmt.Errorf("executor pool: members 0 and 1 do not disagree")
	}
	return nil
}

// ---------------------------------------------------------------------------------------------
// the application's view: an ordered full validator list

type lv struct {
	A int   // address index
	P int64 // power
}

type appList struct {
	vals     []lv
	reversed bool // the list is reported in reverse order
}

func (l appList) clone() appList {
	return appList{append([]lv{}, l.vals...), l.reversed}
}

func (l *appList) ensure(a int, p int64) {
	for i := range l.vals {
		if l.vals[i].A == a {
			l.vals[i].P = p
			return
		}
	}
	l.vals = append(l.vals, lv{a, p})
}

func (l *appList) drop(a int) {
	if len(l.vals) <= 1 {
		return // the application never empties its list
	}
	for i := range l.vals {
		if l.vals[i].A == a {
			l.vals = append(l.vals[:i:i], l.vals[i+1:]...)
			return
		}
	}
}

func (l appList) report() []lv {
	out := append([]lv{}, l.vals...)
	if l.reversed {
		for i, j := 0, len(out)-1; i < j; i, j = i+1, j-1 {
			out[i], out[j] = out[j], out[i]
		}
	}
	return out
}

func (l appList) equal(o appList) bool {
	if len(l.vals) != len(o.vals) || l.reversed != o.reversed {
		return false
	}
	for i := range l.vals {
		if l.vals[i] != o.vals[i] {
			return false
		}
	}
	return true
}

type execBase struct {
	name    string
	members []lv
	X, H, Y int   // a light member that is re-powered, a second (heavy) member, the member that leaves
	N       int   // the newcomer
	pX, pH  int64 // the other powers of X and H
	pY2, pN int64 // the other power of Y when it re-joins, the newcomer's power
}

func execBases() []execBase {
	return []execBase{
		{name: "3-equal", members: []lv{{0, 10}, {1, 10}, {2, 10}}, X: 0, H: 1, Y: 2, N: 4, pX: 25, pH: 3, pY2: 7, pN: 10},
		{name: "4-unequal-heavy", members: []lv{{1, 10}, {2, 20}, {3, 30}, {4, 1000}}, X: 1, H: 4, Y: 3, N: 0, pX: 25, pH: 35, pY2: 31, pN: 15},
	}
}

func (b execBase) basePower(a int) int64 {
	for _, m := range b.members {
		if m.A == a {
			return m.P
		}
	}
	return 0
}

const (
	tokSame = iota
	tokRepowerX
	tokRevertX
	tokRepowerH
	tokRevertH
	tokRemoveY
	tokReaddYSame
	tokReaddYOther
	tokAddN
	tokRemoveN
	tokPermute
	tokEmpty
	tokRemoveH
	tokNegativeX
	numExecTokens
)

var execTokenNames = []string{"same", "repower-X", "revert-X", "repower-H", "revert-H", "remove-Y", "readd-Y-same", "readd-Y-other",
	"add-N", "remove-N", "permute", "empty-report", "remove-H", "negative-X"}

// applyToken returns the application's list after the block, the list it reports for the block and
// the effective kind of the token in this situation.
func applyToken(b execBase, l appList, tok int) (next appList, report []lv, kind string) {
	next = l.clone()
	kind = "same"
	set := func(k string) {
		if !next.equal(l) {
			kind = k
		}
	}
	present := func(a int) bool {
		for _, v := range l.vals {
			if v.A == a {
				return true
			}
		}
		return false
	}
	switch tok {
	case tokRepowerX:
		next.ensure(b.X, b.pX)
		set("repower")
	case tokRevertX:
		next.ensure(b.X, b.basePower(b.X))
		set("revert")
	case tokRepowerH:
		next.ensure(b.H, b.pH)
		set("repower")
	case tokRevertH:
		next.ensure(b.H, b.basePower(b.H))
		set("revert")
	case tokRemoveY:
		next.drop(b.Y)
		set("remove")
	case tokRemoveH:
		next.drop(b.H)
		set("remove")
	case tokReaddYSame:
		next.ensure(b.Y, b.basePower(b.Y))
		set("readd")
	case tokReaddYOther:
		next.ensure(b.Y, b.pY2)
		set("readd")
	case tokAddN:
		next.ensure(b.N, b.pN)
		set("add")
	case tokRemoveN:
		next.drop(b.N)
		set("remove")
	case tokPermute:
		next.reversed = !next.reversed
		kind = "permute"
	case tokEmpty:
		return next, nil, "empty-report"
	case tokNegativeX:
		r := l.clone()
		r.ensure(b.X, -5)
		return next, r.report(), "negative"
	}
	if (tok == tokRevertX || tok == tokRepowerX) && !present(b.X) || (tok == tokRevertH || tok == tokRepowerH) && !present(b.H) {
		if !next.equal(l) {
			kind = "readd"
		}
	}
	return next, next.report(), kind
}

// ---------------------------------------------------------------------------------------------
// reference for the executor history

type refChain struct {
	vals, next refState
	last       *refState
	lastChange uint64
}

// refReportDiff: the change set a full list asks for, relative to the set it is applied to.
// An empty report carries no information and asks for nothing.
func refReportDiff(next refState, report []lv) []change {
	if len(report) == 0 {
		return nil
	}
	var cs []change
	listed := map[int]bool{}
	for _, v := range report {
		listed[v.A] = true
		found := false
		for _, m := range next.vals {
			if m.addr == v.A {
				found = true
				if m.power.Cmp(bi(v.P)) != 0 {
					cs = append(cs, change{v.A, v.P})
				}
			}
		}
		if !found {
			cs = append(cs, change{v.A, v.P})
		}
	}
	for _, m := range next.vals {
		if !listed[m.addr] {
			cs = append(cs, change{m.addr, 0})
		}
	}
	return cs
}

func refGenesis(b execBase) (refChain, string) {
	var cs []change
	for _, m := range b.members {
		cs = append(cs, change{m.A, m.P})
	}
	v, rej, _ := refNew(cs, capBig)
	if rej != rejNone {
		return refChain{}, rej
	}
	n, _ := refIncrement(v, 1, true)
	return refChain{vals: v, next: n, lastChange: 1}, rejNone
}

// refBlock: block `height` whose application answer is `report`.
func refBlock(c refChain, height uint64, report []lv) (refChain, string) {
	out := refChain{lastChange: c.lastChange}
	next := c.next
	if cs := refReportDiff(c.next, report); len(cs) > 0 {
		n, rej, _ := refUpdate(c.next, cs, capBig, true)
		if rej != rejNone {
			return c, rej
		}
		next = n
		out.lastChange = height + 2
	}
	out.next, _ = refIncrement(next, 1, true)
	out.vals = c.next.clone()
	l := c.vals.clone()
	out.last = &l
	return out, rejNone
}

// ---------------------------------------------------------------------------------------------
// the real side

type execApp struct {
	report map[uint64][]lv
}

func (a *execApp) CommitAndValidateBlockTxs(b *types.Block, _ stypes.LastCommitInfo, _ []stypes.Evidence) ([]*types.Validator, common.Hash, error) {
	l := a.report[b.Height()]
	out := make([]*types.Validator, len(l))
	for i, v := range l {
		out[i] = types.NewValidator(execPool[v.A], v.P)
	}
	return out, common.Hash{}, nil
}

func (a *execApp) Config() *configs.ChainConfig { return configs.TestChainConfig }

type execEvPool struct{}

func (execEvPool) Update(cstate.LatestBlockState, types.EvidenceList) {}
func (execEvPool) CheckEvidence(types.EvidenceList) error             { return nil }

type execChain struct {
	db    *memorydb.Database
	store cstate.Store
	exec  *cstate.BlockExecutor
	app   *execApp
	state cstate.LatestBlockState
}

func copyDB(src *memorydb.Database) *memorydb.Database {
	dst := memorydb.New()
	it := src.NewIterator(nil, nil)
	for it.Next() {
		dst.Put(append([]byte{}, it.Key()...), append([]byte{}, it.Value()...))
	}
	it.Release()
	return dst
}

func (c *execChain) fork() *execChain {
	n := &execChain{db: copyDB(c.db), app: &execApp{report: map[uint64][]lv{}}, state: c.state.Copy()}
	for h, r := range c.app.report {
		n.app.report[h] = r
	}
	n.store = cstate.NewStore(n.db)
	n.exec = cstate.NewBlockExecutor(n.store, log.New(), execEvPool{}, n.app)
	n.exec.SetEventBus(execBus)
	return n
}

func newExecChain(b execBase) (*execChain, error) {
	gen := &genesis.Genesis{ChainID: execChainID, InitialHeight: 1, Timestamp: execGenesisTime, ConsensusParams: configs.DefaultConsensusParams()}
	for _, m := range b.members {
		stake := new(big.Int).Mul(big.NewInt(m.P), configs.PowerReduction)
		gen.Validators = append(gen.Validators, &genesis.GenesisValidator{Name: fmt.Sprintf("v%d", m.A), Address: execPool[m.A].Hex(),
			SelfDelegate: stake.String(), StartWithGenesis: true})
	}
	st, err := cstate.MakeGenesisState(gen)
	if err != nil {
		return nil, err
	}
	c := &execChain{db: memorydb.New(), app: &execApp{report: map[uint64][]lv{}}, state: st}
	c.store = cstate.NewStore(c.db)
	c.store.Save(st)
	c.exec = cstate.NewBlockExecutor(c.store, log.New(), execEvPool{}, c.app)
	c.exec.SetEventBus(execBus)
	return c, nil
}

// makeBlock builds the next valid block on top of state: a commit signed by every validator of the
// previous height, the median time, the header fields validateBlock checks.
func makeBlock(state cstate.LatestBlockState) (*types.Block, types.BlockID, error) {
	height := state.LastBlockHeight + 1
	var commit *types.Commit
	var blockTime time.Time
	if height == state.InitialHeight {
		commit = types.NewCommit(0, 0, types.BlockID{}, nil)
		blockTime = state.LastBlockTime
	} else {
		ts := state.LastBlockTime.Add(time.Second)
		ordered := make([]types.PrivValidator, len(state.LastValidators.Validators))
		for i, v := range state.LastValidators.Validators {
			idx, ok := poolIndex[v.Address]
			if !ok {
				return nil, types.BlockID{}, fmt.Errorf("validator %s has no key", v.Address.Hex())
			}
			ordered[i] = execPrivs[idx]
		}
		voteSet := types.NewVoteSet(state.ChainID, height-1, 0, kproto.PrecommitType, state.LastValidators)
		var err error
		commit, err = types.MakeCommit(state.LastBlockID, height-1, 0, voteSet, ordered, ts)
		if err != nil {
			return nil, types.BlockID{}, err
		}
		blockTime = cstate.MedianTime(commit, state.LastValidators)
	}
	header := &types.Header{
		Height:             height,
		Time:               blockTime,
		LastBlockID:        state.LastBlockID,
		ProposerAddress:    state.Validators.GetProposer().Address,
		ValidatorsHash:     state.Validators.Hash(),
		NextValidatorsHash: state.NextValidators.Hash(),
		AppHash:            state.AppHash,
	}
	block := types.NewBlock(header, nil, commit, nil, trie.NewStackTrie(nil))
	return block, types.BlockID{Hash: block.Hash(), PartsHeader: block.MakePartSet(types.BlockPartSizeBytes).Header()}, nil
}

// cmpSet compares one validator set of the real state with the reference.
func cmpSet(vs *types.ValidatorSet, exp *refState) (string, string) {
	if exp == nil || vs == nil {
		if (exp == nil) != (vs == nil || len(vs.Validators) == 0) {
			return "presence", fmt.Sprintf("set present=%v, reference present=%v", vs != nil, exp != nil)
		}
		return "", ""
	}
	got := extract(vs)
	ok, diff := sameAsRef(got, *exp)
	if ok && (got.Prop != exp.proposer || proposerOf(vs) != exp.proposer) {
		ok, diff = false, "proposer"
	}
	if ok {
		return "", ""
	}
	return diff, fmt.Sprintf("is %s, the reference gives %s", got, refString(*exp))
}

func chainKey(s cstate.LatestBlockState) string {
	k := fmt.Sprintf("%d|%d|", s.LastBlockHeight, s.LastHeightValidatorsChanged)
	for _, vs := range []*types.ValidatorSet{s.LastValidators, s.Validators, s.NextValidators} {
		if vs != nil {
			k += extract(vs).key()
		}
		k += "|"
	}
	return k
}

type execOutcome struct {
	fs      []finding
	ended   bool // the history cannot go on (rejected, or a violation made the states incomparable)
	applied bool
	kind    string
}

// stepBlock applies one block with the given token to both sides and compares.
func stepBlock(b execBase, c *execChain, rc *refChain, list *appList, tok int, prevKind string) (out execOutcome) {
	height := c.state.LastBlockHeight + 1
	nextList, report, kind := applyToken(b, *list, tok)
	out.kind = kind
	sig := func(d string) string {
		return "C12|oracle=executor-history|diff=" + d
	}
	where := fmt.Sprintf("base %s, block %d (%s, after %s), report %v", b.name, height, execTokenNames[tok], prevKind, report)
	c.app.report[height] = report
	block, blockID, err := makeBlock(c.state)
	if err != nil {
		out.fs = append(out.fs, finding{"C12|oracle=harness-executor", "cannot build a valid block: " + err.Error() + "; " + where, nil})
		out.ended = true
		return
	}
	before := c.state.Copy()
	beforeKey := chainKey(before)
	var newState cstate.LatestBlockState
	var aerr error
	panicked, pv := safely(func() { newState, _, aerr = c.exec.ApplyBlock(c.state, blockID, block) })
	out.applied = true
	if panicked {
		out.fs = append(out.fs, finding{sig("panic"), "ApplyBlock panics: " + pv + "; " + where, nil})
		out.ended = true
		return
	}
	nrc, rej := refBlock(*rc, height, report)
	switch {
	case rej == rejNone && aerr != nil:
		out.fs = append(out.fs, finding{sig("valid-history-rejected"), "ApplyBlock rejects a valid validator-set history: " + aerr.Error() + "; " + where, nil})
		out.ended = true
		return
	case rej != rejNone && aerr == nil:
		out.fs = append(out.fs, finding{sig("invalid-history-accepted|class=" + rej), "ApplyBlock accepts a report whose change set is invalid (" + rej + "); " + where, nil})
		out.ended = true
		return
	case rej != rejNone:
		// rejected on both sides: the returned state is the state before the block
		out.ended = true
		if chainKey(newState) != beforeKey || chainKey(c.state) != beforeKey {
			out.fs = append(out.fs, finding{sig("state-changed-by-rejected-block"), "a rejected block changed the consensus state; " + where, nil})
		}
		return
	}
	c.state = newState
	*rc = nrc
	*list = nextList
	for _, f := range []struct {
		name string
		vs   *types.ValidatorSet
		exp  *refState
	}{{"next-validators", newState.NextValidators, &nrc.next}, {"validators", newState.Validators, &nrc.vals}, {"last-validators", newState.LastValidators, nrc.last}} {
		if d, what := cmpSet(f.vs, f.exp); d != "" {
			out.fs = append(out.fs, finding{sig(f.name + ":" + d), f.name + " after the block " + what + "; " + where, nil})
			out.ended = true
		}
	}
	if newState.LastHeightValidatorsChanged != nrc.lastChange {
		out.fs = append(out.fs, finding{sig("last-height-validators-changed"), fmt.Sprintf("LastHeightValidatorsChanged is %d, the reference gives %d; %s",
			newState.LastHeightValidatorsChanged, nrc.lastChange, where), nil})
	}
	if newState.LastBlockHeight != height {
		out.fs = append(out.fs, finding{sig("height"), fmt.Sprintf("LastBlockHeight is %d after block %d; %s", newState.LastBlockHeight, height, where), nil})
		out.ended = true
	}
	return
}

type execCase struct {
	Base   int   `json:"base"`
	Tokens []int `json:"tokens"`
}

// runExecHistory runs one history from genesis (used by replay and, for prefixes, by the stage).
func runExecHistory(bi int, toks []int, seqRounds int, cn counts, tail func(c *execChain, rc refChain, list appList, prevKind string)) []finding {
	b := execBases()[bi]
	c, err := newExecChain(b)
	if err != nil {
		return []finding{{"C12|oracle=harness-executor", "genesis: " + err.Error(), nil}}
	}
	rc, rej := refGenesis(b)
	if rej != rejNone {
		return []finding{{"C12|oracle=harness-executor", "reference rejects the base set: " + rej, nil}}
	}
	var fs []finding
	for _, f := range []struct {
		name string
		vs   *types.ValidatorSet
		exp  *refState
	}{{"next-validators", c.state.NextValidators, &rc.next}, {"validators", c.state.Validators, &rc.vals}} {
		if d, what := cmpSet(f.vs, f.exp); d != "" {
			return []finding{{"C12|oracle=executor-history|diff=genesis-" + f.name + ":" + d, "genesis state of base " + b.name + ": " + f.name + " " + what, nil}}
		}
	}
	list := appList{vals: append([]lv{}, b.members...)}
	prev := "genesis"
	for _, t := range toks {
		o := stepBlock(b, c, &rc, &list, t, prev)
		if o.applied && cn != nil {
			cn["executor_blocks_applied"]++
		}
		fs = append(fs, o.fs...)
		if o.ended {
			return fs
		}
		prev = o.kind
	}
	if tail != nil {
		tail(c, rc, list, prev)
		return fs
	}
	return append(fs, execSequence(c, seqRounds, cn)...)
}

// execSequence: from the final state, the proposers of the next rounds against the reference.
func execSequence(c *execChain, rounds int, cn counts) []finding {
	vs := c.state.NextValidators
	st := extract(vs)
	T := st.total()
	if T.Cmp(bi(seqMaxTotal)) > 0 || !wellFormed(st) {
		return nil
	}
	if r2 := int(2 * T.Int64()); rounds == 0 || r2 < rounds {
		rounds = r2
	}
	fs, stats := checkSequence(vs, st, rounds)
	if cn != nil {
		cn["executor_sequence_rounds"] += stats.rounds
		cn["transitions"] += stats.rounds
	}
	for i := range fs {
		fs[i].Sig += "|after=executor-history"
	}
	return fs
}

// validTokens: a rejected block ends a history, so the negative token is only followed by padding.
func canonicalHistory(toks []int) bool {
	for i, t := range toks {
		if t == tokNegativeX {
			for _, u := range toks[i+1:] {
				if u != tokSame {
					return false
				}
			}
		}
	}
	return true
}

func runExecutorStage(depth, seqRounds int) {
	if err := initExecPool(); err != nil {
		r.Require(false, "executor stage: "+err.Error())
		return
	}
	prevPool := pool
	usePool(execPool)
	defer usePool(prevPool)
	execBus = types.NewEventBus()
	if err := execBus.Start(); err != nil {
		r.Require(false, "executor stage: event bus: "+err.Error())
		return
	}
	defer execBus.Stop()

	bases := execBases()
	prefixes := int64(1)
	for i := 0; i < depth-1; i++ {
		prefixes *= numExecTokens
	}
	var smu = make(chan struct{}, 1)
	seen := map[string]struct{}{}
	kinds := map[string]int64{}
	record := func(fs []finding, bi int, toks []int) {
		if len(fs) == 0 {
			return
		}
		c := vcase{Check: "executor", Exec: &execCase{Base: bi, Tokens: append([]int{}, toks...)}, Rounds: seqRounds}
		recordAt(fs, len(toks), bi, func() vcase { return c })
	}
	par.For(prefixes*int64(len(bases)), 1, nil, func(i int64) {
		bi := int(i % int64(len(bases)))
		idx := i / int64(len(bases))
		prefix := make([]int, depth-1)
		for k := range prefix {
			prefix[k] = int(idx % numExecTokens)
			idx /= numExecTokens
		}
		if !canonicalHistory(prefix) {
			return
		}
		cn := counts{}
		localKeys := []string{}
		localKinds := map[string]int64{}
		b := bases[bi]
		fs := runExecHistory(bi, prefix, seqRounds, cn, func(c *execChain, rc refChain, list appList, prevKind string) {
			// every last block on a fork of the chain reached by the prefix
			for t := 0; t < numExecTokens; t++ {
				fc := c.fork()
				frc, fl := rc, list.clone()
				o := stepBlock(b, fc, &frc, &fl, t, prevKind)
				toks := append(append([]int{}, prefix...), t)
				cn["executor_histories"]++
				if o.applied {
					cn["executor_blocks_applied"]++
				}
				localKinds[o.kind+"<-"+prevKind]++
				var sfs []finding
				if !o.ended {
					sfs = execSequence(fc, seqRounds, cn)
					localKeys = append(localKeys, chainKey(fc.state))
				} else if len(o.fs) == 0 {
					cn["executor_histories_rejected_by_both"]++
				}
				record(append(o.fs, sfs...), bi, toks)
			}
		})
		// findings on the prefix itself (reported with the prefix as the history)
		record(fs, bi, prefix)
		smu <- struct{}{}
		for _, k := range localKeys {
			seen[k] = struct{}{}
		}
		for k, v := range localKinds {
			kinds[k] += v
		}
		<-smu
		cn["transitions"] += cn["executor_blocks_applied"]
		cn.flush()
	})
	r.Add("executor_distinct_final_states", int64(len(seen)))
	r.Add("states", int64(len(seen)))
	r.Set("executor_depth", depth)
	r.Add("executor_distinct_block_kind_pairs", int64(len(kinds)))
	if depth >= 3 {
		for _, need := range []string{"same<-remove", "revert<-repower", "readd<-remove", "remove<-add", "same<-add", "permute<-repower", "empty-report<-remove", "negative<-same", "repower<-revert", "add<-remove"} {
			r.Require(kinds[need] > 0, "executor stage: block pair never exercised: "+need)
		}
	}
	r.Require(r.Get("executor_histories") > 100 && r.Get("executor_histories_rejected_by_both") > 0, "executor stage: too few histories or no rejected report")
}

func replayExecutor(c vcase) []finding {
	if c.Exec == nil || c.Exec.Base < 0 || c.Exec.Base >= len(execBases()) {
		return []finding{{"C12|oracle=harness-replay", "no executor case", nil}}
	}
	if err := initExecPool(); err != nil {
		return []finding{{"C12|oracle=harness-replay", err.Error(), nil}}
	}
	prevPool := pool
	usePool(execPool)
	defer usePool(prevPool)
	if execBus == nil || !execBus.IsRunning() {
		execBus = types.NewEventBus()
		if err := execBus.Start(); err != nil {
			return []finding{{"C12|oracle=harness-replay", err.Error(), nil}}
		}
		defer execBus.Stop()
	}
	return runExecHistory(c.Exec.Base, c.Exec.Tokens, c.Rounds, nil, nil)
}
