// Reference model of proposer rotation and validator-set updates (DESIGN.md appendix A.4).
//
// Written from the specification text, in math/big, with no clipping and no fixed width: every value
// is an unbounded integer and the model records whenever a value it computes would not fit an int64
// (the implementation "must never leave int64").  Nothing here calls into the code under test.
package main

import (
	"math/big"
	"sort"
)

// rval is one validator of the reference state. Addresses are indices into the address pool, which
// is verified at start-up to be strictly ascending in byte order, so comparing indices is comparing
// addresses.
type rval struct {
	addr  int
	power *big.Int
	prio  *big.Int
}

type refState struct {
	vals     []rval
	proposer int // address index of the proposer chosen by the last increment; -1 = none yet
}

// stepInfo says what the reference did, for classifying a disagreement.
type stepInfo struct {
	rescaled  bool // the 2*total window was exceeded and priorities were divided
	leftInt64 bool // some value computed by the specification does not fit an int64
	grey      bool // total after updates but before removals > cap while the resulting total <= cap (valid)
}

var (
	bigOne   = big.NewInt(1)
	bigTwo   = big.NewInt(2)
	bigEight = big.NewInt(8)
)

func bi(x int64) *big.Int { return big.NewInt(x) }

func (s refState) clone() refState {
	o := refState{vals: make([]rval, len(s.vals)), proposer: s.proposer}
	for i, v := range s.vals {
		o.vals[i] = rval{v.addr, new(big.Int).Set(v.power), new(big.Int).Set(v.prio)}
	}
	return o
}

func (s refState) total() *big.Int {
	t := new(big.Int)
	for _, v := range s.vals {
		t.Add(t, v.power)
	}
	return t
}

func note(info *stepInfo, x *big.Int) {
	if !x.IsInt64() {
		info.leftInt64 = true
	}
}

// floorDiv is floor(a/n) for n > 0, computed from truncated division.
func floorDiv(a, n *big.Int) *big.Int {
	q, m := new(big.Int).QuoRem(a, n, new(big.Int))
	if m.Sign() < 0 {
		q.Sub(q, bigOne)
	}
	return q
}

// refRescale: if max a - min a > 2T then k = ceil((max-min)/(2T)) and a <- a quo k (truncating).
func refRescale(s *refState, T *big.Int, info *stepInfo) {
	if len(s.vals) == 0 || T.Sign() <= 0 {
		return
	}
	max, min := s.vals[0].prio, s.vals[0].prio
	for _, v := range s.vals[1:] {
		if v.prio.Cmp(max) > 0 {
			max = v.prio
		}
		if v.prio.Cmp(min) < 0 {
			min = v.prio
		}
	}
	diff := new(big.Int).Sub(max, min)
	win := new(big.Int).Mul(bigTwo, T)
	if diff.Cmp(win) <= 0 {
		return
	}
	note(info, diff)
	k := new(big.Int).Add(diff, win)
	k.Sub(k, bigOne)
	note(info, k)
	k.Quo(k, win)
	info.rescaled = true
	for i := range s.vals {
		s.vals[i].prio.Quo(s.vals[i].prio, k)
	}
}

// refCentre: avg = floor(sum a / n); a <- a - avg.
func refCentre(s *refState, info *stepInfo) {
	n := len(s.vals)
	if n == 0 {
		return
	}
	sum := new(big.Int)
	for _, v := range s.vals {
		sum.Add(sum, v.prio)
	}
	avg := floorDiv(sum, bi(int64(n)))
	note(info, avg)
	for i := range s.vals {
		s.vals[i].prio.Sub(s.vals[i].prio, avg)
		note(info, s.vals[i].prio)
	}
}

// refRound is one round: a <- a + p; the largest a (ties: smaller address) pays T and proposes.
func refRound(s *refState, T *big.Int, info *stepInfo) {
	best := -1
	for i := range s.vals {
		v := &s.vals[i]
		v.prio.Add(v.prio, v.power)
		if info != nil {
			note(info, v.prio)
		}
		if best < 0 {
			best = i
			continue
		}
		c := v.prio.Cmp(s.vals[best].prio)
		if c > 0 || (c == 0 && v.addr < s.vals[best].addr) {
			best = i
		}
	}
	b := &s.vals[best]
	b.prio.Sub(b.prio, T)
	if info != nil {
		note(info, b.prio)
	}
	s.proposer = b.addr
}

// refIncrement is `increment(times)` of A.4. withWindow=false gives the variant that never
// rescales; it is used ONLY to classify a disagreement (signature), never to decide one.
func refIncrement(in refState, times int, withWindow bool) (refState, stepInfo) {
	s := in.clone()
	var info stepInfo
	T := s.total()
	if withWindow {
		refRescale(&s, T, &info)
	}
	refCentre(&s, &info)
	for i := 0; i < times; i++ {
		refRound(&s, T, &info)
	}
	return s, info
}

// change is one entry of a change set: power 0 removes, power > 0 adds or sets.
type change struct {
	Addr  int   `json:"addr"`
	Power int64 `json:"power"`
}

// rejection classes, in the order in which they are reported when several apply.
const (
	rejNone          = ""
	rejDuplicate     = "duplicate-address"
	rejNegative      = "negative-power"
	rejRemoveUnknown = "remove-unknown"
	rejEmpty         = "empties-the-set"
	rejCap           = "total-above-cap"
)

// refUpdate is `update(changes)` of A.4. cap is the maximum total voting power.
// Returns the new state, or the rejection class (state unchanged).
//
// Cap rule: removals are applied before the cap check, i.e. a change set is rejected iff the total of
// the RESULTING set exceeds the cap. (The one-line summary in A.4 says "total after updates (before
// removals)"; that total, T', only determines the newcomers' starting priority.) `grey` marks the
// change sets whose T' is above the cap while the resulting total is not - they must be accepted.
func refUpdate(in refState, changes []change, cap *big.Int, withWindow bool) (refState, string, stepInfo) {
	// small fixed tables indexed by address index + 1 (the pools have 6 resp. 24 addresses; -1 = foreign address)
	const slots = 32
	var info stepInfo
	var seen, removed, isCur [slots]bool
	var cur [slots]int
	var newPower [slots]*big.Int
	slot := func(a int) int {
		if a < -1 || a+1 >= slots {
			panic("reference: address index out of range")
		}
		return a + 1
	}
	for _, c := range changes {
		if seen[slot(c.Addr)] {
			return in, rejDuplicate, info
		}
		seen[slot(c.Addr)] = true
	}
	for _, c := range changes {
		if c.Power < 0 {
			return in, rejNegative, info
		}
	}
	for i, v := range in.vals {
		cur[slot(v.addr)], isCur[slot(v.addr)] = i, true
	}
	for _, c := range changes {
		if c.Power == 0 && !isCur[slot(c.Addr)] {
			return in, rejRemoveUnknown, info
		}
	}
	// T' = total after updates and before removals; final = total of the resulting set.
	tPrime := in.total()
	final := new(big.Int).Set(tPrime)
	size := len(in.vals)
	for _, c := range changes {
		a := slot(c.Addr)
		if c.Power == 0 {
			removed[a] = true
			final.Sub(final, in.vals[cur[a]].power)
			size--
			continue
		}
		p := bi(c.Power)
		newPower[a] = p
		d := new(big.Int).Set(p)
		if isCur[a] {
			d.Sub(d, in.vals[cur[a]].power)
		} else {
			size++
		}
		tPrime.Add(tPrime, d)
		final.Add(final, d)
	}
	if size == 0 {
		return in, rejEmpty, info
	}
	if final.Cmp(cap) > 0 {
		return in, rejCap, info
	}
	if tPrime.Cmp(cap) > 0 {
		info.grey = true
	}
	// newcomers start at -(T' + floor(T'/8))
	start := new(big.Int).Add(tPrime, floorDiv(tPrime, bigEight))
	start.Neg(start)
	note(&info, start)

	out := refState{proposer: in.proposer, vals: make([]rval, 0, size)}
	for _, v := range in.vals {
		a := slot(v.addr)
		if removed[a] {
			continue
		}
		nv := rval{v.addr, new(big.Int).Set(v.power), new(big.Int).Set(v.prio)}
		if newPower[a] != nil {
			nv.power = new(big.Int).Set(newPower[a])
		}
		out.vals = append(out.vals, nv)
	}
	for a := 0; a < slots; a++ { // ascending address
		if newPower[a] != nil && !isCur[a] {
			out.vals = append(out.vals, rval{a - 1, new(big.Int).Set(newPower[a]), new(big.Int).Set(start)})
		}
	}
	T := out.total()
	if withWindow {
		refRescale(&out, T, &info)
	}
	refCentre(&out, &info)
	// order: power descending, then address ascending
	sort.SliceStable(out.vals, func(i, j int) bool {
		c := out.vals[i].power.Cmp(out.vals[j].power)
		if c != 0 {
			return c > 0
		}
		return out.vals[i].addr < out.vals[j].addr
	})
	return out, rejNone, info
}

// refNew is the construction of a set from a list of (address, power): an update of the empty set
// followed by one round.
func refNew(vals []change, cap *big.Int) (refState, string, stepInfo) {
	s, rej, info := refUpdate(refState{proposer: -1}, vals, cap, true)
	if rej != rejNone {
		return s, rej, info
	}
	s2, info2 := refIncrement(s, 1, true)
	info2.rescaled = info2.rescaled || info.rescaled
	info2.leftInt64 = info2.leftInt64 || info.leftInt64
	return s2, rejNone, info2
}
