// The enumerated space: address pool, initial power vectors, the change-set alphabet, and the
// observation (state extraction) of the real ValidatorSet.
package main

import (
	"bytes"
	"encoding/binary"
	"fmt"
	"hash/fnv"
	"math/big"
	"reflect"
	"strings"

	"github.com/kardiachain/go-kardia/lib/common"
	"github.com/kardiachain/go-kardia/types"
)

// ---------------------------------------------------------------------------------------------
// addresses: six addresses, strictly ascending in byte order, chosen so that a comparison of the
// wrong end of the array, a signed byte comparison or a numeric shortcut would order them differently.
// The all-zero address is deliberately NOT in the pool (see FINDINGS.md, observation O1).

var pool []common.Address
var poolIndex = map[common.Address]int{}

func mkAddr(first, second, fill, last byte) common.Address {
	var a common.Address
	for i := range a {
		a[i] = fill
	}
	a[0], a[1], a[len(a)-1] = first, second, last
	return a
}

// hexDisagree: a sorts before b as bytes (the specified order) but after b in the mixed-case
// checksum spelling of the real Address.Hex().
func hexDisagree(a, b common.Address) bool {
	return bytes.Compare(a[:], b[:]) < 0 && strings.Compare(a.Hex(), b.Hex()) > 0
}

// findCaseTriple searches (deterministically, with the real Address.Hex()) three addresses
// t1 < t2 < t3 in byte order whose Hex() spellings sort in exactly the opposite order: t1 starts with a
// lower-case 'c', t2 with "Ca", t3 with "CB" - every pair first differs at a letter nibble spelled in
// opposite case. salt varies the remaining bytes.
func findCaseTriple(salt int) (t [3]common.Address, ok bool) {
	want := []struct {
		first  byte
		prefix string
	}{{0xc5, "0xc"}, {0xca, "0xCa"}, {0xcb, "0xCB"}}
	for k, w := range want {
		found := false
		for c := 0; c < 1<<14 && !found; c++ {
			var a common.Address
			for i := range a {
				a[i] = byte(salt*29 + c*7 + i*13)
			}
			a[0], a[18], a[19] = w.first, byte(c>>7), byte(c<<1) // last byte even: a+1 differs in the last byte only
			if strings.HasPrefix(a.Hex(), w.prefix) {
				t[k], found = a, true
			}
		}
		if !found {
			return t, false
		}
	}
	return t, hexDisagree(t[0], t[1]) && hexDisagree(t[1], t[2]) && hexDisagree(t[0], t[2])
}

var poolCaseTriple [3]common.Address

func initPool() bool {
	t, ok := findCaseTriple(1)
	if !ok {
		return false
	}
	poolCaseTriple = t
	last := t[2]
	last[len(last)-1]++ // differs from t[2] in the last byte only
	pool = []common.Address{
		mkAddr(0x00, 0x00, 0x00, 0x01), // differs from all others in the high byte
		t[0], t[1], t[2],               // byte order and Hex() order disagree for every pair
		last,
		mkAddr(0xff, 0xff, 0xff, 0xff),
	}
	for i, a := range pool {
		poolIndex[a] = i
		if i > 0 && bytes.Compare(pool[i-1][:], a[:]) >= 0 {
			return false
		}
	}
	return true
}

// initial validators take pool addresses in this order, newcomers are offered in that order, so
// that newcomers sort below, above and between the existing validators.
var initOrder = []int{2, 3, 1, 4}
var newOrder = []int{0, 5, 1, 4, 2, 3}

// ---------------------------------------------------------------------------------------------
// observation of the real object

type sval struct {
	A int   `json:"addr"` // pool index, -1 = an address that was never offered
	P int64 `json:"power"`
	Q int64 `json:"priority"`
}

type state struct {
	Vals []sval `json:"validators"` // in the order of ValidatorSet.Validators
	Prop int    `json:"proposer"`   // pool index of ValidatorSet.Proposer, -1 nil, -2 unknown address
}

func extract(vs *types.ValidatorSet) state {
	s := state{Vals: make([]sval, len(vs.Validators)), Prop: -1}
	for i, v := range vs.Validators {
		idx, ok := poolIndex[v.Address]
		if !ok {
			idx = -1
		}
		s.Vals[i] = sval{idx, v.VotingPower, v.ProposerPriority}
	}
	if vs.Proposer != nil {
		idx, ok := poolIndex[vs.Proposer.Address]
		if !ok {
			idx = -2
		}
		s.Prop = idx
	}
	return s
}

// key is the canonical state key. Two sets with the same key have the same futures: every operation
// reads only (address, power, priority) of the members and their order (order is itself a function
// of power and address after any update, and untouched by increments); the Proposer field is
// overwritten by every increment and never read by an update; the cached total is checked to equal
// the sum of powers in every reached state.
func (s state) key() string {
	b := make([]byte, 0, 2+17*len(s.Vals))
	b = append(b, byte(len(s.Vals)), byte(s.Prop+2))
	var t [8]byte
	for _, v := range s.Vals {
		b = append(b, byte(v.A+1))
		binary.BigEndian.PutUint64(t[:], uint64(v.P))
		b = append(b, t[:]...)
		binary.BigEndian.PutUint64(t[:], uint64(v.Q))
		b = append(b, t[:]...)
	}
	return string(b)
}

func hash64(k string) uint64 {
	h := fnv.New64a()
	h.Write([]byte(k))
	x := h.Sum64()
	// final avalanche (fnv is weak in the high bits for short inputs)
	x ^= x >> 33
	x *= 0xff51afd7ed558ccd
	x ^= x >> 33
	return x
}

func (s state) equalVals(o state) bool {
	if len(s.Vals) != len(o.Vals) {
		return false
	}
	for i := range s.Vals {
		if s.Vals[i] != o.Vals[i] {
			return false
		}
	}
	return true
}

func (s state) toRef() refState {
	r := refState{vals: make([]rval, len(s.Vals)), proposer: s.Prop}
	for i, v := range s.Vals {
		r.vals[i] = rval{v.A, bi(v.P), bi(v.Q)}
	}
	return r
}

func (s state) total() *big.Int {
	t := new(big.Int)
	for _, v := range s.Vals {
		t.Add(t, bi(v.P))
	}
	return t
}

func (s state) has(a int) (int64, bool) {
	for _, v := range s.Vals {
		if v.A == a {
			return v.P, true
		}
	}
	return 0, false
}

func (s state) String() string {
	var b bytes.Buffer
	b.WriteString("[")
	for i, v := range s.Vals {
		if i > 0 {
			b.WriteString(" ")
		}
		fmt.Fprintf(&b, "a%d:p=%d,prio=%d", v.A, v.P, v.Q)
	}
	fmt.Fprintf(&b, "] proposer=a%d", s.Prop)
	return b.String()
}

// sameAsRef compares an observed state with a reference state exactly (order, powers, priorities in
// unbounded integers). what names the first difference class.
func sameAsRef(got state, exp refState) (ok bool, what string) {
	if len(got.Vals) != len(exp.vals) {
		return false, "membership"
	}
	gm := map[int]sval{}
	for _, v := range got.Vals {
		gm[v.A] = v
	}
	for _, e := range exp.vals {
		g, in := gm[e.addr]
		if !in {
			return false, "membership"
		}
		if bi(g.P).Cmp(e.power) != 0 {
			return false, "power"
		}
	}
	for _, e := range exp.vals {
		if bi(gm[e.addr].Q).Cmp(e.prio) != 0 {
			return false, "priority"
		}
	}
	for i, e := range exp.vals {
		if got.Vals[i].A != e.addr {
			return false, "order"
		}
	}
	return true, ""
}

func cachedTotal(vs *types.ValidatorSet) int64 {
	return reflect.ValueOf(vs).Elem().FieldByName("totalVotingPower").Int()
}

// ---------------------------------------------------------------------------------------------
// initial vectors

func initialVectors(capv int64) [][]int64 {
	return [][]int64{
		{1}, {10},
		{1, 1}, {1, 2}, {1000, 1},
		{1, 1, 1}, {1, 2, 3}, {10, 3, 1},
		{2, 2, 1, 1}, {1000, 10, 3, 2},
		{capv}, {(capv - 1) / 2, (capv - 1) / 2}, {1, capv - 2},
	}
}

func vectorChanges(vec []int64) []change {
	cs := make([]change, len(vec))
	for i, p := range vec {
		cs[i] = change{initOrder[i], p}
	}
	return cs
}

// ---------------------------------------------------------------------------------------------
// change sets

type entry struct {
	Addr  int    `json:"addr"`
	Power int64  `json:"power"`
	Tok   string `json:"token"`
}

func toChanges(es []entry) []change {
	cs := make([]change, len(es))
	for i, e := range es {
		cs[i] = change{e.Addr, e.Power}
	}
	return cs
}

func toValidators(es []entry) []*types.Validator {
	vs := make([]*types.Validator, len(es))
	for i, e := range es {
		vs[i] = types.NewValidator(pool[e.Addr], e.Power)
	}
	return vs
}

var changePowers = []int64{1, 5, 1000}

// maxSetSize: newcomers are offered only to sets smaller than this (tier parameter).
var maxSetSize = 6

// candidates: the new addresses offered in this state (2 for sets of <= 2 validators, else 1).
func candidates(s state) []int {
	want := 1
	if len(s.Vals) <= 2 {
		want = 2
	}
	if len(s.Vals) >= maxSetSize {
		return nil
	}
	var c []int
	for _, a := range newOrder {
		if _, in := s.has(a); !in {
			c = append(c, a)
			if len(c) == want {
				break
			}
		}
	}
	return c
}

type addrOpts struct {
	addr     int
	existing bool
	shaped   []entry // well-formed entries: add/set with p in {1,5,1000,cap-filling}, remove existing
	partner  []entry // reduced alphabet used next to an invalid entry: power 5, remove existing
	bad      []entry // entries that are invalid by themselves
	dups     [][2]entry
}

// alphabet builds, per address, the entries offered in state s.
func alphabet(s state, capv int64) []addrOpts {
	T := s.total()
	var out []addrOpts
	mk := func(a int, existing bool, cur int64) addrOpts {
		o := addrOpts{addr: a, existing: existing}
		kind := "add"
		if existing {
			kind = "set"
		}
		for _, p := range changePowers {
			o.shaped = append(o.shaped, entry{a, p, fmt.Sprintf("%s:%d", kind, p)})
		}
		// cap-filling: the power that makes the total exactly the cap if nothing else changes
		fill := new(big.Int).Sub(bi(capv), T)
		fill.Add(fill, bi(cur))
		if fill.Sign() > 0 && fill.IsInt64() {
			o.shaped = append(o.shaped, entry{a, fill.Int64(), kind + ":capfill"})
		}
		five := entry{a, 5, kind + ":5"}
		o.partner = append(o.partner, five)
		o.bad = append(o.bad, entry{a, -1, kind + ":negative"})
		if existing {
			rm := entry{a, 0, "remove"}
			o.shaped = append(o.shaped, rm)
			o.partner = append(o.partner, rm)
			o.dups = [][2]entry{{five, five}, {five, {a, 1000, "set:1000"}}, {five, rm}, {rm, rm}}
		} else {
			ru := entry{a, 0, "remove-unknown"}
			o.bad = append(o.bad, ru)
			o.dups = [][2]entry{{five, five}, {five, {a, 1000, "add:1000"}}, {five, ru}}
		}
		return o
	}
	first := true
	for a := 0; a < len(pool); a++ {
		if p, in := s.has(a); in {
			o := mk(a, true, p)
			if first {
				o.bad = append(o.bad, entry{a, capv + 1, "set:above-cap"}, entry{a, -capv, "set:very-negative"})
				first = false
			}
			out = append(out, o)
		}
	}
	for i, a := range candidates(s) {
		o := mk(a, false, 0)
		if i == 0 {
			o.bad = append(o.bad, entry{a, capv + 1, "add:above-cap"})
		}
		out = append(out, o)
	}
	return out
}

// combos calls f with every choice of at most k entries on distinct addresses taken from
// pick(opts[i]) for i >= from, excluding address `skip`, appended to prefix (including the empty
// choice when allowEmpty).
func combos(opts []addrOpts, pick func(addrOpts) []entry, from, k, skip int, prefix []entry, allowEmpty bool, f func([]entry)) {
	if allowEmpty {
		f(prefix)
	}
	if k == 0 {
		return
	}
	for i := from; i < len(opts); i++ {
		if opts[i].addr == skip {
			continue
		}
		for _, e := range pick(opts[i]) {
			next := append(append([]entry{}, prefix...), e)
			combos(opts, pick, i+1, k-1, skip, next, true, f)
		}
	}
}

// enumChangeSets calls f once per change set (entries in canonical order) of at most k entries.
// class is "shaped" (every entry well-formed; includes remove-all and total-above-cap sets),
// "bad-entry" (one entry invalid by itself, next to every choice of <= k-1 partner entries) or
// "duplicate" (two entries for one address, next to every choice of <= k-2 partner entries).
func enumChangeSets(s state, k int, capv int64, f func(cs []entry, class string)) {
	opts := alphabet(s, capv)
	shaped := func(o addrOpts) []entry { return o.shaped }
	partner := func(o addrOpts) []entry { return o.partner }
	combos(opts, shaped, 0, k, -1, nil, false, func(cs []entry) { f(cs, "shaped") })
	for _, o := range opts {
		for _, b := range o.bad {
			combos(opts, partner, 0, k-1, o.addr, []entry{b}, true, func(cs []entry) { f(cs, "bad-entry") })
		}
		if k >= 2 {
			for _, d := range o.dups {
				combos(opts, partner, 0, k-2, o.addr, []entry{d[0], d[1]}, true, func(cs []entry) { f(cs, "duplicate") })
			}
		}
	}
}

// permutations returns every distinct ordering of cs other than cs itself.
func permutations(cs []entry) [][]entry {
	var out [][]entry
	n := len(cs)
	if n < 2 {
		return nil
	}
	idx := make([]int, n)
	for i := range idx {
		idx[i] = i
	}
	same := func(a, b []entry) bool {
		for i := range a {
			if a[i].Addr != b[i].Addr || a[i].Power != b[i].Power {
				return false
			}
		}
		return true
	}
	var rec func(pos int)
	rec = func(pos int) {
		if pos == n {
			p := make([]entry, n)
			for i, j := range idx {
				p[i] = cs[j]
			}
			if same(p, cs) {
				return
			}
			for _, q := range out {
				if same(p, q) {
					return
				}
			}
			out = append(out, p)
			return
		}
		for i := pos; i < n; i++ {
			idx[pos], idx[i] = idx[i], idx[pos]
			rec(pos + 1)
			idx[pos], idx[i] = idx[i], idx[pos]
		}
	}
	rec(0)
	return out
}

// shapeOf is the sorted multiset of entry kinds of a change set, e.g. "add+remove".
func shapeOf(cs []entry) string {
	cnt := map[string]int{}
	for _, e := range cs {
		k := e.Tok
		for i := range k {
			if k[i] == ':' {
				k = k[:i]
				break
			}
		}
		cnt[k]++
	}
	s := ""
	for _, k := range []string{"add", "set", "remove", "remove-unknown"} {
		if cnt[k] > 3 { // wide change sets: one class for "many"
			if s != "" {
				s += "+"
			}
			s += k + "*many"
			continue
		}
		for i := 0; i < cnt[k]; i++ {
			if s != "" {
				s += "+"
			}
			s += k
		}
	}
	return s
}
