// C12 — proposer rotation is the specified weighted round-robin; validator-set updates are
// all-or-nothing, order independent, reject invalid change sets and never overflow.
//
// Engine E2 (explicit-state search on the real types.ValidatorSet): from 13 initial power vectors,
// every history of IncrementProposerPriority(t) / UpdateWithChangeSet(cs) operations up to a depth,
// every permutation of every change set, compared step by step with the checker's own transcription
// of the specification in math/big (ref.go, DESIGN.md appendix A.4). Each step is judged from the
// state the REAL object is in: impl(s, op) must equal spec(s, op).
package main

import (
	"encoding/json"
	"fmt"
	"math"
	"math/big"
	"os"
	"runtime/debug"
	"runtime/pprof"
	"sort"
	"strings"
	"sync"
	"sync/atomic"
	"time"

	"github.com/kardiachain/go-kardia/types"

	"verif/mc/par"
	"verif/mc/report"
)

var r *report.Run

// ---------------------------------------------------------------------------------------------
// violation collection: per signature the smallest case is kept (depth, then text), so that the
// reported counterexample does not depend on goroutine scheduling.

type vcase struct {
	Check    string    `json:"check"` // construct | step | probe | sequence | copy
	Vector   []int64   `json:"vector"`
	History  []opRec   `json:"history"`      // operations that lead to the state (all accepted)
	Op       *opRec    `json:"op,omitempty"` // the operation judged (check=step)
	Rounds   int       `json:"rounds,omitempty"`
	Wide     bool      `json:"wide_pool,omitempty"`        // addresses index the 24-address pool of the wide phase
	Exec     *execCase `json:"executor_history,omitempty"` // check=executor: base set and report tokens per block
	State    string    `json:"state_before"`
	Expected []string  `json:"expected_signatures"`
}

type vrec struct {
	sig, what string
	c         vcase
	weight    string
	count     int64
}

var vmu sync.Mutex
var vfound = map[string]*vrec{}

// recordFindings keeps, per signature, the case with the smallest weight
// (history length, vector index, then the text of the case). The expensive parts (formatting,
// JSON) are only computed when the case can still win.
func recordFindings(fs []finding, c vcase) {
	if len(fs) == 0 {
		return
	}
	vi := 0
	for i, v := range vectors {
		if len(v) == len(c.Vector) && fmt.Sprint(v) == fmt.Sprint(c.Vector) {
			vi = i
		}
	}
	recordAt(fs, len(c.History), vi, func() vcase { return c })
}

// recordAt is recordFindings with the case built only when it can still win.
func recordAt(fs []finding, depth, vi int, mk func() vcase) {
	if len(fs) == 0 {
		return
	}
	var c vcase
	prefix := fmt.Sprintf("%02d|%02d|", depth, vi)
	full := ""
	vmu.Lock()
	defer vmu.Unlock()
	for _, f := range fs {
		v := vfound[f.Sig]
		if v != nil && v.weight[:len(prefix)] < prefix {
			v.count++
			continue
		}
		if full == "" {
			c = mk()
			for _, g := range fs {
				c.Expected = append(c.Expected, g.Sig)
			}
			sort.Strings(c.Expected)
			b, _ := json.Marshal(c)
			full = fmt.Sprintf("%s%06d|%s", prefix, len(b), b)
		}
		if v == nil {
			v = &vrec{sig: f.Sig}
			vfound[f.Sig] = v
		}
		if v.weight == "" || full < v.weight {
			v.what, v.c, v.weight = f.what(), c, full
		}
		v.count++
	}
}

// ---------------------------------------------------------------------------------------------
// nodes

type node struct {
	vs     *types.ValidatorSet // the real object; never mutated after creation (checked)
	st     state
	parent *node
	op     opRec
	depth  int
	vec    int
}

var vectors [][]int64

func (n *node) history() []opRec {
	var h []opRec
	for x := n; x != nil && x.parent != nil; x = x.parent {
		h = append([]opRec{x.op}, h...)
	}
	return h
}

func (n *node) vcase(check string) vcase {
	return vcase{Check: check, Vector: vectors[n.vec], History: n.history(), State: n.st.String()}
}

// build constructs the real set for a vector and applies a history directly on ONE object
// (no Copy): used by replay and by the copy-versus-replay validation.
func build(vec []int64, hist []opRec) (vs *types.ValidatorSet, err error) {
	panicked, pv := safely(func() {
		vs = types.NewValidatorSet(toValidators(vecEntries(vec)))
		for _, o := range hist {
			if o.Kind == "inc" {
				vs.IncrementProposerPriority(int64(o.Times))
			} else if e := vs.UpdateWithChangeSet(toValidators(o.Changes)); e != nil {
				err = fmt.Errorf("history operation %s rejected: %v", o, e)
				return
			}
		}
	})
	if panicked {
		return nil, fmt.Errorf("panic while building: %s", pv)
	}
	return vs, err
}

func vecEntries(vec []int64) []entry {
	es := make([]entry, len(vec))
	for i, p := range vec {
		es[i] = entry{initOrder[i], p, "init"}
	}
	return es
}

// checkConstruct: NewValidatorSet against the reference (update of the empty set, then one round).
func checkConstruct(vec []int64) (*types.ValidatorSet, state, []finding) {
	var vs *types.ValidatorSet
	panicked, pv := safely(func() { vs = types.NewValidatorSet(toValidators(vecEntries(vec))) })
	if panicked {
		return nil, state{}, []finding{{"C12|oracle=panic|op=new-set", fmt.Sprintf("NewValidatorSet(%v) panics: %s", vec, pv), nil}}
	}
	st := extract(vs)
	exp, rej, _ := refNew(vectorChanges(vec), capBig)
	if rej != rejNone {
		return vs, st, []finding{{"C12|oracle=harness", "initial vector rejected by the reference: " + rej, nil}}
	}
	ok, diff := sameAsRef(st, exp)
	if ok && (st.Prop != exp.proposer || proposerOf(vs) != exp.proposer) {
		ok, diff = false, "proposer"
	}
	if !ok {
		return vs, st, []finding{{"C12|oracle=new-set|diff=" + diff, fmt.Sprintf("NewValidatorSet(%v) gives %s, the specification gives %s", vec, st, refString(exp)), nil}}
	}
	return vs, st, nil
}

// ---------------------------------------------------------------------------------------------
// exploration

type stage struct {
	name      string
	k, depth  int  // at most k entries per change set, histories of at most depth operations
	storeLast bool // keep the nodes of level depth-1 (exact de-duplication, better balance)
}

// local counters are flushed once per expanded node (report.Add takes a mutex).
type counts map[string]int64

var sizeKeys = []string{"states_size_0", "states_size_1", "states_size_2", "states_size_3", "states_size_4", "states_size_5", "states_size_6", "states_size_7", "states_size_8"}
var classKeys = map[string]string{"shaped": "change_sets_shaped", "bad-entry": "change_sets_bad-entry", "duplicate": "change_sets_duplicate"}
var rejKeys = map[string]string{rejDuplicate: "rejected_" + rejDuplicate, rejNegative: "rejected_" + rejNegative, rejRemoveUnknown: "rejected_" + rejRemoveUnknown, rejEmpty: "rejected_" + rejEmpty, rejCap: "rejected_" + rejCap}
var incKeys = map[int]string{1: "token_inc:1", 2: "token_inc:2", 7: "token_inc:7"}
var tokKeys sync.Map // token -> [2]string{"token_"+tok, "accepted_"+tok}

func (c counts) tok(t string, accepted bool) {
	k, ok := tokKeys.Load(t)
	if !ok {
		k, _ = tokKeys.LoadOrStore(t, [2]string{"token_" + t, "accepted_" + t})
	}
	ks := k.([2]string)
	c[ks[0]]++
	if accepted {
		c[ks[1]]++
	}
}

func (c counts) flush() {
	for k, v := range c {
		r.Add(k, v)
		delete(c, k)
	}
}

type hashSet struct {
	shards [256]struct {
		mu sync.Mutex
		m  map[uint64]struct{}
	}
	n, cap int64
}

func newHashSet(cap int64) *hashSet {
	h := &hashSet{cap: cap}
	for i := range h.shards {
		h.shards[i].m = map[uint64]struct{}{}
	}
	return h
}

// insert reports whether x is new; full=true when the set refuses to grow (x not recorded).
func (h *hashSet) insert(x uint64) (isNew, full bool) {
	s := &h.shards[x>>56]
	s.mu.Lock()
	defer s.mu.Unlock()
	if _, ok := s.m[x]; ok {
		return false, false
	}
	if atomic.LoadInt64(&h.n) >= h.cap {
		return false, true
	}
	s.m[x] = struct{}{}
	atomic.AddInt64(&h.n, 1)
	return true, false
}

func (h *hashSet) has(x uint64) bool {
	s := &h.shards[x>>56]
	s.mu.Lock()
	defer s.mu.Unlock()
	_, ok := s.m[x]
	return ok
}

var (
	allStates   *hashSet // distinct states over all stages (64-bit hashes of the canonical key)
	leafSetFull int32
	seqLeafMax  int
)

type explorer struct {
	st      stage
	seen    *hashSet // states already expanded / scheduled in this stage
	stopped int32
}

func (e *explorer) expired() bool {
	if atomic.LoadInt32(&e.stopped) == 1 {
		return true
	}
	if r.Expired() {
		atomic.StoreInt32(&e.stopped, 1)
		return true
	}
	return false
}

// countState records a state in the global table of distinct states.
func countState(n *node, cn counts) (isNew, full bool) {
	isNew, full = allStates.insert(hash64(n.st.key()))
	if isNew {
		cn["states"]++
		cn[sizeKeys[len(n.st.Vals)]]++
	} else if full {
		atomic.StoreInt32(&leafSetFull, 1)
	}
	return
}

// visit runs the per-state oracles on a reached state.
func visit(n *node, full bool, cn counts) {
	fs, outside := checkProbes(n.vs, n.st)
	cn["probes"]++
	cn["transitions"]++ // RescalePriorities executed on the real object
	if outside {
		cn["reached_states_outside_window"]++
	}
	recordAt(fs, n.depth, n.vec, func() vcase { return n.vcase("probe") })
	T := n.st.total()
	if T.Cmp(bi(seqMaxTotal)) > 0 {
		return
	}
	rounds := int(2 * T.Int64())
	if !full {
		if seqLeafMax == 0 {
			return
		}
		if rounds > seqLeafMax {
			rounds = seqLeafMax
		}
		cn["sequence_starts_short"]++
	} else {
		cn["sequence_starts_full"]++
	}
	fs, stats := checkSequence(n.vs, n.st, rounds)
	cn["sequence_rounds"] += stats.rounds
	cn["transitions"] += stats.rounds
	if stats.refRescaledDuringRun {
		cn["sequence_runs_with_reference_rescale"]++
	}
	cn["ref_selftest_first_turn_bound_exceeded"] += stats.refFirstTurnExceeded
	r.Max("ref_selftest_max_turn_deviation_per_T_rounds", stats.refMaxDev)
	r.Max("equal_power_sets_longest_same_proposer_run_impl", stats.implStreak)
	r.Max("equal_power_sets_longest_same_proposer_run_spec", stats.refStreak)
	recordAt(fs, n.depth, n.vec, func() vcase {
		c := n.vcase("sequence")
		c.Rounds = rounds
		return c
	})
}

func wellFormed(s state) bool {
	if len(s.Vals) == 0 {
		return false
	}
	for _, v := range s.Vals {
		if v.P <= 0 || v.A < 0 {
			return false
		}
	}
	return true
}

// expand executes every operation of the alphabet on n and hands accepted successors to child.
func (e *explorer) expand(n *node, cn counts, forceCopyCheck bool, child func(c *node)) (copyFindings []finding) {
	keyBefore := n.st.key()
	emit := func(op opRec, res stepResult, fs []finding) {
		cn["transitions"] += int64(res.execs)
		recordAt(fs, n.depth, n.vec, func() vcase {
			c := n.vcase("step")
			c.Op = &op
			return c
		})
		if res.rescaled {
			cn["steps_where_reference_rescaled"]++
		}
		if res.accepted && res.child != nil {
			if !wellFormed(res.st) {
				// a set with an empty membership, a non-positive power or a foreign address is outside the
				// domain of the specification: report it (if the step oracle has not already) and stop there
				if len(fs) == 0 {
					recordAt([]finding{{"C12|oracle=member-well-formed", "an accepted operation produced a malformed set: " + res.st.String(), nil}}, n.depth, n.vec, func() vcase {
						c := n.vcase("step")
						c.Op = &op
						return c
					})
				}
				cn["malformed_successors_not_expanded"]++
				return
			}
			child(&node{vs: res.child, st: res.st, parent: n, op: op, depth: n.depth + 1, vec: n.vec})
		}
	}
	for _, t := range []int{1, 2, 7} {
		res, fs := checkIncrement(n.vs, n.st, t)
		cn[incKeys[t]]++
		emit(opRec{Kind: "inc", Times: t}, res, fs)
	}
	enumChangeSets(n.st, e.st.k, capv, func(cs []entry, class string) {
		res, fs := checkUpdate(n.vs, n.st, cs, true)
		cn["change_sets"]++
		cn[classKeys[class]]++
		if len(cs) > 1 {
			cn["change_set_permutations"] += int64(res.execs - 1)
		}
		for _, en := range cs {
			cn.tok(en.Tok, res.accepted)
		}
		if res.rej != rejNone {
			cn[rejKeys[res.rej]]++
		} else if res.grey {
			cn["valid_sets_within_cap_only_after_removals"]++
		}
		emit(opRec{Kind: "upd", Changes: cs}, res, fs)
	})
	// the parent object must not have been touched by operations on its copies
	if extract(n.vs).key() != keyBefore {
		copyFindings = append(copyFindings, finding{"C12|oracle=copy-independence", "operations on ValidatorSet.Copy() changed the original set " + n.st.String(), nil})
	}
	// the object reached through Copy()+op must equal the object reached by replaying the history
	// on a single fresh object (validation of the clone-based search; sampled deterministically)
	if forceCopyCheck || (n.depth > 0 && hash64(keyBefore)%16 == 0) {
		cn["copy_vs_replay_validations"]++
		vs, err := build(vectors[n.vec], n.history())
		if err != nil || extract(vs).key() != keyBefore || cachedTotal(vs) != cachedTotal(n.vs) {
			copyFindings = append(copyFindings, finding{"C12|oracle=copy-vs-replay", fmt.Sprintf("replaying the history on one object gives a different set than Copy()+operation: %v / %s", err, n.st), nil})
		}
	}
	return copyFindings
}

// leaf handles a frontier state (depth = max depth): it is not expanded; the per-state oracles run
// the first time the state is seen in the whole run.
func (e *explorer) leaf(c *node, cn counts) {
	cn["frontier_transitions"]++
	if e.seen.has(hash64(c.st.key())) {
		return // also a state of an expanded level: visited there
	}
	if isNew, _ := countState(c, cn); isNew {
		visit(c, false, cn)
	}
}

// interleave orders a level round-robin over the initial vectors so that a deadline cuts evenly.
func interleave(level []*node) []*node {
	by := map[int][]*node{}
	var vecs []int
	for _, n := range level {
		if _, ok := by[n.vec]; !ok {
			vecs = append(vecs, n.vec)
		}
		by[n.vec] = append(by[n.vec], n)
	}
	sort.Sort(sort.Reverse(sort.IntSlice(vecs)))
	var out []*node
	for i := 0; len(out) < len(level); i++ {
		for _, v := range vecs {
			if i < len(by[v]) {
				out = append(out, by[v][i])
			}
		}
	}
	return out
}

// run explores one stage; returns whether it was completed.
func (e *explorer) run(roots []*node) bool {
	e.seen = newHashSet(math.MaxInt64)
	level := roots
	for _, n := range roots {
		e.seen.insert(hash64(n.st.key()))
	}
	for d := 0; d < e.st.depth; d++ {
		last := d == e.st.depth-1 // children of this level are frontier states
		inPlace := d == e.st.depth-2 && !e.st.storeLast
		level = interleave(level)
		next := make([][]*node, len(level))
		done := par.For(int64(len(level)), 1, e.expired, func(i int64) {
			cn := counts{}
			n := level[i]
			countState(n, cn)
			visit(n, true, cn)
			recordFindings(e.expand(n, cn, false, func(c *node) {
				switch {
				case last:
					e.leaf(c, cn)
				case inPlace:
					if isNew, _ := e.seen.insert(hash64(c.st.key())); isNew && !e.expired() {
						countState(c, cn)
						visit(c, true, cn)
						recordFindings(e.expand(c, cn, false, func(g *node) { e.leaf(g, cn) }), c.vcase("copy"))
						cn["expanded_states"]++
					}
				default:
					next[i] = append(next[i], c)
				}
			}), n.vcase("copy"))
			cn["expanded_states"]++
			cn.flush()
		})
		if done < int64(len(level)) || e.expired() {
			r.NotExhaustive(fmt.Sprintf("stage %s (<=%d entries, depth %d): deadline reached while expanding level %d: %d of %d states of that level expanded",
				e.st.name, e.st.k, e.st.depth, d, done, len(level)))
			return false
		}
		if last || inPlace {
			break
		}
		r.Max("stage_"+e.st.name+"_completed_depth", int64(d+1))
		// sequential, deterministic de-duplication of the next level
		var nl []*node
		for _, cs := range next {
			for _, c := range cs {
				if isNew, _ := e.seen.insert(hash64(c.st.key())); isNew {
					nl = append(nl, c)
				}
			}
		}
		level = nl
	}
	r.Max("stage_"+e.st.name+"_completed_depth", int64(e.st.depth))
	return true
}

// ---------------------------------------------------------------------------------------------
// replay

func replayCase(c vcase) []finding {
	var vs *types.ValidatorSet
	var st state
	var out []finding
	if c.Wide {
		if widePool == nil && !initWidePool() {
			return []finding{{"C12|oracle=harness-replay", "wide pool", nil}}
		}
		prev := pool
		usePool(widePool)
		defer usePool(prev)
	}
	if c.Check == "construct" {
		_, _, fs := checkConstruct(c.Vector)
		return fs
	}
	if c.Check == "wide" {
		return replayWide(c)
	}
	if c.Check == "executor" {
		return replayExecutor(c)
	}
	vs, err := build(c.Vector, c.History)
	if err != nil {
		return []finding{{"C12|oracle=harness-replay", err.Error(), nil}}
	}
	st = extract(vs)
	switch c.Check {
	case "step":
		if c.Op.Kind == "inc" {
			_, out = checkIncrement(vs, st, c.Op.Times)
		} else {
			_, out = checkUpdate(vs, st, c.Op.Changes, true)
		}
	case "probe":
		out, _ = checkProbes(vs, st)
	case "sequence":
		out, _ = checkSequence(vs, st, c.Rounds)
	case "copy":
		e := &explorer{st: stage{k: 3}}
		vi := 0
		for i, v := range vectors {
			if fmt.Sprint(v) == fmt.Sprint(c.Vector) {
				vi = i
			}
		}
		// rebuild the node the way the explorer reaches it: Copy() + operation per step
		n := &node{vs: types.NewValidatorSet(toValidators(vecEntries(c.Vector))), vec: vi}
		n.st = extract(n.vs)
		for _, o := range c.History {
			cp := n.vs.Copy()
			if o.Kind == "inc" {
				cp.IncrementProposerPriority(int64(o.Times))
			} else {
				cp.UpdateWithChangeSet(toValidators(o.Changes))
			}
			n = &node{vs: cp, st: extract(cp), parent: n, op: o, depth: n.depth + 1, vec: vi}
		}
		out = e.expand(n, counts{}, true, func(*node) {})
	}
	return out
}

func sigsOf(fs []finding) []string {
	var s []string
	for _, f := range fs {
		s = append(s, f.Sig)
	}
	sort.Strings(s)
	return s
}

// ---------------------------------------------------------------------------------------------

func main() {
	r = report.New("C12", "model_checking")
	debug.SetGCPercent(400)
	if pf := os.Getenv("VERIF_C12_PROF"); pf != "" {
		f, _ := os.Create(pf)
		pprof.StartCPUProfile(f)
		go func() { time.Sleep(25 * time.Second); pprof.StopCPUProfile(); f.Close() }()
	}
	capv = types.MaxTotalVotingPower
	capBig = new(big.Int).Quo(bi(math.MaxInt64), bigEight)
	poolOK := initPool()
	vectors = initialVectors(capv)
	allStates = newHashSet(60_000_000)

	if r.ReplayPath != "" {
		var c vcase
		if err := r.LoadReplay(&c); err != nil {
			fmt.Println("MACHINERY-ERROR: cannot load replay file:", err)
			os.Exit(2)
		}
		fmt.Printf("replay: check=%s vector=%v history=%v op=%v\n", c.Check, c.Vector, c.History, c.Op)
		fs := replayCase(c)
		for _, f := range fs {
			fmt.Printf("observed: %s: %s\n", f.Sig, f.what())
		}
		if len(fs) > 0 {
			fmt.Println("REPLAY: still violates")
			os.Exit(1)
		}
		fmt.Println("REPLAY: no violation observed")
		os.Exit(0)
	}

	r.Require(poolOK, "address pool is not strictly ascending or no case-adversarial address triple was found")
	r.Require(poolOK && hexDisagree(pool[2], pool[3]) && hexDisagree(pool[1], pool[2]) && hexDisagree(pool[1], pool[3]),
		"the validators of the equal-power initial vectors (which tie) do not include a pair whose byte order and Address.Hex() order disagree")
	r.Set("tie_addresses", fmt.Sprintf("main pool %s < %s < %s as bytes, reverse order as Hex() strings", pool[1].Hex(), pool[2].Hex(), pool[3].Hex()))
	r.Require(bi(capv).Cmp(capBig) == 0, fmt.Sprintf("MaxTotalVotingPower in the code (%d) is not floor(MaxInt64/8) (%v)", capv, capBig))

	var stages []stage
	if r.Quick() {
		r.SetDeadline(time.Duration(envInt("VERIF_C12_DEADLINE_S", 50)) * time.Second)
		seqLeafMax = 0
		maxSetSize = envInt("VERIF_C12_MAXSIZE", 4)
		stages = []stage{{"A", 2, 3, true}}
	} else {
		r.SetDeadline(time.Duration(envInt("VERIF_C12_DEADLINE_S", 660)) * time.Second)
		seqLeafMax = 16
		stages = []stage{{"A", 2, 3, true}, {"B", 3, 2, true}, {"C", 3, 3, false}, {"D", 3, 4, false}}
	}

	// roots: the real constructor, checked against the reference
	var roots []*node
	for i, vec := range vectors {
		vs, st, fs := checkConstruct(vec)
		r.Add("transitions", 1)
		recordFindings(fs, vcase{Check: "construct", Vector: vec})
		if vs != nil {
			roots = append(roots, &node{vs: vs, st: st, vec: i})
		}
	}
	// Observation O1 (informational, never a verdict): a change for the all-zero address.
	if len(roots) > 0 {
		c := roots[0].vs.Copy()
		var err error
		var zero [20]byte
		panicked, _ := safely(func() { err = c.UpdateWithChangeSet([]*types.Validator{types.NewValidator(zero, 5)}) })
		r.Set("info_change_for_all_zero_address", fmt.Sprintf("UpdateWithChangeSet([{0x00..00, power 5}]) on %v: panicked=%v err=%v", vectors[0], panicked, err))
	}
	runWide()
	if r.Quick() {
		runExecutorStage(3, 300)
	} else {
		runExecutorStage(4, 0)
	}
	complete := true
	var doneStages []string
	for _, s := range stages {
		if r.Expired() {
			r.NotExhaustive(fmt.Sprintf("stage %s (<=%d entries, depth %d) not started: deadline", s.name, s.k, s.depth))
			complete = false
			continue
		}
		e := &explorer{st: s}
		if e.run(roots) {
			doneStages = append(doneStages, fmt.Sprintf("%s(<=%d entries, depth %d)", s.name, s.k, s.depth))
		} else {
			complete = false
		}
	}
	if atomic.LoadInt32(&leafSetFull) == 1 {
		r.Set("states_is_lower_bound", "the table of distinct frontier states was full (60e6 entries); later frontier states were checked but not counted")
	}
	r.Set("completed_stages", strings.Join(doneStages, ", "))
	if complete {
		r.Exhaustive(true)
	}
	r.Add("traces_validated_against_impl", r.Get("transitions"))

	// samples: real cases from the run
	for _, root := range roots[:3] {
		enumerated := 0
		enumChangeSets(root.st, 2, capv, func(cs []entry, class string) {
			enumerated++
			if enumerated%37 != 5 || !r.WantSample() {
				return
			}
			res, _ := checkUpdate(root.vs, root.st, cs, true)
			smp := map[string]interface{}{"vector": vectors[root.vec], "state": root.st.String(), "op": opRec{Kind: "upd", Changes: cs}.String(),
				"class": class, "reference_verdict": res.rej, "accepted_by_implementation": res.accepted, "executions": res.execs}
			if res.accepted {
				smp["state_after"] = res.st.String()
			}
			r.Sample(smp)
		})
	}

	// violations: confirm each minimal case 5 times, then report
	var sigs []string
	for s := range vfound {
		sigs = append(sigs, s)
	}
	sort.Strings(sigs)
	for _, s := range sigs {
		v := vfound[s]
		sig := s
		c := v.c
		r.ViolationConfirmed(sig, fmt.Sprintf("%s [x%d in this run]", v.what, v.count), c, func() string {
			for _, f := range replayCase(c) {
				if f.Sig == sig {
					return sig
				}
			}
			return "not-reproduced"
		})
	}

	r.Set("rule", "E2 explicit-state search on the real types.ValidatorSet. Roots: NewValidatorSet of 13 power vectors (sizes 1-4, powers {1,2,3,10,1000}, and [cap], [(cap-1)/2 x2], [1,cap-2]) over 6 addresses: one differing from all others in the high byte, three (found at start-up with the real Address.Hex()) that pairwise differ first at a letter nibble spelled in opposite checksum case so that byte order and Hex() string order disagree - they are the members of the equal-power vectors [1,1], [1,1,1], [2,2,1,1], which tie - one differing from its neighbour in the last byte only, and ff..ff; the wide pool (27) and the executor keys contain such pairs too (equal-power newcomers / members 0,1 of the 3-equal base). "+
		"Operations from every state: IncrementProposerPriority(t in {1,2,7}); UpdateWithChangeSet(cs) for EVERY change set of <= k entries on distinct addresses over {add a new address (2 candidates for sets of <=2, else 1; a removed address can re-join) with power p, set an existing power to p, remove an existing validator}, p in {1,5,1000,cap-filling}, "+
		"which includes remove-all and total-above-cap sets; plus every individually invalid entry {power -1 on each address, -cap, cap+1, removal of an unknown address} and every duplicate-address pair {(5,5),(5,1000),(5,remove),(remove,remove)} next to every choice of <= k-1 resp. k-2 partner entries {power 5, remove} on the other addresses; "+
		"EVERY distinct permutation of every change set is executed on its own copy. Stages: A = k<=2, all histories of depth 3; B = k<=3, depth 2; C = k<=3, depth 3; D = k<=3, depth 4 (quick runs A only; thorough runs A,B then C,D until the deadline). "+
		"States are de-duplicated on (ordered (address,power,priority) list, proposer); states = distinct states reached (frontier states by 64-bit hash); transitions = operations executed on real objects. "+
		"Phase 'wide change sets' (every tier, before the stages): from roots [1], [1,2], [cap/2], [cap/4+1,1] over a 24-address pool, change sets of EVERY size n = 1..17 for P in {cap, cap-1, cap/2+1, cap/4+1, cap/8+1, cap/16+1, 1}: n adds of P; raise every member to P plus adds; remove one member, raise the rest, plus adds; adds with powers cycling (P,1,cap/4+1); n-1 adds of P plus a last add that makes the total exactly cap resp. cap+1 - so the requested totals fall in every class <=cap, (cap,2^62), [2^62,2^63), [2^63,2^64), >=2^64; each executed in its given order, rotated by 1, rotated by n/2 and reversed, accepted results probed and advanced one round; plus near-cap replacement sets: on roots [cap/2,cap/2], [cap/2+1,cap/2], [cap/2+1,cap/2-1], [cap-10,10], [cap-1,1], [cap-11,10], [cap/2,cap/4,cap/4], [cap/2,cap/4+1,cap/4+1] EVERY removal (one member, or two of three) in ONE change set with every gain entry {a newcomer, or a raise of each remaining member} whose power takes the resulting total to cap-5, cap-1, cap, cap+1, equals the removed power, or is one of {1,10,cap/2,cap/2+1,cap-10,cap-5,cap-1,cap}, and the three-entry form remove + add half + raise by the other half (+1), in both / rotated entry orders, accepted iff the resulting total <= cap. "+
		"Stage 'history through the executor' (every tier): the real cstate.BlockExecutor.ApplyBlock (genesis state from MakeGenesisState, real store on memorydb, valid blocks with commits signed by every validator of the previous height, stub application returning the FULL validator list per height) over EVERY history of 3 (thorough 4) consecutive blocks whose reports are drawn from 14 tokens relative to the application's current list {same; re-power X; revert X; re-power H(eavy); revert H; remove Y; re-add Y same/other power; add newcomer N; remove N; report permuted; empty report; remove H; X reported with negative power} on 2 base sets (3 equal validators; 4 validators 10/20/30/1000); after every block Validators, NextValidators, LastValidators (members, powers, priorities, order, proposer) and LastHeightValidatorsChanged are compared with the reference applied to the same history (change set = reported list minus NextValidators, in force two heights later, one round per height), a history the reference accepts must be accepted and one it rejects must be rejected with the state unchanged, and from every final NextValidators the proposer sequence of min(2*total, 300; thorough 2*total) rounds is compared with the reference. "+
		"From every state of depth < max the per-state oracles run: cached total, RescalePriorities(2*total) against the reference, and (total <= 2000) the proposer sequence of 2*total further rounds against the reference.")
	r.Assume(
		"the specification is DESIGN.md appendix A.4 (Tendermint proposer-priority rules) transcribed in math/big by the checker (ref.go)",
		"each step is judged from the state the real object is in: impl(s,op) = spec(s,op); a divergence is therefore reported once per step class and not propagated",
		"cap rule: removals are applied before the cap check - a change set is rejected iff the total of the RESULTING set exceeds the cap; sets whose total before removals is above the cap while the resulting total is not (valid_sets_within_cap_only_after_removals, nearcap_*) must be accepted and equal the reference (newcomers start at -1.125 x the before-removals total)",
		"the proposer is compared after IncrementProposerPriority and NewValidatorSet only: the specification defines no proposer after an update (UpdateWithChangeSet leaves the Proposer field stale; production always increments next)",
		"the empty change set is not offered (the code returns nil without re-centring; production never passes it)",
		"the all-zero address is not in the address pool (see FINDINGS.md O1)",
		"executor stage: an empty report from the application asks for no change (calculateValidatorSetUpdates returns nothing for an empty list; the application never reports an empty set); the stored copy of the state (Store.Save/Load) is C14's subject and is not compared here; blocks carry no transactions and no evidence",
		"fairness and no-starvation are checked as consequences: equality of the proposer sequence with the reference for 2*total rounds; the hand-derived bounds on the reference itself are reported as ref_selftest_* and never decide the verdict",
		"64-bit hashes of canonical keys de-duplicate states; a collision could only skip the expansion of a state, never cause a violation")

	// vacuity guards
	need := []string{"token_inc:1", "token_inc:2", "token_inc:7", "accepted_add:1", "accepted_add:5", "accepted_add:1000", "accepted_add:capfill",
		"accepted_set:1", "accepted_set:5", "accepted_set:1000", "accepted_set:capfill", "accepted_remove",
		"token_add:negative", "token_set:negative", "token_remove-unknown", "token_set:above-cap", "token_add:above-cap",
		"rejected_" + rejDuplicate, "rejected_" + rejNegative, "rejected_" + rejRemoveUnknown, "rejected_" + rejEmpty, "rejected_" + rejCap,
		"change_set_permutations", "valid_sets_within_cap_only_after_removals", "steps_where_reference_rescaled", "copy_vs_replay_validations", "sequence_rounds"}
	for _, k := range need {
		r.Require(r.Get(k) > 0, "alphabet token / oracle never exercised: "+k)
	}
	r.Require(r.Get("states") > 1000, "fewer than 1000 distinct states reached")
	r.Require(len(roots) == len(vectors), "an initial vector could not be constructed")
	r.Finish()
}

func envInt(name string, def int) int {
	if v := os.Getenv(name); v != "" {
		var n int
		if _, err := fmt.Sscan(v, &n); err == nil && n > 0 {
			return n
		}
	}
	return def
}
