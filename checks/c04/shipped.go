package main

import (
	"fmt"
	"math/big"
	"os"
	"path/filepath"
	"sync"
	"time"

	"gopkg.in/yaml.v2"

	"github.com/kardiachain/go-kardia/cmd/utils"
	"github.com/kardiachain/go-kardia/configs"
	"github.com/kardiachain/go-kardia/mainchain/genesis"
)

// shippedGenesis loads deployment/local/genesis_devnet.yaml of the repository under test the way
// cmd/utils.setGenesis does for the flags the shipped docker-compose file uses (mainnet flavour).

type shipped struct {
	once sync.Once
	ch   *utils.Chain
	err  error
}

var shippedFiles = map[string]*shipped{}
var shippedMu sync.Mutex
var contractsOnce sync.Once

// loadShipped returns a constructor of fresh Genesis objects for one shipped genesis file.
func loadShipped(rel string, testnet bool) func() *genesis.Genesis {
	return func() *genesis.Genesis {
		shippedMu.Lock()
		sh := shippedFiles[rel]
		if sh == nil {
			sh = &shipped{}
			shippedFiles[rel] = sh
		}
		shippedMu.Unlock()
		sh.once.Do(func() {
			repo := os.Getenv("VERIF_REPO")
			if repo == "" {
				repo = "/repo"
			}
			raw, err := os.ReadFile(filepath.Join(repo, rel))
			if err != nil {
				sh.err = err
				return
			}
			ch := &utils.Chain{}
			if err := yaml.Unmarshal(raw, ch); err != nil {
				sh.err = err
				return
			}
			if ch.Genesis == nil {
				sh.err = fmt.Errorf("no Genesis section in %s", rel)
				return
			}
			sh.ch = ch
		})
		if sh.err != nil {
			panic(fmt.Sprintf("cannot load the shipped genesis file %s: %v", rel, sh.err))
		}
		// the global contract tables (plain maps) must describe THIS file while its scenario runs; scenarios
		// run one after the other, and every execution passes here (under the lock) before it reads them
		shippedMu.Lock()
		if currentShipped != rel {
			for key, contract := range sh.ch.Genesis.Contracts {
				configs.LoadGenesisContract(key, contract.Address, contract.ByteCode, contract.ABI)
			}
			currentShipped = rel
		}
		shippedMu.Unlock()
		return buildGenesis(sh.ch, testnet)
	}
}

var currentShipped string

func buildGenesis(ch *utils.Chain, testnet bool) *genesis.Genesis {
	g := ch.Genesis
	accounts := make(map[string]*big.Int)
	contracts := make(map[string]string)
	for _, account := range g.Accounts {
		amount, ok := new(big.Int).SetString(account.Amount, 10)
		if !ok {
			panic("cannot convert genesis amount")
		}
		accounts[account.Address] = amount
	}
	for key, contract := range g.Contracts {
		if key != configs.StakingContractKey && contract.Address != "" {
			contracts[contract.Address] = contract.ByteCode
		}
	}
	ga, err := genesis.GenesisAllocFromAccountAndContract(accounts, contracts)
	if err != nil {
		panic(err)
	}
	out := &genesis.Genesis{ChainID: "", Config: configs.MainnetChainConfig}
	if testnet {
		out = &genesis.Genesis{ChainID: configs.TestnetChainConfig.ChainID.String(), Config: configs.TestnetChainConfig}
	}
	out.InitialHeight = 1
	out.Alloc = ga
	out.Validators = g.Validators
	out.ConsensusParams = configs.DefaultConsensusParams()
	out.Consensus = configs.DefaultConsensusConfig()
	out.Timestamp = time.Unix(g.Timestamp, 0)
	return out
}
