// C04 — liveness: with a correct +2/3 and timely delivery every height commits.
// Engine E1 over netsim: every adversarial prefix with <= d deviations (delays, reordering, early
// timeouts, Byzantine proposals/votes) is followed by the synchronous default schedule; the oracle
// demands that every correct node then commits the target height (no deadlock, no livelock within
// 20 x validators rounds, no node halted by a panic).
package main

import (
	"fmt"
	"os"
	"sort"
	"strconv"
	"strings"
	"time"

	"github.com/kardiachain/go-kardia/consensus"

	"verif/mc/report"
	"verif/netsim"
)

func main() {
	report.Supervise("C04", "exploration", "node-process-dies", "while the explored networks run (full-stack nodes keep background goroutines): a node in that situation is gone for good")
	r := report.New("C04", "exploration")
	b := 2
	if r.Thorough() {
		b = 3
	}
	if v := os.Getenv("NETSIM_BOUND"); v != "" {
		b, _ = strconv.Atoi(v)
	}
	mk := func(name string, powers []int64, c netsim.Config) netsim.Config {
		c.Name, c.Powers = name, powers
		c.ByzMenu = !c.NoByzMenu
		if c.TargetHeight == 0 {
			c.TargetHeight = 1
		}
		c.MaxRound = uint32(20 * len(powers))
		c.MaxSteps = 30000
		return c
	}
	one := []int64{1, 1, 1, 1}
	scen := []netsim.Scenario{
		{Cfg: mk("4x1-byz-nonproposer", one, netsim.Config{Byz: []int{3}, ByzVariants: []string{"A", "B"}}), Bound: b},
		{Cfg: mk("4x1-byz-proposer", one, netsim.Config{ByzProposer: true}), Bound: b - 1},
		{Cfg: mk("4x1-lock-split", one, netsim.Config{Byz: []int{3}, Driver: "lock-split"}), Bound: b - 1},
		{Cfg: mk("4x1-late-polka", one, netsim.Config{Byz: []int{3}, Driver: "late-polka"}), Bound: b - 1},
		{Cfg: mk("4x1-two-heights", one, netsim.Config{Byz: []int{3}, ByzMenu: false, TargetHeight: 2}), Bound: b - 1},
		{Cfg: mk("4x1-restarts", one, netsim.Config{Byz: []int{3}, Restarts: true, NoByzMenu: true, TargetHeight: 2}), Bound: b - 1},
		{Cfg: mk("7x1-two-byz", []int64{1, 1, 1, 1, 1, 1, 1}, netsim.Config{Byz: []int{5, 6}, ByzVariants: []string{"A", "B"}}), Bound: b - 1},
		// the validator set changes while the chain runs: validator 1 is re-powered after height 1 (in force from height 3),
		// the Byzantine validator is removed after height 2 (in force from height 4)
		{Cfg: mk("4x1-valset-change", one, netsim.Config{Byz: []int{3}, NoByzMenu: true, TargetHeight: 5, ValScript: map[uint64][]int64{1: {1, 3, 1, 1}, 2: {1, 3, 1, 0}}}), Bound: b - 1},
		// the same with restarts of correct nodes (real WAL, real catch-up, LastCommit rebuilt from the seen commit) at
		// heights whose validator set differs from the one that signed the previous block
		{Cfg: mk("4x1-valset-change-restarts", one, netsim.Config{Byz: []int{3}, NoByzMenu: true, Restarts: true, TargetHeight: 5, ValScript: map[uint64][]int64{1: {1, 3, 1, 1}, 2: {1, 3, 1, 0}}}), Bound: b - 1},
		{Cfg: mk("2111-byz-small", []int64{2, 1, 1, 1}, netsim.Config{Byz: []int{3}}), Bound: b - 1},
		{Cfg: mk("3331-byz-small", []int64{3, 3, 3, 1}, netsim.Config{Byz: []int{3}}), Bound: b - 1},
	}
	macro := "macro2"
	if r.Thorough() {
		macro = "macro3"
	}
	// correct nodes that commit the block of round 1 while standing in round 2, then the next height
	scen = append(scen, netsim.Scenario{Cfg: mk("4x1-late-commit-then-next-height", one, netsim.Config{Byz: []int{3}, NoByzMenu: true, Driver: "late-commit", TargetHeight: 2}), Bound: b - 1})
	// a correct node cut off for K failed rounds, the Byzantine validator falling silent, then the network heals
	lag := "lagging2"
	if r.Thorough() {
		lag = "lagging3"
	}
	scen = append(scen, netsim.Scenario{Cfg: mk("4x1-lagging-node-"+lag, one, netsim.Config{Byz: []int{3}, NoByzMenu: true, Driver: lag}), Bound: b - 1})
	scen = append(scen, netsim.Scenario{Cfg: mk("4x1-"+macro+"-round-shapes", one, netsim.Config{Byz: []int{3}, NoByzMenu: true, Driver: macro}), Bound: 0})
	// one correct validator, every arrival order of proposal / parts / +2/3 prevotes / +2/3 precommits of a decided block
	for _, turn := range []int{2, 3} {
		scen = append(scen, netsim.Scenario{Cfg: netsim.Config{Name: fmt.Sprintf("solo-turn%d-arrival-orders", turn), Powers: one, SoloTurn: turn, Driver: "orders", TargetHeight: 1, MaxRound: 8, MaxSteps: 1500}, Bound: 0})
	}
	// the same with only two precommits from the others: the commit needs the node's own precommit
	for _, turn := range []int{2, 3} {
		scen = append(scen, netsim.Scenario{Cfg: netsim.Config{Name: fmt.Sprintf("solo-turn%d-arrival-orders-own-precommit-needed", turn), Powers: one, SoloTurn: turn, Driver: "orders-weak", TargetHeight: 1, MaxRound: 8, MaxSteps: 1500}, Bound: 0})
	}
	// a fresh network started from the shipped genesis file, every validator on the REAL node stack
	scen = append(scen, netsim.Scenario{Cfg: mk("shipped-testnet-genesis", []int64{1, 1, 1}, netsim.Config{NoByzMenu: true, TargetHeight: 2,
		Full: &netsim.FullSpec{Genesis: loadShipped("cmd/cfg/genesis_testnet.yaml", true), Keys: []int{3, 4, 5}}}), Bound: 1})
	scen = append(scen, netsim.Scenario{Cfg: mk("shipped-devnet-genesis", []int64{1, 1, 1}, netsim.Config{NoByzMenu: true, TargetHeight: 1,
		Full: &netsim.FullSpec{Genesis: loadShipped("deployment/local/genesis_devnet.yaml", false), Keys: []int{3, 4, 5}}}), Bound: 0})
	bindTicker(r)
	dl := 10 * time.Minute
	if r.Thorough() {
		dl = 30 * time.Minute
	}
	netsim.RunScenarios(r, scen, netsim.Options{Prop: "C04", Rules: []string{"C04"}, Deadline: dl, ExtraEnd: func(w *netsim.World) {
		if !strings.HasPrefix(w.Outcome, "done") {
			kind := strings.SplitN(w.Outcome, " ", 2)[0]
			w.Violate("C04:no-progress:"+kind, -1, "after the adversarial prefix the synchronous schedule does not bring every correct node to height %d: %s", w.Cfg.TargetHeight, w.Outcome)
		}
		if w.Cfg.ValScript != nil && strings.HasPrefix(w.Outcome, "done") {
			// vacuity guard of the validator-set scenario: the changes must have come into force
			if st := w.Nodes[w.Correct[0]].State(); st.Validators.Size() != 3 || st.Validators.TotalVotingPower() != 5 {
				w.Violate("C04:harness-valset-unchanged", -1, "the scripted validator-set changes are not in force at the end: %d validators, total power %d", st.Validators.Size(), st.Validators.TotalVotingPower())
			}
		}
		if !w.DriverOK {
			w.Violate("C04:driver-derailed", -1, "the scripted prefix %q could not be followed", w.Cfg.Driver)
		}
	}})
	r.Set("rule", "every execution of the netsim harness with at most `completed_bound` deviations, followed by the default synchronous schedule to completion; "+
		"horizon 20 x validators rounds; non-trivial = ran to a terminal outcome (not cut by state-key pruning)")
	r.Assume("re-gossip is modelled as: whatever a correct peer's RoundState / block store holds for the receiver's height is deliverable (mirrors gossipDataRoutine / gossipVotesRoutine)",
		"the recording ticker follows the supersede rule MEASURED on the real timeoutTicker at start-up (1600 classes: height and round differences -2..+2 x every pair of steps; differences beyond 2 are assumed to behave like 2); wall-clock durations are not modelled",
		"own messages are handled immediately after the step that produced them")
	r.Finish()
}

// bindTicker measures the supersede rule of the REAL consensus.timeoutTicker of this tree and makes every
// recording ticker of the explored networks follow it, so that what is explored is the liveness of the
// consensus code with the ticker it actually has. A ticker that loses a timeout altogether is a violation by
// itself (nothing would ever move the node out of a step).
func bindTicker(r *report.Run) {
	rule, problems := consensus.VerifMeasureTicker(60 * time.Second)
	for _, p := range problems {
		kind := "ticker-loses-timeout"
		key := strings.SplitN(p, ":", 2)[0]
		r.Violation("C04|part=ticker|oracle="+kind+"|case="+key, "the real timeoutTicker: "+p, map[string]interface{}{"part": "ticker", "problem": p})
	}
	if rule == nil {
		return
	}
	consensus.VerifInstallTickerRule(rule)
	same := true
	tr := consensus.VerifTranscribedTickerRule()
	var diff []string
	for k, v := range tr {
		if rule[k] != v {
			same = false
			diff = append(diff, fmt.Sprintf("%s: pinned=%v measured=%v", k, v, rule[k]))
		}
	}
	sort.Strings(diff)
	acc := 0
	for _, v := range rule {
		if v {
			acc++
		}
	}
	r.Set("ticker_rule_classes", len(rule))
	r.Set("ticker_rule_classes_accepting", acc)
	r.Set("ticker_rule_equals_pinned_transcription", same)
	if !same {
		r.Set("ticker_rule_differences", diff)
		fmt.Printf("note: the real ticker's supersede rule differs from the pinned commit's (%s); the explored networks use the measured rule\n", strings.Join(diff, "; "))
	}
	r.Add("ticker_experiments", int64(1+2*len(rule)))
}
