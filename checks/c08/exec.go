package main

// Lock-step executor: runs one program (any list of tokens) on the REAL StateDB and on the
// reference model and evaluates every oracle of C08 on the way.

import (
	"fmt"
	"runtime/debug"
	"sync"
	"sync/atomic"

	"github.com/kardiachain/go-kardia/kai/state"
	"github.com/kardiachain/go-kardia/lib/common"
	"github.com/kardiachain/go-kardia/types"
)

type runCfg struct {
	Mode     int  `json:"mode"`
	ObsEvery bool `json:"obs_every"` // compare all observables with the model after every token (else only at structure tokens and at the end)
	Cold     bool `json:"cold"`      // "cold" execution: no getter is called before the cold observation point (observations warm the object's caches and can hide a wrong read path); oracles: model at that point, roots at every IntermediateRoot/Commit, read-back after the last Commit
	ColdTail int  `json:"cold_tail"` // the one cold observation is taken after token len(prog)-1-ColdTail (i.e. before the closing tokens)
	Iter     bool `json:"iter"`      // snapshot modes: after every observed Commit/Cap/JournalReload also walk the tree's AccountIterator/StorageIterator at the root and compare the content with the model
	ObsAddrs int  `json:"obs_addrs"` // observe the first ObsAddrs addresses of the universe (0 = all); stages whose alphabet names one address observe that one
}

func (c runCfg) na() int {
	if c.ObsAddrs <= 0 || c.ObsAddrs > NA {
		return NA
	}
	return c.ObsAddrs
}

type failure struct {
	Oracle string
	Field  string
	Detail string
	Step   int
}

func (f *failure) class() string { return f.Oracle + ":" + f.Field }

// global measured counters
var (
	cntPrograms     int64
	cntInfeasible   int64
	cntTransitions  int64
	cntObserves     int64
	cntRevNontriv   int64
	cntRevChecks    int64
	cntRootChecks   int64
	cntReadbacks    int64
	cntCopyChecks   int64
	cntCrossBacking int64
	cntIterChecks   int64
	cntColdProgs    int64
	cntFreshReplay  int64
	cntSnapProgs    int64
	cntKind         [numKinds]int64
	cntModelMoved   int64
)

type bystander struct {
	s     *state.StateDB
	obs   Obs
	m     model
	midtx bool
	which string
}

type tracer func(format string, args ...interface{})

// run executes prog. feasible=false when a token's precondition (by-design panic / arithmetic the
// chain never performs / no valid revision) does not hold; such programs are outside the quantifier.
func run(prog []Op, c runCfg, tr tracer) (fail *failure, feasible bool) {
	var (
		m        model
		R        = newReal(c.Mode)
		revIDs   []int
		snapObs  []Obs
		msnaps   []model
		marks    []int
		eff      []Op
		bys      []bystander
		midtx    bool // the main line is a copy taken while the journal was non-empty
		hadRC    bool // program contained a Revert or Copy so far
		step     int
		locTr    int64
		locObs   int64
		locKind  [numKinds]int32
		fresh    = true // the StateDB has just been opened at lastRoot and nothing was done on it
		lastRoot = types.EmptyRootHash
	)
	feasible = true
	defer R.release()
	defer func() {
		atomic.AddInt64(&cntTransitions, locTr)
		atomic.AddInt64(&cntObserves, locObs)
		for k, n := range locKind {
			if n != 0 {
				atomic.AddInt64(&cntKind[k], int64(n))
			}
		}
		if p := recover(); p != nil {
			k := "end"
			if step < len(prog) {
				k = prog[step].sigToken()
			}
			fail = &failure{Oracle: "panic", Field: k, Detail: fmt.Sprintf("panic at step %d: %v\n%s", step, p, debug.Stack()), Step: step}
			feasible = true
		}
	}()
	sfx := func() string {
		if midtx {
			return "+after-mid-tx-copy"
		}
		return ""
	}
	obsReal := func(s *state.StateDB) Obs {
		locObs++
		return observe(s, c.na())
	}
	vsModel := func(o *Obs, oracle string) *failure {
		mo := m.obs(c.na())
		if *o == mo {
			return nil
		}
		fields, detail := diffObs(o, &mo)
		return &failure{Oracle: oracle + sfx(), Field: fields[0], Detail: detail, Step: step}
	}
	wantObs := func() bool { return !c.Cold || step == len(prog)-1-c.ColdTail || step == len(prog)-1 }
	clearRevs := func() {
		revIDs, snapObs, msnaps, marks = revIDs[:0], snapObs[:0], msnaps[:0], marks[:0]
	}
	checkRoot := func(root common.Hash) *failure {
		atomic.AddInt64(&cntRootChecks, 1)
		if ref := refRoot(&m); root != ref {
			return &failure{Oracle: "root-vs-reference" + sfx(), Field: "root", Detail: fmt.Sprintf("root %x, reference (go-ethereum 1.9.15 trie over the model) %x", root, ref), Step: step}
		}
		cb, err := contentBuiltRoot(&m)
		if err != nil {
			return &failure{Oracle: "root-vs-content-built" + sfx(), Field: "root", Detail: "building the content on a fresh StateDB failed: " + err.Error(), Step: step}
		}
		if root != cb {
			return &failure{Oracle: "root-vs-content-built" + sfx(), Field: "root", Detail: fmt.Sprintf("root %x, fresh StateDB given only the final content %x", root, cb), Step: step}
		}
		return nil
	}
	// snapshot modes: what the snapshot-backed StateDB at root shows (o) must equal what a trie-only
	// StateDB at the same root shows; optionally the tree's iterators must list exactly the model.
	crossBacking := func(root common.Hash, o *Obs) *failure {
		atomic.AddInt64(&cntCrossBacking, 1)
		ts, err := state.New(root, R.db, nil)
		if err != nil {
			return &failure{Oracle: "snapshot-vs-trie" + sfx(), Field: "error", Detail: "state.New(root, db, nil): " + err.Error(), Step: step}
		}
		ot := obsReal(ts)
		if ot != *o {
			fields, detail := diffObs(o, &ot)
			return &failure{Oracle: "snapshot-vs-trie" + sfx(), Field: fields[0], Detail: "StateDB reopened with the snapshot tree vs reopened trie-only at the same root: " + detail, Step: step}
		}
		if c.Iter {
			atomic.AddInt64(&cntIterChecks, 1)
			if field, detail := snapshotIteratorsVsModel(R.snaps, root, &m); field != "" {
				return &failure{Oracle: "snapshot-iterators" + sfx(), Field: field, Detail: detail, Step: step}
			}
		}
		return nil
	}
	var initial model
	for step = 0; step < len(prog); step++ {
		op := prog[step]
		if !m.feasible(op, len(revIDs)) {
			atomic.AddInt64(&cntInfeasible, 1)
			return nil, false
		}
		if (op.K == kCap || op.K == kJournal) && (R.snaps == nil || !fresh) {
			atomic.AddInt64(&cntInfeasible, 1)
			return nil, false
		}
		locTr++
		locKind[op.K]++
		structural := true
		fresh = false
		switch op.K {
		case kCap, kJournal:
			if op.K == kCap {
				// errors: "is disk layer" after a full flatten / nothing committed yet - a no-op then
				_ = R.snaps.Cap(lastRoot, int(op.V))
			} else if err := R.journalReload(lastRoot); err != nil {
				return &failure{Oracle: "journal-reload" + sfx(), Field: "error", Detail: err.Error(), Step: step}, true
			}
			ns, err := state.New(lastRoot, R.db, R.snaps)
			if err != nil {
				return &failure{Oracle: "reopen-after-" + kindName[op.K] + sfx(), Field: "error", Detail: err.Error(), Step: step}, true
			}
			R.s = ns
			fresh = true
			if tr != nil {
				tr("  step %d %s at root %x", step, op, lastRoot)
			}
			if !wantObs() {
				continue
			}
			atomic.AddInt64(&cntReadbacks, 1)
			o := obsReal(R.s)
			if f := vsModel(&o, "readback-after-"+kindName[op.K]); f != nil {
				return f, true
			}
			if f := crossBacking(lastRoot, &o); f != nil {
				return f, true
			}
			continue
		case kSnapshot:
			id := R.s.Snapshot()
			var o Obs
			if !c.Cold {
				o = obsReal(R.s)
				if f := vsModel(&o, "observables-vs-model"); f != nil {
					return f, true
				}
			}
			revIDs = append(revIDs, id)
			snapObs = append(snapObs, o)
			msnaps = append(msnaps, m)
			marks = append(marks, len(eff))
			noteState(&m)
			continue
		case kRevert:
			k, _ := resolveRev(int(op.V), len(revIDs))
			hadRC = true
			if m != msnaps[k] {
				atomic.AddInt64(&cntRevNontriv, 1)
			}
			R.s.RevertToSnapshot(revIDs[k])
			if !c.Cold {
				o := obsReal(R.s)
				atomic.AddInt64(&cntRevChecks, 1)
				if o != snapObs[k] {
					fields, detail := diffObs(&o, &snapObs[k])
					return &failure{Oracle: "revert-restores" + sfx(), Field: fields[0], Detail: "after RevertToSnapshot vs at Snapshot: " + detail, Step: step}, true
				}
			}
			m = msnaps[k]
			eff = eff[:marks[k]]
			revIDs, snapObs, msnaps, marks = revIDs[:k], snapObs[:k], msnaps[:k], marks[:k]
			if tr != nil && !c.Cold {
				tr("  step %d %s: observables equal those at the snapshot", step, op)
			}
			if c.Cold && wantObs() {
				o := obsReal(R.s)
				if f := vsModel(&o, "observables-vs-model(cold)"); f != nil {
					return f, true
				}
			}
			continue
		case kFinalise:
			R.s.Finalise(op.V != 0)
			m.finalise(op.V != 0)
			clearRevs()
			eff = append(eff, op)
		case kIntermediateRoot:
			root := R.s.IntermediateRoot(op.V != 0)
			m.finalise(op.V != 0)
			clearRevs()
			eff = append(eff, op)
			if tr != nil {
				tr("  step %d %s: root %x", step, op, root)
			}
			if f := checkRoot(root); f != nil {
				return f, true
			}
		case kCommit:
			root, err := R.commitReopen(op.V != 0)
			if err != nil {
				return &failure{Oracle: "commit-error" + sfx(), Field: "error", Detail: err.Error(), Step: step}, true
			}
			m.finalise(op.V != 0)
			m.reopen()
			clearRevs()
			eff = append(eff, op)
			lastRoot, fresh = root, true
			if tr != nil {
				tr("  step %d %s: root %x", step, op, root)
			}
			if f := checkRoot(root); f != nil {
				return f, true
			}
			if hadRC {
				atomic.AddInt64(&cntFreshReplay, 1)
				fr, err := freshRoot(eff)
				if err != nil {
					return &failure{Oracle: "root-vs-fresh-replay" + sfx(), Field: "root", Detail: "fresh replay failed: " + err.Error(), Step: step}, true
				}
				if fr != root {
					return &failure{Oracle: "root-vs-fresh-replay" + sfx(), Field: "root",
						Detail: fmt.Sprintf("root %x, fresh StateDB executing only the non-reverted operations [%s] %x", root, progString(eff), fr), Step: step}, true
				}
			}
			if !wantObs() {
				continue
			}
			atomic.AddInt64(&cntReadbacks, 1)
			o := obsReal(R.s)
			if f := vsModel(&o, "readback"); f != nil {
				return f, true
			}
			if R.mode != modeTrie {
				if f := crossBacking(root, &o); f != nil {
					return f, true
				}
			}
			noteState(&m)
			continue
		case kCopyC, kCopyO:
			hadRC = true
			cp := R.s.Copy()
			var oo, oc Obs
			if c.Cold {
				// no getter is called; the bystander is later compared with what the model shows now
				oo = m.obs(c.na())
				oc = oo
			} else {
				oo = obsReal(R.s)
				oc = obsReal(cp)
				atomic.AddInt64(&cntCopyChecks, 1)
				if oc != oo {
					fields, detail := diffObs(&oc, &oo)
					return &failure{Oracle: "copy-equals-original" + sfx(), Field: fields[0], Detail: "copy vs original right after Copy(): " + detail, Step: step}, true
				}
			}
			if op.K == kCopyC {
				bys = append(bys, bystander{s: R.s, obs: oo, m: m, midtx: midtx, which: "original"})
				R.s = cp
				clearRevs() // revisions of the original cannot be applied to the copy (documented)
				if m.jne {
					midtx = true
				}
			} else {
				bys = append(bys, bystander{s: cp, obs: oc, m: m, midtx: midtx || m.jne, which: "copy"})
			}
		default:
			structural = false
			wantIdx := m.logSize
			if lg := mutate(R.s, op); lg != nil && (lg.Index != wantIdx || lg.TxIndex != 0 || lg.TxHash != (common.Hash{})) {
				return &failure{Oracle: "log-index" + sfx(), Field: "logs",
					Detail: fmt.Sprintf("AddLog assigned Index=%d TxIndex=%d TxHash=%x, want Index=%d (number of live logs) TxIndex=0 TxHash=0", lg.Index, lg.TxIndex, lg.TxHash, wantIdx), Step: step}, true
			}
			m.applyMutator(op)
			eff = append(eff, op)
		}
		if tr != nil && !c.Cold {
			tr("  step %d %-28s -> %s", step, op.String(), obsSummary(observe(R.s, c.na())))
		}
		if c.Cold {
			if wantObs() {
				o := obsReal(R.s)
				if f := vsModel(&o, "observables-vs-model(cold)"); f != nil {
					return f, true
				}
			}
			continue
		}
		if c.ObsEvery || structural || step == len(prog)-1 {
			o := obsReal(R.s)
			if f := vsModel(&o, "observables-vs-model"); f != nil {
				return f, true
			}
			noteState(&m)
		}
	}
	if m != initial {
		atomic.AddInt64(&cntModelMoved, 1)
	}
	// Copy independence: whatever happened on the main line, each bystander still shows what it
	// showed when the copy was taken, and commits to the root of the content it had then.
	step = len(prog)
	for i := range bys {
		b := &bys[i]
		o := obsReal(b.s)
		atomic.AddInt64(&cntCopyChecks, 1)
		if o != b.obs {
			fields, detail := diffObs(&o, &b.obs)
			return &failure{Oracle: "copy-independence:" + b.which + "-changed", Field: fields[0], Detail: "the " + b.which + " changed while only the other object was operated on: " + detail, Step: step}, true
		}
		mb := b.m
		mb.finalise(true)
		root, err := b.s.Commit(true)
		sf := ""
		if b.midtx {
			sf = "+mid-tx-copy"
		}
		if err != nil {
			return &failure{Oracle: "bystander-commit" + sf, Field: "error", Detail: err.Error(), Step: step}, true
		}
		if ref := refRoot(&mb); root != ref {
			return &failure{Oracle: "bystander-commit:" + b.which + sf, Field: "root",
				Detail: fmt.Sprintf("the %s (bystander of a Copy) commits to %x, its content at copy time has reference root %x", b.which, root, ref), Step: step}, true
		}
	}
	return nil, true
}

// ---------------------------------------------------------------------------------------------
// fresh replay of the effective (non-reverted) operations, and content-built state

var freshCache sync.Map // compact program key -> common.Hash

func compactKey(p []Op) string {
	b := make([]byte, 0, 4*len(p))
	for _, o := range p {
		b = append(b, byte(o.K), byte(o.A), byte(o.S), byte(o.V))
	}
	return string(b)
}

func freshRoot(eff []Op) (root common.Hash, err error) {
	key := compactKey(eff)
	if len(eff) <= 4 {
		if v, ok := freshCache.Load(key); ok {
			return v.(common.Hash), nil
		}
	}
	defer func() {
		if p := recover(); p != nil {
			err = fmt.Errorf("panic: %v", p)
		}
	}()
	R := newReal(modeTrie)
	for _, op := range eff {
		switch op.K {
		case kFinalise:
			R.s.Finalise(op.V != 0)
		case kIntermediateRoot:
			R.s.IntermediateRoot(op.V != 0)
		case kCommit:
			root, err = R.commitReopen(op.V != 0)
			if err != nil {
				return root, err
			}
		default:
			mutate(R.s, op)
		}
		atomic.AddInt64(&cntTransitions, 1)
	}
	if len(eff) <= 4 {
		freshCache.Store(key, root)
	}
	return root, nil
}

var contentCache sync.Map // contentKey -> common.Hash

// contentBuiltRoot: a fresh StateDB is given exactly the model's final content with the plainest
// setters and committed once: "the root depends on the content only", decided on the real code.
func contentBuiltRoot(m *model) (root common.Hash, err error) {
	key := m.contentKey()
	if v, ok := contentCache.Load(key); ok {
		return v.(common.Hash), nil
	}
	defer func() {
		if p := recover(); p != nil {
			err = fmt.Errorf("panic: %v", p)
		}
	}()
	R := newReal(modeTrie)
	for a := NA - 1; a >= 0; a-- { // reverse order on purpose
		if !m.ex[a] {
			continue
		}
		ac := &m.ac[a]
		mutate(R.s, Op{K: kSetNonce, A: int8(a), V: int8(ac.nonce)})
		if ac.bal != 0 {
			mutate(R.s, Op{K: kSetBalance, A: int8(a), V: int8(ac.bal)})
		}
		if ac.code != 0 {
			mutate(R.s, Op{K: kSetCode, A: int8(a), V: ac.code})
		}
		for s := NS - 1; s >= 0; s-- {
			if ac.st[s] != 0 {
				mutate(R.s, Op{K: kSetState, A: int8(a), S: int8(s), V: ac.st[s]})
			}
		}
	}
	root, err = R.s.Commit(false)
	if err != nil {
		return root, err
	}
	contentCache.Store(key, root)
	return root, nil
}

// ---------------------------------------------------------------------------------------------
// distinct model states (sharded set of 128-bit fingerprints)

const stateShards = 256

var stateSets [stateShards]struct {
	mu sync.Mutex
	m  map[[2]uint64]struct{}
}

func (m *model) fingerprint() [2]uint64 {
	h1, h2 := uint64(14695981039346656037), uint64(0x9e3779b97f4a7c15)
	mix := func(b byte) {
		h1 = (h1 ^ uint64(b)) * 1099511628211
		h2 = (h2 + uint64(b) + 1) * 0xff51afd7ed558ccd
		h2 ^= h2 >> 29
	}
	bb := func(x bool) {
		if x {
			mix(1)
		} else {
			mix(0)
		}
	}
	for a := 0; a < NA; a++ {
		bb(m.ex[a])
		bb(m.dirty[a])
		ac := &m.ac[a]
		mix(byte(ac.nonce))
		mix(byte(ac.bal))
		mix(byte(ac.bal >> 8))
		mix(byte(ac.code))
		bb(ac.suicided)
		bb(m.alAddr[a])
		for s := 0; s < NS; s++ {
			mix(byte(ac.st[s]))
			mix(byte(ac.cst[s]))
			bb(m.alSlot[a][s])
			mix(byte(m.tr[a][s]))
		}
	}
	bb(m.jne)
	mix(byte(m.refund))
	mix(byte(m.nlogs))
	mix(byte(m.logSize))
	for i := 0; i < m.nlogs; i++ {
		mix(byte(m.logs[i].a))
		mix(byte(m.logs[i].v))
		mix(byte(m.logs[i].idx))
	}
	for v := 0; v < NV; v++ {
		bb(m.pre[v])
	}
	return [2]uint64{h1, h2}
}

func noteState(m *model) {
	fp := m.fingerprint()
	sh := &stateSets[fp[0]%stateShards]
	sh.mu.Lock()
	if sh.m == nil {
		sh.m = map[[2]uint64]struct{}{}
	}
	sh.m[fp] = struct{}{}
	sh.mu.Unlock()
}

func distinctStates() int64 {
	var n int64
	for i := range stateSets {
		stateSets[i].mu.Lock()
		n += int64(len(stateSets[i].m))
		stateSets[i].mu.Unlock()
	}
	return n
}

// obsSummary renders an observation compactly (replay output only).
func obsSummary(o Obs) string {
	var b []byte
	for a := 0; a < NA; a++ {
		x := &o.A[a]
		if !x.Exist {
			b = append(b, fmt.Sprintf("a%d:- ", a)...)
			continue
		}
		b = append(b, fmt.Sprintf("a%d:{bal=%s nonce=%d code=%dB st=[%d %d] committed=[%d %d]", a, x.Bal, x.Nonce, x.CodeSize, x.St[0][31], x.St[1][31], x.Cst[0][31], x.Cst[1][31])...)
		if x.Empty {
			b = append(b, " empty"...)
		}
		if x.Suicided {
			b = append(b, " suicided"...)
		}
		b = append(b, "} "...)
	}
	b = append(b, fmt.Sprintf("refund=%d logs=%q", o.Refund, o.Logs)...)
	for a := 0; a < NA; a++ {
		x := &o.A[a]
		if x.ALAddr || x.ALSlot[0] || x.ALSlot[1] {
			b = append(b, fmt.Sprintf(" al(a%d)=%v%v", a, x.ALAddr, x.ALSlot)...)
		}
		if x.Tr[0] != (common.Hash{}) || x.Tr[1] != (common.Hash{}) {
			b = append(b, fmt.Sprintf(" transient(a%d)=[%d %d]", a, x.Tr[0][31], x.Tr[1][31])...)
		}
	}
	if o.Err != "" {
		b = append(b, (" dberror=" + o.Err)...)
	}
	return string(b)
}
