package main

// The reference model: plain Go, value types only (a model snapshot is a struct copy), written from
// the go-ethereum definition of the StateDB semantics (journalled per-transaction state, EIP-161
// touch/empty deletion at Finalise, self-destruct effective at Finalise, CreateAccount carrying the
// balance over and resetting everything else). It never looks at the implementation.

import (
	"math/big"
	"strconv"
	"sync"

	gcommon "github.com/ethereum/go-ethereum/common"
	gcrypto "github.com/ethereum/go-ethereum/crypto"
	gmemdb "github.com/ethereum/go-ethereum/ethdb/memorydb"
	grlp "github.com/ethereum/go-ethereum/rlp"
	gtrie "github.com/ethereum/go-ethereum/trie"

	"github.com/kardiachain/go-kardia/lib/common"
)

const maxLogs = 12

type mAcct struct {
	nonce    uint64
	bal      int64
	code     int8 // 0 = no/empty code, 1 = code c
	st, cst  [NS]int8
	suicided bool
}

func (a *mAcct) empty() bool { return a.nonce == 0 && a.bal == 0 && a.code == 0 }

type mLog struct {
	a, v int8
	idx  uint
}

type model struct {
	ex    [NA]bool
	ac    [NA]mAcct
	dirty [NA]bool // has a live journal entry naming the account (journal.dirties)
	jne   bool     // journal non-empty (Finalise clears the refund only then)

	refund  uint64
	nlogs   int
	logs    [maxLogs]mLog
	logSize uint
	alAddr  [NA]bool
	alSlot  [NA][NS]bool
	tr      [NA][NS]int8
	pre     [NV]bool
}

func (m *model) touchJournal(a int8) {
	m.jne = true
	if a >= 0 {
		m.dirty[a] = true
	}
}

func (m *model) create(a int8) {
	m.ex[a] = true
	m.ac[a] = mAcct{}
	m.touchJournal(a)
}

func (m *model) getOrNew(a int8) *mAcct {
	if !m.ex[a] {
		m.create(a)
	}
	return &m.ac[a]
}

// feasible tells whether op may be issued in the current model state (by-design panics and
// arithmetic the real chain never performs are not part of the quantifier).
func (m *model) feasible(op Op, validRevs int) bool {
	switch op.K {
	case kSubBalance:
		if m.ex[op.A] {
			return m.ac[op.A].bal >= int64(op.V)
		}
		return op.V == 0
	case kSubRefund:
		return m.refund >= uint64(op.V)
	case kRevert:
		_, ok := resolveRev(int(op.V), validRevs)
		return ok
	case kAddLog:
		return m.nlogs < maxLogs
	}
	return true
}

func resolveRev(v, valid int) (int, bool) {
	if v < 0 {
		v = valid + v
	}
	return v, v >= 0 && v < valid
}

// applyMutator applies a mutator token.
func (m *model) applyMutator(op Op) {
	a := op.A
	switch op.K {
	case kAddBalance:
		ac := m.getOrNew(a)
		if op.V == 0 {
			if ac.empty() {
				m.touchJournal(a) // touchChange
			}
			return
		}
		ac.bal += int64(op.V)
		m.touchJournal(a)
	case kSubBalance:
		ac := m.getOrNew(a)
		if op.V == 0 {
			return
		}
		ac.bal -= int64(op.V)
		m.touchJournal(a)
	case kSetBalance:
		ac := m.getOrNew(a)
		ac.bal = int64(op.V)
		m.touchJournal(a)
	case kSetNonce:
		ac := m.getOrNew(a)
		ac.nonce = uint64(op.V)
		m.touchJournal(a)
	case kSetCode:
		ac := m.getOrNew(a)
		ac.code = op.V
		m.touchJournal(a)
	case kSetState:
		ac := m.getOrNew(a)
		if ac.st[op.S] != op.V {
			ac.st[op.S] = op.V
			m.touchJournal(a)
		}
	case kSuicide:
		if m.ex[a] {
			m.ac[a].suicided = true
			m.ac[a].bal = 0
			m.touchJournal(a)
		}
	case kCreateAccount:
		var carry int64
		if m.ex[a] {
			carry = m.ac[a].bal
		}
		m.create(a)
		m.ac[a].bal = carry
	case kAddRefund:
		m.refund += uint64(op.V)
		m.touchJournal(-1)
	case kSubRefund:
		m.refund -= uint64(op.V)
		m.touchJournal(-1)
	case kAddLog:
		m.logs[m.nlogs] = mLog{a: a, v: op.V, idx: m.logSize}
		m.nlogs++
		m.logSize++
		m.touchJournal(-1)
	case kAddAddrAL:
		if !m.alAddr[a] {
			m.alAddr[a] = true
			m.touchJournal(-1)
		}
	case kAddSlotAL:
		if !m.alAddr[a] {
			m.alAddr[a] = true
			m.touchJournal(-1)
		}
		if !m.alSlot[a][op.S] {
			m.alSlot[a][op.S] = true
			m.touchJournal(-1)
		}
	case kSetTransient:
		if m.tr[a][op.S] != op.V {
			m.tr[a][op.S] = op.V
			m.touchJournal(-1)
		}
	case kAddPreimage:
		if !m.pre[op.V] {
			m.pre[op.V] = true
			m.touchJournal(-1)
		}
	default:
		panic("applyMutator: not a mutator")
	}
}

// finalise: end of a transaction.
func (m *model) finalise(deleteEmpty bool) {
	for a := 0; a < NA; a++ {
		if m.dirty[a] && m.ex[a] {
			if m.ac[a].suicided || (deleteEmpty && m.ac[a].empty()) {
				m.ex[a] = false
				m.ac[a] = mAcct{}
			}
		}
	}
	for a := 0; a < NA; a++ {
		if m.ex[a] {
			m.ac[a].cst = m.ac[a].st
		}
		m.dirty[a] = false
	}
	if m.jne {
		m.refund = 0
		m.jne = false
	}
}

// reopen: a new StateDB over the committed root has no per-transaction / per-block scratch state.
func (m *model) reopen() {
	m.refund = 0
	m.nlogs, m.logSize = 0, 0
	m.logs = [maxLogs]mLog{}
	m.alAddr = [NA]bool{}
	m.alSlot = [NA][NS]bool{}
	m.tr = [NA][NS]int8{}
	m.pre = [NV]bool{}
	m.jne = false
	m.dirty = [NA]bool{}
}

// obs renders the model as the observation the real object must show.
func (m *model) obs(na int) (o Obs) {
	for a := 0; a < na; a++ {
		x := &o.A[a]
		x.Bal = "0"
		x.ALAddr = m.alAddr[a]
		for s := 0; s < NS; s++ {
			x.ALSlotAddr[s] = m.alAddr[a]
			x.ALSlot[s] = m.alSlot[a][s]
			x.Tr[s] = vals[m.tr[a][s]]
		}
		x.Empty = true
		if !m.ex[a] {
			continue
		}
		ac := &m.ac[a]
		x.Exist = true
		x.Empty = ac.empty()
		x.Suicided = ac.suicided
		x.Bal = strconv.FormatInt(ac.bal, 10)
		x.Nonce = ac.nonce
		if ac.code == 1 {
			x.Code = string(codes[1])
			x.CodeHash = codeHashes[1]
			x.CodeSize = len(codes[1])
		} else {
			x.CodeHash = codeHashes[0]
		}
		for s := 0; s < NS; s++ {
			x.St[s] = vals[ac.st[s]]
			x.Cst[s] = vals[ac.cst[s]]
		}
	}
	o.Refund = m.refund
	if m.nlogs > 0 {
		var b []byte
		for i := 0; i < m.nlogs; i++ {
			l := m.logs[i]
			b = appendLog(b, l.idx, addrs[l.a], []common.Hash{vals[l.v]}, []byte{byte(l.v)}, common.Hash{}, 0)
		}
		o.Logs = string(b)
	}
	var p [NV + 1]byte
	n := 0
	for v := 0; v < NV; v++ {
		p[v] = '0'
		if m.pre[v] {
			p[v] = '1'
			n++
		}
	}
	p[NV] = byte('0' + n)
	o.Pre = string(p[:])
	return o
}

// contentKey identifies the committed content (accounts only) of a finalised model.
func (m *model) contentKey() string {
	var b []byte
	for a := 0; a < NA; a++ {
		if !m.ex[a] {
			b = append(b, '-')
			continue
		}
		ac := &m.ac[a]
		b = append(b, 'A', byte(ac.nonce), byte(ac.bal), byte(ac.bal>>8), byte(ac.code))
		for s := 0; s < NS; s++ {
			b = append(b, byte(ac.st[s]))
		}
	}
	return string(b)
}

// ---------------------------------------------------------------------------------------------
// Reference root: go-ethereum v1.9.15 trie + rlp + keccak over the Ethereum account layout
// rlp([nonce, balance, storageRoot, codeHash]), storage value = rlp(trimmed big-endian value),
// keys = keccak(address) / keccak(slot). Independent of the repository's trie, rlp and crypto.

type refAccount struct {
	Nonce    uint64
	Balance  *big.Int
	Root     gcommon.Hash
	CodeHash []byte
}

var refRootCache sync.Map // contentKey -> common.Hash

func refRoot(m *model) common.Hash {
	key := m.contentKey()
	if v, ok := refRootCache.Load(key); ok {
		return v.(common.Hash)
	}
	tdb := gtrie.NewDatabase(gmemdb.New())
	tr, err := gtrie.New(gcommon.Hash{}, tdb)
	if err != nil {
		panic(err)
	}
	for a := 0; a < NA; a++ {
		if !m.ex[a] {
			continue
		}
		ac := &m.ac[a]
		st, err := gtrie.New(gcommon.Hash{}, tdb)
		if err != nil {
			panic(err)
		}
		for s := 0; s < NS; s++ {
			if ac.st[s] == 0 {
				continue
			}
			v := vals[ac.st[s]]
			i := 0
			for i < len(v) && v[i] == 0 {
				i++
			}
			enc, err := grlp.EncodeToBytes(v[i:])
			if err != nil {
				panic(err)
			}
			st.Update(gcrypto.Keccak256(slots[s][:]), enc)
		}
		acc := refAccount{Nonce: ac.nonce, Balance: big.NewInt(ac.bal), Root: st.Hash(), CodeHash: gcrypto.Keccak256(codes[ac.code])}
		enc, err := grlp.EncodeToBytes(&acc)
		if err != nil {
			panic(err)
		}
		tr.Update(gcrypto.Keccak256(addrs[a][:]), enc)
	}
	h := common.Hash(tr.Hash())
	refRootCache.Store(key, h)
	return h
}
