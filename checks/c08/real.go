package main

// Driver of the REAL StateDB (github.com/kardiachain/go-kardia/kai/state) and the observation
// function: every public getter over the whole universe.

import (
	"fmt"
	"math/big"
	"sort"
	"strconv"

	"github.com/kardiachain/go-kardia/kai/kaidb"
	"github.com/kardiachain/go-kardia/kai/kaidb/memorydb"
	"github.com/kardiachain/go-kardia/kai/state"
	"github.com/kardiachain/go-kardia/kai/state/snapshot"
	"github.com/kardiachain/go-kardia/lib/common"
	"github.com/kardiachain/go-kardia/types"

	gcrypto "github.com/ethereum/go-ethereum/crypto"
)

var (
	addrs      [NA]common.Address
	slots      [NS]common.Hash
	vals       [NV]common.Hash
	codes      = [2][]byte{{}, {0x60, 0x01, 0x00}}
	codeHashes [2]common.Hash
	preHashes  [NV]common.Hash
)

func initUniverse() {
	// 0x..03 (the RIPEMD precompile) has a by-design journal exception; it is not in the universe.
	addrs[0] = common.HexToAddress("0x00000000000000000000000000000000000000a0")
	addrs[1] = common.HexToAddress("0x00000000000000000000000000000000000000a1")
	addrs[2] = common.HexToAddress("0x1000000000000000000000000000000000000ca2")
	for s := 0; s < NS; s++ {
		slots[s] = common.BigToHash(big.NewInt(int64(s)))
	}
	for v := 0; v < NV; v++ {
		vals[v] = common.BigToHash(big.NewInt(int64(v)))
		preHashes[v] = common.BytesToHash(gcrypto.Keccak256([]byte{byte(v)}))
	}
	for c := range codes {
		codeHashes[c] = common.BytesToHash(gcrypto.Keccak256(codes[c]))
	}
}

// ---------------------------------------------------------------------------------------------
// Observation

type aObs struct {
	Bal        string
	Nonce      uint64
	Code       string
	CodeHash   common.Hash
	CodeSize   int
	St, Cst    [NS]common.Hash
	Exist      bool
	Empty      bool
	Suicided   bool
	ALAddr     bool
	ALSlotAddr [NS]bool
	ALSlot     [NS]bool
	Tr         [NS]common.Hash
}

// Obs is comparable with ==.
type Obs struct {
	A      [NA]aObs
	Refund uint64
	Logs   string
	Pre    string
	Err    string
}

func appendLog(b []byte, idx uint, addr common.Address, topics []common.Hash, data []byte, txh common.Hash, txi uint) []byte {
	b = strconv.AppendUint(b, uint64(idx), 10)
	b = append(b, ':')
	b = append(b, fmt.Sprintf("%x", addr[:])...)
	b = append(b, ':')
	for _, t := range topics {
		b = append(b, fmt.Sprintf("%x,", t[30:])...)
	}
	b = append(b, ':')
	b = append(b, fmt.Sprintf("%x", data)...)
	b = append(b, ':')
	if txh != (common.Hash{}) {
		b = append(b, fmt.Sprintf("%x", txh[:])...)
	}
	b = append(b, ':')
	b = strconv.AppendUint(b, uint64(txi), 10)
	b = append(b, ';')
	return b
}

func observe(s *state.StateDB, na int) (o Obs) {
	for a := 0; a < na; a++ {
		ad := addrs[a]
		x := &o.A[a]
		if b := s.GetBalance(ad); b == nil {
			x.Bal = "<nil>"
		} else if b.IsInt64() {
			x.Bal = strconv.FormatInt(b.Int64(), 10)
		} else {
			x.Bal = b.String()
		}
		x.Nonce = s.GetNonce(ad)
		x.Code = string(s.GetCode(ad))
		x.CodeHash = s.GetCodeHash(ad)
		x.CodeSize = s.GetCodeSize(ad)
		for sl := 0; sl < NS; sl++ {
			x.St[sl] = s.GetState(ad, slots[sl])
			x.Cst[sl] = s.GetCommittedState(ad, slots[sl])
			x.ALSlotAddr[sl], x.ALSlot[sl] = s.SlotInAccessList(ad, slots[sl])
			x.Tr[sl] = s.GetTransientState(ad, slots[sl])
		}
		x.Exist = s.Exist(ad)
		x.Empty = s.Empty(ad)
		x.Suicided = s.HasSuicided(ad)
		x.ALAddr = s.AddressInAccessList(ad)
	}
	o.Refund = s.GetRefund()
	if logs := s.Logs(); len(logs) > 0 {
		ls := make([]*types.Log, len(logs))
		copy(ls, logs)
		sort.SliceStable(ls, func(i, j int) bool { return ls[i].Index < ls[j].Index })
		var b []byte
		for _, l := range ls {
			b = appendLog(b, l.Index, l.Address, l.Topics, l.Data, l.TxHash, l.TxIndex)
		}
		o.Logs = string(b)
	}
	pm := s.Preimages()
	var p [NV + 1]byte
	for v := 0; v < NV; v++ {
		p[v] = '0'
		if img, ok := pm[preHashes[v]]; ok {
			if len(img) == 1 && img[0] == byte(v) {
				p[v] = '1'
			} else {
				p[v] = 'X'
			}
		}
	}
	p[NV] = byte('0' + len(pm))
	o.Pre = string(p[:])
	if e := s.Error(); e != nil {
		o.Err = e.Error()
	}
	return o
}

// diffObs lists the observables that differ, as "field(args)" strings; the first element's field
// name (without arguments) is the violation's field class.
func diffObs(got, want *Obs) (fields []string, detail string) {
	add := func(f, args string, g, w interface{}) {
		fields = append(fields, f)
		if detail == "" {
			detail = fmt.Sprintf("%s(%s): got %v want %v", f, args, g, w)
		}
	}
	for a := 0; a < NA; a++ {
		g, w := &got.A[a], &want.A[a]
		an := "a" + strconv.Itoa(a)
		if g.Exist != w.Exist {
			add("exist", an, g.Exist, w.Exist)
		}
		if g.Empty != w.Empty {
			add("empty", an, g.Empty, w.Empty)
		}
		if g.Suicided != w.Suicided {
			add("suicided", an, g.Suicided, w.Suicided)
		}
		if g.Bal != w.Bal {
			add("balance", an, g.Bal, w.Bal)
		}
		if g.Nonce != w.Nonce {
			add("nonce", an, g.Nonce, w.Nonce)
		}
		if g.Code != w.Code {
			add("code", an, fmt.Sprintf("%x", g.Code), fmt.Sprintf("%x", w.Code))
		}
		if g.CodeHash != w.CodeHash {
			add("codehash", an, g.CodeHash.Hex(), w.CodeHash.Hex())
		}
		if g.CodeSize != w.CodeSize {
			add("codesize", an, g.CodeSize, w.CodeSize)
		}
		for s := 0; s < NS; s++ {
			sn := an + ",s" + strconv.Itoa(s)
			if g.St[s] != w.St[s] {
				add("state", sn, g.St[s][31], w.St[s][31])
			}
			if g.Cst[s] != w.Cst[s] {
				add("committed-state", sn, g.Cst[s][31], w.Cst[s][31])
			}
			if g.ALSlot[s] != w.ALSlot[s] || g.ALSlotAddr[s] != w.ALSlotAddr[s] {
				add("access-list-slot", sn, fmt.Sprint(g.ALSlotAddr[s], g.ALSlot[s]), fmt.Sprint(w.ALSlotAddr[s], w.ALSlot[s]))
			}
			if g.Tr[s] != w.Tr[s] {
				add("transient", sn, g.Tr[s][31], w.Tr[s][31])
			}
		}
		if g.ALAddr != w.ALAddr {
			add("access-list-address", an, g.ALAddr, w.ALAddr)
		}
	}
	if got.Refund != want.Refund {
		add("refund", "", got.Refund, want.Refund)
	}
	if got.Logs != want.Logs {
		add("logs", "", got.Logs, want.Logs)
	}
	if got.Pre != want.Pre {
		add("preimages", "", got.Pre, want.Pre)
	}
	if got.Err != want.Err {
		add("dberror", "", got.Err, want.Err)
	}
	return
}

// ---------------------------------------------------------------------------------------------
// The real object

const (
	modeTrie     = 0 // state.New(root, db, nil)
	modeSnapDiff = 1 // snapshot tree, committed layers stay in-memory diff layers
	modeSnapFlat = 2 // snapshot tree, every commit is flattened into the disk layer (Cap(root, 0))
)

var modeName = [...]string{"trie", "snap-diff", "snap-flat"}

type realSt struct {
	mode  int
	disk  kaidb.Database
	db    state.Database
	snaps *snapshot.Tree
	s     *state.StateDB
}

func newReal(mode int) *realSt {
	R := &realSt{mode: mode}
	R.disk = memorydb.New()
	R.db = state.NewDatabase(R.disk)
	if mode != modeTrie {
		var err error
		R.snaps, err = snapshot.New(snapshot.Config{CacheSize: 1, Recovery: false, NoBuild: false, AsyncBuild: false}, R.disk, R.db.TrieDB(), types.EmptyRootHash)
		if err != nil {
			panic(fmt.Sprintf("snapshot.New: %v", err))
		}
	}
	s, err := state.New(types.EmptyRootHash, R.db, R.snaps)
	if err != nil {
		panic(fmt.Sprintf("state.New(empty): %v", err))
	}
	R.s = s
	return R
}

// journalReload: Tree.Journal(root) writes the diff layers into the database; a new tree is loaded
// from the database (no rebuild from the trie: NoBuild, so a journal that does not load is an error,
// not silently repaired) and replaces the old one.
func (R *realSt) journalReload(root common.Hash) error {
	old := R.snaps
	drop := func() { // Journal has stopped the generator: the old tree must not be Disable()d any more
		snapshot.VerifResetCachesC08(old)
		R.snaps = nil
	}
	if _, err := R.snaps.Journal(root); err != nil {
		drop()
		return fmt.Errorf("Tree.Journal: %v", err)
	}
	nt, err := snapshot.New(snapshot.Config{CacheSize: 1, NoBuild: true}, R.disk, R.db.TrieDB(), root)
	if err != nil || nt == nil {
		drop()
		return fmt.Errorf("snapshot.New (reload from journal): %v", err)
	}
	snapshot.VerifResetCachesC08(R.snaps)
	R.snaps = nt
	return nil
}

func (R *realSt) release() {
	if R.snaps != nil {
		snapshot.VerifReleaseC08(R.snaps)
		R.snaps = nil
	}
}

// mutate applies a mutator token to a real StateDB; for AddLog the log object (whose Index, TxHash
// and TxIndex the StateDB fills in) is returned.
func mutate(s *state.StateDB, op Op) (lg *types.Log) {
	a := addrs[op.A]
	switch op.K {
	case kAddBalance:
		s.AddBalance(a, big.NewInt(int64(op.V)))
	case kSubBalance:
		s.SubBalance(a, big.NewInt(int64(op.V)))
	case kSetBalance:
		s.SetBalance(a, big.NewInt(int64(op.V)))
	case kSetNonce:
		s.SetNonce(a, uint64(op.V))
	case kSetCode:
		s.SetCode(a, append([]byte{}, codes[op.V]...))
	case kSetState:
		s.SetState(a, slots[op.S], vals[op.V])
	case kSuicide:
		s.Suicide(a)
	case kCreateAccount:
		s.CreateAccount(a)
	case kAddRefund:
		s.AddRefund(uint64(op.V))
	case kSubRefund:
		s.SubRefund(uint64(op.V))
	case kAddLog:
		lg = &types.Log{Address: a, Topics: []common.Hash{vals[op.V]}, Data: []byte{byte(op.V)}}
		s.AddLog(lg)
	case kAddAddrAL:
		s.AddAddressToAccessList(a)
	case kAddSlotAL:
		s.AddSlotToAccessList(a, slots[op.S])
	case kSetTransient:
		s.SetTransientState(a, slots[op.S], vals[op.V])
	case kAddPreimage:
		s.AddPreimage(preHashes[op.V], []byte{byte(op.V)})
	default:
		panic("mutate: not a mutator")
	}
	return lg
}

// commitReopen commits and opens a new StateDB over the committed root (through the snapshot tree
// in the snapshot modes).
func (R *realSt) commitReopen(deleteEmpty bool) (common.Hash, error) {
	root, err := R.s.Commit(deleteEmpty)
	if err != nil {
		return root, fmt.Errorf("Commit: %v", err)
	}
	if R.mode == modeSnapFlat {
		_ = R.snaps.Cap(root, 0) // error when root is already the disk layer (no-op commit)
	}
	s, err := state.New(root, R.db, R.snaps)
	if err != nil {
		return root, fmt.Errorf("state.New(committed root): %v", err)
	}
	R.s = s
	return root, nil
}
