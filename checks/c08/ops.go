package main

import (
	"fmt"
	"strconv"
	"strings"
)

// ---------------------------------------------------------------------------------------------
// The universe: 3 addresses x 2 storage slots x values {0,1,2}; 2 codes {empty, c}.

const (
	NA = 3 // addresses
	NS = 2 // storage slots
	NV = 3 // values 0,1,2
)

// Kind is an operation kind (a token of the alphabet without its arguments).
type Kind uint8

const (
	kAddBalance Kind = iota
	kSubBalance
	kSetBalance
	kSetNonce
	kSetCode
	kSetState
	kSuicide
	kCreateAccount
	kAddRefund
	kSubRefund
	kAddLog
	kAddAddrAL
	kAddSlotAL
	kSetTransient
	kAddPreimage
	// structure tokens
	kSnapshot
	kRevert           // V = index into the stack of currently valid revisions; negative = from the top (-1 = latest)
	kFinalise         // V = deleteEmptyObjects
	kIntermediateRoot // V = deleteEmptyObjects
	kCommit           // Commit(V) then state.New(root, db, snaps)
	kCopyC            // Copy(); the program continues on the copy, the original is the bystander
	kCopyO            // Copy(); the program continues on the original, the copy is the bystander
	kCap              // snapshot modes only, directly after a Commit/Cap/JournalReload: snapshot.Tree.Cap(committed root, V) on the tree the StateDB uses, then reopen through the tree
	kJournal          // snapshot modes only, same position: Tree.Journal(root) + snapshot.New(...) reload of the tree from the database (BlockChain.Stop / NewBlockChain), then reopen
	numKinds
)

var kindName = [numKinds]string{
	"AddBalance", "SubBalance", "SetBalance", "SetNonce", "SetCode", "SetState", "Suicide", "CreateAccount",
	"AddRefund", "SubRefund", "AddLog", "AddAddressToAccessList", "AddSlotToAccessList", "SetTransientState", "AddPreimage",
	"Snapshot", "RevertToSnapshot", "Finalise", "IntermediateRoot", "Commit+reopen", "Copy>copy", "Copy>orig",
	"SnapshotCap", "SnapshotJournalReload",
}

// argument shape per kind: a = address, s = slot, v = value/flag
var kindArgs = [numKinds]string{
	"av", "av", "av", "av", "av", "asv", "a", "a",
	"v", "v", "av", "a", "as", "asv", "v",
	"", "v", "v", "v", "v", "", "",
	"v", "",
}

func (k Kind) isMutator() bool { return k < kSnapshot }

// Op is one token with its arguments.
type Op struct {
	K       Kind
	A, S, V int8
}

func (o Op) String() string {
	var parts []string
	for _, c := range kindArgs[o.K] {
		switch c {
		case 'a':
			parts = append(parts, "a"+strconv.Itoa(int(o.A)))
		case 's':
			parts = append(parts, "s"+strconv.Itoa(int(o.S)))
		case 'v':
			parts = append(parts, strconv.Itoa(int(o.V)))
		}
	}
	return kindName[o.K] + "(" + strings.Join(parts, ",") + ")"
}

// sigToken is the form used in violation signatures: mutators without arguments, structure tokens
// with their flag (deleteEmptyObjects matters semantically), reverts without the index.
func (o Op) sigToken() string {
	switch o.K {
	case kFinalise, kIntermediateRoot, kCommit:
		if o.V != 0 {
			return kindName[o.K] + "(true)"
		}
		return kindName[o.K] + "(false)"
	case kCap:
		return kindName[o.K] + "(" + strconv.Itoa(int(o.V)) + ")"
	}
	return kindName[o.K]
}

func parseOp(s string) (Op, error) {
	i := strings.IndexByte(s, '(')
	if i < 0 || !strings.HasSuffix(s, ")") {
		return Op{}, fmt.Errorf("bad op %q", s)
	}
	name, argstr := s[:i], s[i+1:len(s)-1]
	var o Op
	found := false
	for k := Kind(0); k < numKinds; k++ {
		if kindName[k] == name {
			o.K, found = k, true
		}
	}
	if !found {
		return Op{}, fmt.Errorf("unknown op kind %q", name)
	}
	var args []string
	if argstr != "" {
		args = strings.Split(argstr, ",")
	}
	shape := kindArgs[o.K]
	if len(args) != len(shape) {
		return Op{}, fmt.Errorf("op %q: want %d arguments", s, len(shape))
	}
	for j, c := range shape {
		a := strings.TrimSpace(args[j])
		if c == 'a' || c == 's' {
			if len(a) < 2 || a[0] != byte(c) {
				return Op{}, fmt.Errorf("op %q: bad argument %q", s, a)
			}
			a = a[1:]
		}
		n, err := strconv.Atoi(a)
		if err != nil {
			return Op{}, fmt.Errorf("op %q: %v", s, err)
		}
		switch c {
		case 'a':
			if n < 0 || n >= NA {
				return Op{}, fmt.Errorf("op %q: address out of universe", s)
			}
			o.A = int8(n)
		case 's':
			if n < 0 || n >= NS {
				return Op{}, fmt.Errorf("op %q: slot out of universe", s)
			}
			o.S = int8(n)
		case 'v':
			o.V = int8(n)
		}
	}
	return o, nil
}

func progStrings(p []Op) []string {
	out := make([]string, len(p))
	for i, o := range p {
		out[i] = o.String()
	}
	return out
}

func progString(p []Op) string { return strings.Join(progStrings(p), ";") }

func parseProg(ss []string) ([]Op, error) {
	var p []Op
	for _, s := range ss {
		o, err := parseOp(s)
		if err != nil {
			return nil, err
		}
		p = append(p, o)
	}
	return p, nil
}

func sigHistory(p []Op) string {
	parts := make([]string, len(p))
	for i, o := range p {
		parts[i] = o.sigToken()
	}
	return strings.Join(parts, ";")
}

// ---------------------------------------------------------------------------------------------
// Alphabets

// fullAlphabet: every mutator kind with every argument combination of the universe.
func fullAlphabet() []Op {
	var al []Op
	for a := int8(0); a < NA; a++ {
		for v := int8(0); v < NV; v++ {
			al = append(al, Op{K: kAddBalance, A: a, V: v})
			al = append(al, Op{K: kSubBalance, A: a, V: v})
			al = append(al, Op{K: kSetBalance, A: a, V: v})
			al = append(al, Op{K: kSetNonce, A: a, V: v})
		}
		for c := int8(0); c < 2; c++ {
			al = append(al, Op{K: kSetCode, A: a, V: c})
		}
		for s := int8(0); s < NS; s++ {
			for v := int8(0); v < NV; v++ {
				al = append(al, Op{K: kSetState, A: a, S: s, V: v})
				al = append(al, Op{K: kSetTransient, A: a, S: s, V: v})
			}
			al = append(al, Op{K: kAddSlotAL, A: a, S: s})
		}
		al = append(al, Op{K: kSuicide, A: a})
		al = append(al, Op{K: kCreateAccount, A: a})
		al = append(al, Op{K: kAddLog, A: a, V: 1})
		al = append(al, Op{K: kAddAddrAL, A: a})
	}
	for v := int8(1); v < NV; v++ {
		al = append(al, Op{K: kAddRefund, V: v})
		al = append(al, Op{K: kSubRefund, V: v})
		al = append(al, Op{K: kAddPreimage, V: v})
	}
	return al
}

// coreAlphabet: every mutator kind, concentrated on a0 (to force collisions) with a few tokens on a1
// (to exercise the shared journal / dirty counting across accounts). Used where the full argument
// product is out of reach.
func coreAlphabet() []Op {
	return []Op{
		{K: kAddBalance, A: 0, V: 0}, // touch
		{K: kAddBalance, A: 0, V: 1},
		{K: kSubBalance, A: 0, V: 1},
		{K: kSetBalance, A: 0, V: 2},
		{K: kSetNonce, A: 0, V: 1},
		{K: kSetNonce, A: 0, V: 0}, // creates an empty account
		{K: kSetCode, A: 0, V: 1},
		{K: kSetCode, A: 0, V: 0},
		{K: kSetState, A: 0, S: 0, V: 1},
		{K: kSetState, A: 0, S: 0, V: 2},
		{K: kSetState, A: 0, S: 0, V: 0},
		{K: kSetState, A: 0, S: 1, V: 1},
		{K: kSuicide, A: 0},
		{K: kCreateAccount, A: 0},
		{K: kAddBalance, A: 1, V: 1},
		{K: kSetState, A: 1, S: 0, V: 1},
		{K: kSuicide, A: 1},
		{K: kCreateAccount, A: 1},
		{K: kAddRefund, V: 1},
		{K: kSubRefund, V: 1},
		{K: kAddLog, A: 0, V: 1},
		{K: kAddAddrAL, A: 0},
		{K: kAddSlotAL, A: 0, S: 0},
		{K: kAddSlotAL, A: 0, S: 1},
		{K: kSetTransient, A: 0, S: 0, V: 1},
		{K: kSetTransient, A: 0, S: 0, V: 0},
		{K: kAddPreimage, V: 1},
	}
}

// structureAlphabet: the structure tokens of the straight-sequence enumeration.
func structureAlphabet() []Op {
	return []Op{
		{K: kSnapshot},
		{K: kRevert, V: -1}, // latest valid revision
		{K: kRevert, V: 0},  // oldest valid revision
		{K: kFinalise, V: 1},
		{K: kFinalise, V: 0},
		{K: kIntermediateRoot, V: 1},
		{K: kIntermediateRoot, V: 0},
		{K: kCommit, V: 1},
		{K: kCommit, V: 0},
		{K: kCopyC},
		{K: kCopyO},
	}
}

// finishers: how a prefix P is closed before the Snapshot of a revert program (none = nil).
func finishers() [][]Op {
	return [][]Op{
		nil,
		{{K: kFinalise, V: 1}},
		{{K: kFinalise, V: 0}},
		{{K: kIntermediateRoot, V: 1}},
		{{K: kIntermediateRoot, V: 0}},
		{{K: kCommit, V: 1}},
		{{K: kCommit, V: 0}},
	}
}
