package main

// Snapshot-iterator oracle: the account iterator and the storage iterators of the snapshot tree at a
// committed root must list exactly the accounts / non-zero slots of the reference model (hash-keyed,
// slim-RLP account blobs, RLP slot values). Decoding is done with go-ethereum's rlp/keccak.

import (
	"bytes"
	"fmt"
	"math/big"

	gcrypto "github.com/ethereum/go-ethereum/crypto"
	grlp "github.com/ethereum/go-ethereum/rlp"

	"github.com/kardiachain/go-kardia/kai/state/snapshot"
	"github.com/kardiachain/go-kardia/lib/common"
)

type slimAccount struct {
	Nonce    uint64
	Balance  *big.Int
	Root     []byte
	CodeHash []byte
}

var (
	addrHashes [NA]common.Hash
	slotHashes [NS]common.Hash
)

func initHashes() {
	for a := range addrs {
		addrHashes[a] = common.BytesToHash(gcrypto.Keccak256(addrs[a][:]))
	}
	for s := range slots {
		slotHashes[s] = common.BytesToHash(gcrypto.Keccak256(slots[s][:]))
	}
}

// snapshotIteratorsVsModel returns ("", "") when the iterators list exactly the model.
func snapshotIteratorsVsModel(t *snapshot.Tree, root common.Hash, m *model) (field, detail string) {
	if t == nil {
		return "", ""
	}
	ait, err := t.AccountIterator(root, common.Hash{})
	if err != nil {
		return "error", "AccountIterator: " + err.Error()
	}
	seen := map[common.Hash]bool{}
	for ait.Next() {
		h := ait.Hash()
		blob := ait.Account()
		a := -1
		for i := range addrHashes {
			if addrHashes[i] == h {
				a = i
			}
		}
		if a < 0 {
			ait.Release()
			return "account-set", fmt.Sprintf("account iterator lists an unknown account hash %x", h)
		}
		if seen[h] {
			ait.Release()
			return "account-set", fmt.Sprintf("account iterator lists a%d twice", a)
		}
		seen[h] = true
		if !m.ex[a] {
			ait.Release()
			return "account-set", fmt.Sprintf("account iterator lists a%d, which does not exist in the model", a)
		}
		var acc slimAccount
		if err := grlp.DecodeBytes(blob, &acc); err != nil {
			ait.Release()
			return "account-blob", fmt.Sprintf("a%d: undecodable slim account %x: %v", a, blob, err)
		}
		ac := &m.ac[a]
		wantCode := []byte(nil)
		if ac.code == 1 {
			wantCode = codeHashes[1][:]
		}
		if acc.Nonce != ac.nonce || acc.Balance == nil || acc.Balance.Cmp(big.NewInt(ac.bal)) != 0 || !bytes.Equal(acc.CodeHash, wantCode) {
			ait.Release()
			return "account-blob", fmt.Sprintf("a%d: iterator account nonce=%d balance=%v codehash=%x, model nonce=%d balance=%d codehash=%x", a, acc.Nonce, acc.Balance, acc.CodeHash, ac.nonce, ac.bal, wantCode)
		}
	}
	err = ait.Error()
	ait.Release()
	if err != nil {
		return "error", "AccountIterator: " + err.Error()
	}
	for a := 0; a < NA; a++ {
		if m.ex[a] && !seen[addrHashes[a]] {
			return "account-set", fmt.Sprintf("account iterator does not list a%d, which exists in the model", a)
		}
	}
	for a := 0; a < NA; a++ {
		if !m.ex[a] {
			continue
		}
		sit, err := t.StorageIterator(root, addrHashes[a], common.Hash{})
		if err != nil {
			return "error", "StorageIterator: " + err.Error()
		}
		var got [NS]int
		for s := range got {
			got[s] = -1
		}
		for sit.Next() {
			h := sit.Hash()
			sl := -1
			for i := range slotHashes {
				if slotHashes[i] == h {
					sl = i
				}
			}
			if sl < 0 {
				sit.Release()
				return "storage-set", fmt.Sprintf("storage iterator of a%d lists an unknown slot hash %x", a, h)
			}
			var v []byte
			if err := grlp.DecodeBytes(sit.Slot(), &v); err != nil || len(v) != 1 {
				sit.Release()
				return "storage-value", fmt.Sprintf("storage iterator of a%d, s%d: blob %x", a, sl, sit.Slot())
			}
			got[sl] = int(v[0])
		}
		err = sit.Error()
		sit.Release()
		if err != nil {
			return "error", "StorageIterator: " + err.Error()
		}
		for s := 0; s < NS; s++ {
			want := int(m.ac[a].st[s])
			switch {
			case want == 0 && got[s] >= 0:
				return "storage-set", fmt.Sprintf("storage iterator of a%d lists s%d=%d, the slot is zero in the model", a, s, got[s])
			case want != 0 && got[s] < 0:
				return "storage-set", fmt.Sprintf("storage iterator of a%d does not list s%d, model value %d", a, s, want)
			case want != 0 && got[s] != want:
				return "storage-value", fmt.Sprintf("storage iterator of a%d lists s%d=%d, model value %d", a, s, got[s], want)
			}
		}
	}
	return "", ""
}
