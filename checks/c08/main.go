// C08 — state changes are atomic: RevertToSnapshot restores exactly every observable (for nested
// snapshots too); a Copy is independent of the original; the committed root depends on the content
// only; committed state reads back (through the trie and through the snapshot layers).
//
// Engine E2/E3 (small-scope exhaustive enumeration on the REAL kai/state.StateDB): universe of
// 3 addresses x 2 slots x values {0,1,2}; every program `P ; [finisher] ; Snapshot ; B ; Revert ;
// observe ; Commit` up to the tier's bounds and every straight token sequence up to the tier's depth
// over mutators + {Snapshot, Revert, Finalise, IntermediateRoot, Commit+reopen, Copy}, plus the deep,
// narrow stage E3 "incarnations" (one address, 13 tokens, depth 6/7) aimed at the destruct / re-create /
// IntermediateRoot interplay of the storage tiers, and E4 "multi-transaction slot histories" (one account,
// 10 tokens, depth 7/8, fresh and committed slot) aimed at writes to one slot spread over several
// transactions of a block with nested snapshots, and E5 "destruct markers under a snapshot tree". E3-E5 run
// each sequence "hot" (getters after every token) and "cold" (no getter before the end), in trie mode and
// with a snapshot tree (read-back through it must equal the model and a trie-only reopen); E6 "snapshot
// layering" drives the real Tree.Cap / Journal+reload between blocks. See DESIGN.md section 4 / C08 and the `rule` written
// into the evidence.
package main

import (
	"flag"
	"fmt"
	"os"
	"runtime/debug"
	"runtime/pprof"
	"sort"
	"strconv"
	"strings"
	"sync"
	"sync/atomic"
	"time"

	"verif/mc/par"
	"verif/mc/report"
)

var r *report.Run

// ---------------------------------------------------------------------------------------------
// failing programs are collected during the enumeration and minimised afterwards (deterministic
// order), so that the set of signatures does not depend on goroutine scheduling.

type failing struct {
	prog []Op
	cfg  runCfg
	f    failure
}

const maxFailing = 200000

var (
	failMu   sync.Mutex
	failings []failing
	stopFlag int32

	samplesFull int32
)

// failures of the known class F1 (copy-drops-journal) are all reported under one signature: only
// their number per consequence and the smallest representative are kept.
var (
	midCount   = map[string]int{}
	midBest    *failing
	midBestKey string
)

func orderKey(prog []Op, c runCfg) string {
	cold := 0
	if c.Cold {
		cold = 1
	}
	return fmt.Sprintf("%03d|%s|%d|%d", len(prog), progString(prog), c.Mode, cold)
}

func recordFailure(prog []Op, c runCfg, f *failure) {
	cp := append([]Op{}, prog...)
	if isMidTx(f) {
		k := orderKey(prog, c)
		failMu.Lock()
		midCount[f.class()]++
		if midBest == nil || k < midBestKey {
			midBest, midBestKey = &failing{prog: cp, cfg: c, f: *f}, k
		}
		failMu.Unlock()
		return
	}
	failMu.Lock()
	failings = append(failings, failing{prog: cp, cfg: c, f: *f})
	if len(failings) >= maxFailing {
		atomic.StoreInt32(&stopFlag, 1)
	}
	failMu.Unlock()
}

func stopped() bool { return atomic.LoadInt32(&stopFlag) != 0 || r.Expired() }

func execute(prog []Op, c runCfg) {
	atomic.AddInt64(&cntPrograms, 1)
	if c.Cold {
		atomic.AddInt64(&cntColdProgs, 1)
	}
	if c.Mode != modeTrie {
		atomic.AddInt64(&cntSnapProgs, 1)
	}
	f, ok := run(prog, c, nil)
	if !ok {
		return
	}
	if f != nil {
		recordFailure(prog, c, f)
		return
	}
	if atomic.LoadInt32(&samplesFull) == 0 && len(prog) >= 4 && atomic.LoadInt64(&cntPrograms)%97 == 0 {
		if r.WantSample() {
			r.Sample(map[string]interface{}{"mode": modeName[c.Mode], "program": progStrings(prog), "result": "all oracles hold"})
		} else {
			atomic.StoreInt32(&samplesFull, 1)
		}
	}
}

// ---------------------------------------------------------------------------------------------
// shrinking

func stillFails(p []Op, c runCfg, class string) bool {
	f, ok := run(p, c, nil)
	return ok && f != nil && f.class() == class
}

func simplerOps(o Op) []Op {
	var out []Op
	shape := kindArgs[o.K]
	if !o.K.isMutator() {
		return nil
	}
	// lower kinds first (canonicalises which mutator stands for "some change of the account")
	for k := Kind(0); k < o.K; k++ {
		ks := kindArgs[k]
		if strings.Contains(ks, "a") != strings.Contains(shape, "a") {
			continue
		}
		for v := int8(0); v < NV; v++ {
			c := Op{K: k, A: o.A, V: v}
			if !strings.Contains(ks, "v") {
				c.V = 0
			}
			if k == kSetCode && v > 1 {
				continue
			}
			out = append(out, c)
			if !strings.Contains(ks, "v") {
				break
			}
		}
	}
	if strings.Contains(shape, "a") {
		for a := int8(0); a < o.A; a++ {
			c := o
			c.A = a
			out = append(out, c)
		}
	}
	if strings.Contains(shape, "s") {
		for s := int8(0); s < o.S; s++ {
			c := o
			c.S = s
			out = append(out, c)
		}
	}
	if strings.Contains(shape, "v") {
		for v := int8(0); v < o.V; v++ {
			c := o
			c.V = v
			out = append(out, c)
		}
	}
	return out
}

func shrink(prog []Op, c runCfg, class string) ([]Op, runCfg) {
	prog = append([]Op{}, prog...)
	for _, m := range []int{modeTrie, modeSnapDiff} {
		if m < c.Mode {
			cc := c
			cc.Mode = m
			if stillFails(prog, cc, class) {
				c = cc
				break
			}
		}
	}
	for changed := true; changed; {
		changed = false
		for i := len(prog) - 1; i >= 0; i-- {
			cand := append(append([]Op{}, prog[:i]...), prog[i+1:]...)
			if len(cand) > 0 && stillFails(cand, c, class) {
				prog = cand
				changed = true
			}
		}
		for i := len(prog) - 1; i >= 1 && !changed; i-- {
			for j := i - 1; j >= 0; j-- {
				cand := append([]Op{}, prog[:j]...)
				cand = append(cand, prog[j+1:i]...)
				cand = append(cand, prog[i+1:]...)
				if len(cand) > 0 && stillFails(cand, c, class) {
					prog = cand
					changed = true
					break
				}
			}
		}
		for i := range prog {
			for _, alt := range simplerOps(prog[i]) {
				cand := append([]Op{}, prog...)
				cand[i] = alt
				if stillFails(cand, c, class) {
					prog = cand
					changed = true
					break
				}
			}
		}
	}
	// relabel addresses in order of first appearance
	var mp [NA]int8
	for i := range mp {
		mp[i] = -1
	}
	next := int8(0)
	cand := append([]Op{}, prog...)
	for i, o := range cand {
		if strings.Contains(kindArgs[o.K], "a") {
			if mp[o.A] < 0 {
				mp[o.A] = next
				next++
			}
			cand[i].A = mp[o.A]
		}
	}
	if stillFails(cand, c, class) {
		prog = cand
	}
	return prog, c
}

// A Copy taken while the journal is non-empty does not carry the journal over (dirty set, refund
// bookkeeping). Every end-of-transaction consequence of that one root cause is reported under one
// signature; the oracle:field actually observed is kept in the description and the replay case.
var mergedMidTxOracles = []string{"root-vs-reference", "root-vs-content-built", "root-vs-fresh-replay", "observables-vs-model", "readback", "bystander-commit"}

func isMidTx(f *failure) bool {
	if !strings.Contains(f.Oracle, "mid-tx-copy") {
		return false
	}
	for _, o := range mergedMidTxOracles {
		if strings.HasPrefix(f.Oracle, o) {
			return true
		}
	}
	return false
}

const midTxSig = "C08|history=(journal non-empty);Copy;(end of transaction on the copy)|oracle=copy-drops-journal"

func makeSig(p []Op, c runCfg, f *failure) string {
	if isMidTx(f) {
		return midTxSig
	}
	s := "C08|history=" + sigHistory(p) + "|oracle=" + f.class()
	if c.Mode != modeTrie {
		s += "|mode=" + modeName[c.Mode]
	}
	if c.Cold {
		s += "|obs=cold"
	}
	return s
}

type replayCase struct {
	Mode     int      `json:"mode"`
	ModeName string   `json:"mode_name"`
	ObsEvery bool     `json:"obs_every"`
	ObsAddrs int      `json:"obs_addrs,omitempty"`
	Iter     bool     `json:"iter,omitempty"`
	Cold     bool     `json:"cold,omitempty"`
	ColdTail int      `json:"cold_tail,omitempty"`
	Ops      []string `json:"ops"`
	FoundIn  []string `json:"found_in,omitempty"`
	Detail   string   `json:"detail,omitempty"`
}

func processFailures() {
	failMu.Lock()
	fs := failings
	nmid := 0
	for _, n := range midCount {
		nmid += n
	}
	if midBest != nil {
		fs = append(fs, *midBest)
	}
	failMu.Unlock()
	if len(fs) == 0 {
		return
	}
	r.Add("failing_programs", int64(len(failings)+nmid))
	// deterministic order: shorter first, then by text, then by mode
	keys := make([]string, len(fs))
	for i := range fs {
		keys[i] = orderKey(fs[i].prog, fs[i].cfg)
	}
	idx := make([]int, len(fs))
	for i := range idx {
		idx[i] = i
	}
	sort.Slice(idx, func(a, b int) bool { return keys[idx[a]] < keys[idx[b]] })
	// one representative per (failure class, token-kind history, mode)
	seen := map[string]bool{}
	var reps []int
	for _, i := range idx {
		g := fs[i].f.class() + "|" + sigHistory(fs[i].prog) + "|" + modeName[fs[i].cfg.Mode]
		if fs[i].cfg.Cold {
			g += "|cold"
		}
		if isMidTx(&fs[i].f) {
			g = midTxSig
		}
		if !seen[g] {
			seen[g] = true
			reps = append(reps, i)
		}
	}
	r.Add("failing_program_groups", int64(len(reps)))
	const maxGroups = 3000 // only reached when nearly everything fails; the first groups are the smallest programs
	if len(reps) > maxGroups {
		r.Add("failing_program_groups_not_minimised", int64(len(reps)-maxGroups))
		reps = reps[:maxGroups]
	}
	var midList []string
	for c, n := range midCount {
		midList = append(midList, fmt.Sprintf("%s x%d", c, n))
	}
	sort.Strings(midList)
	type res struct {
		prog []Op
		cfg  runCfg
	}
	out := make([]res, len(reps))
	par.Each(len(reps), func(k int) {
		f := fs[reps[k]]
		p, c := shrink(f.prog, f.cfg, f.f.class())
		out[k] = res{p, c}
	})
	done := map[string]bool{}
	for k, o := range out {
		f2, ok := run(o.prog, o.cfg, nil)
		if !ok || f2 == nil {
			fmt.Printf("MACHINERY-ERROR property=C08 minimised program does not fail: %s\n", progString(o.prog))
			os.Exit(3)
		}
		sig := makeSig(o.prog, o.cfg, f2)
		if done[sig] {
			continue
		}
		done[sig] = true
		orig := fs[reps[k]]
		what := fmt.Sprintf("%s — %s; minimal history [%s] mode=%s", f2.class(), firstLine(f2.Detail), progString(o.prog), modeName[o.cfg.Mode])
		if isMidTx(f2) {
			what = fmt.Sprintf("a Copy() taken while the journal is non-empty drops the journal (dirty set / refund bookkeeping), so the end of the transaction on the copy differs from the original: "+
				"touched-empty and self-destructed accounts survive Finalise/Commit on the copy, dirty storage is not finalised, the refund counter is not cleared. e.g. %s; minimal history [%s]; consequences seen in this run: %s",
				firstLine(f2.Detail), progString(o.prog), strings.Join(midList, ", "))
		}
		rc := replayCase{Mode: o.cfg.Mode, ModeName: modeName[o.cfg.Mode], ObsEvery: o.cfg.ObsEvery, ObsAddrs: o.cfg.ObsAddrs, Cold: o.cfg.Cold, ColdTail: o.cfg.ColdTail, Iter: o.cfg.Iter, Ops: progStrings(o.prog), FoundIn: progStrings(orig.prog), Detail: f2.Detail}
		p, c := o.prog, o.cfg
		r.ViolationConfirmed(sig, what, rc, func() string {
			f3, ok := run(p, c, nil)
			if !ok || f3 == nil {
				return "no-violation"
			}
			return makeSig(p, c, f3)
		})
	}
}

func firstLine(s string) string {
	if i := strings.IndexByte(s, '\n'); i >= 0 {
		return s[:i]
	}
	return s
}

// ---------------------------------------------------------------------------------------------
// enumeration E1: P ; [finisher] ; Snapshot ; B (optionally with one nested Snapshot[/Revert]) ; Revert ; Commit

type nestVar struct {
	i, j   int // inner Snapshot before B[i]; inner Revert after B[j] (closed) or none (open)
	closed bool
}

func nestVariants(L int, nest bool) []nestVar {
	vs := []nestVar{{-1, -1, false}}
	if !nest {
		return vs
	}
	for i := 0; i < L; i++ {
		vs = append(vs, nestVar{i, -1, false}) // inner snapshot left open, the outer revert crosses it
		for j := i; j < L; j++ {
			vs = append(vs, nestVar{i, j, true})
		}
	}
	return vs
}

func ipow(n, e int) int64 {
	p := int64(1)
	for i := 0; i < e; i++ {
		p *= int64(n)
	}
	return p
}

type stageInfo struct {
	Name      string `json:"name"`
	Programs  int64  `json:"programs_in_stage"`
	Completed int64  `json:"programs_completed"`
	Executed  int64  `json:"executions_on_the_real_object"`
	Finished  bool   `json:"finished"`
}

var stages []stageInfo

var onlyFilter string

func skipStage(name string) bool { return onlyFilter != "" && !strings.Contains(name, onlyFilter) }

func stageE1(name string, alP, alB []Op, pl, bl int, fins [][]Op, nest bool, snapToo bool) {
	if skipStage(name) {
		return
	}
	if stopped() {
		stages = append(stages, stageInfo{Name: name})
		return
	}
	nF := len(fins)
	if pl == 0 {
		nF = 1
	}
	vars := nestVariants(bl, nest)
	nP, nB := ipow(len(alP), pl), ipow(len(alB), bl)
	total := nP * int64(nF) * nB * int64(len(vars))
	before := atomic.LoadInt64(&cntPrograms)
	done := par.For(total, 64, stopped, func(idx int64) {
		x := idx
		bi := x % nB
		x /= nB
		vi := int(x % int64(len(vars)))
		x /= int64(len(vars))
		fi := int(x % int64(nF))
		x /= int64(nF)
		pi := x
		prog := make([]Op, 0, pl+bl+6)
		for k := 0; k < pl; k++ {
			prog = append(prog, alP[pi%int64(len(alP))])
			pi /= int64(len(alP))
		}
		prog = append(prog, fins[fi]...)
		prog = append(prog, Op{K: kSnapshot})
		v := vars[vi]
		for k := 0; k < bl; k++ {
			if k == v.i {
				prog = append(prog, Op{K: kSnapshot})
			}
			prog = append(prog, alB[bi%int64(len(alB))])
			bi /= int64(len(alB))
			if v.closed && k == v.j {
				prog = append(prog, Op{K: kRevert, V: -1})
			}
		}
		// after the outer revert: a log probe (its Index shows the hidden log counter) and the closing commit
		prog = append(prog, Op{K: kRevert, V: 0}, Op{K: kAddLog, A: 0, V: 2}, Op{K: kCommit, V: 1})
		execute(prog, runCfg{Mode: modeTrie})
		if snapToo && pl > 0 && len(fins[fi]) > 0 && fins[fi][0].K != kFinalise {
			// with the snapshot tree: a change of ANOTHER account (a2) before the closing commit, so that
			// the commit is a state transition and this block's destruct set reaches the snapshot tree
			n := len(prog)
			progS := append(append([]Op{}, prog[:n-1]...), Op{K: kAddBalance, A: 2, V: 1}, prog[n-1])
			execute(progS, runCfg{Mode: modeSnapDiff})
			execute(prog, runCfg{Mode: modeSnapDiff})
		}
	})
	stages = append(stages, stageInfo{Name: name, Programs: total, Completed: done, Executed: atomic.LoadInt64(&cntPrograms) - before, Finished: done == total})
	if done != total {
		r.NotExhaustive(fmt.Sprintf("stage %s stopped after %d of %d programs", name, done, total))
	}
}

// enumeration E2: every straight sequence of length L over mutators + structure tokens, closed by Commit(true)
func stageE2(name string, al []Op, L int, modes func(prog []Op) []int) {
	if skipStage(name) {
		return
	}
	if stopped() {
		stages = append(stages, stageInfo{Name: name})
		return
	}
	total := ipow(len(al), L)
	before := atomic.LoadInt64(&cntPrograms)
	done := par.For(total, 64, stopped, func(idx int64) {
		prog := make([]Op, 0, L+1)
		x := idx
		for k := 0; k < L; k++ {
			prog = append(prog, al[x%int64(len(al))])
			x /= int64(len(al))
		}
		prog = append(prog, Op{K: kCommit, V: 1})
		for _, m := range modes(prog) {
			execute(prog, runCfg{Mode: m, ObsEvery: true})
		}
	})
	stages = append(stages, stageInfo{Name: name, Programs: total, Completed: done, Executed: atomic.LoadInt64(&cntPrograms) - before, Finished: done == total})
	if done != total {
		r.NotExhaustive(fmt.Sprintf("stage %s stopped after %d of %d sequences", name, done, total))
	}
}

func midTotal() int {
	failMu.Lock()
	defer failMu.Unlock()
	n := 0
	for _, c := range midCount {
		n += c
	}
	return n
}

// ---------------------------------------------------------------------------------------------
// enumeration E3 "incarnations": ONE address, deep sequences over the tokens that create, destroy and
// re-create an account and move its storage through the dirty / pending / origin / trie tiers.

func incarnationAlphabet() []Op {
	return []Op{
		{K: kAddBalance, A: 0, V: 1}, // make it exist (non-empty)
		{K: kCommit, V: 1},           // ... in the trie, on a reopened StateDB
		{K: kCreateAccount, A: 0},
		{K: kSuicide, A: 0},
		{K: kFinalise, V: 1},
		{K: kIntermediateRoot, V: 0},
		{K: kIntermediateRoot, V: 1},
		{K: kSetState, A: 0, S: 0, V: 1},
		{K: kSetState, A: 0, S: 0, V: 2},
		{K: kSetState, A: 0, S: 0, V: 0},
		{K: kSnapshot},
		{K: kRevert, V: -1},
		{K: kCopyC},
	}
}

var cntIncPruned int64

// usefulProgram is a model-only pre-pass of the deep, narrow stages E3/E4 (the real object is not touched): it rejects
// infeasible programs and programs that contain a token which, by the reference model, is a no-op
// at that point, because the same behaviour is enumerated by a shorter sequence of the same stage:
// Finalise with an empty journal, IntermediateRoot with nothing journalled or pending, Commit+reopen
// with nothing done since the last reopen, Suicide of a non-existent account, SetState to the current
// value, Revert directly after its Snapshot, a Snapshot that is never reverted to. Copies taken while
// the journal is non-empty are left to E2 (finding F1 is decided there).
func usefulProgram(prog []Op) bool {
	var (
		m       model
		msnaps  []model
		since   []int // tokens since each open snapshot
		pending bool  // something finalised but not yet flushed by IntermediateRoot/Commit
		changed bool  // anything done since the StateDB was (re)opened
		nDiff   int   // diff layers on top of the snapshot disk layer (upper bound)
		lastJ   bool  // previous token was a journal reload
	)
	for _, op := range prog {
		if !m.feasible(op, len(msnaps)) {
			return false
		}
		for i := range since {
			since[i]++
		}
		wasJ := lastJ
		lastJ = false
		switch op.K {
		case kCap:
			// only on a freshly (re)opened StateDB; a no-op when the diff stack is not deeper than V
			if changed || nDiff <= int(op.V) {
				return false
			}
			nDiff = int(op.V)
			if op.V > 0 {
				nDiff++ // the accumulator layer (may also have been flushed to disk)
			}
			continue
		case kJournal:
			if changed || wasJ || nDiff == 0 {
				return false // reloading a tree without diff layers journals nothing
			}
			lastJ = true
			continue
		case kSnapshot:
			msnaps = append(msnaps, m)
			since = append(since, 0)
			continue
		case kRevert:
			k, _ := resolveRev(int(op.V), len(msnaps))
			if op.V >= 0 && len(msnaps) == 1 {
				return false // Revert(oldest) with one open snapshot is Revert(latest)
			}
			if since[k] <= 1 {
				return false
			}
			m = msnaps[k]
			msnaps, since = msnaps[:k], since[:k]
			continue
		case kFinalise, kIntermediateRoot, kCommit:
			if len(msnaps) > 0 {
				return false // open snapshot dropped unused
			}
			switch op.K {
			case kFinalise:
				if !m.jne {
					return false
				}
				pending = true
			case kIntermediateRoot:
				if !m.jne && !pending {
					return false
				}
				pending = false
			case kCommit:
				if !changed {
					return false
				}
			}
			m.finalise(op.V != 0)
			if op.K == kCommit {
				m.reopen()
				pending, changed = false, false
				nDiff++
				continue
			}
		case kCopyC:
			if m.jne || len(msnaps) > 0 {
				return false
			}
		case kSuicide:
			if !m.ex[op.A] {
				return false
			}
			m.applyMutator(op)
		case kSetState:
			if m.ex[op.A] && m.ac[op.A].st[op.S] == op.V {
				return false
			}
			m.applyMutator(op)
		default:
			m.applyMutator(op)
		}
		changed = true
	}
	return len(msnaps) == 0
}

func stageInc(name string, L int, v seqVariants) {
	stageSeq(name, incarnationAlphabet(), nil, Op{K: kCommit, V: 1}, L, v)
}

// enumeration E4 "multi-transaction slot histories": one account, writes to the same slot spread over
// several transactions of one block (Finalise-only boundaries keep the earlier write in the pending
// tier, IntermediateRoot / Commit flush it), interleaved with nested snapshots and reverts.
func slotHistoryAlphabet() []Op {
	return []Op{
		{K: kSetState, A: 0, S: 0, V: 0}, // block-start value of a fresh slot
		{K: kSetState, A: 0, S: 0, V: 1}, // committed value in the "committed slot" base
		{K: kSetState, A: 0, S: 0, V: 2},
		{K: kSetState, A: 0, S: 1, V: 1}, // a second slot of the same account
		{K: kSnapshot},
		{K: kRevert, V: -1},
		{K: kRevert, V: 0},
		{K: kFinalise, V: 0},         // transaction boundary only
		{K: kIntermediateRoot, V: 0}, // boundary + flush into the trie
		{K: kCommit, V: 0},           // boundary + commit + reopen
	}
}

// the two bases of E4: a fresh slot of a fresh account, and a slot that exists in the committed trie
func slotHistoryBases() (names []string, prefixes [][]Op) {
	return []string{"fresh slot", "committed slot"},
		[][]Op{nil, {{K: kSetState, A: 0, S: 0, V: 1}, {K: kCommit, V: 0}}}
}

func stageSlots(name string, L int, modes seqVariants) {
	names, prefixes := slotHistoryBases()
	for i := range prefixes {
		// closed by Commit(false): the account holds nothing but storage, Commit(true) would delete it
		stageSeq(fmt.Sprintf("%s, %s", name, names[i]), slotHistoryAlphabet(), prefixes[i], Op{K: kCommit, V: 0}, L, modes)
	}
}

// enumeration E5 "destruct markers under a snapshot tree": a sub-alphabet of E3 (8 tokens) that reaches
// depth 7/8 WITH a snapshot tree attached: the per-block destruct set (stateObjectsDestruct) is not
// observable through getters; it only shows in what Commit hands to the snapshot tree. Covers both
// polarities of resetObjectChange.prevdestruct: CreateAccount over an existing account inside a
// reverted snapshot (marker must go), and over an account destructed earlier in the same block by
// Suicide+Finalise or by an earlier CreateAccount (marker must stay).
func destructMarkerAlphabet() []Op {
	return []Op{
		{K: kAddBalance, A: 0, V: 1},
		{K: kSetState, A: 0, S: 0, V: 1},
		{K: kCommit, V: 1},
		{K: kCreateAccount, A: 0},
		{K: kSuicide, A: 0},
		{K: kFinalise, V: 1},
		{K: kSnapshot},
		{K: kRevert, V: -1},
	}
}

func stageMarkers(name string, L int, v seqVariants) {
	stageSeq(name, destructMarkerAlphabet(), nil, Op{K: kCommit, V: 1}, L, v)
}

// enumeration E6 "snapshot layering": one account with two slots (plus a1, changed in every block),
// blocks committed on a snapshot tree kept as diff layers, and the real Tree.Cap(root, k) / Journal +
// reload applied between blocks, so that every layering is reached: diff-on-diff flatten into the
// accumulator layer, accumulator flushed into the disk layer (diffToDisk), mixed, journal round trip.
// (In production StateDB.Commit calls Tree.Cap(root, 128): the same code 129 blocks later.) Tokens are
// macros: "Commit" = AddBalance(a1,1);Commit(false)+reopen. Oracles after EVERY Commit / Cap / reload:
// model vs a fresh snapshot-backed StateDB vs a trie-only StateDB at the root, and the tree's account /
// storage iterators vs the model.
func layeringAlphabet() [][]Op {
	return [][]Op{
		{{K: kSetState, A: 0, S: 0, V: 0}},
		{{K: kSetState, A: 0, S: 0, V: 1}},
		{{K: kSetState, A: 0, S: 1, V: 1}},
		{{K: kSuicide, A: 0}},
		{{K: kCreateAccount, A: 0}},
		{{K: kAddBalance, A: 1, V: 1}, {K: kCommit, V: 0}},
		{{K: kCap, V: 0}},
		{{K: kCap, V: 1}},
		{{K: kCap, V: 2}},
		{{K: kJournal}},
	}
}

// bases of E6: empty tree; slot s0 of a0 non-zero and flushed into the snapshot DISK layer
func layeringBases() (names []string, prefixes [][]Op) {
	return []string{"empty base", "slot in the disk layer"},
		[][]Op{nil, {{K: kSetState, A: 0, S: 0, V: 1}, {K: kAddBalance, A: 1, V: 1}, {K: kCommit, V: 0}, {K: kCap, V: 0}}}
}

func stageLayering(name string, L int, cold bool) {
	names, prefixes := layeringBases()
	al := layeringAlphabet()
	for bi := range prefixes {
		nm := fmt.Sprintf("%s, %s (snap-diff hot", name, names[bi])
		if cold {
			nm += "+cold"
		}
		nm += ")"
		if skipStage(nm) {
			continue
		}
		if stopped() {
			stages = append(stages, stageInfo{Name: nm})
			continue
		}
		prefix := prefixes[bi]
		total := ipow(len(al), L)
		before := atomic.LoadInt64(&cntPrograms)
		closing := []Op{{K: kAddBalance, A: 1, V: 1}, {K: kCommit, V: 0}}
		done := par.For(total, 256, stopped, func(idx int64) {
			var buf [28]Op
			prog := append(buf[:0], prefix...)
			x := idx
			for k := 0; k < L; k++ {
				prog = append(prog, al[x%int64(len(al))]...)
				x /= int64(len(al))
			}
			if !usefulProgram(prog) {
				atomic.AddInt64(&cntIncPruned, 1)
				return
			}
			prog = append(prog, closing...)
			execute(prog, runCfg{Mode: modeSnapDiff, ObsEvery: true, ObsAddrs: 2, Iter: true})
			if cold {
				execute(prog, runCfg{Mode: modeSnapDiff, Cold: true, ColdTail: 2, ObsAddrs: 2, Iter: true})
			}
		})
		stages = append(stages, stageInfo{Name: nm, Programs: total, Completed: done, Executed: atomic.LoadInt64(&cntPrograms) - before, Finished: done == total})
		if done != total {
			r.NotExhaustive(fmt.Sprintf("stage %s stopped after %d of %d sequences", nm, done, total))
		}
	}
}

// seqVariants: how each useful sequence of a deep, narrow stage is executed.
//   - trie hot: seq + closing, all getters of a0 after every token (as before);
//   - trie cold: the same program, but no getter is called before the end of seq (observations warm
//     originStorage / the live-object set and can hide a wrong read path);
//   - snapshot modes: seq + AddBalance(a1,1) + closing, observing a0 and a1. The change of ANOTHER
//     account makes the closing commit a state transition, so the block's destruct set / account /
//     storage maps always reach the snapshot tree (StateDB.Commit skips snaps.Update when the root
//     did not change); read-back through the snapshot layers vs the model, and vs a trie-only
//     StateDB opened at the same root (cross-backing).
type seqVariants struct {
	noTrie    bool // only the snapshot-mode executions (the trie executions of these sequences belong to another stage / tier)
	trieCold  bool
	snapModes []int
	snapCold  bool
}

var (
	svTrie         = seqVariants{trieCold: true}
	svTrieSnapDiff = seqVariants{trieCold: true, snapModes: []int{modeSnapDiff}, snapCold: true}
	svSnapDiffHot  = seqVariants{noTrie: true, snapModes: []int{modeSnapDiff}}
	svAll          = seqVariants{trieCold: true, snapModes: []int{modeSnapDiff, modeSnapFlat}, snapCold: true}
)

func (v seqVariants) String() string {
	s := "trie hot"
	if v.trieCold {
		s += "+cold"
	}
	if v.noTrie {
		s = "no trie-mode execution"
	}
	for _, m := range v.snapModes {
		s += ", " + modeName[m] + " hot"
		if v.snapCold {
			s += "+cold"
		}
	}
	return s
}

// stageSeq: every sequence of length L over al, after prefix, closed by closing; pre-pass pruned;
// executed in the variants above.
func stageSeq(name string, al []Op, prefix []Op, closing Op, L int, v seqVariants) {
	name = name + " (" + v.String() + ")"
	if skipStage(name) {
		return
	}
	if stopped() {
		stages = append(stages, stageInfo{Name: name})
		return
	}
	total := ipow(len(al), L)
	before := atomic.LoadInt64(&cntPrograms)
	other := Op{K: kAddBalance, A: 1, V: 1}
	done := par.For(total, 256, stopped, func(idx int64) {
		var buf, buf2 [18]Op
		prog := append(buf[:0], prefix...)
		x := idx
		for k := 0; k < L; k++ {
			prog = append(prog, al[x%int64(len(al))])
			x /= int64(len(al))
		}
		if !usefulProgram(prog) {
			atomic.AddInt64(&cntIncPruned, 1)
			return
		}
		progS := append(append(buf2[:0], prog...), other, closing)
		prog = append(prog, closing)
		if !v.noTrie {
			execute(prog, runCfg{Mode: modeTrie, ObsEvery: true, ObsAddrs: 1})
		}
		if v.trieCold && !v.noTrie {
			execute(prog, runCfg{Mode: modeTrie, Cold: true, ColdTail: 1, ObsAddrs: 1})
		}
		for _, m := range v.snapModes {
			execute(progS, runCfg{Mode: m, ObsEvery: true, ObsAddrs: 2})
			if v.snapCold {
				execute(progS, runCfg{Mode: m, Cold: true, ColdTail: 2, ObsAddrs: 2})
			}
		}
	})
	stages = append(stages, stageInfo{Name: name, Programs: total, Completed: done, Executed: atomic.LoadInt64(&cntPrograms) - before, Finished: done == total})
	if done != total {
		r.NotExhaustive(fmt.Sprintf("stage %s stopped after %d of %d sequences", name, done, total))
	}
}

func hasKind(p []Op, ks ...Kind) bool {
	for _, o := range p {
		for _, k := range ks {
			if o.K == k {
				return true
			}
		}
	}
	return false
}

// ---------------------------------------------------------------------------------------------

func replay() {
	var rc replayCase
	if err := r.LoadReplay(&rc); err != nil {
		fmt.Println("MACHINERY-ERROR cannot load replay file:", err)
		os.Exit(2)
	}
	prog, err := parseProg(rc.Ops)
	if err != nil {
		fmt.Println("MACHINERY-ERROR bad replay case:", err)
		os.Exit(2)
	}
	c := runCfg{Mode: rc.Mode, ObsEvery: rc.ObsEvery, ObsAddrs: rc.ObsAddrs, Cold: rc.Cold, ColdTail: rc.ColdTail, Iter: rc.Iter}
	fmt.Printf("replaying on the real StateDB (mode %s): %s\n", modeName[c.Mode], progString(prog))
	f, ok := run(prog, c, nil) // the verdict comes from an undisturbed execution
	fmt.Println("trace (a second execution, with all getters read after every step):")
	run(prog, c, func(format string, args ...interface{}) { fmt.Printf(format+"\n", args...) })
	switch {
	case !ok:
		fmt.Println("program is infeasible (a precondition does not hold) — nothing observed")
	case f == nil:
		fmt.Println("all oracles hold: no violation")
	default:
		fmt.Printf("oracle %s fails at step %d: %s\n", f.class(), f.Step, f.Detail)
		r.Violation(makeSig(prog, c, f), f.class()+" — "+firstLine(f.Detail), rc)
	}
	r.Finish()
}

func main() {
	only := flag.String("only", "", "dev: run only stages whose name contains this string")
	bench := flag.Int("bench", 0, "dev: time N constructions of the real object")
	cpuprof := flag.String("cpuprofile", "", "dev: write a CPU profile")
	for _, a := range os.Args[1:] {
		if strings.HasPrefix(strings.TrimLeft(a, "-"), "only") || strings.HasPrefix(strings.TrimLeft(a, "-"), "bench") {
			os.Setenv("VERIF_NOEVIDENCE", "1") // a partial dev run never writes evidence
		}
	}
	if os.Getenv("VERIF_C08_DEADLINE") != "" {
		os.Setenv("VERIF_NOEVIDENCE", "1")
	}
	r = report.New("C08", "model_checking")
	initUniverse()
	initHashes()
	// The live heap is tiny and the allocation rate huge (one fresh database + StateDB per program):
	// a larger growth ratio saves most of the collector's work.
	gcp := 400
	if v, err := strconv.Atoi(os.Getenv("VERIF_C08_GOGC")); err == nil {
		gcp = v
	}
	debug.SetGCPercent(gcp)
	t0 := time.Now()
	if *bench > 0 {
		for _, m := range []int{modeTrie, modeSnapDiff} {
			t := time.Now()
			par.For(int64(*bench), 16, nil, func(i int64) {
				R := newReal(m)
				R.release()
			})
			fmt.Printf("bench newReal+release mode=%s: %d in %.2fs\n", modeName[m], *bench, time.Since(t).Seconds())
		}
		os.Exit(0)
	}
	if *cpuprof != "" {
		f, _ := os.Create(*cpuprof)
		pprof.StartCPUProfile(f)
		defer pprof.StopCPUProfile()
	}
	if r.ReplayPath != "" {
		replay()
		return
	}
	full, core, structure, fins := fullAlphabet(), coreAlphabet(), structureAlphabet(), finishers()
	straight := append(append([]Op{}, core...), structure...)
	onlyFilter = *only

	allModes := func(p []Op) []int { return []int{modeTrie, modeSnapDiff, modeSnapFlat} }
	commitModes := func(p []Op) []int {
		// the snapshot-tree modes only where an explicit Commit/IntermediateRoot precedes further tokens
		if hasKind(p[:len(p)-1], kCommit, kIntermediateRoot) {
			return []int{modeTrie, modeSnapDiff, modeSnapFlat}
		}
		return []int{modeTrie}
	}

	fins2 := [][]Op{nil, {{K: kCommit, V: 1}}}
	devDeadline := time.Duration(0) // dev only: VERIF_C08_DEADLINE=<seconds> (measurements on a loaded machine; never writes evidence)
	if v, err := strconv.Atoi(os.Getenv("VERIF_C08_DEADLINE")); err == nil && v > 0 {
		devDeadline = time.Duration(v) * time.Second
	}
	if r.Quick() {
		r.SetDeadline(120 * time.Second)
		if devDeadline > 0 {
			r.SetDeadline(devDeadline)
		}
		// smallest (cheapest) first
		stageE2("E2:straight L=1 (all modes)", straight, 1, allModes)
		stageE2("E2:straight L=2 (all modes)", straight, 2, allModes)
		for L := 1; L <= 4; L++ {
			stageInc(fmt.Sprintf("E3:incarnations L=%d", L), L, svAll)
		}
		for L := 1; L <= 4; L++ {
			stageSlots(fmt.Sprintf("E4:slot histories L=%d", L), L, svAll)
		}
		for L := 1; L <= 5; L++ {
			stageLayering(fmt.Sprintf("E6:snapshot layering L=%d", L), L, true)
		}
		stageE1("E1:|P|=0,|B|=0", core, core, 0, 0, fins, false, false)
		stageE1("E1:|P|=0,|B|=1 full", full, full, 0, 1, fins, true, false)
		stageE1("E1:|P|=1 core x 7 finishers,|B|=1 core (+snap)", core, core, 1, 1, fins, true, true)
		stageE1("E1:|P|=0,|B|=2 full", full, full, 0, 2, fins, false, false)
		stageSlots("E4:slot histories L=5", 5, svTrieSnapDiff)
		stageSlots("E4:slot histories L=6", 6, svTrie)
		stageInc("E3:incarnations L=5", 5, svTrieSnapDiff)
		stageE1("E1:|P|=1 core x 7 finishers,|B|=2 core (+snap)", core, core, 1, 2, fins, false, true)
		stageE2("E2:straight L=3 (snapshot modes after Commit/IntermediateRoot)", straight, 3, commitModes)
		stageMarkers("E5:destruct markers L=6", 6, svTrieSnapDiff)
		stageLayering("E6:snapshot layering L=6", 6, false)
		stageInc("E3:incarnations L=6", 6, svTrie)
		stageMarkers("E5:destruct markers L=7", 7, svSnapDiffHot)
		stageSlots("E4:slot histories L=7", 7, svTrie)
		stageE1("E1:|P|=1 full x 7 finishers,|B|=1 full (+snap)", full, full, 1, 1, fins, false, true)
		stageE1("E1:|P|=1 core x {none,Commit},|B|=2 full", core, full, 1, 2, fins2, false, false)
	} else {
		r.SetDeadline(13 * time.Minute)
		stageE2("E2:straight L=1 (all modes)", straight, 1, allModes)
		stageE2("E2:straight L=2 (all modes)", straight, 2, allModes)
		for L := 1; L <= 5; L++ {
			stageInc(fmt.Sprintf("E3:incarnations L=%d", L), L, svAll)
		}
		for L := 1; L <= 5; L++ {
			stageSlots(fmt.Sprintf("E4:slot histories L=%d", L), L, svAll)
		}
		stageSlots("E4:slot histories L=6", 6, svTrieSnapDiff)
		stageSlots("E4:slot histories L=7", 7, svTrie)
		for L := 1; L <= 6; L++ {
			stageLayering(fmt.Sprintf("E6:snapshot layering L=%d", L), L, true)
		}
		stageE1("E1:|P|=0,|B|=0", core, core, 0, 0, fins, false, false)
		stageE1("E1:|P|=0,|B|=1 full nested", full, full, 0, 1, fins, true, false)
		stageE1("E1:|P|=1 full x 7 finishers,|B|=1 full nested (+snap)", full, full, 1, 1, fins, true, true)
		stageE1("E1:|P|=0,|B|=2 full nested", full, full, 0, 2, fins, true, false)
		stageE2("E2:straight L=3 (all modes)", straight, 3, allModes)
		stageE1("E1:|P|=1 core x 7 finishers,|B|=2 core nested (+snap)", core, core, 1, 2, fins, true, true)
		stageE1("E1:|P|=1 full x 7 finishers,|B|=2 full", full, full, 1, 2, fins, false, false)
		stageInc("E3:incarnations L=6", 6, svTrieSnapDiff)
		stageE2("E2:straight L=4 (snapshot modes after Commit/IntermediateRoot)", straight, 4, commitModes)
		stageLayering("E6:snapshot layering L=7", 7, false)
		stageMarkers("E5:destruct markers L=7", 7, svAll)
		stageMarkers("E5:destruct markers L=8", 8, svTrieSnapDiff)
		stageInc("E3:incarnations L=7", 7, svTrie)
		stageSlots("E4:slot histories L=8", 8, svTrie)
		stageE1("E1:|P|=0,|B|=3 core nested", core, core, 0, 3, fins, true, false)
		stageE1("E1:|P|=2 core x 7 finishers,|B|=1 core nested (+snap)", core, core, 2, 1, fins, true, true)
		stageE1("E1:|P|=1 core x {none,Commit},|B|=3 core nested", core, core, 1, 3, fins2, true, false)
		stageE1("E1:|P|=2 core x {none,Commit},|B|=2 core nested", core, core, 2, 2, fins2, true, false)
		stageE1("E1:|P|=1 core x 7 finishers,|B|=3 core nested", core, core, 1, 3, fins, true, false)
		stageE1("E1:|P|=2 core x 7 finishers,|B|=2 core nested", core, core, 2, 2, fins, true, false)
		stageE1("E1:|P|=2 core x 7 finishers,|B|=3 core nested", core, core, 2, 3, fins, true, false)
	}
	if *cpuprof != "" {
		pprof.StopCPUProfile()
	}
	processFailures()
	for _, st := range stages {
		fmt.Printf("stage %-78s %10d / %10d sequences, %9d executions\n", st.Name, st.Completed, st.Programs, st.Executed)
	}
	fmt.Printf("programs=%d infeasible=%d transitions=%d observations=%d states=%d failing=%d elapsed=%.1fs\n", cntPrograms, cntInfeasible, cntTransitions, cntObserves, distinctStates(), len(failings)+midTotal(), time.Since(t0).Seconds())

	trans := atomic.LoadInt64(&cntTransitions)
	r.Add("programs", cntPrograms)
	r.Add("programs_infeasible_skipped", cntInfeasible)
	r.Add("incarnation_sequences_pruned_by_model_prepass", cntIncPruned)
	r.Add("programs_with_snapshot_tree", cntSnapProgs)
	r.Add("states", distinctStates())
	r.Add("transitions", trans)
	r.Add("traces_validated_against_impl", trans)
	r.Add("evaluations", cntPrograms)
	r.Add("observations_of_all_getters", cntObserves)
	r.Add("revert_checks", cntRevChecks)
	r.Add("revert_checks_nontrivial", cntRevNontriv)
	r.Add("root_checks", cntRootChecks)
	r.Add("readback_checks", cntReadbacks)
	r.Add("copy_checks", cntCopyChecks)
	r.Add("cross_backing_checks_snapshot_vs_trie", cntCrossBacking)
	r.Add("cold_executions", cntColdProgs)
	r.Add("snapshot_iterator_checks", cntIterChecks)
	r.Add("fresh_replay_checks", cntFreshReplay)
	perKind := map[string]int64{}
	for k := Kind(0); k < numKinds; k++ {
		perKind[kindName[k]] = atomic.LoadInt64(&cntKind[k])
		if *only == "" {
			r.Require(cntKind[k] > 0, "token kind never executed: "+kindName[k])
		}
	}
	r.Set("tokens_executed", perKind)
	r.Set("stages", stages)
	r.Set("alphabet_sizes", map[string]int{"full_mutators": len(full), "core_mutators": len(core), "structure": len(structure), "finishers": len(fins)})
	r.Set("rule", "E1: every program P;[finisher];Snapshot;B;RevertToSnapshot;Commit(true)+reopen per stage list (P,B over the stated alphabet, finisher in "+
		"{none,Finalise(t/f),IntermediateRoot(t/f),Commit(t/f)+reopen}, 'nested' = B additionally with one inner Snapshot at every position, closed by an inner Revert at every later position or left open); "+
		"E2: every straight sequence of the stated length over core mutators + {Snapshot,Revert(latest),Revert(oldest),Finalise(t/f),IntermediateRoot(t/f),Commit(t/f)+reopen,Copy>copy,Copy>orig} closed by Commit(true)+reopen, "+
		"each in trie mode and (where stated) with an in-memory snapshot tree kept as diff layers / flattened to the disk layer. "+
		"E3 'incarnations': every sequence of the stated length over the 13 tokens {AddBalance(a0,1),Commit(t)+reopen,CreateAccount(a0),Suicide(a0),Finalise(t),IntermediateRoot(f/t),SetState(a0,s0,1/2/0),Snapshot,Revert(latest),Copy>copy} closed by Commit(true)+reopen, all getters of a0 compared with the model after every token; "+
		"E4 'multi-transaction slot histories': every sequence of the stated length over the 10 tokens {SetState(a0,s0,0/1/2),SetState(a0,s1,1),Snapshot,Revert(latest),Revert(oldest),Finalise(f),IntermediateRoot(f),Commit(f)+reopen}, from two bases (empty state = fresh slot; SetState(a0,s0,1);Commit(f) = slot in the committed trie), closed by Commit(false)+reopen, same per-token comparison; "+
		"E5 'destruct markers under a snapshot tree': the 8-token sub-alphabet {AddBalance(a0,1),SetState(a0,s0,1),Commit(t)+reopen,CreateAccount(a0),Suicide(a0),Finalise(t),Snapshot,Revert(latest)} of E3 at depth 6-7 (thorough 8) with a snapshot tree attached (both polarities of the per-block destruct marker: CreateAccount over an existing account inside a reverted snapshot, and over an account destructed earlier in the same block). "+
		"E6 'snapshot layering': every sequence of the stated length over the 10 macro tokens {SetState(a0,s0,0/1),SetState(a0,s1,1),Suicide(a0),CreateAccount(a0),[AddBalance(a1,1);Commit(f)+reopen],SnapshotCap(0/1/2),SnapshotJournalReload}, from two bases (empty tree; s0 of a0 non-zero and flushed into the snapshot DISK layer by SetState;Commit;Cap(0)), in snap-diff mode; SnapshotCap(k) calls the real snapshot.Tree.Cap(committed root, k) on the tree the StateDB uses (StateDB.Commit itself calls Cap(root,128), a no-op at these depths), SnapshotJournalReload calls Tree.Journal(root) and loads a new tree from the database with snapshot.New(NoBuild) (BlockChain.Stop / NewBlockChain); both only directly after a Commit/Cap/reload and followed by a reopen through the tree. After EVERY Commit, Cap and reload: model vs fresh snapshot-backed StateDB vs trie-only StateDB at the root, and the tree's AccountIterator/StorageIterators must list exactly the model's accounts and non-zero slots. "+
		"Execution variants of E3/E4/E5 (named per stage): 'hot' = all getters after every token; 'cold' = the same program but NO getter is called before the end of the sequence (observations warm originStorage / the live-object set and can hide a wrong read path), oracles then: model at the end of the sequence, roots at every IntermediateRoot/Commit, read-back after the last Commit; "+
		"snapshot-mode executions of E3/E4/E5 append AddBalance(a1,1) before the closing Commit and E1's snapshot-mode executions are run a second time with AddBalance(a2,1) inserted before the closing Commit (a change of ANOTHER account makes the commit a state transition, so the block's destruct set and account/storage maps always reach the snapshot tree - Commit skips snaps.Update when the root is unchanged). "+
		"Cross-backing oracle: after every observed Commit in a snapshot mode the StateDB reopened WITH the snapshot tree must show exactly what a StateDB opened at the same root WITHOUT it shows (and both what the model shows); the history continues on the snapshot-backed object and every later root is compared with the reference root and with the trie-only content-built / fresh-replay roots. "+
		"in E3/E4/E5/E6 a model-only pre-pass drops infeasible sequences (E6 also: Cap(k) with at most k diff layers, a reload with no diff layer or directly after a reload) and sequences containing a token that is a no-op by the model at that point (covered by a shorter sequence of the stage), an unused Snapshot, or a Copy with a non-empty journal (F1 is decided in E2); the dropped sequences are counted. Programs whose next token is infeasible (SubBalance/SubRefund below zero, Revert without a valid revision) are skipped and counted. "+
		"states = distinct reference-model states reached (fingerprints); transitions = tokens executed on the real StateDB; a revert check is non-trivial when the model state differed from the snapshot before the revert.")
	r.Assume(
		"snapshot layering (E6) is driven through the public Tree.Cap / Tree.Journal / snapshot.New of the tree the StateDB uses instead of 129 blocks of history; a tree generated from the empty root keeps its generator's abort channel until the first flush, so Cap(k>=1) also flushes the accumulator to disk there - the production layering (accumulator kept in memory) is reached after a Cap(0) or a journal reload, both of which the enumeration contains",
		"the reference root is computed with go-ethereum v1.9.15 trie/rlp/keccak over rlp([nonce,balance,storageRoot,codeHash]); the repository's trie itself is C07's subject",
		"an ideal Copy is the identity on everything but the revision stack (documented: revisions of the original cannot be applied to the copy); failures that need a Copy taken while the journal is non-empty carry the oracle suffix mid-tx-copy",
		"address 0x03 (RIPEMD touch exception), SubRefund/SubBalance below zero and reverting to an invalidated revision are by-design behaviours outside the quantifier",
		"GetCommittedState means: the slot's value at the last Finalise/IntermediateRoot/Commit of the current account incarnation (go-ethereum definition)",
		"Finalise clears the refund counter only when the journal is non-empty (go-ethereum definition); logs, access list, transient storage and preimages live until the StateDB is reopened",
	)
	if *only == "" {
		r.Require(cntCrossBacking > 0, "no snapshot-vs-trie cross-backing check ran")
		r.Require(cntColdProgs > 0, "no cold execution ran")
		r.Require(cntIterChecks > 0, "no snapshot-iterator check ran")
		r.Require(cntModelMoved > 0, "the reference model never left its initial state")
		r.Require(cntRevNontriv > 0, "no revert had anything to undo")
		r.Require(cntReadbacks > 0, "no committed state was read back")
		r.Require(cntCopyChecks > 0, "no Copy was checked")
		r.Require(cntSnapProgs > 0, "no program ran with a snapshot tree")
		r.Require(cntFreshReplay > 0, "no fresh-replay root differential ran")
	}
	if !stoppedEarly() {
		r.Exhaustive(true)
	}
	r.Finish()
}

func stoppedEarly() bool {
	for _, s := range stages {
		if !s.Finished {
			return true
		}
	}
	return false
}
