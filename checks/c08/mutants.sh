#!/bin/bash
# Demonstrates that the C08 check can fail: applies every /verif/mutants/c08-*.patch (or those whose
# name contains $1) to a scratch worktree of /repo, runs the repository's own tests of the touched
# package, then the quick tier against the scratch tree. Prints one markdown table row per mutant.
# The unchanged tree already yields the copy-drops-journal finding, so a mutant counts as caught only
# by violation signatures OTHER than that one.
export GOFLAGS=-mod=mod GOPROXY=off GOSUMDB=off GOTOOLCHAIN=local
cd /verif
WT=/tmp/wt-c08-$$
KEY=$(python3 -c "import hashlib,sys; print(hashlib.sha1(sys.argv[1].encode()).hexdigest()[:10])" "$WT")
for p in mutants/c08-*${1:-}*.patch; do
  name=$(basename "$p" .patch)
  git -C /repo worktree add --detach "$WT" HEAD >/dev/null 2>&1 || { echo "| $name | worktree failed | | |"; continue; }
  if ! git -C "$WT" apply "/verif/$p"; then echo "| $name | patch does not apply | | |"; git -C /repo worktree remove --force "$WT"; continue; fi
  pkgs=$(git -C "$WT" diff --name-only | xargs -n1 dirname | sort -u | sed 's|^|./|')
  tests=pass
  ( cd "$WT" && go build $pkgs ./mainchain/... ./kvm/... >/dev/null 2>&1 ) || tests="DOES-NOT-COMPILE"
  if [ "$tests" = pass ]; then
    out=$(cd "$WT" && go test -vet=off -count=1 $pkgs 2>&1) || tests=FAIL
    echo "$out" | grep -q "no test files" && tests="$tests (package has no test files)"
  fi
  log=/tmp/c08-mut-$name.log
  VERIF_REPO="$WT" VERIF_NOEVIDENCE=1 timeout 600 ./run.sh C08 quick > "$log" 2>&1
  rc=$?
  new=$(grep '^violation: ' "$log" | grep -vc 'oracle=copy-drops-journal')
  sigs=$(grep '^violation: ' "$log" | grep -v 'oracle=copy-drops-journal' | sed 's/^violation: //; s/: .*//' | head -3 | sed 's/|/\\|/g' | tr '\n' ' ')
  caught=NO
  [ "$rc" = 1 ] && [ "$new" -gt 0 ] && caught=yes
  echo "| $name | $tests | $caught (exit $rc, $new new signatures) | $sigs |"
  git -C /repo worktree remove --force "$WT"
done
git -C /repo worktree prune
rm -rf "/verif/.build/$KEY"
