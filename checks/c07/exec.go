package main

import (
	"bytes"
	"fmt"
	"runtime/debug"
	"sort"
	"strings"

	"github.com/kardiachain/go-kardia/kai/kaidb/memorydb"
	"github.com/kardiachain/go-kardia/lib/common"
	"github.com/kardiachain/go-kardia/trie"
	"github.com/kardiachain/go-kardia/trie/trienode"
	"github.com/kardiachain/go-kardia/types"
)

// worker holds per-goroutine scratch and counters (merged into the report at the end).
type worker struct {
	shared *trie.Database // a trie database nothing is ever written to (for histories without Commit)

	transitions int64
	tokCount    [NT]int64
	reachedSeq  [NS]bool // content states reached by the sequence enumeration
	reachedAll  [NS]bool // content states reached anywhere
	reopens     int64
	copies      int64
	origChecks  int64
	iterLeaves  int64
	counters    map[string]int64
}

func newWorker() *worker {
	return &worker{shared: trie.NewDatabase(memorydb.New()), counters: map[string]int64{}}
}

type origTrie struct {
	t        *trie.Trie
	m        model
	dbBacked bool // holds unresolved references into the trie database
}

// run is one execution on a fresh real trie.
type run struct {
	w      *worker
	disk   *memorydb.Database
	tdb    *trie.Database
	t      *trie.Trie
	m      model
	origs  []origTrie
	parent common.Hash
	seq    bool

	dbBacked bool        // the current trie was reopened from the database at some point
	hasRef   bool        // refRoot is referenced in the dirty cache of x.tdb
	refRoot  common.Hash // (token R)
}

func newRun(w *worker, needDisk bool) *run {
	x := &run{w: w, parent: types.EmptyRootHash}
	if needDisk {
		x.disk = memorydb.New()
		x.tdb = trie.NewDatabase(x.disk)
	} else {
		x.tdb = w.shared
	}
	x.t = trie.NewEmpty(x.tdb)
	return x
}

func (x *run) mark() {
	s := x.m.idx()
	x.w.reachedAll[s] = true
	if x.seq {
		x.w.reachedSeq[s] = true
	}
}

func checkGets(t *trie.Trie, m *model) (string, string) {
	for k := 0; k < NK; k++ {
		v, err := t.Get(keys[k])
		if err != nil {
			return "get-error", fmt.Sprintf("Get(k%d) returns error %v", k, err)
		}
		if !bytes.Equal(v, vals[k][m[k]]) {
			return "get-vs-model", fmt.Sprintf("Get(k%d) = %x, last value written is %x (content %v)", k, v, vals[k][m[k]], *m)
		}
	}
	return "", ""
}

func checkHash(t *trie.Trie, m *model) (string, string) {
	h := t.Hash()
	if want := refRoots[m.idx()]; h != common.Hash(want) {
		return "root-vs-reference", fmt.Sprintf("Hash() = %x, independent reference root for content %v is %x", h[:], *m, want[:])
	}
	return "", ""
}

type leafKV struct{ k, v []byte }

// iterate lists the leaves of t through NodeIterator, sorted by key.
func iterate(t *trie.Trie) ([]leafKV, error) {
	it := trie.NewIterator(t.NodeIterator(nil))
	var out []leafKV
	for it.Next() {
		out = append(out, leafKV{common.CopyBytes(it.Key), common.CopyBytes(it.Value)})
		if len(out) > 64 {
			return out, fmt.Errorf("iterator does not terminate")
		}
	}
	if it.Err != nil {
		return out, it.Err
	}
	sort.SliceStable(out, func(i, j int) bool { return bytes.Compare(out[i].k, out[j].k) < 0 })
	return out, nil
}

func checkIter(t *trie.Trie, m *model, w *worker) (string, string) {
	got, err := iterate(t)
	if err != nil {
		return "iter-error", "NodeIterator fails: " + err.Error()
	}
	want := m.kvs()
	ok := len(got) == len(want)
	for i := 0; ok && i < len(got); i++ {
		ok = bytes.Equal(got[i].k, want[i].key) && bytes.Equal(got[i].v, want[i].val)
	}
	if !ok {
		var g []string
		for _, l := range got {
			g = append(g, fmt.Sprintf("%x=%x", l.k, l.v))
		}
		return "iter-vs-model", fmt.Sprintf("NodeIterator yields [%s] for content %v", strings.Join(g, " "), *m)
	}
	w.iterLeaves += int64(len(got))
	return "", ""
}

// commitReopen commits the trie, hands the node set to the trie database, flushes that to the
// disk database and reopens the root through a NEW trie database over the same disk (node restart).
func (x *run) commitReopen() (string, string) {
	root, nodes := x.t.Commit(false)
	if want := refRoots[x.m.idx()]; root != common.Hash(want) {
		return "root-vs-reference", fmt.Sprintf("Commit() root = %x, independent reference root for content %v is %x", root[:], x.m, want[:])
	}
	if nodes != nil {
		if err := x.tdb.Update(root, x.parent, trienode.NewWithNodeSet(nodes)); err != nil {
			return "commit-error", "trie database Update fails: " + err.Error()
		}
	}
	if err := x.tdb.Commit(root, false); err != nil {
		return "commit-error", "trie database Commit fails: " + err.Error()
	}
	x.parent = root
	x.tdb = trie.NewDatabase(x.disk)
	x.hasRef = false
	return x.reopen(root)
}

// commitRefReopen commits the trie into the dirty cache of the trie database WITHOUT flushing it to
// disk, references the new root, dereferences the previously referenced root (garbage collection by
// reference counting, the way the block chain keeps only recent states) and reopens the new root on
// the same trie database.
func (x *run) commitRefReopen() (string, string) {
	root, nodes := x.t.Commit(false)
	if want := refRoots[x.m.idx()]; root != common.Hash(want) {
		return "root-vs-reference", fmt.Sprintf("Commit() root = %x, independent reference root for content %v is %x", root[:], x.m, want[:])
	}
	if nodes != nil {
		if err := x.tdb.Update(root, x.parent, trienode.NewWithNodeSet(nodes)); err != nil {
			return "commit-error", "trie database Update fails: " + err.Error()
		}
	}
	if err := x.tdb.Reference(root, common.Hash{}); err != nil {
		return "commit-error", "trie database Reference fails: " + err.Error()
	}
	if x.hasRef {
		if err := x.tdb.Dereference(x.refRoot); err != nil {
			return "commit-error", "trie database Dereference fails: " + err.Error()
		}
		// tries opened on a dereferenced root may legitimately lose their nodes: stop watching them
		kept := x.origs[:0]
		for _, og := range x.origs {
			if !og.dbBacked {
				kept = append(kept, og)
			}
		}
		x.origs = kept
	}
	x.hasRef, x.refRoot = true, root
	x.parent = root
	x.w.counters["commit_reference_reopens"]++
	return x.reopen(root)
}

func (x *run) reopen(root common.Hash) (string, string) {
	t, err := trie.New(trie.TrieID(root), x.tdb)
	if err != nil {
		return "reopen-error", fmt.Sprintf("trie.New on the committed root of content %v fails: %v", x.m, err)
	}
	x.t = t
	x.dbBacked = true
	x.w.reopens++
	// the reopened trie iterates exactly the model (on a second instance so that the one we
	// continue with keeps its unresolved nodes)
	t2, err := trie.New(trie.TrieID(root), x.tdb)
	if err != nil {
		return "reopen-error", fmt.Sprintf("trie.New on the committed root of content %v fails: %v", x.m, err)
	}
	if o, d := checkIter(t2, &x.m, x.w); o != "" {
		return "reopen-" + o, "after commit and reopen: " + d
	}
	return "", ""
}

func (x *run) apply(tk uint8) (string, string) {
	x.w.transitions++
	x.w.tokCount[tk]++
	switch {
	case tk < tokD:
		k := int(tk) % NK
		kind := uint8(0)
		if tk < tokUL {
			kind = 1
		} else if tk < tokUE {
			kind = 2
		}
		if err := x.t.Update(keys[k], vals[k][kind]); err != nil {
			return "op-error", fmt.Sprintf("Update(k%d) returns error %v", k, err)
		}
		x.m[k] = kind
		x.mark()
	case tk < tokH:
		k := int(tk - tokD)
		if err := x.t.Delete(keys[k]); err != nil {
			return "op-error", fmt.Sprintf("Delete(k%d) returns error %v", k, err)
		}
		x.m[k] = 0
		x.mark()
	case tk == tokH:
		return checkHash(x.t, &x.m)
	case tk == tokC:
		return x.commitReopen()
	case tk == tokR:
		return x.commitRefReopen()
	case tk == tokY:
		x.origs = append(x.origs, origTrie{x.t, x.m, x.dbBacked})
		x.t = x.t.Copy()
		x.w.copies++
	case tk == tokG:
		return checkGets(x.t, &x.m)
	}
	return "", ""
}

// final is the observation at the end of every history: Get of every key, Hash, Get again, and the
// same for every trie a copy was taken from (it must still show the content it had then).
func (x *run) final() (string, string) {
	if o, d := checkGets(x.t, &x.m); o != "" {
		return o, d
	}
	if o, d := checkHash(x.t, &x.m); o != "" {
		return o, d
	}
	if o, d := checkGets(x.t, &x.m); o != "" {
		return o, "after Hash(): " + d
	}
	for i := range x.origs {
		og := &x.origs[i]
		x.w.origChecks++
		if o, d := checkGets(og.t, &og.m); o != "" {
			return "copy-original-" + o, "the trie a copy was taken from changed: " + d
		}
		if o, d := checkHash(og.t, &og.m); o != "" {
			return "copy-original-" + o, "the trie a copy was taken from changed: " + d
		}
	}
	return "", ""
}

func panicText(p interface{}) string {
	st := string(debug.Stack())
	// keep the frames below the recover
	if i := strings.Index(st, "panic("); i >= 0 {
		st = st[i:]
	}
	if len(st) > 1500 {
		st = st[:1500]
	}
	return fmt.Sprintf("%v\n%s", p, st)
}

// runOps executes ops on x and the final observation; panics of the code under test are a result.
func (x *run) runOps(ops []uint8) (oracle, detail string) {
	defer func() {
		if p := recover(); p != nil {
			oracle, detail = "panic", "trie code panics: "+panicText(p)
		}
	}()
	for i, tk := range ops {
		if o, d := x.apply(tk); o != "" {
			return o, fmt.Sprintf("at step %d (%s): %s", i+1, tokName(tk), d)
		}
	}
	return x.final()
}

func needsDisk(ops []uint8) bool { return hasTok(ops, tokC) || hasTok(ops, tokR) }

// runSeq: a history from the empty trie.
func runSeq(w *worker, ops []uint8) (string, string) {
	x := newRun(w, needsDisk(ops))
	x.seq = true
	return x.runOps(ops)
}

// Representations in which a content state is handed to further operations.
const (
	reprFresh    = 0 // keys inserted in ascending order, nothing hashed
	reprHashed   = 1 // then Hash()
	reprReopened = 2 // then commit + reopen (all nodes but the root are unresolved hash references)
	reprDesc     = 3 // keys inserted in descending order, nothing hashed
	NREPR        = 4
)

var reprNames = [NREPR]string{"fresh", "hashed", "reopened", "fresh-desc"}

// buildState brings a fresh trie to content state s in the given representation.
func buildState(w *worker, s int, repr int, needDisk bool) (x *run, oracle, detail string) {
	defer func() {
		if p := recover(); p != nil {
			oracle, detail = "panic", "trie code panics while building the state: "+panicText(p)
		}
	}()
	m := modelOf(s)
	x = newRun(w, needDisk || repr == reprReopened)
	for i := 0; i < NK; i++ {
		k := i
		if repr == reprDesc {
			k = NK - 1 - i
		}
		if m[k] != 0 {
			tk := uint8(tokUS + k)
			if m[k] == 2 {
				tk = uint8(tokUL + k)
			}
			if o, d := x.apply(tk); o != "" {
				return x, o, d
			}
		}
	}
	switch repr {
	case reprHashed:
		if o, d := x.apply(tokH); o != "" {
			return x, o, d
		}
	case reprReopened:
		if o, d := x.apply(tokC); o != "" {
			return x, o, d
		}
	}
	return x, "", ""
}
