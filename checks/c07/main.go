// C07 — the Merkle Patricia trie is an authenticated map with a canonical root.
//
// Engines E2/E3 on the real trie.Trie, trie.StackTrie, trie.Prove/VerifyProof/VerifyRangeProof,
// trie.Database (hashdb) and types.DeriveSha: explicit-state enumeration of operation histories
// over a small universe of colliding keys, compared with (a) a plain map model, (b) an independent
// reference root written from the MPT definition (ref.go), (c) go-ethereum v1.9.15's trie and
// (d) the StackTrie root for the sorted content. See DESIGN.md section 4 / C07.
package main

import (
	"fmt"
	"os"
	"runtime/debug"
	"runtime/pprof"
	"sort"
	"strings"
	"sync"
	"sync/atomic"
	"time"

	"verif/mc/par"
	"verif/mc/report"
)

var r *report.Run

var stopProfile = func() {}

// serialMode: enumerate on a single goroutine (set when the -race pass reported a data race).
var serialMode bool

// refRoots[s] is the independent reference root of content state s.
var refRoots [NS][32]byte

// ---------------------------------------------------------------------------------------------
// replayable cases, phases, minimal-violation collector

// Case identifies one executed case by its phase and its indices in that phase's enumeration.
type Case struct {
	Phase  string  `json:"phase"`
	N      []int64 `json:"n"`
	Descr  string  `json:"descr"`
	Oracle string  `json:"oracle"`
}

type phase struct {
	// descr names the input/history class of case n (goes into the signature)
	descr func(n []int64) string
	// run re-executes exactly case n and returns the failing oracle ("" if the property holds) and a detail text
	run func(w *worker, n []int64) (string, string)
}

var phases = map[string]*phase{}

type found struct {
	rank   []int64
	c      Case
	detail string
}

var (
	fmu       sync.Mutex
	best      = map[string]*found{}
	violCount int64
)

func lessRank(a, b []int64) bool {
	for i := 0; i < len(a) && i < len(b); i++ {
		if a[i] != b[i] {
			return a[i] < b[i]
		}
	}
	return len(a) < len(b)
}

// violation remembers, per (phase, oracle), the smallest failing case in enumeration order. The
// enumeration of a level is always completed, so the result does not depend on goroutine timing.
func violation(ph, oracle string, n []int64, detail string) {
	atomic.AddInt64(&violCount, 1)
	key := ph + "|" + oracle
	fmu.Lock()
	if b := best[key]; b == nil || lessRank(n, b.rank) {
		nn := append([]int64{}, n...)
		best[key] = &found{rank: nn, c: Case{Phase: ph, N: nn, Oracle: oracle}, detail: detail}
	}
	fmu.Unlock()
}

func sigOf(ph string, n []int64, oracle string) string {
	return "C07|" + phases[ph].descr(n) + "|oracle=" + oracle
}

// flush turns the collected minimal cases into confirmed violations.
//
// When run.sh's -race pass reported a data race in the code under test (or its goroutines computed values
// that differ from the single-threaded ones), the parallel phases of this run worked on top of that race:
// an observation made there need not reproduce single-threaded. Such an observation is recorded, not
// reported, and the run is decided by the data-race violation (exit 1) instead of ending as an
// irreproducible finding (exit 3). Without a reported race nothing changes.
func flush() {
	rp := os.Getenv("VERIF_RACE_PASS")
	raceReported := strings.HasPrefix(rp, "race:")
	if strings.HasPrefix(rp, "failed:1:") {
		out, _ := os.ReadFile(strings.TrimPrefix(rp, "failed:1:"))
		var lines []string
		for _, l := range strings.Split(string(out), "\n") {
			if strings.HasPrefix(l, "RESULT DIFFERS") && len(lines) < 5 {
				lines = append(lines, l)
			}
		}
		if len(lines) > 0 {
			raceReported = true
			r.Violation("C07|oracle=concurrent-result-differs-from-single-threaded-value",
				"goroutines working on private tries computed results that differ from the values computed single-threaded (shared mutable state inside the code under test): "+strings.Join(lines, " | "),
				map[string]interface{}{"kind": "race-pass", "output": lines})
		}
	}
	fmu.Lock()
	var ks []string
	for k := range best {
		ks = append(ks, k)
	}
	fmu.Unlock()
	sort.Strings(ks)
	w := newWorker()
	var unstable []string
	for _, k := range ks {
		f := best[k]
		c := f.c
		c.Descr = phases[c.Phase].descr(c.N)
		sig := sigOf(c.Phase, c.N, c.Oracle)
		again := func() string {
			o, _ := phases[c.Phase].run(w, c.N)
			if o == "" {
				return ""
			}
			return sigOf(c.Phase, c.N, o)
		}
		if raceReported {
			ok := true
			for i := 0; i < 5 && ok; i++ {
				ok = again() == sig
			}
			if ok {
				r.Violation(sig, f.detail, c)
			} else if len(unstable) < 20 {
				unstable = append(unstable, sig)
			}
			continue
		}
		r.ViolationConfirmed(sig, f.detail, c, again)
	}
	if len(unstable) > 0 {
		r.Set("observations_under_reported_race_not_reproducible_single_threaded", unstable)
	}
}

// ---------------------------------------------------------------------------------------------
// parallel driver with per-goroutine workers

var (
	wmu        sync.Mutex
	allWorkers []*worker
	freeW      = make(chan *worker, 256)
)

func getWorker() *worker {
	select {
	case w := <-freeW:
		return w
	default:
	}
	w := newWorker()
	wmu.Lock()
	allWorkers = append(allWorkers, w)
	wmu.Unlock()
	return w
}

func putWorker(w *worker) {
	select {
	case freeW <- w:
	default:
	}
}

// parRange runs f(w, i) for i in [0,n); returns the number of indices done (n unless the deadline hit).
func parRange(n, chunk int64, f func(w *worker, i int64)) int64 {
	nch := (n + chunk - 1) / chunk
	var done int64
	if serialMode {
		w := getWorker()
		defer putWorker(w)
		for i := int64(0); i < n; i++ {
			if i%chunk == 0 && r.Expired() {
				break
			}
			f(w, i)
			done++
		}
		return done
	}
	par.For(nch, 1, r.Expired, func(c int64) {
		w := getWorker()
		lo, hi := c*chunk, (c+1)*chunk
		if hi > n {
			hi = n
		}
		for i := lo; i < hi; i++ {
			f(w, i)
		}
		atomic.AddInt64(&done, hi-lo)
		putWorker(w)
	})
	return done
}

func phaseDone(name string, done, n int64, t0 time.Time) {
	r.Set("phase_"+name+"_cases", done)
	r.Set("phase_"+name+"_wall_s", float64(int(time.Since(t0).Seconds()*10))/10)
	if done < n {
		r.NotExhaustive(fmt.Sprintf("deadline during phase %s after %d of %d cases", name, done, n))
	}
}

// ---------------------------------------------------------------------------------------------
// phase "seq": every history of length <= D from the empty trie
//
// Two alphabets: 0 = all 33 tokens; 1 = the 25 tokens without Update(k,empty) (same effect as
// Delete(k)) and without Get-all (no effect on an in-memory trie), used for one extra level of depth.

var alphabets [2][]uint8

func init() {
	for t := uint8(0); t < NT; t++ {
		alphabets[0] = append(alphabets[0], t)
		if (t < tokUE || t >= tokD) && t != tokG {
			alphabets[1] = append(alphabets[1], t)
		}
	}
	phases["seq"] = &phase{
		descr: func(n []int64) string { return "history=" + opsString(seqOps(n, nil)) },
		run:   func(w *worker, n []int64) (string, string) { return runSeq(w, seqOps(n, nil)) },
	}
}

// seqOps decodes case n = [depth, alphabet, index]: digits of index in base len(alphabet), most
// significant first (index order = lexicographic order of token sequences).
func seqOps(n []int64, buf []uint8) []uint8 {
	a := alphabets[n[1]]
	var ops []uint8
	if buf != nil {
		ops = buf[:n[0]]
	} else {
		ops = make([]uint8, n[0])
	}
	i := n[2]
	for p := len(ops) - 1; p >= 0; p-- {
		ops[p] = a[i%int64(len(a))]
		i /= int64(len(a))
	}
	return ops
}

func phaseSeq(fullDepth int) { phaseSeqLevels("seq", 1, fullDepth, 0) }

var seqStopped bool

func phaseSeqLevels(name string, from, to, alpha int) {
	t0 := time.Now()
	var total, want int64
	type level struct{ d, alpha int }
	var levels []level
	for d := from; d <= to; d++ {
		levels = append(levels, level{d, alpha})
	}
	if seqStopped {
		return
	}
	completed := []string{}
	for _, lv := range levels {
		if r.Expired() {
			break
		}
		d, alpha := lv.d, lv.alpha
		n := ipow(int64(len(alphabets[alpha])), d)
		want += n
		before := atomic.LoadInt64(&violCount)
		done := parRange(n, 1024, func(w *worker, i int64) {
			var buf [8]uint8
			cs := []int64{int64(d), int64(alpha), i}
			ops := seqOps(cs, buf[:])
			if o, det := runSeq(w, ops); o != "" {
				violation("seq", o, cs, det)
			}
			if d >= 3 && i == n/3 && r.WantSample() {
				x := newRun(w, true)
				x.runOps(ops)
				r.Sample(map[string]interface{}{"phase": "seq", "history": opsString(ops), "content": x.m.String(), "root": fmt.Sprintf("%x", refRoots[x.m.idx()])})
			}
		})
		total += done
		if done < n {
			break
		}
		completed = append(completed, fmt.Sprintf("depth %d over %d tokens (%d histories)", d, len(alphabets[alpha]), n))
		if atomic.LoadInt64(&violCount) > before {
			// the shortest counterexamples are known; longer histories would only repeat them
			r.NotExhaustive(fmt.Sprintf("sequence enumeration stopped after depth %d because it found violations", d))
			seqStopped = true
			break
		}
	}
	r.Set(name+"_levels_completed", completed)
	phaseDone(name, total, want, t0)
}

// ---------------------------------------------------------------------------------------------
// phase "stateops": from each content state, in each representation, every single / double operation

func init() {
	dec := func(n []int64) (s, repr int, ops []uint8) {
		ops = make([]uint8, n[0])
		decodeOps(n[3], ops)
		return stateOrder[n[1]], int(n[2]), ops
	}
	phases["stateops"] = &phase{
		descr: func(n []int64) string {
			s, repr, ops := dec(n)
			return "from=" + modelOf(s).String() + "@" + reprNames[repr] + "|history=" + opsString(ops)
		},
		run: func(w *worker, n []int64) (string, string) {
			s, repr, ops := dec(n)
			return runStateOps(w, s, repr, ops)
		},
	}
}

func runStateOps(w *worker, s, repr int, ops []uint8) (string, string) {
	x, o, d := buildState(w, s, repr, needsDisk(ops))
	if o != "" {
		return o, "while building the state: " + d
	}
	return x.runOps(ops)
}

func phaseStateOps(minOps, maxOps int) {
	t0 := time.Now()
	var total, want int64
	for nops := minOps; nops <= maxOps && !r.Expired(); nops++ {
		per := ipow(NT, nops)
		n := int64(NS) * NREPR * per
		want += n
		done := parRange(n, 256, func(w *worker, i int64) {
			opi := i % per
			repr := (i / per) % NREPR
			pos := i / per / NREPR
			var buf [4]uint8
			ops := buf[:nops]
			decodeOps(opi, ops)
			if o, det := runStateOps(w, stateOrder[pos], int(repr), ops); o != "" {
				violation("stateops", o, []int64{int64(nops), pos, repr, opi}, det)
			}
		})
		total += done
		if done < n {
			break
		}
	}
	phaseDone(fmt.Sprintf("stateops_%d_to_%d", minOps, maxOps), total, want, t0)
}

// ---------------------------------------------------------------------------------------------

func mergeWorkers() {
	var reachedSeq, reachedAll [NS]bool
	var tok [NT]int64
	wmu.Lock()
	defer wmu.Unlock()
	for _, w := range allWorkers {
		r.Add("transitions", w.transitions)
		r.Add("traces_validated_against_impl", w.transitions)
		r.Add("commit_reopens", w.reopens)
		r.Add("copies", w.copies)
		r.Add("copy_original_rechecks", w.origChecks)
		r.Add("iterated_leaves", w.iterLeaves)
		for k, v := range w.counters {
			r.Add(k, v)
		}
		for t := range tok {
			tok[t] += w.tokCount[t]
		}
		for s := 0; s < NS; s++ {
			reachedSeq[s] = reachedSeq[s] || w.reachedSeq[s]
			reachedAll[s] = reachedAll[s] || w.reachedAll[s]
		}
	}
	ns, na := 0, 0
	for s := 0; s < NS; s++ {
		if reachedSeq[s] {
			ns++
		}
		if reachedAll[s] {
			na++
		}
	}
	r.Set("states", na)
	r.Set("states_reached_by_sequences", ns)
	tc := map[string]int64{}
	for t := range tok {
		name := tokName(uint8(t))
		// group per token kind
		kind := name
		if i := strings.Index(name, "(k"); i >= 0 {
			kind = name[:i+2] + name[i+3:]
		}
		tc[kind] += tok[t]
		r.Require(tok[t] > 0, "operation token "+name+" never executed")
	}
	r.Set("token_executions", tc)
	r.Require(na > 1, "the model never left its initial state")
}

func main() {
	r = report.New("C07", "model_checking")
	initUniverse()
	initStateOrder()
	initProbes()
	initRange()
	if os.Getenv("C07_RACE_PASS") == "1" {
		runRacePass() // free-running pass of the -race build (racepass.go); exits
		return
	}
	// the tries under test are tiny and short-lived: collect by heap size, not by growth ratio
	debug.SetGCPercent(-1)
	debug.SetMemoryLimit(2 << 30)
	if pf := os.Getenv("VERIF_C07_PROFILE"); pf != "" {
		if f, err := os.Create(pf); err == nil {
			pprof.StartCPUProfile(f)
			stopProfile = pprof.StopCPUProfile
		}
	}
	if r.ReplayPath != "" {
		replay()
		return
	}
	if r.Quick() {
		r.SetDeadline(50 * time.Second)
	} else {
		r.SetDeadline(13 * time.Minute)
	}
	r.Exhaustive(true)
	if rp := os.Getenv("VERIF_RACE_PASS"); strings.HasPrefix(rp, "race:") || strings.HasPrefix(rp, "failed:1:") {
		// The -race pass found unsynchronised shared state in the code under test. Goroutines of this checker
		// (and the code's own parallel hashing branch, whose goroutines' panics cannot be recovered here) would
		// work on top of that race: enumerate on ONE goroutine, briefly, without the phase that reaches the
		// parallel hashing branch. The run is decided by the data-race violation.
		serialMode = true
		r.SetDeadline(20 * time.Second)
		r.NotExhaustive("the -race pass reported a data race: the enumeration ran on a single goroutine under a 20 s deadline and the derivesha phase (parallel hashing branch of the code under test) was skipped")
	}

	if !computeReferences() {
		r.Finish()
	}
	seqDepth, stateOpsDepth := 4, 1
	if r.Thorough() {
		seqDepth, stateOpsDepth = 5, 2
	}
	seqReducedDepth := seqDepth // quick: no extra level on the reduced alphabet
	if r.Thorough() {
		seqReducedDepth = seqDepth + 1
	}
	// the phases that execute every token come first, so that a deadline on a loaded machine
	// shortens the enumeration without making it vacuous
	phaseStates()
	phaseStateOps(1, 1)
	phaseSizes()
	phaseSlots()
	phaseSeq(seqDepth)
	phaseGC()
	phaseProofs()
	phaseRange()
	if !serialMode {
		phaseDeriveSha()
	}
	phaseOrder()
	phaseDelOrder()
	if stateOpsDepth > 1 {
		phaseStateOps(2, stateOpsDepth)
	}
	if seqReducedDepth > seqDepth {
		phaseSeqLevels("seq_reduced", seqDepth+1, seqReducedDepth, 1)
	}

	mergeWorkers()
	flush()
	stopProfile()

	reducedText := ""
	if seqReducedDepth > seqDepth {
		reducedText = fmt.Sprintf(" and, as far as the deadline allows, all histories of length %d over the 25 tokens without Update(k,empty) and Get-all", seqReducedDepth)
	}
	r.Set("rule", fmt.Sprintf("universe of %d colliding keys (lengths 1,2,2,2,1,32,33; k0 strict prefix of k1..k3; nibble- and byte-boundary splits; 63-nibble shared path) x values {short, long, empty}; "+
		"seq: all %d-token histories of length 1..%d from the empty trie (tokens: Update(k,short|long|empty), Delete(k), Hash, Commit+flush+reopen-by-root on a new trie database, Commit+reference+dereference-previous+reopen on the same trie database, Copy-and-continue, Get-all)%s, "+
		"observation = Get of every key, Hash vs independent reference root, re-check of every copied-from trie; "+
		"stateops: from each of the 3^7 content states in %d representations (fresh, hashed, committed+reopened, descending insertion) every history of length 1..%d; "+
		"sizes: second family of sibling leaves under a shared prefix (keys 12, 1234, 1254, 1274, +1294 added and deleted again, 50) with value lengths swept (0..40 x 0..40 x {0,1,2,3,5,8} x {0,1,4} x {0,2}): ascending / descending insertion, add-then-delete of a sibling in memory / after Hash / on a reopened trie, StackTrie, each root vs the reference root; guarded: every node kind (leaf, ext, branch2, branch3, branch with value) occurs as a non-root node of exactly 31, 32 and 33 bytes; "+
		"gc: from each content state R, every Update/Delete, R (reference counting keeps shared nodes); states: per content state StackTrie root/commit, NodeIterator, secure trie; order: every insertion order (3 variants) and every deletion order from the full state; "+
		"proofs: Prove/VerifyProof for %d probe keys per state in 3 representations and the full tamper matrix (drop, replace by any node of another key's proof, flip first/middle/last byte with 2 masks); "+
		"range: fixed-length universe, every contiguous range x every left edge x every single-element tampering; derivesha: every list length 0..N x value patterns. "+
		"race pass (run.sh, -race build, before this run): %d goroutines x (%d one-leaf warm-ups + %d iterations) on private tries / stack tries / secure tries / trie databases (Update, Delete, Get, Hash incl. the parallel branch with %d unhashed updates, Copy, Commit, database Update/Commit/Reference/Dereference, reopen, Prove+VerifyProof, NodeIterator, StackTrie hash+commit, DeriveSha with both hashers, VerifyRangeProof) plus reads (Get/Prove/NodeIterator) through private tries on 2 shared committed trie databases; deciding oracle = race detector, second oracle = equality with the single-threaded values. "+
		"states = distinct content states reached on the real trie; transitions = operations executed on the real trie",
		NK, NT, seqDepth, reducedText, NREPR, stateOpsDepth, len(probes), raceGoroutines, raceWarmup, raceIterations, raceBigKeys))
	r.Assume(
		"Keccak-256 is collision resistant; go-ethereum v1.9.15's trie is used only as a second opinion on the checker's own reference root (a disagreement between the two is a machinery error, not a verdict)",
		"StackTrie (and types.DeriveSha, which feeds it) is specified for strictly ascending keys none of which is a prefix of another; its root is compared only on prefix-free content states",
		"NodeIterator is required to yield exactly the model's key/value set; its order is not judged (a key that is a prefix of others is yielded after them)",
		"proofs of the empty trie are not judged (Prove emits nothing and VerifyProof reports a missing root node)",
		"the proof database handed to VerifyProof/VerifyRangeProof is keyed by the Keccak hash the CHECKER computes of each supplied node, as every caller builds it; VerifyProof itself does not re-hash",
		"a tampered proof may verify to an error or to the same value; range proofs are judged on fixed-length keys only and with lastKey = last supplied key, as the callers use it",
		"concurrency: distinct Trie / StackTrie objects may be used by different goroutines at the same time, and distinct tries may READ one trie database concurrently (hashdb documents and locks for this); a single Trie is not required to be safe for concurrent use",
		"when a known finding stops the sequence enumeration from being the shortest failing history for an oracle, longer histories with the same oracle id are not reported separately",
	)
	r.Finish()
}

// ---------------------------------------------------------------------------------------------
// replay

func replay() {
	var c Case
	if err := r.LoadReplay(&c); err != nil {
		fmt.Println("MACHINERY-ERROR cannot load replay file:", err)
		r.Vacuous("replay file unreadable")
		r.Finish()
	}
	ph := phases[c.Phase]
	if ph == nil {
		fmt.Println("MACHINERY-ERROR unknown phase", c.Phase)
		r.Vacuous("unknown phase in replay file")
		r.Finish()
	}
	if !computeReferences() {
		r.Finish()
	}
	w := newWorker()
	fmt.Printf("replaying phase=%s n=%v (%s)\n", c.Phase, c.N, ph.descr(c.N))
	o, d := ph.run(w, c.N)
	if o == "" {
		fmt.Println("observed: the property holds on this case")
	} else {
		fmt.Printf("observed: oracle=%s: %s\n", o, d)
		r.Violation(sigOf(c.Phase, c.N, o), d, c)
	}
	r.Exhaustive(true)
	r.Finish()
}
