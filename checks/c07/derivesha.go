package main

import (
	"bytes"
	"fmt"
	"sync/atomic"
	"time"

	"github.com/kardiachain/go-kardia/kai/kaidb/memorydb"
	"github.com/kardiachain/go-kardia/lib/common"
	"github.com/kardiachain/go-kardia/trie"
	"github.com/kardiachain/go-kardia/types"
)

// types.DeriveSha over lists of n items: keys are rlp(index) (1..3 bytes, prefix free), inserted in
// the order DeriveSha chooses. Compared with the reference root of the map {rlp(i): item_i}, with
// both hashers the repository offers (StackTrie, Trie).

type derivList [][]byte

func (l derivList) Len() int                           { return len(l) }
func (l derivList) EncodeIndex(i int, w *bytes.Buffer) { w.Write(l[i]) }

const deriveSmall = 9 // for n <= deriveSmall every short/long assignment is enumerated

func deriveItem(i int, long bool) []byte {
	if long {
		b := rep(byte(0x40+i%64), 40)
		b[0], b[1] = byte(i>>8), byte(i)
		return b
	}
	switch i % 3 {
	case 0:
		return []byte{byte(1 + i%120)}
	case 1:
		return []byte{byte(0x80 + i%100), byte(i >> 8)}
	}
	return []byte{byte(i), byte(i >> 8), 0xfe}
}

// derivePatterns: 0 all short, 1 all long, 2 alternating, 3 every third long; 4+mask: explicit assignment (n small).
func deriveList(n int, pattern int64) derivList {
	l := make(derivList, n)
	for i := range l {
		var long bool
		switch {
		case pattern == 0:
		case pattern == 1:
			long = true
		case pattern == 2:
			long = i%2 == 1
		case pattern == 3:
			long = i%3 == 0
		default:
			long = (pattern-4)>>uint(i)&1 == 1
		}
		l[i] = deriveItem(i, long)
	}
	return l
}

func init() {
	phases["derivesha"] = &phase{
		descr: func(n []int64) string { return fmt.Sprintf("derivesha|len=%d|pattern=%d", n[0], n[1]) },
		run:   func(w *worker, n []int64) (string, string) { return runDerive(w, int(n[0]), n[1]) },
	}
}

var deriveRefBad int64

func runDerive(w *worker, n int, pattern int64) (oracle, detail string) {
	defer func() {
		if p := recover(); p != nil {
			oracle, detail = "derivesha-panic", "DeriveSha panics: "+panicText(p)
		}
	}()
	l := deriveList(n, pattern)
	var kvs []refKV
	for i, it := range l {
		kvs = append(kvs, refKV{key: rlpUint(uint64(i)), val: it})
	}
	want := refRoot(kvs, nil)
	if g, err := gethRoot(kvs); err != nil || g != want {
		fmt.Printf("MACHINERY-ERROR reference roots disagree on DeriveSha list n=%d pattern=%d: own %x, go-ethereum %x (%v)\n", n, pattern, want, g, err)
		atomic.AddInt64(&deriveRefBad, 1)
		return "", ""
	}
	if h := types.DeriveSha(l, trie.NewStackTrie(nil)); h != common.Hash(want) {
		return "derivesha-stacktrie", fmt.Sprintf("DeriveSha with StackTrie over %d items (pattern %d) = %x, reference root %x", n, pattern, h[:], want[:])
	}
	if h := types.DeriveSha(l, trie.NewEmpty(trie.NewDatabase(memorydb.New()))); h != common.Hash(want) {
		return "derivesha-trie", fmt.Sprintf("DeriveSha with Trie over %d items (pattern %d) = %x, reference root %x", n, pattern, h[:], want[:])
	}
	w.transitions += int64(2 * n)
	w.counters["derivesha_lists"]++
	return "", ""
}

func phaseDeriveSha() {
	t0 := time.Now()
	maxN := 300
	if r.Thorough() {
		maxN = 1200
	}
	type job struct{ n, pattern int64 }
	var jobs []job
	for n := 0; n <= maxN; n++ {
		if n <= deriveSmall {
			for mask := int64(0); mask < 1<<uint(n); mask++ {
				jobs = append(jobs, job{int64(n), 4 + mask})
			}
			continue
		}
		for p := int64(0); p < 4; p++ {
			jobs = append(jobs, job{int64(n), p})
		}
	}
	r.Set("derivesha_max_len", maxN)
	done := parRange(int64(len(jobs)), 4, func(w *worker, i int64) {
		if o, d := runDerive(w, int(jobs[i].n), jobs[i].pattern); o != "" {
			violation("derivesha", o, []int64{jobs[i].n, jobs[i].pattern}, d)
		}
	})
	if atomic.LoadInt64(&deriveRefBad) > 0 {
		r.Vacuous("the checker's reference root and go-ethereum v1.9.15 disagree on a DeriveSha list; no verdict")
	}
	phaseDone("derivesha", done, int64(len(jobs)), t0)
}
