package main

import (
	"bytes"
	"errors"
	"fmt"
	"time"

	"github.com/kardiachain/go-kardia/lib/common"
	"github.com/kardiachain/go-kardia/trie"
)

// probes: the keys proofs are requested for — the universe plus keys that are never stored.
var probes [][]byte
var probeNames []string

func initProbes() {
	for k := 0; k < NK; k++ {
		probes = append(probes, keys[k])
		probeNames = append(probeNames, fmt.Sprintf("k%d", k))
	}
	add := func(name string, k []byte) { probes = append(probes, k); probeNames = append(probeNames, name) }
	add("x-k2+56", []byte{0x12, 0x34, 0x56}) // extends a stored key
	add("x-01", []byte{0x01})                // leaves at the first nibble
	add("x-123f", []byte{0x12, 0x3f})        // leaves inside the k2/k3 branch
	add("x-2a*31", rep(0x2a, 31))            // ends inside the long shared path of k5/k6
	add("x-2a*33", rep(0x2a, 33))            // extends k5
	add("x-1", []byte{0x10})                 // shares only the first nibble
}

func probeWant(m *model, p int) []byte {
	if p < NK {
		return vals[p][m[p]]
	}
	return nil
}

// proofList records proof nodes in the order Prove emits them.
type proofList [][]byte

func (p *proofList) Put(k, v []byte) error { *p = append(*p, common.CopyBytes(v)); return nil }
func (p *proofList) Delete([]byte) error   { return errors.New("not supported") }

// proofMap is the verifier's node store: Keccak hash (computed by the checker) -> node.
type proofMap map[string][]byte

var errNotFound = errors.New("not found")

func (m proofMap) Has(k []byte) (bool, error) { _, ok := m[string(k)]; return ok, nil }
func (m proofMap) Get(k []byte) ([]byte, error) {
	if v, ok := m[string(k)]; ok {
		return v, nil
	}
	return nil, errNotFound
}

func mapOf(nodes [][]byte) proofMap {
	db := proofMap{}
	for _, n := range nodes {
		h := keccak(n)
		db[string(h[:])] = n
	}
	return db
}

func verify(root common.Hash, key []byte, db proofMap) (v []byte, err error, pan string) {
	defer func() {
		if p := recover(); p != nil {
			pan = panicText(p)
		}
	}()
	v, err = trie.VerifyProof(root, key, db)
	return
}

var proofReprs = []int{reprFresh, reprHashed, reprReopened}

// stateProofs builds content state s in three representations and asks each for a proof of every probe.
func stateProofs(w *worker, s int) (lists [3][][][]byte, oracle, detail string) {
	defer func() {
		if p := recover(); p != nil {
			oracle, detail = "prove-panic", "Prove panics: "+panicText(p)
		}
	}()
	for ri, repr := range proofReprs {
		x, o, d := buildState(w, s, repr, false)
		if o != "" {
			return lists, o, "building the state: " + d
		}
		lists[ri] = make([][][]byte, len(probes))
		for p := range probes {
			var pl proofList
			if err := x.t.Prove(probes[p], 0, &pl); err != nil {
				return lists, "prove-error", fmt.Sprintf("Prove(%s) on %s trie of content %v fails: %v", probeNames[p], reprNames[repr], x.m, err)
			}
			lists[ri][p] = pl
			w.counters["proofs_produced"]++
			w.counters["proof_nodes"] += int64(len(pl))
		}
	}
	return lists, "", ""
}

func flipPos(n []byte, which int64) int {
	switch which {
	case 0:
		return 0
	case 1:
		return len(n) / 2
	}
	return len(n) - 1
}

var flipMasks = []byte{0x01, 0x80}
var flipNames = []string{"first", "middle", "last"}

// tampered returns the node list of case (kind, a, b, c) derived from the genuine list of probe p,
// or nil if the case does not exist.
func tampered(lists [][][]byte, p int, kind, a, b, c int64) [][]byte {
	base := lists[p]
	switch kind {
	case 1:
		if a >= int64(len(base)) {
			return nil
		}
		out := append([][]byte{}, base[:a]...)
		return append(out, base[a+1:]...)
	case 2:
		if a >= int64(len(base)) || b >= int64(len(lists)) || int(b) == p || c >= int64(len(lists[b])) {
			return nil
		}
		out := append([][]byte{}, base...)
		out[a] = lists[b][c]
		return out
	case 3:
		if a >= int64(len(base)) || b > 2 || c >= int64(len(flipMasks)) {
			return nil
		}
		out := append([][]byte{}, base...)
		n := common.CopyBytes(base[a])
		n[flipPos(n, b)] ^= flipMasks[c]
		out[a] = n
		return out
	case 4:
		if b >= int64(len(lists)) || int(b) == p {
			return nil
		}
		return lists[b]
	}
	return nil
}

func judgeGenuine(root common.Hash, m *model, p int, nodes [][]byte, repr string) (string, string) {
	want := probeWant(m, p)
	v, err, pan := verify(root, probes[p], mapOf(nodes))
	switch {
	case pan != "":
		return "proof-genuine-panic", fmt.Sprintf("VerifyProof panics on the genuine proof of %s (content %v, %s): %s", probeNames[p], *m, repr, pan)
	case err != nil:
		return "proof-genuine-rejected", fmt.Sprintf("genuine proof of %s (content %v, %s trie, %d nodes) does not verify: %v", probeNames[p], *m, repr, len(nodes), err)
	case !bytes.Equal(v, want):
		return "proof-genuine-wrong-value", fmt.Sprintf("genuine proof of %s (content %v, %s trie) verifies to %x, stored value is %x", probeNames[p], *m, repr, v, want)
	}
	return "", ""
}

func judgeTampered(w *worker, root common.Hash, m *model, p int, nodes [][]byte) (string, string) {
	want := probeWant(m, p)
	v, err, pan := verify(root, probes[p], mapOf(nodes))
	w.counters["tampered_proofs"]++
	switch {
	case pan != "":
		return "proof-tamper-panic", fmt.Sprintf("VerifyProof panics on a tampered proof of %s (content %v): %s", probeNames[p], *m, pan)
	case err != nil:
		w.counters["tampered_proofs_rejected"]++
	case bytes.Equal(v, want):
		w.counters["tampered_proofs_same_value"]++
	default:
		return "proof-tamper-different-value", fmt.Sprintf("tampered proof of %s (content %v) verifies to %x, stored value is %x", probeNames[p], *m, v, want)
	}
	return "", ""
}

func proofDescr(n []int64) string {
	m := modelOf(stateOrder[n[0]])
	if n[2] < 0 {
		return fmt.Sprintf("state=%v|proof-setup", m)
	}
	var t string
	switch n[2] {
	case 0:
		t = "none@" + reprNames[proofReprs[n[3]]]
	case 1:
		t = fmt.Sprintf("drop-node-%d", n[3])
	case 2:
		t = fmt.Sprintf("node-%d-replaced-by-node-%d-of-proof-of-%s", n[3], n[5], probeNames[n[4]])
	case 3:
		t = fmt.Sprintf("flip-%s-byte-of-node-%d-mask-%02x", flipNames[n[4]], n[3], flipMasks[n[5]])
	case 4:
		t = "proof-of-" + probeNames[n[4]]
	}
	return fmt.Sprintf("state=%v|key=%s|tamper=%s", m, probeNames[n[1]], t)
}

func init() {
	phases["proof"] = &phase{
		descr: proofDescr,
		run: func(w *worker, n []int64) (string, string) {
			s := stateOrder[n[0]]
			m := modelOf(s)
			root := common.Hash(refRoots[s])
			lists, o, d := stateProofs(w, s)
			if o != "" {
				return o, d
			}
			p := int(n[1])
			if n[2] == 0 {
				return judgeGenuine(root, &m, p, lists[n[3]][p], reprNames[proofReprs[n[3]]])
			}
			nodes := tampered(lists[2], p, n[2], n[3], n[4], n[5])
			if nodes == nil {
				return "", ""
			}
			return judgeTampered(w, root, &m, p, nodes)
		},
	}
}

// proofsOfState runs every proof case of one content state.
func proofsOfState(w *worker, pos int64) {
	s := stateOrder[pos]
	m := modelOf(s)
	if m.present() == 0 {
		return
	}
	root := common.Hash(refRoots[s])
	lists, o, d := stateProofs(w, s)
	if o != "" {
		violation("proof", o, []int64{pos, 0, -1, 0, 0, 0}, d)
		return
	}
	for p := range probes {
		for ri := range proofReprs {
			if o, d := judgeGenuine(root, &m, p, lists[ri][p], reprNames[proofReprs[ri]]); o != "" {
				violation("proof", o, []int64{pos, int64(p), 0, int64(ri), 0, 0}, d)
			}
			w.counters["genuine_proofs_verified"]++
		}
		if probeWant(&m, p) == nil {
			w.counters["absence_proofs_verified"]++
		} else {
			w.counters["presence_proofs_verified"]++
		}
		same := true
		for ri := 1; ri < 3; ri++ {
			if len(lists[ri][p]) != len(lists[0][p]) {
				same = false
				continue
			}
			for i := range lists[0][p] {
				same = same && bytes.Equal(lists[0][p][i], lists[ri][p][i])
			}
		}
		if !same {
			w.counters["info_proof_differs_between_representations"]++
		}
		L := lists[2]
		base := L[p]
		try := func(kind, a, b, c int64) {
			nodes := tampered(L, p, kind, a, b, c)
			if nodes == nil {
				return
			}
			if o, d := judgeTampered(w, root, &m, p, nodes); o != "" {
				violation("proof", o, []int64{pos, int64(p), kind, a, b, c}, d)
			}
		}
		for a := int64(0); a < int64(len(base)); a++ {
			try(1, a, 0, 0)
			for b := range probes {
				for c := range L[b] {
					try(2, a, int64(b), int64(c))
				}
			}
			for b := int64(0); b < 3; b++ {
				for c := range flipMasks {
					try(3, a, b, int64(c))
				}
			}
		}
		for b := range probes {
			try(4, 0, int64(b), 0)
		}
		if p == 1 && pos == NS/2 && r.WantSample() {
			nodes := tampered(L, p, 1, 0, 0, 0)
			_, err, _ := verify(root, probes[p], mapOf(nodes))
			r.Sample(map[string]interface{}{"phase": "proof", "case": proofDescr([]int64{pos, int64(p), 1, 0, 0, 0}), "genuine_nodes": len(base), "verify_error": fmt.Sprint(err)})
		}
	}
}

func phaseProofs() {
	t0 := time.Now()
	done := parRange(NS, 4, func(w *worker, i int64) { proofsOfState(w, i) })
	phaseDone("proof", done, NS, t0)
}
