package main

import (
	"bytes"
	"fmt"
	"sort"
	"strings"
	"sync/atomic"
	"time"

	gethcommon "github.com/ethereum/go-ethereum/common"
	gethmem "github.com/ethereum/go-ethereum/ethdb/memorydb"
	gethtrie "github.com/ethereum/go-ethereum/trie"

	"github.com/kardiachain/go-kardia/kai/kaidb/memorydb"
	"github.com/kardiachain/go-kardia/lib/common"
	"github.com/kardiachain/go-kardia/trie"
)

// gethRoot: the second reference (go-ethereum v1.9.15).
func gethRoot(kvs []refKV) (h [32]byte, err error) {
	defer func() {
		if p := recover(); p != nil {
			err = fmt.Errorf("go-ethereum trie panics: %v", p)
		}
	}()
	t, e := gethtrie.New(gethcommon.Hash{}, gethtrie.NewDatabase(gethmem.New()))
	if e != nil {
		return h, e
	}
	for _, kv := range kvs {
		if e := t.TryUpdate(kv.key, kv.val); e != nil {
			return h, e
		}
	}
	return t.Hash(), nil
}

var secureRoots [NS][32]byte // reference roots of the content with Keccak-hashed keys (secure trie)

// computeReferences fills refRoots with the checker's own reference and cross-checks it with
// go-ethereum's trie on every content state. A disagreement is a machinery error (exit 2).
func computeReferences() bool {
	st := newRefStats()
	for s := 0; s < NS; s++ {
		m := modelOf(s)
		refRoots[s] = refRoot(m.kvs(), st)
	}
	var bad int64
	parRange(NS, 16, func(w *worker, i int64) {
		m := modelOf(int(i))
		g, err := gethRoot(m.kvs())
		if err != nil || g != refRoots[i] {
			fmt.Printf("MACHINERY-ERROR reference roots disagree on content %v: own %x, go-ethereum %x (%v)\n", m, refRoots[i], g, err)
			atomic.AddInt64(&bad, 1)
		}
		var sk []refKV
		for _, kv := range m.kvs() {
			h := keccak(kv.key)
			sk = append(sk, refKV{key: h[:], val: kv.val})
		}
		secureRoots[i] = refRoot(sk, nil)
	})
	if bad > 0 {
		r.Vacuous("the checker's reference root and go-ethereum v1.9.15 disagree; no verdict")
		return false
	}
	if want := "56e81f171bcc55a6ff8345e692c0f86e5b48e01b996cadc001622fb5e363b421"; fmt.Sprintf("%x", refRoots[0]) != want {
		r.Vacuous("reference root of the empty trie is wrong")
		return false
	}
	r.Set("reference_cross_checked_states", NS)
	var sz []string
	for k, v := range st.sizes {
		sz = append(sz, fmt.Sprintf("%s:%d", k, v))
	}
	sort.Strings(sz)
	r.Set("reference_node_sizes_28_to_36", strings.Join(sz, " "))
	r.Set("reference_embedded_nodes", st.embedded)
	r.Set("reference_hashed_nodes", st.hashed)
	r.Set("reference_branch_nodes_with_value", st.branchVal)
	for _, n := range []string{"leaf/31", "leaf/32", "leaf/33"} {
		r.Require(st.sizes[n] > 0, "no node of kind/size "+n+" in any content state (embedding threshold not exercised)")
	}
	for _, k := range []string{"leaf", "ext", "branch"} {
		r.Require(st.embedded[k] > 0, "no embedded (<32 byte) "+k+" node in any content state")
		r.Require(st.hashed[k] > 0, "no hashed (>=32 byte) "+k+" node in any content state")
	}
	r.Require(st.branchVal > 0, "no branch node with a value (no key is a prefix of another)")
	pf := 0
	for s := 0; s < NS; s++ {
		m := modelOf(s)
		if m.prefixFree() {
			pf++
		}
	}
	r.Set("prefix_free_states", pf)
	r.Require(pf > 100 && pf < NS-100, "prefix-free and prefix-containing states are not both well represented")
	return true
}

// ---------------------------------------------------------------------------------------------
// phase "states": static checks per content state

func init() {
	phases["states"] = &phase{
		descr: func(n []int64) string { return "state=" + modelOf(stateOrder[n[0]]).String() },
		run:   func(w *worker, n []int64) (string, string) { return runState(w, stateOrder[n[0]]) },
	}
}

func stackTrieRoot(m *model, write trie.NodeWriteFunc) (h common.Hash, pan string) {
	defer func() {
		if p := recover(); p != nil {
			pan = fmt.Sprint(p)
		}
	}()
	st := trie.NewStackTrie(write)
	for k := 0; k < NK; k++ {
		if m[k] != 0 {
			if err := st.Update(keys[k], common.CopyBytes(vals[k][m[k]])); err != nil {
				return h, "Update error: " + err.Error()
			}
		}
	}
	if write != nil {
		var err error
		h, err = st.Commit()
		if err != nil {
			return h, "Commit error: " + err.Error()
		}
		return h, ""
	}
	return st.Hash(), ""
}

func runState(w *worker, s int) (oracle, detail string) {
	defer func() {
		if p := recover(); p != nil {
			oracle, detail = "panic", "trie code panics: "+panicText(p)
		}
	}()
	m := modelOf(s)
	want := common.Hash(refRoots[s])
	// (d) the streaming trie
	if m.prefixFree() {
		h, pan := stackTrieRoot(&m, nil)
		if pan != "" {
			return "stacktrie-panic", fmt.Sprintf("StackTrie fails on sorted prefix-free content %v: %s", m, pan)
		}
		if h != want {
			return "stacktrie-root", fmt.Sprintf("StackTrie root %x for sorted content %v, reference root %x", h[:], m, want[:])
		}
		// committing stack trie: the nodes it writes make the trie readable from a database
		disk := memorydb.New()
		h, pan = stackTrieRoot(&m, func(owner common.Hash, path []byte, hash common.Hash, blob []byte) {
			disk.Put(hash[:], blob)
		})
		if pan != "" {
			return "stacktrie-panic", fmt.Sprintf("committing StackTrie fails on content %v: %s", m, pan)
		}
		if h != want {
			return "stacktrie-root", fmt.Sprintf("StackTrie.Commit root %x for sorted content %v, reference root %x", h[:], m, want[:])
		}
		t, err := trie.New(trie.TrieID(h), trie.NewDatabase(disk))
		if err != nil {
			return "stacktrie-commit", fmt.Sprintf("nodes written by StackTrie.Commit for content %v cannot be opened: %v", m, err)
		}
		if o, d := checkIter(t, &m, w); o != "" {
			return "stacktrie-commit-" + o, "trie opened on the nodes written by StackTrie.Commit: " + d
		}
		if o, d := checkGets(t, &m); o != "" {
			return "stacktrie-commit-" + o, "trie opened on the nodes written by StackTrie.Commit: " + d
		}
		w.counters["stacktrie_states_compared"]++
	} else {
		// outside StackTrie's specification: recorded, not judged
		h, pan := stackTrieRoot(&m, nil)
		switch {
		case pan != "":
			w.counters["info_stacktrie_prefix_content_panics"]++
		case h != want:
			w.counters["info_stacktrie_prefix_content_other_root"]++
		default:
			w.counters["info_stacktrie_prefix_content_same_root"]++
		}
	}
	// every representation iterates the model and answers Get/Hash
	for repr := 0; repr < NREPR; repr++ {
		x, o, d := buildState(w, s, repr, false)
		if o != "" {
			return o, fmt.Sprintf("building %s: %s", reprNames[repr], d)
		}
		if o, d := checkIter(x.t, &x.m, w); o != "" {
			return o, fmt.Sprintf("representation %s: %s", reprNames[repr], d)
		}
		if o, d := x.final(); o != "" {
			return o, fmt.Sprintf("representation %s: %s", reprNames[repr], d)
		}
	}
	// secure trie (keys hashed with Keccak): same map semantics, reference root over hashed keys
	{
		disk := memorydb.New()
		st, err := trie.NewStateTrie(trie.TrieID(common.Hash(refRoots[0])), trie.NewDatabase(disk))
		if err != nil {
			return "securetrie-error", err.Error()
		}
		for k := NK - 1; k >= 0; k-- {
			st.MustUpdate(keys[k], rep(0xee, 5+k)) // overwritten or deleted below
		}
		for k := 0; k < NK; k++ {
			if m[k] != 0 {
				st.MustUpdate(keys[k], vals[k][m[k]])
			} else {
				st.MustDelete(keys[k])
			}
			w.transitions += 2
		}
		for k := 0; k < NK; k++ {
			if v := st.MustGet(keys[k]); !bytes.Equal(v, vals[k][m[k]]) {
				return "securetrie-get", fmt.Sprintf("StateTrie.Get(k%d) = %x, model %x (content %v)", k, v, vals[k][m[k]], m)
			}
		}
		if h := st.Hash(); h != common.Hash(secureRoots[s]) {
			return "securetrie-root", fmt.Sprintf("StateTrie root %x, reference root over hashed keys %x (content %v)", h[:], secureRoots[s][:], m)
		}
	}
	return "", ""
}

func phaseStates() {
	t0 := time.Now()
	done := parRange(NS, 8, func(w *worker, i int64) {
		if o, d := runState(w, stateOrder[i]); o != "" {
			violation("states", o, []int64{i}, d)
		}
	})
	phaseDone("states", done, NS, t0)
}

// ---------------------------------------------------------------------------------------------
// phase "order": every insertion order of the present keys

// perm decodes the idx-th permutation (lexicographic) of items.
func perm(items []int, idx int64) []int {
	pool := append([]int{}, items...)
	out := make([]int, 0, len(items))
	for n := len(pool); n > 0; n-- {
		f := fact(n - 1)
		j := idx / f
		idx %= f
		out = append(out, pool[j])
		pool = append(pool[:j], pool[j+1:]...)
	}
	return out
}

func fact(n int) int64 {
	f := int64(1)
	for i := 2; i <= n; i++ {
		f *= int64(i)
	}
	return f
}

var orderVariants = []string{"plain", "hash-after-each", "commit-reopen-after-each"}

type orderJob struct {
	pos     int64
	variant int64
	base    int64 // first global index
	count   int64
}

func presentKeys(m *model) []int {
	var p []int
	for k := 0; k < NK; k++ {
		if m[k] != 0 {
			p = append(p, k)
		}
	}
	return p
}

func keyNames(ks []int) string {
	p := make([]string, len(ks))
	for i, k := range ks {
		p[i] = fmt.Sprintf("k%d", k)
	}
	return strings.Join(p, ",")
}

func init() {
	phases["order"] = &phase{
		descr: func(n []int64) string {
			m := modelOf(stateOrder[n[0]])
			return fmt.Sprintf("state=%v|insert-order=%s|variant=%s", m, keyNames(perm(presentKeys(&m), n[2])), orderVariants[n[1]])
		},
		run: func(w *worker, n []int64) (string, string) {
			return runOrder(w, stateOrder[n[0]], int(n[1]), n[2])
		},
	}
}

func runOrder(w *worker, s, variant int, pi int64) (oracle, detail string) {
	m := modelOf(s)
	order := perm(presentKeys(&m), pi)
	x := newRun(w, variant == 2)
	var ops []uint8
	for _, k := range order {
		tk := uint8(tokUS + k)
		if m[k] == 2 {
			tk = uint8(tokUL + k)
		}
		ops = append(ops, tk)
		switch variant {
		case 1:
			ops = append(ops, tokH)
		case 2:
			ops = append(ops, tokC)
		}
	}
	o, d := x.runOps(ops)
	if o == "root-vs-reference" {
		o = "order-independence"
	}
	return o, d
}

func phaseOrder() {
	t0 := time.Now()
	var jobs []orderJob
	var n int64
	maxVariantKeys := 5 // variants with intermediate Hash / Commit: only for states with at most this many keys
	if r.Thorough() {
		maxVariantKeys = NK
	}
	for pos := 0; pos < NS; pos++ {
		m := modelOf(stateOrder[pos])
		c := fact(m.present())
		for v := 0; v < 3; v++ {
			if v > 0 && m.present() > maxVariantKeys {
				continue
			}
			jobs = append(jobs, orderJob{int64(pos), int64(v), n, c})
			n += c
		}
	}
	r.Set("order_variants_max_keys", maxVariantKeys)
	done := parRange(n, 128, func(w *worker, i int64) {
		j := sort.Search(len(jobs), func(j int) bool { return jobs[j].base > i }) - 1
		jb := jobs[j]
		pi := i - jb.base
		if o, d := runOrder(w, stateOrder[jb.pos], int(jb.variant), pi); o != "" {
			violation("order", o, []int64{jb.pos, jb.variant, pi}, d)
		}
		w.counters["insertion_orders"]++
	})
	phaseDone("order", done, n, t0)
}

// ---------------------------------------------------------------------------------------------
// phase "delorder": reach each content state from a full trie by deleting the other keys in every order

var delVia = []string{"Delete", "Update-empty"}

func init() {
	phases["delorder"] = &phase{
		descr: func(n []int64) string {
			m := modelOf(stateOrder[n[0]])
			return fmt.Sprintf("state=%v|from-full(fill=%s)@%s|delete-order=%s|via=%s", m, []string{"", "S", "L"}[n[1]], reprNames[n[2]],
				keyNames(perm(absentKeys(&m), n[4])), delVia[n[3]])
		},
		run: func(w *worker, n []int64) (string, string) {
			return runDelOrder(w, stateOrder[n[0]], int(n[1]), int(n[2]), int(n[3]), n[4])
		},
	}
}

func absentKeys(m *model) []int {
	var p []int
	for k := 0; k < NK; k++ {
		if m[k] == 0 {
			p = append(p, k)
		}
	}
	return p
}

func runDelOrder(w *worker, s, fill, repr, via int, pi int64) (string, string) {
	m := modelOf(s)
	full := m
	for k := 0; k < NK; k++ {
		if full[k] == 0 {
			full[k] = uint8(fill)
		}
	}
	x, o, d := buildState(w, full.idx(), repr, false)
	if o != "" {
		return o, "building the full state: " + d
	}
	var ops []uint8
	for _, k := range perm(absentKeys(&m), pi) {
		if via == 0 {
			ops = append(ops, uint8(tokD+k))
		} else {
			ops = append(ops, uint8(tokUE+k))
		}
	}
	o, d = x.runOps(ops)
	if o != "" {
		return o, d
	}
	if x.m != m {
		panic("harness: wrong final model")
	}
	return checkIter(x.t, &x.m, w)
}

func phaseDelOrder() {
	t0 := time.Now()
	type job struct{ pos, fill, repr, via, base, count int64 }
	var jobs []job
	var n int64
	for pos := 0; pos < NS; pos++ {
		m := modelOf(stateOrder[pos])
		if m.present() == NK {
			continue
		}
		c := fact(NK - m.present())
		for fill := 1; fill <= 2; fill++ {
			for repr := 0; repr < 3; repr++ {
				for via := 0; via < 2; via++ {
					jobs = append(jobs, job{int64(pos), int64(fill), int64(repr), int64(via), n, c})
					n += c
				}
			}
		}
	}
	done := parRange(n, 64, func(w *worker, i int64) {
		j := sort.Search(len(jobs), func(j int) bool { return jobs[j].base > i }) - 1
		jb := jobs[j]
		pi := i - jb.base
		if o, d := runDelOrder(w, stateOrder[jb.pos], int(jb.fill), int(jb.repr), int(jb.via), pi); o != "" {
			violation("delorder", o, []int64{jb.pos, jb.fill, jb.repr, jb.via, pi}, d)
		}
		w.counters["deletion_orders"]++
	})
	phaseDone("delorder", done, n, t0)
}

// ---------------------------------------------------------------------------------------------
// phase "gc": reference counting of the trie database. From each content state committed into the
// dirty cache and referenced (token R), every single modifying operation followed by another R
// (which dereferences the first root): the nodes shared by both versions must survive.

func init() {
	phases["gc"] = &phase{
		descr: func(n []int64) string {
			return "from=" + modelOf(stateOrder[n[0]]).String() + "@fresh|history=R;" + tokName(uint8(n[1])) + ";R"
		},
		run: func(w *worker, n []int64) (string, string) { return runGC(w, stateOrder[n[0]], uint8(n[1])) },
	}
}

func runGC(w *worker, s int, tk uint8) (string, string) {
	x, o, d := buildState(w, s, reprFresh, true)
	if o != "" {
		return o, "while building the state: " + d
	}
	if o, d := x.runOps([]uint8{tokR, tk, tokR}); o != "" {
		return o, d
	}
	return checkIter(x.t, &x.m, w)
}

func phaseGC() {
	t0 := time.Now()
	n := int64(NS) * tokH // tokens 0..27: every Update / Delete
	done := parRange(n, 64, func(w *worker, i int64) {
		pos, tk := i/tokH, i%tokH
		if o, d := runGC(w, stateOrder[pos], uint8(tk)); o != "" {
			violation("gc", o, []int64{pos, tk}, d)
		}
	})
	phaseDone("gc", done, n, t0)
}
