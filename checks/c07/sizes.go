package main

// phase "sizes": a dedicated family around the embed-or-hash threshold (a node is referenced by its hash
// iff its RLP encoding has at least 32 bytes). Sibling leaves under a shared prefix with swept value
// lengths, so that EVERY node kind — leaf, extension, branch with 2 children, branch with 3 children,
// branch with a value — occurs as a NON-ROOT node with an encoding of exactly 31, 32 and 33 bytes
// (measured on the independent reference, guarded). Canonical-root differential only exposes a wrong
// threshold: Get, commit/reopen and proofs are self-consistent under it.
//
//	P  = 12      value in slot 17 of the branch            lengths {0,1,4}
//	S1 = 1234    sibling leaf (one remaining nibble)       lengths 0..40
//	S2 = 1254    sibling leaf                              lengths 0..40
//	S3 = 1274    third sibling                             lengths {0,1,2,3,5,8}
//	S4 = 1294    extra sibling, only added and deleted again (3 bytes)
//	O  = 50      other top-level key: makes the extension 12.. a non-root node   lengths {0,2}
//
// Per content state: ascending / descending insertion, add-S4-then-delete (in memory, after Hash, and on
// a committed + reopened trie), StackTrie (content without P) — each root against the reference root.

import (
	"bytes"
	"fmt"
	"sort"
	"strings"
	"sync"
	"sync/atomic"
	"time"

	"github.com/kardiachain/go-kardia/kai/kaidb/memorydb"
	"github.com/kardiachain/go-kardia/lib/common"
	"github.com/kardiachain/go-kardia/trie"
	"github.com/kardiachain/go-kardia/types"
)

const (
	szP = iota
	szS1
	szS2
	szS3
	szS4
	szO
	szNK
)

var szKeys = [szNK][]byte{{0x12}, {0x12, 0x34}, {0x12, 0x54}, {0x12, 0x74}, {0x12, 0x94}, {0x50}}
var szNames = [szNK]string{"12", "1234", "1254", "1274", "1294", "50"}
var szS3Len = []int{0, 1, 2, 3, 5, 8}
var szPLen = []int{0, 1, 4}
var szOLen = []int{0, 2}

const szSweep = 41 // value lengths 0..40 of S1 and S2

var szPaths = []string{"insert-ascending", "insert-descending", "add-sibling-then-delete", "hash-add-sibling-hash-delete", "reopened-add-sibling-then-delete", "stacktrie"}

type szState [szNK]int // value length per key, 0 = absent

func szCount() int64 {
	return int64(len(szOLen) * len(szPLen) * len(szS3Len) * szSweep * szSweep)
}

// szDecode: the two swept lengths are the least significant digits.
func szDecode(idx int64) (s szState) {
	s[szS2] = int(idx % szSweep)
	idx /= szSweep
	s[szS1] = int(idx % szSweep)
	idx /= szSweep
	s[szS3] = szS3Len[idx%int64(len(szS3Len))]
	idx /= int64(len(szS3Len))
	s[szP] = szPLen[idx%int64(len(szPLen))]
	idx /= int64(len(szPLen))
	s[szO] = szOLen[idx%int64(len(szOLen))]
	return
}

func szVal(k, n int) []byte { return rep(byte(0xd0+k), n) }

func (s szState) kvs() []refKV {
	var out []refKV
	for k := 0; k < szNK; k++ {
		if s[k] > 0 {
			out = append(out, refKV{key: szKeys[k], val: szVal(k, s[k])})
		}
	}
	return out
}

func (s szState) String() string {
	var p []string
	for k := 0; k < szNK; k++ {
		if s[k] > 0 {
			p = append(p, fmt.Sprintf("%s:%dB", szNames[k], s[k]))
		}
	}
	return "{" + strings.Join(p, ",") + "}"
}

func init() {
	phases["sizes"] = &phase{
		descr: func(n []int64) string {
			return fmt.Sprintf("sizes|state=%v|path=%s", szDecode(n[0]), szPaths[n[1]])
		},
		run: func(w *worker, n []int64) (string, string) { return runSizes(w, szDecode(n[0]), int(n[1])) },
	}
}

func szCheck(t *trie.Trie, s szState, want [32]byte, what string) (string, string) {
	for k := 0; k < szNK; k++ {
		v, err := t.Get(szKeys[k])
		if err != nil {
			return "get-error", fmt.Sprintf("%s: Get(%s) fails: %v", what, szNames[k], err)
		}
		if !bytes.Equal(v, szVal(k, s[k])) {
			return "get-vs-model", fmt.Sprintf("%s: Get(%s) = %x, want %d bytes (content %v)", what, szNames[k], v, s[k], s)
		}
	}
	if h := t.Hash(); h != common.Hash(want) {
		return "root-vs-reference", fmt.Sprintf("%s: Hash() = %x, independent reference root for content %v is %x", what, h[:], s, want[:])
	}
	return "", ""
}

func runSizes(w *worker, s szState, path int) (oracle, detail string) {
	defer func() {
		if p := recover(); p != nil {
			oracle, detail = "panic", "trie code panics: "+panicText(p)
		}
	}()
	want := refRoot(s.kvs(), nil)
	what := szPaths[path]
	put := func(t *trie.Trie, k int, n int) {
		t.MustUpdate(szKeys[k], szVal(k, n))
		w.transitions++
	}
	fill := func(t *trie.Trie, desc bool) {
		for i := 0; i < szNK; i++ {
			k := i
			if desc {
				k = szNK - 1 - i
			}
			if s[k] > 0 {
				put(t, k, s[k])
			}
		}
	}
	switch path {
	case 0, 1:
		t := trie.NewEmpty(w.shared)
		fill(t, path == 1)
		return szCheck(t, s, want, what)
	case 2, 3:
		t := trie.NewEmpty(w.shared)
		fill(t, false)
		if path == 3 {
			t.Hash()
		}
		put(t, szS4, 3)
		if path == 3 {
			with := s
			with[szS4] = 3
			if o, d := szCheck(t, with, refRoot(with.kvs(), nil), what+" (with the extra sibling)"); o != "" {
				return o, d
			}
		}
		t.MustDelete(szKeys[szS4])
		w.transitions++
		return szCheck(t, s, want, what)
	case 4:
		disk := memorydb.New()
		db := trie.NewDatabase(disk)
		t := trie.NewEmpty(db)
		fill(t, false)
		root, err := commitTo(db, t, types.EmptyRootHash, true)
		if err != nil {
			return "commit-error", err.Error()
		}
		if root != common.Hash(want) {
			return "root-vs-reference", fmt.Sprintf("%s: Commit() root = %x, independent reference root for content %v is %x", what, root[:], s, want[:])
		}
		t, err = trie.New(trie.TrieID(root), trie.NewDatabase(disk))
		if err != nil {
			return "reopen-error", fmt.Sprintf("trie.New on the committed root of content %v fails: %v", s, err)
		}
		put(t, szS4, 3)
		t.MustDelete(szKeys[szS4])
		w.transitions += 2
		return szCheck(t, s, want, what)
	case 5:
		if s[szP] > 0 {
			return "", "" // a key that is a prefix of others: outside the streaming trie's specification
		}
		st := trie.NewStackTrie(nil)
		for k := 0; k < szNK; k++ {
			if s[k] > 0 {
				st.Update(szKeys[k], szVal(k, s[k]))
				w.transitions++
			}
		}
		if h := st.Hash(); h != common.Hash(want) {
			return "stacktrie-root", fmt.Sprintf("StackTrie root %x for sorted content %v, reference root %x", h[:], s, want[:])
		}
		w.counters["sizes_stacktrie_compared"]++
	}
	return "", ""
}

var szFineKinds = []string{"leaf", "ext", "branch2", "branch3", "branchv"}

func phaseSizes() {
	t0 := time.Now()
	n := szCount()
	var bad int64
	var smu sync.Mutex
	total := newRefStats()
	done := parRange(n, 64, func(w *worker, i int64) {
		s := szDecode(i)
		if s[szS1]+s[szS2]+s[szS3]+s[szP]+s[szO] == 0 {
			return
		}
		// the reference itself: node shapes (non-vacuity) and the second opinion
		st := newRefStats()
		want := refRoot(s.kvs(), st)
		if g, err := gethRoot(s.kvs()); err != nil || g != want {
			fmt.Printf("MACHINERY-ERROR reference roots disagree on content %v: own %x, go-ethereum %x (%v)\n", s, want, g, err)
			atomic.AddInt64(&bad, 1)
			return
		}
		if len(st.nonroot) > 0 {
			smu.Lock()
			for k, v := range st.nonroot {
				total.nonroot[k] += v
			}
			smu.Unlock()
		}
		for p := range szPaths {
			if o, d := runSizes(w, s, p); o != "" {
				violation("sizes", o, []int64{i, int64(p)}, d)
			}
		}
		w.counters["sizes_states"]++
	})
	if atomic.LoadInt64(&bad) > 0 {
		r.Vacuous("the checker's reference root and go-ethereum v1.9.15 disagree on a state of the sizes family; no verdict")
	}
	var sz []string
	for k, v := range total.nonroot {
		sz = append(sz, fmt.Sprintf("%s:%d", k, v))
	}
	sort.Strings(sz)
	r.Set("sizes_nonroot_nodes_28_to_36_bytes", strings.Join(sz, " "))
	if done == n {
		for _, k := range szFineKinds {
			for _, b := range []int{31, 32, 33} {
				key := k + "/" + itoa(b)
				r.Require(total.nonroot[key] > 0, "no non-root node of kind/size "+key+" in the sizes family (embedding threshold of that node kind not exercised)")
			}
		}
	}
	phaseDone("sizes", done, n, t0)
}
