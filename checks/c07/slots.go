// phase "slots": every child slot of a branch node, as a child that is referenced by hash.
//
// The colliding-key universe populates the nibbles 0, 1, 2, 3, 4, 5, a and b of its branches; code that walks the 16
// children of a branch (hashing, committing, gathering the children for the node database's flush, iterating) is
// indexed 0..15 and a loop bound that is off by one loses slot 0 or slot f only. For every pair of nibbles a < b
// (120 pairs), at the root and below a two-nibble extension, and for every third nibble c added to the pair (a branch of
// three): the leaves carry 40-byte values (hashed children); the trie is committed, FLUSHED to disk, reopened on a
// new trie database over that disk, and must give the reference root, every value and exactly the stored leaves.
package main

import (
	"bytes"
	"fmt"

	"github.com/kardiachain/go-kardia/kai/kaidb/memorydb"
	"github.com/kardiachain/go-kardia/trie"
	"github.com/kardiachain/go-kardia/types"
)

func init() {
	phases["slots"] = &phase{
		descr: func(n []int64) string {
			return fmt.Sprintf("slots|children=%x,%x,%s|below-extension=%v", n[0], n[1], thirdName(n[2]), n[3] == 1)
		},
		run: func(w *worker, n []int64) (string, string) { return runSlots(n) },
	}
}

func thirdName(c int64) string {
	if c < 0 {
		return "-"
	}
	return fmt.Sprintf("%x", c)
}

func runSlots(n []int64) (string, string) {
	var ks [][]byte
	for _, nb := range []int64{n[0], n[1], n[2]} {
		if nb < 0 {
			continue
		}
		k := []byte{byte(nb)<<4 | 0x1, 0x11}
		if n[3] == 1 {
			k = append([]byte{0x77}, k...)
		}
		ks = append(ks, k)
	}
	var kvs []refKV
	disk := memorydb.New()
	db := trie.NewDatabase(disk)
	t := trie.NewEmpty(db)
	for i, k := range ks {
		v := bytes.Repeat([]byte{0xc0 + byte(i)}, 40)
		t.MustUpdate(k, v)
		kvs = append(kvs, refKV{key: k, nib: toNibbles(k), val: v})
	}
	want := refRoot(kvs, nil)
	root, err := commitTo(db, t, types.EmptyRootHash, true)
	if err != nil {
		return "commit-error", err.Error()
	}
	if root != want {
		return "root-vs-reference", fmt.Sprintf("committed root %x, reference root %x", root, want)
	}
	t2, err := trie.New(trie.TrieID(root), trie.NewDatabase(disk))
	if err != nil {
		return "reopen-error", "after Commit + flush to disk, a new trie database over that disk cannot open the root: " + err.Error()
	}
	for i, k := range ks {
		v, err := t2.Get(k)
		if err != nil {
			return "reopen-get-error", fmt.Sprintf("after Commit + flush + reopen on a new trie database, Get(%x) fails: %v", k, err)
		}
		if !bytes.Equal(v, kvs[i].val) {
			return "reopen-get-vs-model", fmt.Sprintf("after reopen Get(%x) = %x, stored %x", k, v, kvs[i].val)
		}
	}
	cnt := 0
	it := trie.NewIterator(t2.NodeIterator(nil))
	for it.Next() {
		cnt++
	}
	if it.Err != nil || cnt != len(ks) {
		return "reopen-iter-vs-model", fmt.Sprintf("after reopen the iterator yields %d leaves (err %v), stored %d", cnt, it.Err, len(ks))
	}
	return "", ""
}

func phaseSlots() {
	var cases [][]int64
	for ext := int64(0); ext <= 1; ext++ {
		for a := int64(0); a < 16; a++ {
			for b := a + 1; b < 16; b++ {
				cases = append(cases, []int64{a, b, -1, ext})
				for c := b + 1; c < 16; c++ {
					cases = append(cases, []int64{a, b, c, ext})
				}
			}
		}
	}
	var slot [16]int64
	for _, c := range cases {
		if o, d := runSlots(c); o != "" {
			violation("slots", o, c, d)
		}
		for _, nb := range c[:3] {
			if nb >= 0 {
				slot[nb]++
			}
		}
	}
	r.Add("slots_cases", int64(len(cases)))
	r.Add("cases", int64(len(cases)))
	for i, n := range slot {
		r.Require(n > 0, fmt.Sprintf("slots phase: branch child slot %x never populated", i))
	}
}
