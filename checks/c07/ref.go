package main

// Independent reference: the root of a Merkle Patricia trie computed from its definition
// (Ethereum yellow paper, appendix D) for a sorted list of (key, value) pairs.
//
// Nothing in this file calls the trie of the repository or of go-ethereum: own nibble logic,
// own hex-prefix encoding, own RLP of nodes. Keys may have different lengths and one key may be
// a strict prefix of another one (its value then sits in the 17th slot of a branch node); no
// terminator nibble is used, a key simply "ends" at its length.

import (
	"bytes"
	"sort"

	"golang.org/x/crypto/sha3"
)

func keccak(b []byte) (o [32]byte) {
	h := sha3.NewLegacyKeccak256()
	h.Write(b)
	h.Sum(o[:0])
	return
}

func rlpHead(base byte, n int) []byte {
	if n < 56 {
		return []byte{base + byte(n)}
	}
	var be []byte
	for x := n; x > 0; x >>= 8 {
		be = append([]byte{byte(x)}, be...)
	}
	return append([]byte{base + 55 + byte(len(be))}, be...)
}

func rlpStr(b []byte) []byte {
	if len(b) == 1 && b[0] < 0x80 {
		return []byte{b[0]}
	}
	return append(rlpHead(0x80, len(b)), b...)
}

func rlpList(items ...[]byte) []byte {
	var payload []byte
	for _, it := range items {
		payload = append(payload, it...)
	}
	return append(rlpHead(0xc0, len(payload)), payload...)
}

// rlpUint is the RLP encoding of an unsigned integer (big endian, no leading zeros).
func rlpUint(x uint64) []byte {
	var be []byte
	for ; x > 0; x >>= 8 {
		be = append([]byte{byte(x)}, be...)
	}
	return rlpStr(be)
}

// hexPrefix is the compact ("hex prefix") encoding of a nibble path.
func hexPrefix(nib []byte, leaf bool) []byte {
	flag := byte(0)
	if leaf {
		flag = 2
	}
	var out []byte
	if len(nib)%2 == 1 {
		out = append(out, (flag|1)<<4|nib[0])
		nib = nib[1:]
	} else {
		out = append(out, flag<<4)
	}
	for i := 0; i < len(nib); i += 2 {
		out = append(out, nib[i]<<4|nib[i+1])
	}
	return out
}

func toNibbles(key []byte) []byte {
	n := make([]byte, 0, 2*len(key))
	for _, b := range key {
		n = append(n, b>>4, b&15)
	}
	return n
}

type refKV struct {
	key []byte
	nib []byte
	val []byte
}

// refStats records which node shapes the reference produced (non-vacuity measurements).
type refStats struct {
	sizes     map[string]int // "<kind>/<encoded size>" -> count, sizes 28..36 only
	embedded  map[string]int // kind -> number of non-root nodes with encoding < 32 bytes
	hashed    map[string]int // kind -> number of non-root nodes with encoding >= 32 bytes
	branchVal int            // branch nodes carrying a value in slot 17
	nonroot   map[string]int // "<fine kind>/<size>" of NON-ROOT nodes with 28..36 bytes; fine kinds: leaf, ext, branch2, branch3, branchN, branchv (branch with a value)
}

func newRefStats() *refStats {
	return &refStats{sizes: map[string]int{}, embedded: map[string]int{}, hashed: map[string]int{}, nonroot: map[string]int{}}
}

func (s *refStats) note(kind string, enc []byte, root bool) {
	if s == nil {
		return
	}
	if n := len(enc); n >= 28 && n <= 36 {
		s.sizes[kind+"/"+itoa(n)]++
	}
	if !root {
		if len(enc) < 32 {
			s.embedded[kind]++
		} else {
			s.hashed[kind]++
		}
	}
}

// noteFine records the fine-grained kind of a non-root node near the embedding threshold.
func (s *refStats) noteFine(kind string, enc []byte, root bool) {
	if s == nil || root {
		return
	}
	if n := len(enc); n >= 28 && n <= 36 {
		s.nonroot[kind+"/"+itoa(n)]++
	}
}

func itoa(n int) string {
	if n == 0 {
		return "0"
	}
	var b []byte
	neg := n < 0
	if neg {
		n = -n
	}
	for ; n > 0; n /= 10 {
		b = append([]byte{byte('0' + n%10)}, b...)
	}
	if neg {
		b = append([]byte{'-'}, b...)
	}
	return string(b)
}

// refRef is how a parent refers to a child: the encoding itself when shorter than 32 bytes, else its hash.
func refRef(enc []byte) []byte {
	if len(enc) < 32 {
		return enc
	}
	h := keccak(enc)
	return rlpStr(h[:])
}

// refNode encodes the node for items (sorted, distinct keys) that all share their first d nibbles.
func refNode(items []refKV, d int, st *refStats) []byte {
	if len(items) == 1 {
		enc := rlpList(rlpStr(hexPrefix(items[0].nib[d:], true)), rlpStr(items[0].val))
		st.note("leaf", enc, d == 0)
		st.noteFine("leaf", enc, d == 0)
		return enc
	}
	// longest common prefix below depth d: of the first and last item, since the list is sorted
	a, b := items[0].nib, items[len(items)-1].nib
	cp := 0
	for d+cp < len(a) && d+cp < len(b) && a[d+cp] == b[d+cp] {
		cp++
	}
	if cp > 0 {
		child := refNode(items, d+cp, st)
		enc := rlpList(rlpStr(hexPrefix(a[d:d+cp], false)), refRef(child))
		st.note("ext", enc, d == 0)
		st.noteFine("ext", enc, d == 0)
		return enc
	}
	slots := make([][]byte, 17)
	for i := range slots {
		slots[i] = []byte{0x80}
	}
	rest := items
	nchild, hasVal := 0, false
	if len(rest[0].nib) == d { // the key that ends here sorts first
		hasVal = true
		slots[16] = rlpStr(rest[0].val)
		rest = rest[1:]
		if st != nil {
			st.branchVal++
		}
	}
	for len(rest) > 0 {
		n := rest[0].nib[d]
		j := 1
		for j < len(rest) && rest[j].nib[d] == n {
			j++
		}
		slots[n] = refRef(refNode(rest[:j], d+1, st))
		rest = rest[j:]
		nchild++
	}
	enc := rlpList(slots...)
	st.note("branch", enc, d == 0)
	switch {
	case hasVal:
		st.noteFine("branchv", enc, d == 0)
	case nchild == 2:
		st.noteFine("branch2", enc, d == 0)
	case nchild == 3:
		st.noteFine("branch3", enc, d == 0)
	default:
		st.noteFine("branchN", enc, d == 0)
	}
	return enc
}

// refRoot returns the root hash for the given content (any order, distinct keys, non-empty values).
func refRoot(kvs []refKV, st *refStats) [32]byte {
	if len(kvs) == 0 {
		return keccak([]byte{0x80})
	}
	items := make([]refKV, len(kvs))
	copy(items, kvs)
	for i := range items {
		if items[i].nib == nil {
			items[i].nib = toNibbles(items[i].key)
		}
	}
	sort.Slice(items, func(i, j int) bool { return bytes.Compare(items[i].key, items[j].key) < 0 })
	return keccak(refNode(items, 0, st))
}
