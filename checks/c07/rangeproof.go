package main

import (
	"bytes"
	"fmt"
	"sort"
	"strings"
	"time"

	"github.com/kardiachain/go-kardia/kai/kaidb"
	"github.com/kardiachain/go-kardia/kai/kaidb/memorydb"
	"github.com/kardiachain/go-kardia/lib/common"
	"github.com/kardiachain/go-kardia/trie"
)

// Range proofs are judged on a second universe of FIXED-LENGTH keys (VerifyRangeProof rejects edge
// keys of different lengths by design). Oracle, for a verifier that asks for the range starting at
// firstKey and receives a sorted list T of key/value pairs plus edge proofs for firstKey and for the
// last key of T:   accept  <=>  T is exactly the trie's content in [firstKey, last key of T];
// on acceptance the "more" flag tells whether a key greater than the last one exists.
// Without a proof: accept <=> T is the whole content. With an empty T: accept <=> no key >= firstKey.

const RK = 6
const RNS = 729

var rkeys [RK][]byte
var rvals [RK][3][]byte
var redges [][]byte // candidate firstKeys; the first RK entries are rkeys

func initRange() {
	rkeys = [RK][]byte{{0x12, 0x00}, {0x12, 0x01}, {0x12, 0x10}, {0x13, 0x00}, {0x20, 0x00}, {0x20, 0xff}}
	for k := 0; k < RK; k++ {
		rvals[k] = [3][]byte{nil, {byte(0x11 * (k + 1))}, rep(byte(0xb0+k), 33+k)}
	}
	rvals[1][1] = []byte{0x85, 0x01}
	rvals[2][2] = rep(0xb2, 28) // leaf of 31..33 bytes depending on depth
	for k := 0; k < RK; k++ {
		redges = append(redges, rkeys[k])
	}
	for _, e := range [][]byte{{0x00, 0x00}, {0x11, 0x00}, {0x12, 0x05}, {0x12, 0xff}, {0x1f, 0xff}, {0x20, 0x01}, {0xff, 0xff}} {
		redges = append(redges, e)
	}
	initRangeOrder()
}

type rmodel [RK]uint8

var rstateOrder [RNS]int

func initRangeOrder() {
	for s := range rstateOrder {
		rstateOrder[s] = s
	}
	sort.SliceStable(rstateOrder[:], func(i, j int) bool {
		a, b := rmodelOf(rstateOrder[i]), rmodelOf(rstateOrder[j])
		pa, pb := 0, 0
		for k := 0; k < RK; k++ {
			if a[k] != 0 {
				pa++
			}
			if b[k] != 0 {
				pb++
			}
		}
		if pa != pb {
			return pa < pb
		}
		return rstateOrder[i] < rstateOrder[j]
	})
}

func rmodelOf(s int) (m rmodel) {
	for k := 0; k < RK; k++ {
		m[k] = uint8(s % 3)
		s /= 3
	}
	return
}

func (m rmodel) String() string {
	var p []string
	for k := 0; k < RK; k++ {
		if m[k] != 0 {
			p = append(p, fmt.Sprintf("%x:%s", rkeys[k], []string{"", "S", "L"}[m[k]]))
		}
	}
	return "{" + strings.Join(p, ",") + "}"
}

type rangeCtx struct {
	m       rmodel
	t       *trie.Trie
	root    common.Hash
	present []int
	proofs  [][][]byte // per redges index
}

func buildRange(w *worker, s int) (c *rangeCtx, oracle, detail string) {
	defer func() {
		if p := recover(); p != nil {
			oracle, detail = "panic", "trie code panics: "+panicText(p)
		}
	}()
	c = &rangeCtx{m: rmodelOf(s)}
	c.t = trie.NewEmpty(trie.NewDatabase(memorydb.New()))
	var kvs []refKV
	for k := 0; k < RK; k++ {
		if c.m[k] != 0 {
			if err := c.t.Update(rkeys[k], rvals[k][c.m[k]]); err != nil {
				return c, "op-error", err.Error()
			}
			w.transitions++
			c.present = append(c.present, k)
			kvs = append(kvs, refKV{key: rkeys[k], val: rvals[k][c.m[k]]})
		}
	}
	c.root = c.t.Hash()
	if want := refRoot(kvs, nil); c.root != common.Hash(want) {
		return c, "root-vs-reference", fmt.Sprintf("Hash() = %x, reference root %x for content %v", c.root[:], want[:], c.m)
	}
	c.proofs = make([][][]byte, len(redges))
	for e := range redges {
		var pl proofList
		if err := c.t.Prove(redges[e], 0, &pl); err != nil {
			return c, "prove-error", err.Error()
		}
		c.proofs[e] = pl
	}
	return c, "", ""
}

type claim struct {
	k int
	v []byte
}

// rangeCase: edge = index into redges or -1 (no proof at all, whole trie claimed);
// i, j = positions in c.present of the true range the claim is derived from (i = -1: empty claim);
// kind 0 none, 1 change value of element x (alt 0: the key's other value, 1: another key's value),
// 2 drop element x, 3 insert absent universe key x.
func (c *rangeCtx) claimOf(i, j, kind, x, alt int64) []claim {
	var T []claim
	if i < 0 {
		return T
	}
	for p := i; p <= j; p++ {
		k := c.present[p]
		T = append(T, claim{k, rvals[k][c.m[k]]})
	}
	switch kind {
	case 1:
		k := T[x].k
		if alt == 0 {
			T[x].v = rvals[k][3-c.m[k]]
		} else {
			T[x].v = rvals[(k+1)%RK][1]
		}
	case 2:
		T = append(T[:x], T[x+1:]...)
	case 3:
		k := int(x)
		pos := 0
		for pos < len(T) && T[pos].k < k {
			pos++
		}
		T = append(T, claim{})
		copy(T[pos+1:], T[pos:])
		T[pos] = claim{k, rvals[k][1]}
	}
	return T
}

func (c *rangeCtx) eval(w *worker, edge, i, j, kind, x, alt int64) (oracle, detail string) {
	T := c.claimOf(i, j, kind, x, alt)
	var first []byte
	if edge >= 0 {
		first = redges[edge]
	} else if len(T) > 0 {
		first = rkeys[T[0].k]
	}
	if len(T) > 0 && edge >= 0 && bytes.Compare(first, rkeys[T[0].k]) > 0 {
		return "", "" // the caller never accepts keys before the requested origin; not a case
	}
	// truth
	wantAccept, wantMore := true, false
	var last []byte
	if len(T) > 0 {
		last = rkeys[T[len(T)-1].k]
	}
	switch {
	case len(T) == 0:
		if edge < 0 {
			wantAccept = len(c.present) == 0
		} else {
			for _, k := range c.present {
				if bytes.Compare(rkeys[k], first) >= 0 {
					wantAccept = false
				}
			}
		}
	default:
		var truth []claim
		for _, k := range c.present {
			if (edge < 0 || bytes.Compare(rkeys[k], first) >= 0) && (edge < 0 || bytes.Compare(rkeys[k], last) <= 0) {
				truth = append(truth, claim{k, rvals[k][c.m[k]]})
			}
			if edge >= 0 && bytes.Compare(rkeys[k], last) > 0 {
				wantMore = true
			}
		}
		wantAccept = len(truth) == len(T)
		for p := 0; wantAccept && p < len(T); p++ {
			wantAccept = truth[p].k == T[p].k && bytes.Equal(truth[p].v, T[p].v)
		}
	}
	var ks, vs [][]byte
	for _, cl := range T {
		ks = append(ks, rkeys[cl.k])
		vs = append(vs, cl.v)
	}
	var db kaidb.KeyValueReader
	if edge >= 0 {
		nodes := append([][]byte{}, c.proofs[edge]...)
		if len(T) > 0 {
			nodes = append(nodes, c.proofs[T[len(T)-1].k]...) // redges[k] == rkeys[k] for k < RK
		}
		db = mapOf(nodes)
	}
	if len(T) == 0 {
		last = first
	}
	var more bool
	var err error
	pan := ""
	func() {
		defer func() {
			if p := recover(); p != nil {
				pan = panicText(p)
			}
		}()
		more, err = trie.VerifyRangeProof(c.root, first, last, ks, vs, db)
	}()
	w.counters["range_proofs_verified"]++
	what := fmt.Sprintf("content %v, firstKey %x, claimed %s", c.m, first, claimString(T))
	switch {
	case pan != "":
		return "rangeproof-panic", "VerifyRangeProof panics (" + what + "): " + pan
	case wantAccept && err != nil:
		return "rangeproof-genuine-rejected", fmt.Sprintf("the true content of the range is rejected (%s): %v", what, err)
	case wantAccept && more != wantMore:
		return "rangeproof-more-flag", fmt.Sprintf("range accepted but more=%v, want %v (%s)", more, wantMore, what)
	case !wantAccept && err == nil:
		return "rangeproof-tampered-accepted", fmt.Sprintf("a list that is not the content of [firstKey, last key] is accepted (%s)", what)
	}
	if wantAccept {
		w.counters["range_proofs_true_accepted"]++
	} else {
		w.counters["range_proofs_tampered_rejected"]++
	}
	return "", ""
}

func claimString(T []claim) string {
	var p []string
	for _, cl := range T {
		v := fmt.Sprintf("%x", cl.v)
		if len(v) > 8 {
			v = v[:8] + fmt.Sprintf("..(%dB)", len(cl.v))
		}
		p = append(p, fmt.Sprintf("%x=%s", rkeys[cl.k], v))
	}
	return "[" + strings.Join(p, " ") + "]"
}

// forEachRangeCase enumerates every case of one content state.
func (c *rangeCtx) forEachRangeCase(f func(edge, i, j, kind, x, alt int64)) {
	np := int64(len(c.present))
	for edge := int64(-1); edge < int64(len(redges)); edge++ {
		if np == 0 && edge >= 0 {
			continue // proofs of the empty trie are not judged
		}
		f(edge, -1, -1, 0, 0, 0) // empty claim
		for i := int64(0); i < np; i++ {
			for j := i; j < np; j++ {
				if edge < 0 && (i != 0 || j != np-1) {
					continue // without a proof only the whole content can be claimed
				}
				f(edge, i, j, 0, 0, 0)
				for x := int64(0); x <= j-i; x++ {
					f(edge, i, j, 1, x, 0)
					f(edge, i, j, 1, x, 1)
					if j > i {
						f(edge, i, j, 2, x, 0)
					}
				}
				for k := int64(0); k < RK; k++ {
					if c.m[k] == 0 {
						f(edge, i, j, 3, k, 0)
					}
				}
			}
		}
	}
}

func rangeDescr(n []int64) string {
	m := rmodelOf(rstateOrder[n[0]])
	first := "none(no-proof)"
	if n[1] >= 0 {
		first = fmt.Sprintf("%x", redges[n[1]])
	}
	t := "none"
	switch n[4] {
	case 1:
		t = fmt.Sprintf("value-of-element-%d-changed(alt%d)", n[5], n[6])
	case 2:
		t = fmt.Sprintf("element-%d-dropped", n[5])
	case 3:
		t = fmt.Sprintf("absent-key-%x-inserted", rkeys[n[5]])
	}
	rg := "empty"
	if n[2] >= 0 {
		rg = fmt.Sprintf("present[%d..%d]", n[2], n[3])
	}
	return fmt.Sprintf("range|state=%v|first=%s|claim=%s|tamper=%s", m, first, rg, t)
}

func init() {
	phases["range"] = &phase{
		descr: rangeDescr,
		run: func(w *worker, n []int64) (string, string) {
			c, o, d := buildRange(w, rstateOrder[n[0]])
			if o != "" {
				return o, d
			}
			return c.eval(w, n[1], n[2], n[3], n[4], n[5], n[6])
		},
	}
}

func phaseRange() {
	t0 := time.Now()
	done := parRange(RNS, 2, func(w *worker, s int64) {
		c, o, d := buildRange(w, rstateOrder[s])
		if o != "" {
			violation("range", o, []int64{s, -1, -1, -1, 0, 0, 0}, d)
			return
		}
		c.forEachRangeCase(func(edge, i, j, kind, x, alt int64) {
			if o, d := c.eval(w, edge, i, j, kind, x, alt); o != "" {
				violation("range", o, []int64{s, edge, i, j, kind, x, alt}, d)
			}
		})
	})
	phaseDone("range", done, RNS, t0)
}
