package main

import (
	"bytes"
	"fmt"
	"sort"
	"strings"
)

// The key universe: 7 keys forced to collide.
//
//	k0 = 12            1 byte, strict prefix of k1, k2, k3 (its value lives in slot 17 of a branch)
//	k1 = 1204          shares the byte 12 with k2/k3, splits at the next nibble (branch children 0 and 3)
//	k2 = 1234          shares 3 nibbles with k3 (split inside a byte)
//	k3 = 1235
//	k4 = 13            shares one nibble with k0..k3
//	k5 = 2a x 32       32 bytes
//	k6 = 2a x 31 2b 00 33 bytes, shares 63 nibbles with k5 (a long extension node)
//
// Index order is byte-lexicographic order.
const NK = 7
const NS = 2187 // 3^7 content states: every key absent / short value / long value

var keys [NK][]byte

// vals[k][1] = "short", vals[k][2] = "long", vals[k][0] = empty (= delete). All non-empty values are
// pairwise distinct. Sizes are chosen so that leaf encodings of 31, 32 and 33 bytes occur (the
// embed-or-hash threshold), single bytes below and above 0x80, and a >55-byte RLP string.
var vals [NK][3][]byte

var pow3 [NK + 1]int

func rep(b byte, n int) []byte { return bytes.Repeat([]byte{b}, n) }

func initUniverse() {
	keys = [NK][]byte{
		{0x12}, {0x12, 0x04}, {0x12, 0x34}, {0x12, 0x35}, {0x13},
		rep(0x2a, 32), append(rep(0x2a, 31), 0x2b, 0x00),
	}
	vals[0] = [3][]byte{nil, {0x05}, rep(0xa0, 32)}
	vals[1] = [3][]byte{nil, rep(0xc3, 28), rep(0xa1, 30)} // leaf below a branch: 31 / 33 bytes
	vals[2] = [3][]byte{nil, {0x81}, rep(0xa2, 29)}        // leaf below a branch: exactly 32 bytes
	vals[3] = [3][]byte{nil, {0x02, 0x22}, rep(0xa3, 33)}
	vals[4] = [3][]byte{nil, {0x00}, rep(0xa4, 56)}
	vals[5] = [3][]byte{nil, {0x7f}, rep(0xa5, 29)}
	vals[6] = [3][]byte{nil, {0x80, 0x00, 0xff}, rep(0xa6, 40)}
	pow3[0] = 1
	for i := 1; i <= NK; i++ {
		pow3[i] = 3 * pow3[i-1]
	}
	for i := 1; i < NK; i++ {
		if bytes.Compare(keys[i-1], keys[i]) >= 0 {
			panic("universe not sorted")
		}
	}
	seen := map[string]bool{}
	for k := 0; k < NK; k++ {
		for v := 1; v <= 2; v++ {
			if seen[string(vals[k][v])] {
				panic("values not distinct")
			}
			seen[string(vals[k][v])] = true
		}
	}
}

type model [NK]uint8

func (m *model) idx() int {
	s := 0
	for k := 0; k < NK; k++ {
		s += int(m[k]) * pow3[k]
	}
	return s
}

func modelOf(s int) (m model) {
	for k := 0; k < NK; k++ {
		m[k] = uint8(s % 3)
		s /= 3
	}
	return
}

func (m *model) present() int {
	n := 0
	for _, v := range m {
		if v != 0 {
			n++
		}
	}
	return n
}

// prefixFree: no present key is a strict prefix of another present key.
func (m *model) prefixFree() bool {
	for i := 0; i < NK; i++ {
		for j := 0; j < NK; j++ {
			if i != j && m[i] != 0 && m[j] != 0 && len(keys[i]) < len(keys[j]) && bytes.HasPrefix(keys[j], keys[i]) {
				return false
			}
		}
	}
	return true
}

func (m *model) kvs() []refKV {
	var out []refKV
	for k := 0; k < NK; k++ {
		if m[k] != 0 {
			out = append(out, refKV{key: keys[k], val: vals[k][m[k]]})
		}
	}
	return out
}

func (m model) String() string {
	var p []string
	for k := 0; k < NK; k++ {
		switch m[k] {
		case 1:
			p = append(p, fmt.Sprintf("k%d:S", k))
		case 2:
			p = append(p, fmt.Sprintf("k%d:L", k))
		}
	}
	if len(p) == 0 {
		return "{}"
	}
	return "{" + strings.Join(p, ",") + "}"
}

// stateOrder lists the content states by (number of present keys, index), so that the first
// failing state of an enumeration is a smallest one. statePos is its inverse.
var stateOrder [NS]int
var statePos [NS]int

func initStateOrder() {
	for s := 0; s < NS; s++ {
		stateOrder[s] = s
	}
	sort.SliceStable(stateOrder[:], func(i, j int) bool {
		a, b := modelOf(stateOrder[i]), modelOf(stateOrder[j])
		if a.present() != b.present() {
			return a.present() < b.present()
		}
		return stateOrder[i] < stateOrder[j]
	})
	for p, s := range stateOrder {
		statePos[s] = p
	}
}

// Operation tokens.
const (
	tokUS = 0  // 0..6   Update(k, short)
	tokUL = 7  // 7..13  Update(k, long)
	tokUE = 14 // 14..20 Update(k, empty)  (= delete through Update)
	tokD  = 21 // 21..27 Delete(k)
	tokH  = 28 // Hash()
	tokC  = 29 // Commit, write to the trie database, flush to disk, reopen by root on a new trie database
	tokY  = 30 // Copy(), continue on the copy; the original is re-checked at the end
	tokG  = 31 // Get of every key of the universe
	tokR  = 32 // Commit into the trie database's dirty cache, reference the new root, dereference the previous one, reopen (no flush)
	NT    = 33
)

func tokName(t uint8) string {
	switch {
	case t < tokUL:
		return fmt.Sprintf("U(k%d,S)", t-tokUS)
	case t < tokUE:
		return fmt.Sprintf("U(k%d,L)", t-tokUL)
	case t < tokD:
		return fmt.Sprintf("U(k%d,E)", t-tokUE)
	case t < tokH:
		return fmt.Sprintf("D(k%d)", t-tokD)
	case t == tokH:
		return "H"
	case t == tokC:
		return "C"
	case t == tokY:
		return "Y"
	case t == tokG:
		return "G"
	case t == tokR:
		return "R"
	}
	return "?"
}

func opsString(ops []uint8) string {
	p := make([]string, len(ops))
	for i, t := range ops {
		p[i] = tokName(t)
	}
	return strings.Join(p, ";")
}

// decodeOps writes the base-NT digits of i into ops, most significant first (index order =
// lexicographic order of token sequences).
func decodeOps(i int64, ops []uint8) {
	for p := len(ops) - 1; p >= 0; p-- {
		ops[p] = uint8(i % NT)
		i /= NT
	}
}

func hasTok(ops []uint8, t uint8) bool {
	for _, o := range ops {
		if o == t {
			return true
		}
	}
	return false
}

func ipow(b int64, e int) int64 {
	r := int64(1)
	for ; e > 0; e-- {
		r *= b
	}
	return r
}
