package main

// Free-running race pass (run.sh: checks/c07/RACEPASS, C07_RACE_PASS=1, binary built with -race).
//
// The enumerations of this check execute one history at a time per goroutine and compare results; they
// cannot see unsynchronised writes to state the trie code shares behind its interface (the hasher pool and
// the hashers' scratch buffers / Keccak state, the parallel branch of hashFullNodeChildren, the stack-trie
// pool, the encode-buffer pool of DeriveSha, the hashdb database with its lock and clean cache).
// Here raceGoroutines goroutines run a FIXED number of iterations of every entry point of the property,
// each on PRIVATE tries / stack tries / databases built inside the goroutine; the only intended sharing is
// the one the code documents as safe: several tries opened on the SAME committed trie database and only
// read (Get / Prove / NodeIterator). The deciding oracle is the race detector; as a second oracle every
// goroutine compares each result with the value computed beforehand single-threaded (and the roots with the
// checker's independent reference).

import (
	"bytes"
	"fmt"
	"os"
	"strings"
	"sync"

	"github.com/kardiachain/go-kardia/kai/kaidb/memorydb"
	"github.com/kardiachain/go-kardia/lib/common"
	"github.com/kardiachain/go-kardia/trie"
	"github.com/kardiachain/go-kardia/trie/trienode"
	"github.com/kardiachain/go-kardia/types"
)

const (
	raceGoroutines = 8
	raceIterations = 6
	raceWarmup     = 150
	raceBigKeys    = 300 // > 100 unhashed updates: Trie.Hash takes the parallel branch
)

var raceStates = []int{7, 100, 333, 700, 1000, 1093, 1457, 1800, 2000, 2186}

// raceShared: what the goroutines share on purpose — two committed trie databases that are only read.
type raceShared struct {
	flushed *trie.Database // every root flushed to disk, read through a clean cache
	dirty   *trie.Database // every root only in the dirty cache (read under the database's read lock)
	roots   []common.Hash  // roots of raceStates, then the big trie
	bigKeys [][]byte
	bigVals [][]byte
}

func bigKV() (ks, vs [][]byte) {
	for i := 0; i < raceBigKeys; i++ {
		h := keccak([]byte{byte(i), byte(i >> 8), 0x77})
		ks = append(ks, common.CopyBytes(h[:3+i%4]))
		vs = append(vs, append(h[:], h[:]...)[:1+(i*7)%40])
	}
	return
}

func commitTo(db *trie.Database, t *trie.Trie, parent common.Hash, flush bool) (common.Hash, error) {
	root, nodes := t.Commit(false)
	if nodes != nil {
		if err := db.Update(root, parent, trienode.NewWithNodeSet(nodes)); err != nil {
			return root, err
		}
	}
	if flush {
		if err := db.Commit(root, false); err != nil {
			return root, err
		}
	}
	return root, nil
}

func prepareShared() *raceShared {
	sh := &raceShared{}
	sh.bigKeys, sh.bigVals = bigKV()
	sh.flushed = trie.NewDatabaseWithConfig(memorydb.New(), &trie.Config{Cache: 1})
	sh.dirty = trie.NewDatabase(memorydb.New())
	for _, db := range []*trie.Database{sh.flushed, sh.dirty} {
		var roots []common.Hash
		build := func(fill func(t *trie.Trie)) {
			t := trie.NewEmpty(db)
			fill(t)
			root, err := commitTo(db, t, types.EmptyRootHash, db == sh.flushed)
			if err != nil {
				fmt.Println("race pass: preparing the shared database fails:", err)
				os.Exit(2)
			}
			if db == sh.dirty {
				db.Reference(root, common.Hash{})
			}
			roots = append(roots, root)
		}
		for _, s := range raceStates {
			m := modelOf(s)
			build(func(t *trie.Trie) {
				for k := 0; k < NK; k++ {
					if m[k] != 0 {
						t.MustUpdate(keys[k], vals[k][m[k]])
					}
				}
			})
		}
		build(func(t *trie.Trie) {
			for i := range sh.bigKeys {
				t.MustUpdate(sh.bigKeys[i], sh.bigVals[i])
			}
		})
		sh.roots = roots
	}
	return sh
}

func leavesString(t *trie.Trie) string {
	ls, err := iterate2(t)
	if err != nil {
		return "iterator error: " + err.Error()
	}
	h := keccak([]byte(strings.Join(ls, " ")))
	return fmt.Sprintf("%d leaves %x", len(ls), h[:8])
}

// iterate2 is iterate without the 64-leaf bound (the big trie).
func iterate2(t *trie.Trie) ([]string, error) {
	it := trie.NewIterator(t.NodeIterator(nil))
	var out []string
	for it.Next() {
		out = append(out, fmt.Sprintf("%x=%x", it.Key, it.Value))
		if len(out) > 4*raceBigKeys {
			return out, fmt.Errorf("iterator does not terminate")
		}
	}
	return out, it.Err
}

func proveVerify(t *trie.Trie, root common.Hash, key []byte) string {
	var pl proofList
	if err := t.Prove(key, 0, &pl); err != nil {
		return "prove error: " + err.Error()
	}
	v, err := trie.VerifyProof(root, key, mapOf(pl))
	return fmt.Sprintf("%d nodes -> %x %v", len(pl), v, err)
}

// raceBody runs one iteration; everything it modifies is created here. Results in a fixed order.
func raceBody(sh *raceShared) (out []string) {
	add := func(k string, v interface{}) { out = append(out, fmt.Sprintf("%s=%v", k, v)) }
	defer func() {
		if p := recover(); p != nil {
			add("panic", panicText(p))
		}
	}()
	for si, s := range raceStates {
		m := modelOf(s)
		name := fmt.Sprintf("state%d", s)
		disk := memorydb.New()
		db := trie.NewDatabase(disk)
		t := trie.NewEmpty(db)
		first := -1
		for k := 0; k < NK; k++ {
			if m[k] != 0 {
				t.MustUpdate(keys[k], vals[k][m[k]])
				if first < 0 {
					first = k
				}
			}
		}
		var gets []string
		for k := 0; k < NK; k++ {
			gets = append(gets, fmt.Sprintf("%x", t.MustGet(keys[k])))
		}
		add(name+":gets", strings.Join(gets, ","))
		root := t.Hash()
		add(name+":root", root.Hex())
		add(name+":root-is-reference-root", root == common.Hash(refRoots[s]))
		// delete / re-insert, copy
		t.MustDelete(keys[first])
		add(name+":root-after-delete", t.Hash().Hex())
		cp := t.Copy()
		cp.MustUpdate(keys[(first+1)%NK], vals[(first+1)%NK][2])
		add(name+":root-of-copy", cp.Hash().Hex())
		t.MustUpdate(keys[first], vals[first][m[first]])
		add(name+":root-restored", t.Hash() == root)
		// commit, flush, reopen on a new trie database; Get, iterator, proofs
		r1, err := commitTo(db, t, types.EmptyRootHash, true)
		add(name+":commit", fmt.Sprint(r1 == root, err))
		db = trie.NewDatabase(disk)
		t, err = trie.New(trie.TrieID(root), db)
		if err != nil {
			add(name+":reopen", err)
			continue
		}
		add(name+":leaves", leavesString(t))
		for p := range probes {
			add(name+":proof:"+probeNames[p], proveVerify(t, root, probes[p]))
		}
		// second version in the dirty cache, reference counting, reopen
		t.MustUpdate(keys[(first+2)%NK], vals[(first+2)%NK][1])
		t.MustDelete(keys[first])
		r2, err := commitTo(db, t, root, false)
		db.Reference(r2, common.Hash{})
		db.Dereference(root)
		add(name+":commit2", fmt.Sprint(r2.Hex(), err))
		if t2, err := trie.New(trie.TrieID(r2), db); err != nil {
			add(name+":reopen2", err)
		} else {
			add(name+":leaves2", leavesString(t2))
			add(name+":get2", fmt.Sprintf("%x", t2.MustGet(keys[(first+2)%NK])))
		}
		// streaming trie (hash only and committing) on prefix-free content
		if m.prefixFree() {
			h, pan := stackTrieRoot(&m, nil)
			add(name+":stacktrie", h.Hex()+pan)
			sd := memorydb.New()
			h, pan = stackTrieRoot(&m, func(owner common.Hash, path []byte, hash common.Hash, blob []byte) { sd.Put(hash[:], blob) })
			add(name+":stacktrie-commit", h.Hex()+pan)
			if t3, err := trie.New(trie.TrieID(h), trie.NewDatabase(sd)); err != nil {
				add(name+":stacktrie-open", err)
			} else {
				add(name+":stacktrie-leaves", leavesString(t3))
			}
		}
		// secure trie
		sdb := trie.NewDatabaseWithConfig(memorydb.New(), &trie.Config{Preimages: true})
		if st, err := trie.NewStateTrie(trie.TrieID(types.EmptyRootHash), sdb); err != nil {
			add(name+":secure", err)
		} else {
			for k := 0; k < NK; k++ {
				if m[k] != 0 {
					st.MustUpdate(keys[k], vals[k][m[k]])
				}
			}
			add(name+":secure-root", st.Hash().Hex())
			add(name+":secure-root-is-reference-root", st.Hash() == common.Hash(secureRoots[s]))
			sr, nodes := st.Commit(false)
			if nodes != nil {
				err = sdb.Update(sr, types.EmptyRootHash, trienode.NewWithNodeSet(nodes))
			}
			add(name+":secure-commit", fmt.Sprint(sr.Hex(), err))
			if st2, err := trie.NewStateTrie(trie.TrieID(sr), sdb); err != nil {
				add(name+":secure-reopen", err)
			} else {
				add(name+":secure-get", fmt.Sprintf("%x", st2.MustGet(keys[first])))
			}
		}
		// readers on the shared committed databases
		for di, sdb := range []*trie.Database{sh.flushed, sh.dirty} {
			rt, err := trie.New(trie.TrieID(sh.roots[si]), sdb)
			if err != nil {
				add(fmt.Sprintf("%s:shared%d-open", name, di), err)
				continue
			}
			add(fmt.Sprintf("%s:shared%d-get", name, di), fmt.Sprintf("%x", rt.MustGet(keys[first])))
			add(fmt.Sprintf("%s:shared%d-proof", name, di), proveVerify(rt, sh.roots[si], keys[first]))
			add(fmt.Sprintf("%s:shared%d-leaves", name, di), leavesString(rt))
		}
	}
	// a trie with more than 100 unhashed updates: parallel hashing
	{
		db := trie.NewDatabase(memorydb.New())
		t := trie.NewEmpty(db)
		for i := range sh.bigKeys {
			t.MustUpdate(sh.bigKeys[i], sh.bigVals[i])
		}
		root := t.Hash()
		add("big:root", root.Hex())
		for i := 0; i < raceBigKeys/2; i++ {
			if i%3 == 0 {
				t.MustDelete(sh.bigKeys[i])
			} else {
				t.MustUpdate(sh.bigKeys[i], sh.bigVals[(i+1)%raceBigKeys])
			}
		}
		r2 := t.Hash()
		add("big:root2", r2.Hex())
		_, err := commitTo(db, t, types.EmptyRootHash, true)
		add("big:commit", err)
		if t2, err := trie.New(trie.TrieID(r2), db); err != nil {
			add("big:reopen", err)
		} else {
			add("big:leaves", leavesString(t2))
			for i := 0; i < 6; i++ {
				add(fmt.Sprintf("big:proof%d", i), proveVerify(t2, r2, sh.bigKeys[i*37]))
			}
		}
		bigRoot := sh.roots[len(raceStates)]
		add("big:root-is-shared-root", root == bigRoot)
		for di, sdb := range []*trie.Database{sh.flushed, sh.dirty} {
			rt, err := trie.New(trie.TrieID(bigRoot), sdb)
			if err != nil {
				add(fmt.Sprintf("big:shared%d-open", di), err)
				continue
			}
			add(fmt.Sprintf("big:shared%d-get", di), fmt.Sprintf("%x", rt.MustGet(sh.bigKeys[11])))
			add(fmt.Sprintf("big:shared%d-proof", di), proveVerify(rt, bigRoot, sh.bigKeys[200]))
			add(fmt.Sprintf("big:shared%d-leaves", di), leavesString(rt))
		}
		// the same content through the streaming trie (sorted)
		idx := make([]int, raceBigKeys)
		for i := range idx {
			idx[i] = i
		}
		sortBy(idx, func(a, b int) bool { return bytes.Compare(sh.bigKeys[a], sh.bigKeys[b]) < 0 })
		st := trie.NewStackTrie(nil)
		ok := true
		for j, i := range idx {
			if j > 0 && bytes.HasPrefix(sh.bigKeys[i], sh.bigKeys[idx[j-1]]) {
				ok = false // a key that is a prefix of / equal to another: outside the streaming trie's specification
			}
		}
		if ok {
			for _, i := range idx {
				st.Update(sh.bigKeys[i], common.CopyBytes(sh.bigVals[i]))
			}
			add("big:stacktrie-agrees", st.Hash() == root)
		}
	}
	// DeriveSha with both hashers (130 and 300 items: the Trie hasher takes the parallel branch)
	for _, n := range []int{3, 130, 300} {
		l := deriveList(n, 3)
		add(fmt.Sprintf("derivesha%d:stacktrie", n), types.DeriveSha(l, trie.NewStackTrie(nil)).Hex())
		add(fmt.Sprintf("derivesha%d:trie", n), types.DeriveSha(l, trie.NewEmpty(trie.NewDatabase(memorydb.New()))).Hex())
	}
	// range proofs on two content states of the fixed-length universe
	w := newWorker()
	for _, s := range []int{364, 728} {
		c, o, d := buildRange(w, s)
		if o != "" {
			add(fmt.Sprintf("range%d:build", s), o+" "+d)
			continue
		}
		var res []string
		c.forEachRangeCase(func(edge, i, j, kind, x, alt int64) {
			if edge%4 != 0 || kind > 1 {
				return
			}
			o, _ := c.eval(w, edge, i, j, kind, x, alt)
			res = append(res, o)
		})
		add(fmt.Sprintf("range%d", s), fmt.Sprintf("%d cases, failing oracles %q", len(res), strings.Join(res, "")))
	}
	return
}

func sortBy(idx []int, less func(a, b int) bool) {
	for i := 1; i < len(idx); i++ {
		for j := i; j > 0 && less(idx[j], idx[j-1]); j-- {
			idx[j], idx[j-1] = idx[j-1], idx[j]
		}
	}
}

func runRacePass() {
	// reference roots of the states used (own reference only; the go-ethereum cross check belongs to the main run)
	for _, s := range raceStates {
		m := modelOf(s)
		refRoots[s] = refRoot(m.kvs(), nil)
		var sk []refKV
		for _, kv := range m.kvs() {
			h := keccak(kv.key)
			sk = append(sk, refKV{key: h[:], val: kv.val})
		}
		secureRoots[s] = refRoot(sk, nil)
	}
	sh := prepareShared()
	var bkv []refKV
	for i := range sh.bigKeys {
		bkv = append(bkv, refKV{key: sh.bigKeys[i], val: sh.bigVals[i]})
	}
	if want := refRoot(bkv, nil); sh.roots[len(raceStates)] != common.Hash(want) {
		fmt.Printf("RESULT DIFFERS FROM THE SINGLE-THREADED VALUE: single-threaded root of the %d-key trie %x differs from the reference root %x\n", raceBigKeys, sh.roots[len(raceStates)], want)
		os.Exit(1)
	}
	want := raceBody(sh)
	if again := raceBody(sh); fmt.Sprint(again) != fmt.Sprint(want) {
		fmt.Println("race pass: the single-threaded reference run is not deterministic")
		os.Exit(2)
	}
	if os.Getenv("C07_RACE_DUMP") == "1" {
		fmt.Println(strings.Join(want, "\n"))
	}
	for _, l := range want {
		if strings.HasPrefix(l, "panic=") || strings.HasSuffix(l, "is-reference-root=false") || strings.HasSuffix(l, "agrees=false") || strings.HasSuffix(l, "shared-root=false") {
			fmt.Println("RESULT DIFFERS FROM THE SINGLE-THREADED VALUE: single-threaded run already wrong:", l)
			os.Exit(1)
		}
	}
	warmWant := common.Hash(refRoot([]refKV{{key: keys[2], val: vals[2][2]}}, nil))
	var wg sync.WaitGroup
	var mu sync.Mutex
	var mismatches []string
	note := func(s string) {
		mu.Lock()
		if len(mismatches) < 20 {
			mismatches = append(mismatches, s)
		}
		mu.Unlock()
	}
	start := make(chan struct{})
	for g := 0; g < raceGoroutines; g++ {
		wg.Add(1)
		go func(g int) {
			defer wg.Done()
			<-start
			// first phase: one-leaf tries only (insert + root hash), so that the first conflicting accesses the
			// detector can see are of the same kind whatever the scheduling
			for it := 0; it < raceWarmup; it++ {
				t := trie.NewEmpty(trie.NewDatabase(memorydb.New()))
				t.MustUpdate(keys[2], vals[2][2])
				if h := t.Hash(); h != warmWant {
					note(fmt.Sprintf("goroutine %d: one-leaf trie root %x, single-threaded value %x", g, h[:], warmWant[:]))
				}
			}
			for it := 0; it < raceIterations; it++ {
				got := raceBody(sh)
				for k := range want {
					if k >= len(got) || got[k] != want[k] {
						gv := "<missing>"
						if k < len(got) {
							gv = got[k]
						}
						note(fmt.Sprintf("goroutine %d iteration %d: got %s, single-threaded value %s", g, it, gv, want[k]))
					}
				}
			}
		}(g)
	}
	close(start)
	wg.Wait()
	fmt.Printf("race pass: %d goroutines x (%d warm-up + %d iterations x %d results each) on private objects and 2 shared read-only trie databases\n",
		raceGoroutines, raceWarmup, raceIterations, len(want))
	if len(mismatches) > 0 {
		for _, m := range mismatches {
			fmt.Println("RESULT DIFFERS FROM THE SINGLE-THREADED VALUE:", m)
		}
		os.Exit(1)
	}
	os.Exit(0)
}
