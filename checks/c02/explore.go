package main

// E2: explicit-state search over real types.VoteSet objects, run to fixpoint.
//
// A state is the pair (real VoteSet, oracleState) reached by an operation history. Successors are
// computed on an in-package deep clone (validated against fresh-object replay on every 64th
// state-changing transition).
//
// De-duplication key and why merged states have equal futures:
//   implKey  = digest of EVERY mutable field of the VoteSet (sum, maj23, votes, bit arrays, every
//              votesByBlock entry incl. peerMaj23 flag and sum, peerMaj23s) - the code under test is a
//              deterministic function of these fields and the (immutable) token, so equal implKey =>
//              equal future behaviour of the real object;
//   first[]  = the reference model's "first valid vote" per validator (drives completeness);
//   offered  = the reference model's signed (validator, block id) pairs (drives soundness).
// Two states with equal (implKey, first) are compared on `offered`: every oracle is antitone in
// `offered` (a larger set of offered signatures can only make a soundness / commit-content check
// easier to pass, nothing else depends on it), so a state whose `offered` is a superset of an already
// explored one has no violation that the explored one does not have by the same token sequence; it is
// counted as subsumed and not expanded. This is a sound reduction, not a sampling.

import (
	"bytes"
	"crypto/sha256"
	"encoding/binary"
	"errors"
	"fmt"
	"math/big"
	"sort"
	"sync/atomic"

	"github.com/kardiachain/go-kardia/lib/common"
	kproto "github.com/kardiachain/go-kardia/proto/kardiachain/types"
	"github.com/kardiachain/go-kardia/types"

	"verif/mc/par"
)

type job struct {
	vecIdx  int
	typIdx  int
	pw      []int64
	n       int
	typ     kproto.SignedMsgType
	u       *universe
	valSet  *types.ValidatorSet
	toks    []*token
	profile string
	quorum  []bool
	voteID  map[*types.Vote]uint16
	// cryptoEverywhere: signature-only-invalid tokens are executed in every state; otherwise in the
	// first state (BFS order) of every distinct context of the addressed validator.
	cryptoEverywhere bool
}

func (j *job) label() string {
	return fmt.Sprintf("vector=%s|type=%s", vecName(j.pw), typeNames[j.typ])
}

func (j *job) power(mask int) string {
	s := new(big.Int)
	for i, p := range j.pw {
		if mask>>uint(i)&1 == 1 {
			s.Add(s, big.NewInt(p))
		}
	}
	return s.String()
}

func exactTwoThirds(pw []int64, mask int) bool {
	s, t := new(big.Int), new(big.Int)
	for i, p := range pw {
		t.Add(t, big.NewInt(p))
		if mask>>uint(i)&1 == 1 {
			s.Add(s, big.NewInt(p))
		}
	}
	return s.Mul(s, big.NewInt(3)).Cmp(t.Mul(t, big.NewInt(2))) == 0
}

// makeValSet builds the real validator set for the power vector and returns the key pairs in the
// order of the set's indices (the set orders by descending power, then address) and the outsider.
func makeValSet(pw []int64) (*types.ValidatorSet, []keyPair, keyPair) {
	raw, outsider := rawKeys(len(pw))
	sort.Slice(raw, func(a, b int) bool { return bytes.Compare(raw[a].addr[:], raw[b].addr[:]) < 0 })
	vals := make([]*types.Validator, len(raw))
	for i, k := range raw {
		vals[i] = types.NewValidator(repoAddr(k.addr), pw[i])
	}
	vs := types.NewValidatorSet(vals)
	keys := make([]keyPair, len(raw))
	for i := range keys {
		a, v := vs.GetByIndex(uint32(i))
		found := false
		for _, k := range raw {
			if v != nil && a == common.Address(k.addr) {
				keys[i], found = k, true
			}
		}
		if !found || v.VotingPower != pw[i] {
			panic(fmt.Sprintf("validator set of %v: index %d does not hold power %d", pw, i, pw[i]))
		}
	}
	return vs, keys, outsider
}

func newJob(vecIdx int, pw []int64, typIdx int, typ kproto.SignedMsgType, u *universe, profile string, kinds map[string]bool, claims map[string]bool) *job {
	j := &job{vecIdx: vecIdx, typIdx: typIdx, pw: pw, n: len(pw), typ: typ, u: u, profile: profile}
	j.valSet = u.valSet
	j.quorum = quorumTable(pw)
	j.voteID = map[*types.Vote]uint16{}
	for i, t := range u.toks {
		if t.vote != nil {
			j.voteID[t.vote] = uint16(i + 1)
		}
		if t.vote != nil && kinds[t.kind] || t.vote == nil && claims[t.name] {
			j.toks = append(j.toks, t)
		}
	}
	return j
}

func (j *job) newVoteSet() *types.VoteSet {
	return types.NewVoteSet(chainID, height, round, j.typ, j.valSet)
}

// ---- state key ------------------------------------------------------------------------------

type implKey [16]byte

func (j *job) keyOf(vs *types.VoteSet) implKey {
	d := types.VerifC02Dump(vs)
	buf := make([]byte, 0, 512)
	var tmp [8]byte
	u64 := func(x uint64) {
		binary.LittleEndian.PutUint64(tmp[:], x)
		buf = append(buf, tmp[:]...)
	}
	id := func(b *types.BlockID) {
		if b == nil {
			buf = append(buf, 0)
			return
		}
		buf = append(buf, 1)
		buf = append(buf, b.Hash[:]...)
		buf = append(buf, b.PartsHeader.Hash[:]...)
		u64(uint64(b.PartsHeader.Total))
	}
	votes := func(vs []*types.Vote) {
		u64(uint64(len(vs)))
		for _, v := range vs {
			switch {
			case v == nil:
				buf = append(buf, 0, 0)
			case j.voteID[v] != 0:
				x := j.voteID[v]
				buf = append(buf, byte(x), byte(x>>8))
			default: // a vote object the checker never offered: key it by content
				dg := voteDigest(v)
				buf = append(buf, 0xff, 0xff)
				buf = append(buf, dg[:]...)
			}
		}
	}
	bits := func(b []bool) {
		u64(uint64(len(b)))
		for _, x := range b {
			if x {
				buf = append(buf, 1)
			} else {
				buf = append(buf, 0)
			}
		}
	}
	u64(uint64(d.Sum))
	id(d.Maj23)
	bits(d.Bits)
	votes(d.Votes)
	u64(uint64(len(d.ByBlock)))
	for _, e := range d.ByBlock {
		u64(uint64(len(e.Key)))
		buf = append(buf, e.Key...)
		if e.PeerMaj23 {
			buf = append(buf, 1)
		} else {
			buf = append(buf, 0)
		}
		bits(e.Bits)
		votes(e.Votes)
		u64(uint64(e.Sum))
	}
	u64(uint64(len(d.Peers)))
	for _, p := range d.Peers {
		u64(uint64(len(p.Peer)))
		buf = append(buf, p.Peer...)
		b := p.BlockID
		id(&b)
	}
	h := sha256.Sum256(buf)
	var k implKey
	copy(k[:], h[:16])
	return k
}

// ---- search ---------------------------------------------------------------------------------

type node struct {
	vs     *types.VoteSet // nil once expanded
	key    implKey
	or     oracleState
	ob     obs
	parent int32
	tok    int16
	depth  int16
	claims uint8 // claim tokens on the path (bit = index among the universe's claim tokens)
	crypto uint8 // validators whose signature-only-invalid tokens are executed in this node
}

type ctxKey struct {
	val     int8
	first   int8
	offered uint16
	ok      bool
	maj     int8
	claims  uint8
}

type vkey struct {
	k     implKey
	first [4]int8
}

type succ struct {
	tok int16
	vs  *types.VoteSet
	key implKey
	or  oracleState
	ob  obs
	bad bool // a transition oracle fired: not expanded
}

type rawViol struct {
	f      fired
	parent int32 // node the history ends in (state-level) or starts the last step from
	tok    int16 // -1 = state-level oracle in node `parent`
}

type expansion struct {
	succs       []succ
	viols       []rawViol
	transitions int64
	selfLoops   int64
}

type search struct {
	j       *job
	nodes   []node
	visited map[vkey][]uint64
	seenCtx map[ctxKey]bool
	viols   []rawViol
	// statistics
	states, transitions, selfLoops, subsumed, revisits int64
	majStates, commitChecks, replayChecks              int64
	maxDepth                                           int
	complete                                           bool
}

func (s *search) path(idx int32) []*token {
	var rev []*token
	for idx > 0 {
		nd := &s.nodes[idx]
		rev = append(rev, s.j.toks[nd.tok])
		idx = nd.parent
	}
	for a, b := 0, len(rev)-1; a < b; a, b = a+1, b-1 {
		rev[a], rev[b] = rev[b], rev[a]
	}
	return rev
}

var replayMismatch int64

// expand computes every successor of node idx on clones of its vote set.
func (s *search) expand(idx int32) expansion {
	j := s.j
	nd := &s.nodes[idx]
	var ex expansion
	if j.typ == kproto.PrecommitType && nd.ob.ok && nd.ob.maj > 0 {
		atomic.AddInt64(&s.commitChecks, 1)
		for _, f := range j.checkMakeCommit(nd.vs, nd.or, nd.ob) {
			ex.viols = append(ex.viols, rawViol{f, idx, -1})
		}
		if k := j.keyOf(nd.vs); k != nd.key {
			ex.viols = append(ex.viols, rawViol{fired{"makecommit-changed-state", "MakeCommit / VerifyCommit changed the vote set"}, idx, -1})
		}
	}
	var scratch *types.VoteSet
	for ti, t := range j.toks {
		if t.crypto && nd.crypto>>uint(t.ctxVal)&1 == 0 {
			continue
		}
		if scratch == nil {
			scratch = types.VerifC02Clone(nd.vs)
		}
		added, err, p := j.apply(scratch, t)
		ex.transitions++
		countToken(t, added, err)
		if p != "" {
			ex.viols = append(ex.viols, rawViol{fired{"panic", t.name + " panicked: " + firstLine(p)}, idx, int16(ti)})
			scratch = nil
			continue
		}
		key := j.keyOf(scratch)
		or := nd.or.apply(t)
		if key == nd.key && or == nd.or {
			// Nothing moved. Invalid votes are still judged (they must be refused).
			if t.vote != nil && !t.counts {
				for _, f := range j.judge(nd.ob, t, added, err, false, nd.ob, or) {
					ex.viols = append(ex.viols, rawViol{f, idx, int16(ti)})
				}
			}
			ex.selfLoops++
			continue
		}
		ob, p := observe(scratch)
		if p != "" {
			ex.viols = append(ex.viols, rawViol{fired{"panic", "query after " + t.name + " panicked: " + firstLine(p)}, idx, int16(ti)})
			scratch = nil
			continue
		}
		fs := j.judge(nd.ob, t, added, err, key != nd.key, ob, or)
		for _, f := range fs {
			ex.viols = append(ex.viols, rawViol{f, idx, int16(ti)})
		}
		if (int(idx)*len(j.toks)+ti)%64 == 0 {
			s.validateClone(idx, t, key, ob)
		}
		if key == nd.key && or.first == nd.or.first && len(fs) == 0 {
			// only `offered` grew: subsumed by the node being expanded
			ex.succs = append(ex.succs, succ{tok: -1})
			continue
		}
		sc := succ{tok: int16(ti), key: key, or: or, ob: ob, bad: len(fs) > 0}
		if !sc.bad && !s.covered(vkey{key, or.first}, or.offered) {
			if key == nd.key {
				sc.vs = types.VerifC02Clone(scratch)
			} else {
				sc.vs = scratch
				scratch = nil
			}
		} else if key != nd.key {
			scratch = nil
		}
		ex.succs = append(ex.succs, sc)
	}
	return ex
}

// cryptoMask decides (sequentially, in BFS order) for which validators the signature-only-invalid
// tokens are executed in a new node.
func (s *search) cryptoMask(nd *node) uint8 {
	if s.j.cryptoEverywhere {
		return 0xff
	}
	var m uint8
	for v := 0; v < s.j.n; v++ {
		c := ctxKey{int8(v), nd.or.first[v], uint16(nd.or.offered >> uint(nBlk*v) & (1<<nBlk - 1)), nd.ob.ok, nd.ob.maj, nd.claims}
		if !s.seenCtx[c] {
			s.seenCtx[c] = true
			m |= 1 << uint(v)
		}
	}
	return m
}

// covered reports whether an explored state with the same (implKey, first) has offered ⊆ off.
// Called concurrently with other readers only.
func (s *search) covered(k vkey, off uint64) bool {
	for _, o := range s.visited[k] {
		if o&off == o {
			return true
		}
	}
	return false
}

func (s *search) exact(k vkey, off uint64) bool {
	for _, o := range s.visited[k] {
		if o == off {
			return true
		}
	}
	return false
}

// validateClone replays the history of node idx plus token t on a fresh vote set and compares.
func (s *search) validateClone(idx int32, t *token, key implKey, ob obs) {
	j := s.j
	atomic.AddInt64(&s.replayChecks, 1)
	vs := j.newVoteSet()
	for _, x := range append(s.path(idx), t) {
		j.apply(vs, x)
	}
	ob2, _ := observe(vs)
	if j.keyOf(vs) != key || ob2 != ob {
		atomic.AddInt64(&replayMismatch, 1)
	}
}

const batchSize = 2048

func (j *job) explore(maxStates int64) *search {
	s := &search{j: j, visited: map[vkey][]uint64{}, seenCtx: map[ctxKey]bool{}}
	vs0 := j.newVoteSet()
	ob0, p := observe(vs0)
	if p != "" {
		s.viols = append(s.viols, rawViol{fired{"panic", "query on the empty vote set panicked: " + firstLine(p)}, 0, -1})
		return s
	}
	root := node{vs: vs0, key: j.keyOf(vs0), or: newOracle(), ob: ob0, parent: -1, tok: -1}
	root.crypto = s.cryptoMask(&root)
	s.nodes = append(s.nodes, root)
	s.visited[vkey{root.key, root.or.first}] = []uint64{0}
	s.states = 1
	s.complete = true
	if fs := j.judge(ob0, nil, false, nil, false, ob0, root.or); len(fs) > 0 {
		// the empty vote set already violates an oracle: nothing is expanded
		for _, f := range fs {
			s.viols = append(s.viols, rawViol{f, 0, -1})
		}
		return s
	}
	frontier := []int32{0}
	s.complete = true
	for len(frontier) > 0 {
		var next []int32
		for lo := 0; lo < len(frontier); lo += batchSize {
			hi := lo + batchSize
			if hi > len(frontier) {
				hi = len(frontier)
			}
			batch := frontier[lo:hi]
			if r.Expired() || s.states > maxStates {
				s.complete = false
				break
			}
			exps := make([]expansion, len(batch))
			par.For(int64(len(batch)), 4, nil, func(i int64) { exps[i] = s.expand(batch[i]) })
			// deterministic sequential merge
			for bi, ex := range exps {
				pidx := batch[bi]
				pn := &s.nodes[pidx]
				if pn.ob.ok {
					s.majStates++
				}
				pn.vs = nil
				s.transitions += ex.transitions
				s.selfLoops += ex.selfLoops
				s.viols = append(s.viols, ex.viols...)
				for _, sc := range ex.succs {
					if sc.tok < 0 {
						s.subsumed++
						continue
					}
					if sc.bad {
						continue
					}
					k := vkey{sc.key, sc.or.first}
					if s.covered(k, sc.or.offered) {
						if s.exact(k, sc.or.offered) {
							s.revisits++
						} else {
							s.subsumed++
						}
						continue
					}
					if sc.vs == nil {
						panic("internal: uncovered successor without an object")
					}
					s.visited[k] = append(s.visited[k], sc.or.offered)
					d := pn.depth + 1
					nn := node{vs: sc.vs, key: sc.key, or: sc.or, ob: sc.ob, parent: pidx, tok: sc.tok, depth: d, claims: pn.claims}
					if t := j.toks[sc.tok]; t.vote == nil {
						nn.claims |= 1 << uint(t.claimBit)
					}
					nn.crypto = s.cryptoMask(&nn)
					s.nodes = append(s.nodes, nn)
					pn = &s.nodes[pidx]
					if int(d) > s.maxDepth {
						s.maxDepth = int(d)
					}
					s.states++
					next = append(next, int32(len(s.nodes)-1))
				}
			}
		}
		if !s.complete {
			break
		}
		frontier = next
	}
	return s
}

// ---- token statistics (vacuity guards) --------------------------------------------------------

var tokenKindCount = map[string]*int64{}
var conflictsTracked, conflictsDropped, nonDeterministic, duplicates, invalidRefused, claimErrors int64

func initTokenStats() {
	for _, k := range validKinds {
		tokenKindCount[k.kind] = new(int64)
	}
	for _, k := range invalidKinds {
		tokenKindCount[k] = new(int64)
	}
	tokenKindCount["claim"] = new(int64)
}

func countToken(t *token, added bool, err error) {
	atomic.AddInt64(tokenKindCount[t.kind], 1)
	switch {
	case t.vote == nil:
		if err != nil {
			atomic.AddInt64(&claimErrors, 1)
		}
	case !t.counts:
		if !added && err != nil {
			atomic.AddInt64(&invalidRefused, 1)
		}
	case err == nil && !added:
		atomic.AddInt64(&duplicates, 1)
	case err != nil && errors.Is(err, types.ErrVoteNonDeterministicSignature):
		atomic.AddInt64(&nonDeterministic, 1)
	case err != nil && added:
		atomic.AddInt64(&conflictsTracked, 1)
	case err != nil:
		atomic.AddInt64(&conflictsDropped, 1)
	}
}

func sortedKinds() []string {
	var ks []string
	for k := range tokenKindCount {
		ks = append(ks, k)
	}
	sort.Strings(ks)
	return ks
}
