package main

// The checker's own cryptographic reference (DESIGN.md appendix A.1): its own encoder of the
// canonical vote, its own signer and its own verifier, calling btcec directly. Nothing here uses
// the repository's types/vote.go, canonical_types.go or lib/crypto.

import (
	"bytes"
	"encoding/hex"
	"fmt"
	"sync"
	"time"

	"github.com/btcsuite/btcd/btcec"
	"golang.org/x/crypto/sha3"
)

type address [20]byte

func keccak(b []byte) []byte {
	h := sha3.NewLegacyKeccak256()
	h.Write(b)
	return h.Sum(nil)
}

type keyPair struct {
	priv *btcec.PrivateKey
	addr address
}

// Fixed private keys: up to 4 validators plus one outsider (never a member of any set).
var keyHex = []string{
	"b71c71a67e1177ad4e901695e1b4b9ee17ae16c6668d313eac2f96dbcda3f291",
	"8a1f9a8f95be41cd7ccb6168179afb4504aefe388d1e14474d32c45c72ce7b7a",
	"49a7b37aa6f6645917e7b807e9d1c00d4fa71f18343b0d4122a4d2df64dd6fee",
	"0c06818f82e04c564290b32ab86b25676731fc34e9a546108bf109194c8e3aae",
	"e238eb8e04fee6511ab04c6dd3c89ce097b11f25d584863ac2b6d5b35b1847e4",
}

func mkKey(h string) keyPair {
	b, err := hex.DecodeString(h)
	if err != nil {
		panic(err)
	}
	priv, pub := btcec.PrivKeyFromBytes(btcec.S256(), b)
	var a address
	copy(a[:], keccak(pub.SerializeUncompressed()[1:])[12:])
	return keyPair{priv, a}
}

// rawKeys returns n validator key pairs (unordered) and the outsider.
func rawKeys(n int) ([]keyPair, keyPair) {
	ks := make([]keyPair, n)
	for i := range ks {
		ks[i] = mkKey(keyHex[i])
	}
	return ks, mkKey(keyHex[4])
}

// ---- own encoder of the canonical vote ------------------------------------------------------

func putVarint(b *bytes.Buffer, v uint64) {
	for v >= 0x80 {
		b.WriteByte(byte(v) | 0x80)
		v >>= 7
	}
	b.WriteByte(byte(v))
}

func putBytesField(b *bytes.Buffer, tag byte, v []byte) {
	b.WriteByte(tag)
	putVarint(b, uint64(len(v)))
	b.Write(v)
}

// refBlockID is the checker's own notion of a block id: two ids are the same iff hash, part-set
// hash AND part-set total are equal.
type refBlockID struct {
	Nil       bool
	Hash      [32]byte
	PartsHash [32]byte
	Total     uint32
}

// signBytes encodes (length-delimited protobuf) CanonicalVote{type=1, height=2, round=3,
// block_id=4{hash=1, part_set_header=2{total=1, hash=2}}, timestamp=5{seconds=1,nanos=2}, chain_id=6}.
func signBytes(chain string, typeTag uint64, height uint64, round uint32, id refBlockID, ts time.Time) []byte {
	var body bytes.Buffer
	if typeTag != 0 {
		body.WriteByte(0x08)
		putVarint(&body, typeTag)
	}
	if height != 0 {
		body.WriteByte(0x10)
		putVarint(&body, height)
	}
	if round != 0 {
		body.WriteByte(0x18)
		putVarint(&body, uint64(round))
	}
	if !id.Nil {
		var psh bytes.Buffer
		if id.Total != 0 {
			psh.WriteByte(0x08)
			putVarint(&psh, uint64(id.Total))
		}
		putBytesField(&psh, 0x12, id.PartsHash[:])
		var bid bytes.Buffer
		putBytesField(&bid, 0x0a, id.Hash[:])
		putBytesField(&bid, 0x12, psh.Bytes())
		putBytesField(&body, 0x22, bid.Bytes())
	}
	var tsb bytes.Buffer
	if s := ts.Unix(); s != 0 {
		tsb.WriteByte(0x08)
		putVarint(&tsb, uint64(s))
	}
	if n := ts.Nanosecond(); n != 0 {
		tsb.WriteByte(0x10)
		putVarint(&tsb, uint64(n))
	}
	putBytesField(&body, 0x2a, tsb.Bytes())
	if chain != "" {
		putBytesField(&body, 0x32, []byte(chain))
	}
	var out bytes.Buffer
	putVarint(&out, uint64(body.Len()))
	out.Write(body.Bytes())
	return out.Bytes()
}

// ---- own signer / verifier ------------------------------------------------------------------

// refSign returns the 65-byte [R || S || V] signature of keccak256(msg).
func refSign(k keyPair, msg []byte) []byte {
	sig, err := btcec.SignCompact(btcec.S256(), k.priv, keccak(msg), false)
	if err != nil {
		panic(err)
	}
	out := make([]byte, 65)
	copy(out, sig[1:])
	out[64] = sig[0] - 27
	return out
}

// refVerify reports whether sig is a 65-byte [R || S || V] signature over keccak256(msg) whose
// recovered public key has the given address. Results are memoised (pure function).
func refVerify(addr address, msg, sig []byte) bool {
	k := string(addr[:]) + string(keccak(msg)) + string(sig)
	if v, ok := verifyMemo.Load(k); ok {
		return v.(bool)
	}
	ok := refVerifyUncached(addr, msg, sig)
	verifyMemo.Store(k, ok)
	return ok
}

var verifyMemo sync.Map

func refVerifyUncached(addr address, msg, sig []byte) (ok bool) {
	if len(sig) != 65 || sig[64] > 3 {
		return false
	}
	defer func() {
		if recover() != nil {
			ok = false
		}
	}()
	bt := make([]byte, 65)
	bt[0] = sig[64] + 27
	copy(bt[1:], sig[:64])
	pub, _, err := btcec.RecoverCompact(btcec.S256(), bt, keccak(msg))
	if err != nil || pub == nil {
		return false
	}
	var a address
	copy(a[:], keccak(pub.SerializeUncompressed()[1:])[12:])
	return a == addr
}

func (a address) String() string { return fmt.Sprintf("%x", a[:4]) }
