package main

// The enumerated universe: validator-set family, block ids, the token alphabet with pre-signed
// votes, and the checker's own classification of every token (appendix A.1).

import (
	"bytes"
	"crypto/sha256"
	"fmt"
	"math/big"
	"strings"
	"time"

	"github.com/kardiachain/go-kardia/lib/common"
	kproto "github.com/kardiachain/go-kardia/proto/kardiachain/types"
	"github.com/kardiachain/go-kardia/types"
)

const (
	chainID    = "kai-c02"
	otherChain = "kai-c03"
	height     = uint64(5)
	round      = uint32(2)
)

// block ids: index 0 = nil, 1 = A and its three single-component siblings: 2 = B (other block
// hash, same part-set header), 3 = A' (other part-set total), 4 = A^ (other part-set root hash)
const (
	bNil = iota
	bA
	bB
	bAp
	bAr
	// further members of the total-sibling family of A: total + 256, + 255, + 65536, + 2^24, + 2^31
	// (a key, an equality or sign bytes that narrow the uint32 total or treat it modulo something
	// collapse some of them onto A)
	bA256
	bA255
	bA64k
	bA16m
	bA2g
	nBlk
)

var blkName = [nBlk]string{"nil", "A", "B", "A'", "A^", "A+256", "A+255", "A+64k", "A+2^24", "A+2^31"}

// lastByte: h with its last byte replaced - B and A^ differ from A in the LAST byte of one hash only, so a key, an
// equality or a fingerprint that looks at a prefix of a hash (BlockID.String() prints 6 bytes) collapses them onto A
func lastByte(h [32]byte, b byte) [32]byte {
	h[31] = b
	return h
}

func fill(b byte) (h [32]byte) {
	for i := range h {
		h[i] = b
	}
	return
}

var refIDs = [nBlk]refBlockID{
	{Nil: true},
	{Hash: fill(0xa1), PartsHash: fill(0xa2), Total: 3},
	{Hash: lastByte(fill(0xa1), 0xb1), PartsHash: fill(0xa2), Total: 3},
	{Hash: fill(0xa1), PartsHash: fill(0xa2), Total: 4},
	{Hash: fill(0xa1), PartsHash: lastByte(fill(0xa2), 0xa3), Total: 3},
	{Hash: fill(0xa1), PartsHash: fill(0xa2), Total: 3 + 256},
	{Hash: fill(0xa1), PartsHash: fill(0xa2), Total: 3 + 255},
	{Hash: fill(0xa1), PartsHash: fill(0xa2), Total: 3 + 65536},
	{Hash: fill(0xa1), PartsHash: fill(0xa2), Total: 3 + 1<<24},
	{Hash: fill(0xa1), PartsHash: fill(0xa2), Total: 3 + 1<<31},
}

func repoID(id refBlockID) types.BlockID {
	if id.Nil {
		return types.BlockID{}
	}
	return types.BlockID{Hash: common.BytesToHash(id.Hash[:]), PartsHeader: types.PartSetHeader{Total: id.Total, Hash: common.BytesToHash(id.PartsHash[:])}}
}

// refOf converts a repository block id into the checker's (field-by-field copy, no repo logic).
func refOf(id types.BlockID) refBlockID {
	var x refBlockID
	copy(x.Hash[:], id.Hash[:])
	copy(x.PartsHash[:], id.PartsHeader.Hash[:])
	x.Total = id.PartsHeader.Total
	if x.Hash == ([32]byte{}) && x.PartsHash == ([32]byte{}) && x.Total == 0 {
		x.Nil = true
	}
	return x
}

// blkIndex returns the index of a block id in the universe or -1.
func blkIndex(id refBlockID) int {
	for i, x := range refIDs {
		if x == id {
			return i
		}
	}
	return -1
}

// ---- validator-set family -------------------------------------------------------------------

var maxTotal = types.MaxTotalVotingPower // read from the repository: int64(MaxInt64)/8

type vector struct {
	pw    []int64
	quick bool
}

// Powers are listed in the order of the validator set (descending power, ties by address).
// Quick vectors come first so that the first failing vector of a defect is the same in both tiers.
func family() []vector {
	m3 := maxTotal / 3
	return []vector{
		{[]int64{1}, true},          // total 1
		{[]int64{1, 1}, true},       // total 2
		{[]int64{2, 1}, true},       // total 3 (3 | total)
		{[]int64{1, 1, 1}, true},    // total 3
		{[]int64{2, 1, 1}, true},    // total 4
		{[]int64{3, 2, 1}, true},    // total 6
		{[]int64{m3, m3, m3}, true}, // total == MaxTotalVotingPower exactly (2^60-1 = 3*m3)
		// totals above 2^53 whose two-thirds line is not representable in a float64 (a tally compared as a fraction rounds):
		// two of three equal powers are EXACTLY 2/3; the first two of the second vector are 2/3 plus one unit
		{[]int64{1<<58 + 40, 1<<58 + 40, 1<<58 + 40}, true},
		{[]int64{1<<58 + 2, 1<<58 - 1, 1<<58 - 1}, true},
		{[]int64{1, 1, 1, 1}, true}, // total 4
		{[]int64{3, 2, 2, 2}, true}, // total 9
		// thorough only
		{[]int64{2, 2, 1}, false},                                         // total 5
		{[]int64{3, 3, 3}, false},                                         // total 9
		{[]int64{m3, m3, m3 - 1}, false},                                  // total == MaxTotalVotingPower-1
		{[]int64{3, 1, 1, 1}, false},                                      // total 6
		{[]int64{4, 3, 2, 1}, false},                                      // total 10
		{[]int64{97, 1, 1, 1}, false},                                     // total 100
		{[]int64{1 << 58, 1 << 58, 1 << 58, maxTotal - 3*(1<<58)}, false}, // total == Max, 4 validators
	}
}

func vecName(pw []int64) string {
	s := make([]string, len(pw))
	for i, p := range pw {
		s[i] = fmt.Sprint(p)
	}
	return strings.Join(s, ",")
}

// ---- tokens ---------------------------------------------------------------------------------

type token struct {
	idx      int    // position in the universe (per validator: A, B, A', nil, A~, invalid kinds; then claims)
	name     string // e.g. "v1:A'" or "p:A"
	kind     string // e.g. "A'" or "!chain" or "claim"
	val      int    // offering validator (key owner), -1 for claims
	vote     *types.Vote
	peer     string
	claim    int
	claimBit int
	// the checker's own classification: the vote counts for validator cv and block cb
	counts  bool
	cv, cb  int
	invalid bool // a vote token that must be refused
	crypto  bool // an invalid vote that is only refused by signature verification
	ctxVal  int  // the validator whose slot the vote addresses
	digest  [32]byte
}

var typeNames = map[kproto.SignedMsgType]string{kproto.PrevoteType: "prevote", kproto.PrecommitType: "precommit"}

func otherType(t kproto.SignedMsgType) kproto.SignedMsgType {
	if t == kproto.PrevoteType {
		return kproto.PrecommitType
	}
	return kproto.PrevoteType
}

// typeTag is the value of the type field inside the sign bytes; calibrated in calibrate().
var tagIsConstPrevote bool

func typeTag(t kproto.SignedMsgType) uint64 {
	if tagIsConstPrevote {
		return uint64(kproto.PrevoteType)
	}
	return uint64(t)
}

var ts0 = time.Date(2021, 3, 4, 5, 6, 7, 8, time.UTC)

func tsOf(i int, variant int) time.Time {
	return ts0.Add(time.Duration(i)*time.Second + time.Duration(variant)*time.Hour)
}

// universe is the set of keys and pre-signed tokens for (n validators, vote type).
type universe struct {
	n        int
	typ      kproto.SignedMsgType
	keys     []keyPair
	outsider keyPair
	toks     []*token
	byName   map[string]*token
	valSet   *types.ValidatorSet
}

func repoAddr(a address) common.Address { return common.BytesToAddress(a[:]) }

type voteSpec struct {
	idx    uint32
	addr   address
	signer keyPair
	h      uint64
	r      uint32
	typ    kproto.SignedMsgType
	blk    int
	ts     time.Time
	chain  string
	mangle int // 0 none, 1 flip a bit, 2 truncate to 64 bytes
}

func mkVote(s voteSpec) *types.Vote {
	sig := refSign(s.signer, signBytes(s.chain, typeTag(s.typ), s.h, s.r, refIDs[s.blk], s.ts))
	switch s.mangle {
	case 1:
		sig[40] ^= 1
	case 2:
		sig = sig[:64]
	}
	return &types.Vote{
		ValidatorAddress: repoAddr(s.addr),
		ValidatorIndex:   s.idx,
		Height:           s.h,
		Round:            s.r,
		Timestamp:        s.ts,
		Type:             s.typ,
		BlockID:          repoID(refIDs[s.blk]),
		Signature:        sig,
	}
}

func voteDigest(v *types.Vote) [32]byte {
	var b bytes.Buffer
	fmt.Fprintf(&b, "%x|%d|%d|%d|%d|%d|%x|%x|%d|%x", v.ValidatorAddress[:], v.ValidatorIndex, v.Height, v.Round, v.Timestamp.UnixNano(), v.Type,
		v.BlockID.Hash[:], v.BlockID.PartsHeader.Hash[:], v.BlockID.PartsHeader.Total, v.Signature)
	return sha256.Sum256(b.Bytes())
}

// classify is the reference decision whether a vote counts in the vote set (chainID, height, round, typ)
// over validators keys[0..n): for which validator and which block id.
func classify(keys []keyPair, typ kproto.SignedMsgType, v *types.Vote) (ok bool, val, blk int) {
	if v == nil {
		return false, 0, 0
	}
	if int(v.ValidatorIndex) >= len(keys) {
		return false, 0, 0
	}
	i := int(v.ValidatorIndex)
	var a address
	copy(a[:], v.ValidatorAddress[:])
	if a != keys[i].addr {
		return false, 0, 0
	}
	if v.Height != height || v.Round != round || v.Type != typ {
		return false, 0, 0
	}
	id := refOf(v.BlockID)
	b := blkIndex(id)
	if b < 0 {
		return false, 0, 0
	}
	if !refVerify(keys[i].addr, signBytes(chainID, typeTag(typ), height, round, id, v.Timestamp), v.Signature) {
		return false, 0, 0
	}
	return true, i, b
}

var validKinds = []struct {
	kind    string
	blk     int
	variant int
}{{"A", bA, 0}, {"B", bB, 0}, {"A'", bAp, 0}, {"nil", bNil, 0}, {"A~", bA, 1}, {"A^", bAr, 0},
	{"A+256", bA256, 0}, {"A+255", bA255, 0}, {"A+64k", bA64k, 0}, {"A+2^24", bA16m, 0}, {"A+2^31", bA2g, 0}}

var invalidKinds = []string{"!oob", "!mis", "!imp", "!out", "!fake", "!h", "!r", "!t", "!chain", "!sig", "!64"}

func newUniverse(keys []keyPair, outsider keyPair, typ kproto.SignedMsgType) *universe {
	n := len(keys)
	u := &universe{n: n, typ: typ, byName: map[string]*token{}, keys: keys, outsider: outsider}
	add := func(t *token) {
		t.idx = len(u.toks)
		if t.vote != nil {
			t.counts, t.cv, t.cb = classify(u.keys, typ, t.vote)
			t.digest = voteDigest(t.vote)
			t.ctxVal = t.val
			if int(t.vote.ValidatorIndex) < n {
				t.ctxVal = int(t.vote.ValidatorIndex)
			}
			switch t.kind {
			case "!imp", "!fake", "!chain", "!sig":
				t.crypto = true
			}
		}
		u.toks = append(u.toks, t)
		u.byName[t.name] = t
	}
	for i := 0; i < n; i++ {
		base := voteSpec{idx: uint32(i), addr: u.keys[i].addr, signer: u.keys[i], h: height, r: round, typ: typ, blk: bA, ts: tsOf(i, 0), chain: chainID}
		for _, k := range validKinds {
			s := base
			s.blk, s.ts = k.blk, tsOf(i, k.variant)
			add(&token{name: fmt.Sprintf("v%d:%s", i, k.kind), kind: k.kind, val: i, vote: mkVote(s)})
		}
		j := (i + 1) % n
		for _, k := range invalidKinds {
			s := base
			switch k {
			case "!oob":
				s.idx = uint32(n)
			case "!mis":
				if n < 2 {
					continue
				}
				s.idx = uint32(j)
			case "!imp":
				if n < 2 {
					continue
				}
				s.idx, s.addr = uint32(j), u.keys[j].addr
			case "!out":
				s.addr, s.signer = u.outsider.addr, u.outsider
			case "!fake":
				if n >= 2 {
					continue // "!imp" already offers a foreign key's signature
				}
				s.signer = u.outsider
			case "!h":
				s.h = height + 1
			case "!r":
				s.r = round + 1
			case "!t":
				s.typ = otherType(typ)
			case "!chain":
				s.chain = otherChain
			case "!sig":
				s.mangle = 1
			case "!64":
				s.mangle = 2
			}
			add(&token{name: fmt.Sprintf("v%d:%s", i, k), kind: k, val: i, vote: mkVote(s), invalid: true})
		}
	}
	bit := 0
	for _, p := range []string{"p", "q"} {
		for _, b := range []int{bA, bB} {
			add(&token{name: p + ":" + blkName[b], kind: "claim", val: -1, peer: p, claim: b, claimBit: bit})
			bit++
		}
	}
	return u
}

// quorumTable[mask] reports 3*sum(pw[i], i in mask) > 2*total, computed with math/big.
func quorumTable(pw []int64) []bool {
	total := new(big.Int)
	for _, p := range pw {
		total.Add(total, big.NewInt(p))
	}
	two := new(big.Int).Mul(total, big.NewInt(2))
	out := make([]bool, 1<<uint(len(pw)))
	for m := range out {
		s := new(big.Int)
		for i, p := range pw {
			if m>>uint(i)&1 == 1 {
				s.Add(s, big.NewInt(p))
			}
		}
		out[m] = new(big.Int).Mul(s, big.NewInt(3)).Cmp(two) > 0
	}
	return out
}
