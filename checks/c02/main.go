// C02 — quorum certificates are sound: +2/3 means strictly more than two thirds.
//
// Engine E2 (explicit-state search on real types.VoteSet objects, run to fixpoint) for a family of
// validator power vectors and both vote types, MakeCommit -> VerifyCommit from every state with a
// majority, engine E3 (exhaustive commit matrix) into ValidatorSet.VerifyCommit, and (thorough) E2
// on the real consensus/types.HeightVoteSet. The oracle is an independent tally kept from the
// OFFERED votes (math/big, strict 3*sum > 2*total), see oracle.go and DESIGN.md appendix A.1.
package main

import (
	"bytes"
	"fmt"
	"os"
	"runtime/pprof"
	"sort"
	"strings"
	"sync"
	"sync/atomic"
	"time"

	kproto "github.com/kardiachain/go-kardia/proto/kardiachain/types"
	"github.com/kardiachain/go-kardia/types"

	"verif/mc/report"
)

var r *report.Run

var voteTypes = []kproto.SignedMsgType{kproto.PrevoteType, kproto.PrecommitType}

// calibrate compares the checker's own canonical-vote encoder, signer and verifier with the
// repository on genuine votes. What the sign bytes contain is property C11's subject, not C02's:
// C02 needs to build votes that ARE valid, so a disagreement here is a machinery error (exit 2).
// The one tolerated deviation is D4 (known finding of C11): the type field of the sign bytes is the
// constant "prevote" for every vote type.
func calibrate() bool {
	keys, _ := rawKeys(1)
	match := func(constPrevote bool) bool {
		tagIsConstPrevote = constPrevote
		for _, t := range voteTypes {
			for _, b := range []int{bA, bNil, bAp} {
				v := mkVote(voteSpec{idx: 0, addr: keys[0].addr, signer: keys[0], h: height, r: round, typ: t, blk: b, ts: tsOf(0, 0), chain: chainID})
				own := signBytes(chainID, typeTag(t), height, round, refIDs[b], tsOf(0, 0))
				if !bytes.Equal(own, types.VoteSignBytes(chainID, v.ToProto())) {
					return false
				}
			}
		}
		return true
	}
	switch {
	case match(false):
	case match(true):
		r.Assume("D4 (known finding of C11, not judged here): the sign bytes of every vote carry type=prevote; the checker's own encoder follows that format so that votes of the type a vote set expects are valid")
	default:
		fmt.Println("MACHINERY-ERROR property=C02 the checker's canonical-vote encoder disagrees with types.VoteSignBytes")
		r.Vacuous("own canonical-vote encoder disagrees with the repository's sign bytes; cannot build valid votes")
		return false
	}
	// both directions of sign/verify on one genuine vote
	v := mkVote(voteSpec{idx: 0, addr: keys[0].addr, signer: keys[0], h: height, r: round, typ: kproto.PrecommitType, blk: bA, ts: tsOf(0, 0), chain: chainID})
	if err := v.Verify(chainID, repoAddr(keys[0].addr)); err != nil {
		fmt.Println("MACHINERY-ERROR property=C02 a vote signed by the checker's own signer is refused by Vote.Verify:", err)
		r.Vacuous("own signer and the repository's verifier disagree on a genuine vote")
		return false
	}
	pv := types.NewDefaultPrivValidator(keys[0].priv.ToECDSA())
	pb := v.ToProto()
	pb.Signature = nil
	if err := pv.SignVote(chainID, pb); err != nil || !refVerify(keys[0].addr, signBytes(chainID, typeTag(v.Type), height, round, refIDs[bA], v.Timestamp), pb.Signature) {
		fmt.Println("MACHINERY-ERROR property=C02 a vote signed by the repository's signer is refused by the checker's verifier")
		r.Vacuous("the repository's signer and the own verifier disagree on a genuine vote")
		return false
	}
	return true
}

var universes = map[string]*universe{}

func universeFor(pw []int64, t kproto.SignedMsgType) *universe {
	k := fmt.Sprintf("%v/%d", pw, t)
	if u := universes[k]; u != nil {
		return u
	}
	valSet, keys, outsider := makeValSet(pw)
	u := newUniverse(keys, outsider, t)
	u.valSet = valSet
	for _, tk := range u.toks {
		if tk.vote == nil {
			continue
		}
		if tk.invalid == tk.counts {
			fmt.Printf("MACHINERY-ERROR property=C02 token %s: intended invalid=%v, reference classification counts=%v\n", tk.name, tk.invalid, tk.counts)
			r.Vacuous("a token of the alphabet is not classified as intended")
		}
		if !tk.invalid && tk.cv != tk.val {
			r.Vacuous("a valid token counts for another validator than its signer")
		}
	}
	universes[k] = u
	return u
}

func set(xs ...string) map[string]bool {
	m := map[string]bool{}
	for _, x := range xs {
		m[x] = true
	}
	return m
}

type profile struct {
	name   string
	kinds  map[string]bool
	claims map[string]bool
}

func withInvalid(m map[string]bool) map[string]bool {
	for _, k := range invalidKinds {
		m[k] = true
	}
	return m
}

var (
	allClaims  = set("p:A", "p:B", "q:A", "q:B")
	profFull   = profile{"full", withInvalid(set("A", "B", "A'", "A^", "nil", "A~")), allClaims}
	profTotals = profile{"total-family", withInvalid(set("A", "A'", "A+256", "A+255", "A+64k", "A+2^24", "A+2^31")), set("p:A")}
	profFull3  = profile{"full-no-root-sibling", withInvalid(set("A", "B", "A'", "nil", "A~")), allClaims}
	profEquiv  = profile{"equivocation", withInvalid(set("A", "B", "nil")), allClaims}
	profIDs    = profile{"id-variants", withInvalid(set("A", "A'", "A^", "A+256", "A~", "nil")), set("p:A")}
	profSimple = profile{"simple", withInvalid(set("A", "B", "A'", "nil")), set("p:A", "q:B")}
	profEquiv1 = profile{"equivocation-1", withInvalid(set("A", "B", "nil")), set("p:A", "q:B")}
	profIDsQ   = profile{"id-variants-q", withInvalid(set("A", "A'", "A^", "A+256")), set("p:A")}
	profIDs0   = profile{"id-variants-0", withInvalid(set("A", "A'", "A+256")), set("p:A")}
)

func profilesFor(n int, thorough, quickVec bool, typ kproto.SignedMsgType) []profile {
	if dbg := os.Getenv("C02_PROFILE"); dbg != "" {
		for _, p := range []profile{profFull, profTotals, profFull3, profEquiv, profIDs, profSimple, profEquiv1, profIDs0} {
			if p.name == dbg {
				return []profile{p}
			}
		}
	}
	switch {
	case n == 2:
		return []profile{profFull, profTotals}
	case n <= 2:
		return []profile{profFull}
	case n == 3 && thorough:
		return []profile{profFull3, profIDs}
	case n == 3:
		return []profile{profEquiv, profIDsQ}
	case thorough && quickVec && typ == kproto.PrecommitType:
		return []profile{profEquiv, profIDs, profSimple}
	case thorough:
		return []profile{profEquiv, profIDs}
	case typ == kproto.PrecommitType:
		return []profile{profEquiv1, profIDs0}
	default: // quick, 4 validators, prevote: the larger profile runs for precommits only (same code path plus MakeCommit)
		return []profile{profIDs0}
	}
}

func main() {
	r = report.New("C02", "model_checking")
	stop := func() {}
	if pf := os.Getenv("VERIF_PPROF"); pf != "" {
		if f, err := os.Create(pf); err == nil {
			pprof.StartCPUProfile(f)
			stop = pprof.StopCPUProfile
		}
	}
	initTokenStats()
	if !calibrate() {
		r.Finish()
	}
	if r.ReplayPath != "" {
		replayContinue = os.Getenv("C02_REPLAY_CONTINUE") == "1"
		replay()
		return
	}
	if r.Quick() {
		r.SetDeadline(48 * time.Second)
	} else {
		r.SetDeadline(13 * time.Minute)
	}
	r.Exhaustive(true)
	r.Assume(
		"a vote counts for block id b iff it verifies under the address of the validator at its index for (chain, height, round, type expected by the set, b) with the checker's own sign-bytes encoder and btcec.RecoverCompact; two block ids are the same iff hash, part-set hash and part-set total are equal",
		"completeness is judged only for non-nil block ids and only requires that SOME majority is reported once a first-vote quorum exists (weakest reading)",
		"VerifyCommit completeness is judged only for commits in which every non-absent entry is a valid signature of the validator at that index (weakest reading); soundness is judged for every commit",
		"the ValidatorAddress field of a commit entry is not part of the sign bytes; an entry counts if its signature verifies under the address of the validator at that index",
		"Vote objects and the ValidatorSet are shared between cloned vote sets (the code documents them as never mutated after adding); a digest of every offered vote is re-checked at the end",
		"validator sets of at most 4 validators; the 10000-vote limits are not exercised",
	)

	fam := family()
	var vecs []int
	for i, v := range fam {
		if v.quick || r.Thorough() {
			vecs = append(vecs, i)
		}
	}
	if dbg := os.Getenv("C02_VECS"); dbg != "" { // measurement aid: restrict the vectors (evidence says so)
		vecs = nil
		for _, x := range strings.Split(dbg, ",") {
			var i int
			fmt.Sscan(x, &i)
			vecs = append(vecs, i)
		}
		r.NotExhaustive("C02_VECS debugging restriction")
	}

	// ---- E3: commit matrix --------------------------------------------------------------------
	nKinds := quickFlagKinds
	if r.Thorough() {
		nKinds = len(commitFlagKinds)
	}
	var cviols []commitViol
	for _, vi := range vecs {
		if r.Expired() {
			r.NotExhaustive("deadline before the commit matrix of vector " + vecName(fam[vi].pw))
			break
		}
		cviols = append(cviols, commitMatrix(vi, fam[vi].pw, nKinds)...)
	}
	reportCommitViolations(fam, cviols)

	commitDone := !r.Expired()

	// ---- E2 on HeightVoteSet (depth 5 on two vectors in thorough, depth 3 on one in quick) ------
	runHVS()

	// ---- E2: vote sets ------------------------------------------------------------------------
	maxStates := int64(3_000_000)
	var jobs []*job
	for _, vi := range vecs {
		pw := fam[vi].pw
		for ti, t := range voteTypes {
			for _, pr := range profilesFor(len(pw), r.Thorough(), fam[vi].quick, t) {
				j := newJob(vi, pw, ti, t, universeFor(pw, t), pr.name, pr.kinds, pr.claims)
				j.cryptoEverywhere = len(pw) <= 2 || (r.Thorough() && len(pw) <= 3)
				jobs = append(jobs, j)
			}
		}
	}
	// Run up to 4 searches at a time (each is parallel inside; the first BFS levels are narrow),
	// the smallest validator sets first (so that a deadline cuts the largest spaces, not the smallest
	// counterexamples); results are post-processed in the canonical job order.
	results := make([]*search, len(jobs))
	secs := make([]float64, len(jobs))
	order := make([]int, len(jobs))
	for i := range order {
		order[i] = i
	}
	sort.SliceStable(order, func(a, b int) bool { return jobs[order[a]].n < jobs[order[b]].n })
	var next int64 = -1
	var wg sync.WaitGroup
	for w := 0; w < 4; w++ {
		wg.Add(1)
		go func() {
			defer wg.Done()
			for {
				k := int(atomic.AddInt64(&next, 1))
				if k >= len(order) {
					return
				}
				i := order[k]
				if r.Expired() {
					continue
				}
				t0 := time.Now()
				results[i] = jobs[i].explore(maxStates)
				secs[i] = time.Since(t0).Seconds()
			}
		}()
	}
	wg.Wait()
	var jobLines []string
	votesetDone := true
	for i, j := range jobs {
		s := results[i]
		if s == nil {
			votesetDone = false
			r.NotExhaustive(fmt.Sprintf("deadline before %s profile=%s", j.label(), j.profile))
			continue
		}
		if !s.complete {
			votesetDone = false
			r.NotExhaustive(fmt.Sprintf("%s profile=%s stopped at %d states (deadline or state cap)", j.label(), j.profile, s.states))
		}
		s.digest()
		r.Add("states", s.states)
		r.Add("transitions", s.transitions)
		r.Add("traces_validated_against_impl", s.transitions)
		r.Add("self_loop_transitions", s.selfLoops)
		r.Add("subsumed_successors", s.subsumed)
		r.Add("revisited_successors", s.revisits)
		r.Add("states_with_majority", s.majStates)
		r.Add("makecommit_verifycommit_checks", s.commitChecks)
		r.Add("clone_vs_replay_validations", s.replayChecks)
		r.Add("voteset_jobs", 1)
		r.Max("max_depth", int64(s.maxDepth))
		jobLines = append(jobLines, fmt.Sprintf("%s/%s/%s: %d states, %d transitions, depth %d, fixpoint=%v, %.1fs",
			vecName(j.pw), typeNames[j.typ], j.profile, s.states, s.transitions, s.maxDepth, s.complete, secs[i]))
		boundaryStats(j, s)
		sampleFrom(j, s)
		results[i] = nil
	}
	r.Set("voteset_jobs_detail", jobLines)
	if os.Getenv("VERIF_VERBOSE") != "" {
		for _, l := range jobLines {
			fmt.Println(l)
		}
	}
	reportCandidates()

	// ---- guards -------------------------------------------------------------------------------
	// Vacuity guards apply to phases that ran to completion (a deadline only makes the run not
	// exhaustive) and to runs without violations (violating states are not expanded).
	clean := r.NumViolations() == 0 && len(best) == 0
	for _, k := range sortedKinds() {
		c := atomic.LoadInt64(tokenKindCount[k])
		r.Set("token_"+k, c)
		if votesetDone && clean {
			r.Require(c > 0, "alphabet token kind "+k+" never executed")
		}
	}
	r.Add("conflicting_votes_tracked_after_peer_claim", conflictsTracked)
	r.Add("conflicting_votes_dropped", conflictsDropped)
	r.Add("resigned_votes_refused", nonDeterministic)
	r.Add("duplicate_votes", duplicates)
	r.Add("invalid_votes_refused", invalidRefused)
	r.Add("conflicting_peer_claims_refused", claimErrors)
	if votesetDone && clean {
		r.Require(r.Get("states") > 100, "the vote-set search did not leave the initial state")
		r.Require(r.Get("states_with_majority") > 0, "no state with a two-thirds majority was reached")
		r.Require(r.Get("makecommit_verifycommit_checks") > 0, "MakeCommit -> VerifyCommit never ran")
		r.Require(conflictsTracked > 0 && conflictsDropped > 0, "conflicting votes were never tracked / dropped")
		r.Require(invalidRefused > 0 && duplicates > 0 && nonDeterministic > 0, "invalid / duplicate / re-signed votes never executed")
		r.Require(r.Get("boundary_states_exactly_two_thirds_signed") > 0, "no state with exactly 2/3 of the power signed for one block (boundary not forced)")
		r.Require(r.Get("clone_vs_replay_validations") > 0, "clones were never validated against replay")
	}
	if commitDone && clean {
		r.Require(r.Get("commit_cases_accepted_by_both") > 0 && r.Get("commit_cases_signed_exactly_two_thirds") > 0, "commit matrix never reached acceptance / the exact 2/3 boundary")
	}
	if n := atomic.LoadInt64(&replayMismatch); n > 0 {
		fmt.Printf("MACHINERY-ERROR property=C02 %d cloned states differ from a fresh replay of their history\n", n)
		r.Vacuous("in-package clone diverged from replay")
	}
	for _, u := range universes {
		for _, t := range u.toks {
			if t.vote != nil && voteDigest(t.vote) != t.digest {
				fmt.Printf("MACHINERY-ERROR property=C02 offered vote %s was mutated by the code under test\n", t.name)
				r.Vacuous("an offered vote object was mutated (clones share vote objects)")
			}
		}
	}
	r.Set("rule", "E2: for every power vector x vote type x alphabet profile the full reachable graph of (real VoteSet, reference tally) under the profile's tokens, to fixpoint. "+
		"Block ids: A and its three single-component siblings B (other block hash), A' (other part-set total), A^ (other part-set root hash), the further total siblings A+256, A+255, A+64k, A+2^24, A+2^31 (part-set total of A plus that much), and nil. Tokens per validator: votes A, B, A', A^, nil, A~ (A re-signed with another timestamp); every token stays enabled, so exact duplicates are included; "+
		"invalid votes (index out of range, index/address mismatch, impersonation of another index, outsider address, foreign key, wrong height, round, type, chain id, flipped signature bit, 64-byte signature); "+
		"SetPeerMaj23 of peers p,q for A,B. Profiles: full = everything; full-no-root-sibling = full without A^; equivocation = {A,B,nil}+4 claims; id-variants = {A,A',A^,A~,nil}+p:A; simple = {A,B,A',nil}+p:A,q:B; "+
		"equivocation-1 = {A,B,nil}+p:A,q:B; id-variants-q = {A,A',A^,A+256}+p:A; id-variants-0 = {A,A',A+256}+p:A; total-family (2 validators) = {A,A',A+256,A+255,A+64k,A+2^24,A+2^31}+p:A; id-variants also carries A+256; all with every invalid kind (see voteset_jobs_detail for which profile ran on which vector). "+
		"States are de-duplicated on a digest of all mutable VoteSet fields + the reference first-vote vector; a successor whose offered-signature set is a superset of an explored one is subsumed "+
		"(all oracles are antitone in it); successors of a violating transition are not expanded. The 3-4 invalid kinds that are only refused by signature verification are executed in every state "+
		"for sets of <= 2 (thorough: <= 3) validators and otherwise in the first state (BFS order) of every distinct context (addressed validator's first vote and signed set, peer claims on the path, reported majority). "+
		"MakeCommit -> VerifyCommit runs in every precommit state with a non-nil majority. E3: flags^n x 19 (quick: 16; the VerifyCommit argument is replaced by every sibling incl. the whole total family) size/height/block-id/round variants (argument id and commit id replaced by each sibling) into VerifyCommit "+
		"(8 entry kinds in quick, 15 in thorough). One violation signature is kept per (oracle, canonical set of token kinds): the first in (vector, type, length, token order). All counts are measured.")
	stop()
	r.Finish()
}

// boundaryStats counts explored states in which some block id is signed by exactly 2/3 of the power.
func boundaryStats(j *job, s *search) {
	for i := range s.nodes {
		nd := &s.nodes[i]
		for b := 0; b < nBlk; b++ {
			if m := nd.or.signers(j.n, b); m != 0 && exactTwoThirds(j.pw, m) {
				r.Add("boundary_states_exactly_two_thirds_signed", 1)
				if nd.ob.ok && int(nd.ob.maj) == b {
					r.Add("boundary_states_majority_reported_at_exactly_two_thirds", 1)
				}
				break
			}
		}
	}
}

// sampleFrom stores the first state of a search in which a majority is reported after a conflict.
func sampleFrom(j *job, s *search) {
	if !r.WantSample() || j.n < 3 {
		return
	}
	for i := range s.nodes {
		nd := &s.nodes[i]
		if nd.ob.ok && nd.depth >= int16(j.n) && nd.or.offered&(nd.or.offered-1) != 0 {
			ops := s.path(int32(i))
			hasClaim, hasB := false, false
			for _, t := range ops {
				hasClaim = hasClaim || t.vote == nil
				hasB = hasB || t.kind == "B"
			}
			if !hasClaim || !hasB {
				continue
			}
			r.Sample(map[string]interface{}{"kind": "voteset-state", "vector": j.pw, "type": typeNames[j.typ], "profile": j.profile, "history": opNames(ops),
				"impl_majority": majName(nd.ob), "impl_two_thirds_any": nd.ob.any, "impl_has_all": nd.ob.all,
				"reference_signers": map[string]string{"A": maskStr(nd.or.signers(j.n, bA), j.n), "B": maskStr(nd.or.signers(j.n, bB), j.n),
					"A'": maskStr(nd.or.signers(j.n, bAp), j.n), "A^": maskStr(nd.or.signers(j.n, bAr), j.n), "nil": maskStr(nd.or.signers(j.n, bNil), j.n)}})
			return
		}
	}
}

// ---- commit-matrix violations -----------------------------------------------------------------

func reportCommitViolations(fam []vector, cviols []commitViol) {
	type cand struct {
		v     commitViol
		count int
	}
	bestC := map[string]*cand{}
	r.Add("violating_commit_cases", int64(len(cviols)))
	seen := map[string]bool{}
	for _, v := range cviols {
		raw := fmt.Sprintf("%d|%s|%s|%v", v.vecIdx, v.f.oracle, v.variant, sortedCopy(flagNames(v.flags)))
		if seen[raw] {
			continue
		}
		seen[raw] = true
		pw := fam[v.vecIdx].pw
		cu := newCommitUniverse(pw)
		valSet, quorum := cu.valSet, quorumTable(pw)
		fires := func(flags []int) (bool, string) {
			f, _, _ := runCommitCase(cu, valSet, quorum, flags, v.variant)
			return firesOracle(f, v.f.oracle)
		}
		flags := append([]int(nil), v.flags...)
		for changed := true; changed; {
			changed = false
			for i := range flags {
				if flags[i] == 0 {
					continue
				}
				c := append([]int(nil), flags...)
				c[i] = 0
				if ok, _ := fires(c); ok {
					flags, changed = c, true
				}
			}
		}
		_, detail := fires(flags)
		m := commitViol{v.vecIdx, flags, v.variant, fired{v.f.oracle, detail}}
		// class: the roles the entries play according to the reference verifier (not their names)
		c0, argID, argH := cu.build(flags, v.variant)
		verdict := refVerifyCommit(cu.keys, quorum, argID, argH, c0)
		kinds := map[string]bool{}
		for i, f := range flags {
			switch {
			case f == 0:
			case verdict.counted>>uint(i)&1 == 1:
				kinds["counting"] = true
			case verdict.validNil>>uint(i)&1 == 1:
				kinds["valid-nil"] = true
			default:
				kinds["invalid:"+commitFlagKinds[f]] = true
			}
		}
		var ks []string
		for k := range kinds {
			ks = append(ks, k)
		}
		sort.Strings(ks)
		class := v.f.oracle + "|" + strings.Join(ks, ",")
		if !verdict.structural {
			class += "|" + verdict.why
		}
		b := bestC[class]
		if b == nil {
			bestC[class] = &cand{m, 1}
			continue
		}
		b.count++
		if m.vecIdx < b.v.vecIdx || (m.vecIdx == b.v.vecIdx && fmt.Sprint(flagNames(m.flags)) < fmt.Sprint(flagNames(b.v.flags))) {
			b.v = m
		}
	}
	var classes []string
	for c := range bestC {
		classes = append(classes, c)
	}
	sort.Strings(classes)
	for _, c := range classes {
		b := bestC[c]
		pw := fam[b.v.vecIdx].pw
		sig := fmt.Sprintf("C02|vector=%s|commit=%s|variant=%s|oracle=%s", vecName(pw), strings.Join(flagNames(b.v.flags), ","), b.v.variant, b.v.f.oracle)
		cs := Case{Kind: "commit", Vector: pw, Oracle: b.v.f.oracle, Commit: &CommitCase{Vector: pw, Flags: flagNames(b.v.flags), Variant: b.v.variant}}
		r.ViolationConfirmed(sig, b.v.f.detail, cs, func() string {
			cu := newCommitUniverse(pw)
			f, _, _ := runCommitCase(cu, cu.valSet, quorumTable(pw), b.v.flags, b.v.variant)
			if ok, _ := firesOracle(f, b.v.f.oracle); ok {
				return sig
			}
			return "not reproduced"
		})
	}
}

func sortedCopy(s []string) []string {
	c := append([]string(nil), s...)
	sort.Strings(c)
	return c
}

// ---- replay -----------------------------------------------------------------------------------

func replay() {
	var c Case
	if err := r.LoadReplay(&c); err != nil {
		fmt.Println("MACHINERY-ERROR cannot load replay file:", err)
		r.Vacuous("replay file unreadable")
		r.Finish()
	}
	switch c.Kind {
	case "voteset":
		var typ kproto.SignedMsgType
		ti := -1
		for i, t := range voteTypes {
			if typeNames[t] == c.Type {
				typ, ti = t, i
			}
		}
		if ti < 0 || len(c.Vector) < 1 || len(c.Vector) > 4 {
			r.Vacuous("bad replay case")
			r.Finish()
		}
		u := universeFor(c.Vector, typ)
		j := newJob(0, c.Vector, ti, typ, u, "replay", profFull.kinds, profFull.claims)
		var ops []*token
		for _, name := range c.Ops {
			t := u.byName[name]
			if t == nil {
				r.Vacuous("unknown token in replay case: " + name)
				r.Finish()
			}
			ops = append(ops, t)
		}
		fmt.Printf("replaying %s ops=%s on a fresh types.VoteSet\n", j.label(), strings.Join(c.Ops, ";"))
		step, fs := j.runOps(ops, func(s string) { fmt.Println(s) })
		if len(fs) == 0 {
			fmt.Println("observed: the property holds on this history")
		}
		for _, f := range fs {
			fmt.Printf("observed: oracle=%s at step %d: %s\n", f.oracle, step+1, f.detail)
			cd := &candidate{j: j, ops: ops[:step+1], oracle: f.oracle}
			r.Violation(cd.signature(), f.detail, c)
		}
	case "commit":
		if c.Commit == nil || len(c.Commit.Flags) != len(c.Vector) {
			r.Vacuous("bad replay case")
			r.Finish()
		}
		pw := c.Vector
		cu := newCommitUniverse(pw)
		var flags []int
		for _, f := range c.Commit.Flags {
			if flagIndex(f) < 0 {
				r.Vacuous("unknown flag in replay case: " + f)
				r.Finish()
			}
			flags = append(flags, flagIndex(f))
		}
		fmt.Printf("replaying commit vector=%s flags=%v variant=%s into VerifyCommit\n", vecName(pw), c.Commit.Flags, c.Commit.Variant)
		f, implAccept, verdict := runCommitCase(cu, cu.valSet, quorumTable(pw), flags, c.Commit.Variant)
		fmt.Printf("  VerifyCommit accepts=%v; independent verifier accepts=%v (%s), well-formed=%v, counting validators %s\n",
			implAccept, verdict.accept, verdict.why, verdict.wellFormed, maskStr(verdict.counted, len(pw)))
		if len(f) == 0 {
			fmt.Println("observed: the property holds on this case")
		}
		for _, x := range f {
			fmt.Printf("observed: oracle=%s: %s\n", x.oracle, x.detail)
			r.Violation(fmt.Sprintf("C02|vector=%s|commit=%s|variant=%s|oracle=%s", vecName(pw), strings.Join(c.Commit.Flags, ","), c.Commit.Variant, x.oracle), x.detail, c)
		}
	case "hvs":
		replayHVS(c)
	default:
		r.Vacuous("unknown replay kind " + c.Kind)
	}
	r.Exhaustive(true)
	r.Finish()
}
