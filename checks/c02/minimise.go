package main

// Replay of operation histories on fresh real objects, minimisation of violating histories and
// the construction of violation signatures.

import (
	"fmt"
	"sort"
	"strings"

	kproto "github.com/kardiachain/go-kardia/proto/kardiachain/types"
)

// Case is the replayable form of any violation of this check.
type Case struct {
	Kind   string      `json:"kind"` // "voteset", "commit" or "hvs"
	Vector []int64     `json:"vector"`
	Type   string      `json:"type,omitempty"`
	Ops    []string    `json:"ops,omitempty"`
	Oracle string      `json:"oracle"`
	Commit *CommitCase `json:"commit,omitempty"`
}

// runOps applies ops to a fresh real vote set, judging every step exactly like the search does.
// It returns the index of the first step at which an oracle fires and what fired; (-1, nil) if
// nothing fires, (-1, non-empty) if the empty vote set itself violates an oracle.
func (j *job) runOps(ops []*token, trace func(string)) (int, []fired) {
	vs := j.newVoteSet()
	or := newOracle()
	ob, p := observe(vs)
	if p != "" {
		return -1, []fired{{"panic", firstLine(p)}}
	}
	if fs := j.judge(ob, nil, false, nil, false, ob, or); len(fs) > 0 {
		return -1, fs
	}
	key := j.keyOf(vs)
	for i, t := range ops {
		added, err, p := j.apply(vs, t)
		if p != "" {
			return i, []fired{{"panic", t.name + " panicked: " + firstLine(p)}}
		}
		k2 := j.keyOf(vs)
		or2 := or.apply(t)
		ob2, p := observe(vs)
		if p != "" {
			return i, []fired{{"panic", "query after " + t.name + " panicked: " + firstLine(p)}}
		}
		if trace != nil {
			trace(fmt.Sprintf("  %-10s -> added=%v err=%v | TwoThirdsMajority=%s HasTwoThirdsAny=%v HasAll=%v | reference: signers A=%s B=%s A'=%s A^=%s nil=%s",
				t.name, added, errStr(err), majName(ob2), ob2.any, ob2.all, maskStr(or2.signers(j.n, bA), j.n), maskStr(or2.signers(j.n, bB), j.n),
				maskStr(or2.signers(j.n, bAp), j.n), maskStr(or2.signers(j.n, bAr), j.n), maskStr(or2.signers(j.n, bNil), j.n)))
		}
		fs := j.judge(ob, t, added, err, k2 != key, ob2, or2)
		if (len(fs) == 0 || replayContinue) && j.typ == kproto.PrecommitType && ob2.ok && ob2.maj > 0 {
			fs = append(fs, j.checkMakeCommit(vs, or2, ob2)...)
			if j.keyOf(vs) != k2 {
				fs = append(fs, fired{"makecommit-changed-state", "MakeCommit / VerifyCommit changed the vote set"})
			}
		}
		if len(fs) > 0 && replayContinue && trace != nil && i < len(ops)-1 {
			for _, f := range fs {
				trace(fmt.Sprintf("    (continuing past oracle=%s: %s)", f.oracle, f.detail))
			}
			fs = nil
		}
		if len(fs) > 0 {
			return i, fs
		}
		key, or, ob = k2, or2, ob2
	}
	return -1, nil
}

// replayContinue (env C02_REPLAY_CONTINUE=1, replay mode only) keeps executing a replayed history
// past a violation and also runs the MakeCommit check in violating states; for diagnosis.
var replayContinue bool

func errStr(err error) string {
	if err == nil {
		return "nil"
	}
	s := firstLine(err.Error())
	if len(s) > 60 {
		s = s[:60] + "..."
	}
	return s
}

func firesOracle(fs []fired, oracle string) (bool, string) {
	for _, f := range fs {
		if f.oracle == oracle {
			return true, f.detail
		}
	}
	return false, ""
}

// minimise removes operations while the same oracle still fires; the result ends at the firing step.
func (j *job) minimise(ops []*token, oracle string) ([]*token, string, bool) {
	try := func(c []*token) ([]*token, string, bool) {
		step, fs := j.runOps(c, nil)
		ok, d := firesOracle(fs, oracle)
		if !ok {
			return nil, "", false
		}
		return c[:step+1], d, true
	}
	cur, detail, ok := try(ops)
	if !ok {
		return ops, "", false
	}
	for changed := true; changed; {
		changed = false
		for i := len(cur) - 1; i >= 0; i-- {
			cand := append(append([]*token(nil), cur[:i]...), cur[i+1:]...)
			if c2, d2, ok := try(cand); ok {
				cur, detail, changed = c2, d2, true
				if i > len(cur) {
					i = len(cur)
				}
			}
		}
	}
	return cur, detail, true
}

func opNames(ops []*token) []string {
	s := make([]string, len(ops))
	for i, t := range ops {
		s[i] = t.name
	}
	return s
}

// kindSet is the violation class: the set of token kinds of a minimised history with the vote
// targets named canonically in order of first appearance (X, Y, Z; nil is a target like any other;
// A and A' share a hash: when both occur they are named L and L', a lone member is just L; a
// re-signed A counts as A). Invalid-vote kinds keep their name.
func kindSet(ops []*token) string {
	base := func(t *token) string {
		k := t.kind
		if t.vote == nil {
			k = blkName[t.claim]
		}
		if k == "A~" {
			k = "A"
		}
		return k
	}
	members := map[string]bool{} // members of the family {A, A', A^} that occur
	for _, t := range ops {
		if b := base(t); b == "A" || (strings.HasPrefix(b, "A") && len(b) > 1) {
			members[b] = true
		}
	}
	letters := map[string]string{}
	generic := map[string]string{}
	name := func(k string) string {
		if strings.HasPrefix(k, "!") {
			return k
		}
		root, mark := k, ""
		if strings.HasPrefix(k, "A") && len(k) > 1 {
			root = "A"
			switch {
			case len(members) <= 1:
			case members["A"] || k == "A'" || k == "A^":
				mark = k[1:]
			default: // siblings of each other without A itself: numbered by first appearance
				if generic[k] == "" {
					generic[k] = fmt.Sprintf("+t%d", len(generic)+1)
				}
				mark = generic[k]
			}
		}
		if letters[root] == "" {
			letters[root] = string(rune('X' + len(letters)))
		}
		return letters[root] + mark
	}
	m := map[string]bool{}
	for _, t := range ops {
		if t.vote == nil {
			m["claim:"+name(base(t))] = true
		} else {
			m[name(base(t))] = true
		}
	}
	var ks []string
	for k := range m {
		ks = append(ks, k)
	}
	sort.Strings(ks)
	return strings.Join(ks, ",")
}

// candidate is a minimised violation; one is kept per (oracle, set of token kinds): the first in
// the fixed enumeration order (vector, type, length, text).
type candidate struct {
	vecIdx, typIdx int
	j              *job
	ops            []*token
	oracle, detail string
	count          int64
}

func (c *candidate) less(d *candidate) bool {
	if c.vecIdx != d.vecIdx {
		return c.vecIdx < d.vecIdx
	}
	if c.typIdx != d.typIdx {
		return c.typIdx < d.typIdx
	}
	if len(c.ops) != len(d.ops) {
		return len(c.ops) < len(d.ops)
	}
	for i := range c.ops {
		if c.ops[i].idx != d.ops[i].idx {
			return c.ops[i].idx < d.ops[i].idx
		}
	}
	return false
}

func (c *candidate) signature() string {
	return fmt.Sprintf("C02|%s|ops=%s|oracle=%s", c.j.label(), strings.Join(opNames(c.ops), ";"), c.oracle)
}

var best = map[string]*candidate{} // oracle|kind set -> first candidate

// absOp is an operation with the validator replaced by a role (order of first appearance) and a
// re-signed A counted as A; claims keep their name (role -1).
type absOp struct {
	role int
	kind string
}

func normKind(t *token) string {
	if t.kind == "A~" {
		return "A"
	}
	return t.kind
}

func abstractOf(ops []*token) []absOp {
	roles := map[int]int{}
	var out []absOp
	for _, t := range ops {
		if t.vote == nil {
			out = append(out, absOp{-1, t.name})
			continue
		}
		if _, ok := roles[t.val]; !ok {
			roles[t.val] = len(roles)
		}
		out = append(out, absOp{roles[t.val], normKind(t)})
	}
	return out
}

var perms = map[int][][]int{}

func permutations(n int) [][]int {
	if p, ok := perms[n]; ok {
		return p
	}
	var out [][]int
	var rec func(cur []int, used int)
	rec = func(cur []int, used int) {
		if len(cur) == n {
			out = append(out, append([]int(nil), cur...))
			return
		}
		for v := 0; v < n; v++ {
			if used>>uint(v)&1 == 0 {
				rec(append(cur, v), used|1<<uint(v))
			}
		}
	}
	rec(nil, 0)
	perms[n] = out
	return out
}

// containsAbstract reports whether, for some assignment of distinct validators to the roles of
// abs, the operations of abs occur in ops in the same order.
func containsAbstract(abs []absOp, ops []*token, n int) bool {
	for _, perm := range permutations(n) {
		i := 0
		for _, t := range ops {
			if i == len(abs) {
				break
			}
			a := abs[i]
			if t.vote == nil {
				if a.role == -1 && a.kind == t.name {
					i++
				}
			} else if a.role >= 0 && t.val == perm[a.role] && normKind(t) == a.kind {
				i++
			}
		}
		if i == len(abs) {
			return true
		}
	}
	return false
}

const maxMinimisationsPerJob = 400

// digest turns the raw violations of a finished search (BFS order: shortest histories first) into
// candidates: a violating history that contains (in order, up to a renaming of the validators and
// with a re-signed A counted as A) an already minimised violating history of the same oracle is
// attributed to it; any other is minimised by replay on fresh objects.
func (s *search) digest() {
	var mins []*candidate
	var forms [][]absOp
	r.Add("violating_transitions", int64(len(s.viols)))
	minimised := 0
next:
	for _, v := range s.viols {
		ops := s.path(v.parent)
		if v.tok >= 0 {
			ops = append(ops, s.j.toks[v.tok])
		}
		for i, m := range mins {
			if m.oracle == v.f.oracle && containsAbstract(forms[i], ops, s.j.n) {
				m.count++
				continue next
			}
		}
		detail := v.f.detail
		if minimised < maxMinimisationsPerJob {
			minimised++
			m, d, ok := s.j.minimise(ops, v.f.oracle)
			if !ok {
				// the search saw it, a fresh replay does not: the harness is not deterministic
				fmt.Printf("MACHINERY-ERROR property=C02 violation %s of %s not reproduced by replay of %v\n", v.f.oracle, s.j.label(), opNames(ops))
				r.Vacuous("a violation seen by the search was not reproduced by a fresh replay")
				continue
			}
			ops, detail = m, d
		} else {
			r.Add("violations_not_minimised", 1)
		}
		mins = append(mins, &candidate{vecIdx: s.j.vecIdx, typIdx: s.j.typIdx, j: s.j, ops: ops, oracle: v.f.oracle, detail: detail, count: 1})
		forms = append(forms, abstractOf(ops))
	}
	for _, c := range mins {
		k := c.oracle + "|" + kindSet(c.ops)
		if b := best[k]; b == nil || c.less(b) {
			if b != nil {
				c.count += b.count
			}
			best[k] = c
		} else {
			b.count += c.count
		}
	}
}

func reportCandidates() {
	var keys []string
	for k := range best {
		keys = append(keys, k)
	}
	sort.Strings(keys)
	for _, k := range keys {
		c := best[k]
		sig := c.signature()
		cs := Case{Kind: "voteset", Vector: c.j.pw, Type: typeNames[c.j.typ], Ops: opNames(c.ops), Oracle: c.oracle}
		what := fmt.Sprintf("%s (class %q, %d violating transitions in this class)", c.detail, k, c.count)
		r.ViolationConfirmed(sig, what, cs, func() string {
			step, fs := c.j.runOps(c.ops, nil)
			if ok, _ := firesOracle(fs, c.oracle); ok && step == len(c.ops)-1 {
				return sig
			}
			return "not reproduced"
		})
	}
}
