package main

// The independent tally (reference model) and the oracles that compare the real VoteSet with it.

import (
	"fmt"
	"runtime/debug"

	"github.com/kardiachain/go-kardia/lib/p2p"
	"github.com/kardiachain/go-kardia/types"
)

// oracleState is what the checker remembers of the OFFERED votes: for every validator the block
// id of its first valid vote of the step and the set of block ids it validly signed.
type oracleState struct {
	first   [4]int8 // -1 = nothing yet
	offered uint64  // bit nBlk*i+b: validator i validly signed block id b
}

func newOracle() oracleState { return oracleState{first: [4]int8{-1, -1, -1, -1}} }

func (o oracleState) apply(t *token) oracleState {
	if t.vote == nil || !t.counts {
		return o
	}
	if o.first[t.cv] < 0 {
		o.first[t.cv] = int8(t.cb)
	}
	o.offered |= 1 << uint(nBlk*t.cv+t.cb)
	return o
}

func (o oracleState) has(i, b int) bool { return o.offered>>uint(nBlk*i+b)&1 == 1 }

// signers returns the mask of validators that validly signed block id b.
func (o oracleState) signers(n, b int) int {
	m := 0
	for i := 0; i < n; i++ {
		if o.has(i, b) {
			m |= 1 << uint(i)
		}
	}
	return m
}

// voted returns the mask of validators that validly signed anything.
func (o oracleState) voted(n int) int {
	m := 0
	for i := 0; i < n; i++ {
		if o.first[i] >= 0 {
			m |= 1 << uint(i)
		}
	}
	return m
}

// firstFor returns the mask of validators whose FIRST valid vote was for b.
func (o oracleState) firstFor(n, b int) int {
	m := 0
	for i := 0; i < n; i++ {
		if int(o.first[i]) == b {
			m |= 1 << uint(i)
		}
	}
	return m
}

// obs is what the real vote set reports.
type obs struct {
	ok       bool
	maj      int8 // index of the reported block id, -2 = a block id outside the universe
	has      bool
	any      bool
	all      bool
	isCommit bool
}

type fired struct {
	oracle string
	detail string
}

// safely runs f and converts a panic into a string.
func safely(f func()) (p string) {
	defer func() {
		if x := recover(); x != nil {
			p = fmt.Sprintf("%v\n%s", x, debug.Stack())
		}
	}()
	f()
	return ""
}

func observe(vs *types.VoteSet) (o obs, p string) {
	p = safely(func() {
		id, ok := vs.TwoThirdsMajority()
		o.ok = ok
		o.maj = -1
		if ok {
			o.maj = int8(blkIndex(refOf(id)))
			if o.maj < 0 {
				o.maj = -2
			}
		}
		o.has = vs.HasTwoThirdsMajority()
		o.any = vs.HasTwoThirdsAny()
		o.all = vs.HasAll()
		o.isCommit = vs.IsCommit()
	})
	return
}

func (j *job) apply(vs *types.VoteSet, t *token) (added bool, err error, p string) {
	p = safely(func() {
		if t.vote == nil {
			err = vs.SetPeerMaj23(p2p.ID(t.peer), repoID(refIDs[t.claim]))
			return
		}
		added, err = vs.AddVote(t.vote)
	})
	return
}

// judge evaluates every transition oracle: pre-state observation/oracle, the token, what the real
// object returned, post-state observation/oracle and whether the state key changed. A nil token
// judges the initial (empty) state.
func (j *job) judge(pre obs, t *token, added bool, err error, keyChanged bool, post obs, or oracleState) []fired {
	var f []fired
	n := j.n
	add := func(o, d string, a ...interface{}) { f = append(f, fired{o, fmt.Sprintf(d, a...)}) }
	if t != nil && t.vote != nil && !t.counts {
		if added && err == nil {
			add("invalid-vote-accepted", "%s returned added=true, err=nil", t.name)
		}
		if keyChanged {
			add("invalid-vote-changed-state", "%s changed the state of the vote set (added=%v err=%v)", t.name, added, err)
		}
	}
	if (post.has || post.isCommit) && !post.ok {
		// a majority is claimed without naming the block: some block id must have the signed power
		found := false
		for b := 0; b < nBlk; b++ {
			if j.quorum[or.signers(n, b)] {
				found = true
			}
		}
		if !found {
			add("soundness", "HasTwoThirdsMajority=%v IsCommit=%v but no block id has the signed power", post.has, post.isCommit)
		}
	}
	if post.ok {
		if post.maj < 0 {
			add("soundness", "majority reported for a block id nobody was offered")
		} else if s := or.signers(n, int(post.maj)); !j.quorum[s] {
			add("soundness", "majority reported for %s but only validators %s (power %s of %s) validly signed exactly that block id",
				blkName[post.maj], maskStr(s, n), j.power(s), j.power(1<<uint(n)-1))
		}
	}
	if post.any {
		if s := or.voted(n); !j.quorum[s] {
			add("any-soundness", "HasTwoThirdsAny reported but only validators %s (power %s of %s) signed anything", maskStr(s, n), j.power(s), j.power(1<<uint(n)-1))
		}
	}
	if post.all {
		if s := or.voted(n); s != 1<<uint(n)-1 {
			add("all-soundness", "HasAll reported but only validators %s signed anything", maskStr(s, n))
		}
	}
	for b := bA; b < nBlk; b++ {
		if s := or.firstFor(n, b); j.quorum[s] && !(post.ok && post.has) {
			add("completeness", "validators %s (power %s of %s) each offered a valid vote for %s as their first vote, no majority reported",
				maskStr(s, n), j.power(s), j.power(1<<uint(n)-1), blkName[b])
		}
	}
	if pre.ok && (!post.ok || post.maj != pre.maj) {
		add("maj23-changed", "majority was %s, now ok=%v %s", majName(pre), post.ok, majName(post))
	}
	return f
}

func majName(o obs) string {
	switch {
	case !o.ok:
		return "none"
	case o.maj < 0:
		return "unknown-id"
	}
	return blkName[o.maj]
}

func maskStr(m, n int) string {
	s := "{"
	for i := 0; i < n; i++ {
		if m>>uint(i)&1 == 1 {
			if len(s) > 1 {
				s += ","
			}
			s += fmt.Sprint(i)
		}
	}
	return s + "}"
}
