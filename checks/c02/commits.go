package main

// Commits: the independent commit verifier, the MakeCommit -> VerifyCommit check made in every
// vote-set state that reports a majority, and the exhaustive commit matrix (E3) into VerifyCommit.

import (
	"fmt"
	"strings"
	"sync/atomic"
	"time"

	kproto "github.com/kardiachain/go-kardia/proto/kardiachain/types"
	"github.com/kardiachain/go-kardia/types"

	"verif/mc/par"
)

type commitVerdict struct {
	accept     bool
	wellFormed bool
	counted    int // mask of validators whose for-block signature counts
	validNil   int // mask of validators with a valid nil entry
	structural bool
	why        string
}

// refVerifyCommit is the checker's own commit verifier: the commit justifies block id argID at
// argHeight for the validators keys[] iff it has one entry per validator, names exactly that height
// and block id, and the validators whose entry is a for-block signature that verifies under THEIR
// address for (chain, commit height, commit round, precommit, block id, their timestamp) hold
// strictly more than 2/3 of the power.
func refVerifyCommit(keys []keyPair, quorum []bool, argID refBlockID, argHeight uint64, c *types.Commit) commitVerdict {
	v := commitVerdict{wellFormed: true}
	n := len(keys)
	cid := refOf(c.BlockID)
	structural := true
	switch {
	case len(c.Signatures) != n:
		structural, v.why = false, "size"
	case c.Height != argHeight:
		structural, v.why = false, "height"
	case cid != argID:
		structural, v.why = false, "block id"
	case argID.Nil || argID.Hash == [32]byte{} || (argID.PartsHash == [32]byte{} && argID.Total == 0):
		structural, v.why = false, "nil or incomplete block id"
	}
	tag := typeTag(kproto.PrecommitType)
	for i, cs := range c.Signatures {
		if i >= n {
			v.wellFormed = false
			break
		}
		var a address
		copy(a[:], cs.ValidatorAddress[:])
		switch cs.BlockIDFlag {
		case types.BlockIDFlagAbsent:
			if a != (address{}) || !cs.Timestamp.IsZero() || len(cs.Signature) != 0 {
				v.wellFormed = false
			}
		case types.BlockIDFlagCommit:
			if refVerify(keys[i].addr, signBytes(chainID, tag, c.Height, c.Round, cid, cs.Timestamp), cs.Signature) {
				v.counted |= 1 << uint(i)
				if a != keys[i].addr {
					v.wellFormed = false
				}
			} else {
				v.wellFormed = false
			}
		case types.BlockIDFlagNil:
			if !refVerify(keys[i].addr, signBytes(chainID, tag, c.Height, c.Round, refBlockID{Nil: true}, cs.Timestamp), cs.Signature) || a != keys[i].addr {
				v.wellFormed = false
			} else {
				v.validNil |= 1 << uint(i)
			}
		default:
			v.wellFormed = false
		}
	}
	v.structural = structural
	if structural {
		if quorum[v.counted&(1<<uint(n)-1)] {
			v.accept = true
		} else {
			v.why = "no quorum"
		}
	}
	return v
}

// checkMakeCommit is the state-level oracle for precommit sets that report a majority for a block.
func (j *job) checkMakeCommit(vs *types.VoteSet, or oracleState, ob obs) []fired {
	var f []fired
	add := func(o, d string, a ...interface{}) { f = append(f, fired{o, fmt.Sprintf(d, a...)}) }
	maj := refIDs[ob.maj]
	var commit *types.Commit
	if p := safely(func() { commit = vs.MakeCommit() }); p != "" {
		add("panic", "MakeCommit panicked: %s", firstLine(p))
		return f
	}
	if commit == nil {
		add("makecommit-content", "MakeCommit returned nil")
		return f
	}
	if commit.Height != height || commit.Round != round || refOf(commit.BlockID) != maj || len(commit.Signatures) != j.n {
		add("makecommit-content", "commit header h=%d r=%d id=%v size=%d, want h=%d r=%d id=%s size=%d", commit.Height, commit.Round,
			commit.BlockID, len(commit.Signatures), height, round, blkName[ob.maj], j.n)
		return f
	}
	tag := typeTag(kproto.PrecommitType)
	forBlock := 0
	for i, cs := range commit.Signatures {
		var a address
		copy(a[:], cs.ValidatorAddress[:])
		switch cs.BlockIDFlag {
		case types.BlockIDFlagAbsent:
			if a != (address{}) || !cs.Timestamp.IsZero() || len(cs.Signature) != 0 {
				add("makecommit-content", "entry %d is absent but carries data", i)
			}
		case types.BlockIDFlagCommit:
			if a != j.u.keys[i].addr || !refVerify(a, signBytes(chainID, tag, height, round, maj, cs.Timestamp), cs.Signature) || !or.has(i, int(ob.maj)) {
				add("makecommit-content", "entry %d is flagged for-block but is not a valid signature of validator %d for %s", i, i, blkName[ob.maj])
			} else {
				forBlock |= 1 << uint(i)
			}
		case types.BlockIDFlagNil:
			if a != j.u.keys[i].addr || !refVerify(a, signBytes(chainID, tag, height, round, refBlockID{Nil: true}, cs.Timestamp), cs.Signature) || !or.has(i, bNil) {
				add("makecommit-content", "entry %d is flagged nil but is not a valid nil vote of validator %d", i, i)
			}
		default:
			add("makecommit-content", "entry %d has unknown flag %d", i, cs.BlockIDFlag)
		}
	}
	verdict := refVerifyCommit(j.u.keys, j.quorum, maj, height, commit)
	var err error
	if p := safely(func() { err = j.valSet.VerifyCommit(chainID, repoID(maj), height, commit) }); p != "" {
		add("panic", "VerifyCommit(MakeCommit()) panicked: %s", firstLine(p))
		return f
	}
	switch {
	case err != nil:
		add("makecommit-rejected", "VerifyCommit rejects the commit built from the reported majority for %s (for-block entries of validators %s): %v",
			blkName[ob.maj], maskStr(forBlock, j.n), err)
	case !verdict.accept:
		add("verifycommit-soundness", "VerifyCommit accepts MakeCommit() output which the independent verifier rejects (%s)", verdict.why)
	}
	return f
}

func firstLine(s string) string {
	if i := strings.IndexByte(s, '\n'); i >= 0 {
		return s[:i]
	}
	return s
}

// ---- the commit matrix (E3) -----------------------------------------------------------------

var commitFlagKinds = []string{"absent", "nil", "commit", "commit-badsig", "commit-for-B", "commit-for-A'", "commit-by-other", "commit-for-A^",
	// thorough only:
	"commit-for-A+256", "nil-badsig", "nil-signed-for-A", "commit-other-round", "commit-other-chain", "commit-other-height", "absent-with-sig"}

const quickFlagKinds = 8

// quick runs the first quickVariants variants (up to and including "arg-A^")
const quickVariants = 16

var commitVariants = []string{"right", "size-1", "size+1", "arg-height+1", "commit-height+1", "arg-B", "arg-A'", "commit-A'", "commit-round+1", "arg-A^",
	"arg-A+256", "arg-A+255", "arg-A+64k", "arg-A+2^24", "arg-A+2^31", "commit-A+256", "commit-A^", "commit-B"}

type commitUniverse struct {
	n       int
	keys    []keyPair
	valSet  *types.ValidatorSet
	entries [][]types.CommitSig // [validator][flag kind]
}

func newCommitUniverse(pw []int64) *commitUniverse {
	n := len(pw)
	cu := &commitUniverse{n: n}
	var outsider keyPair
	cu.valSet, cu.keys, outsider = makeValSet(pw)
	tag := typeTag(kproto.PrecommitType)
	sign := func(k keyPair, chain string, h uint64, r uint32, b int, ts time.Time) []byte {
		return refSign(k, signBytes(chain, tag, h, r, refIDs[b], ts))
	}
	for i := 0; i < n; i++ {
		k := cu.keys[i]
		ts := tsOf(i, 0)
		other := outsider
		if n > 1 {
			other = cu.keys[(i+1)%n]
		}
		mk := func(flag types.BlockIDFlag, a address, sig []byte) types.CommitSig {
			return types.CommitSig{BlockIDFlag: flag, ValidatorAddress: repoAddr(a), Timestamp: ts, Signature: sig}
		}
		bad := func(sig []byte) []byte { sig[40] ^= 1; return sig }
		var e []types.CommitSig
		for _, kind := range commitFlagKinds {
			switch kind {
			case "absent":
				e = append(e, types.CommitSig{BlockIDFlag: types.BlockIDFlagAbsent})
			case "nil":
				e = append(e, mk(types.BlockIDFlagNil, k.addr, sign(k, chainID, height, round, bNil, ts)))
			case "commit":
				e = append(e, mk(types.BlockIDFlagCommit, k.addr, sign(k, chainID, height, round, bA, ts)))
			case "commit-badsig":
				e = append(e, mk(types.BlockIDFlagCommit, k.addr, bad(sign(k, chainID, height, round, bA, ts))))
			case "commit-for-B":
				e = append(e, mk(types.BlockIDFlagCommit, k.addr, sign(k, chainID, height, round, bB, ts)))
			case "commit-for-A'":
				e = append(e, mk(types.BlockIDFlagCommit, k.addr, sign(k, chainID, height, round, bAp, ts)))
			case "commit-for-A^":
				e = append(e, mk(types.BlockIDFlagCommit, k.addr, sign(k, chainID, height, round, bAr, ts)))
			case "commit-for-A+256":
				e = append(e, mk(types.BlockIDFlagCommit, k.addr, sign(k, chainID, height, round, bA256, ts)))
			case "commit-by-other":
				e = append(e, mk(types.BlockIDFlagCommit, other.addr, sign(other, chainID, height, round, bA, ts)))
			case "nil-badsig":
				e = append(e, mk(types.BlockIDFlagNil, k.addr, bad(sign(k, chainID, height, round, bNil, ts))))
			case "nil-signed-for-A":
				e = append(e, mk(types.BlockIDFlagNil, k.addr, sign(k, chainID, height, round, bA, ts)))
			case "commit-other-round":
				e = append(e, mk(types.BlockIDFlagCommit, k.addr, sign(k, chainID, height, round+1, bA, ts)))
			case "commit-other-chain":
				e = append(e, mk(types.BlockIDFlagCommit, k.addr, sign(k, otherChain, height, round, bA, ts)))
			case "commit-other-height":
				e = append(e, mk(types.BlockIDFlagCommit, k.addr, sign(k, chainID, height+1, round, bA, ts)))
			case "absent-with-sig":
				e = append(e, mk(types.BlockIDFlagAbsent, k.addr, sign(k, chainID, height, round, bA, ts)))
			default:
				panic(kind)
			}
		}
		cu.entries = append(cu.entries, e)
	}
	return cu
}

// CommitCase is a replayable case of the commit matrix.
type CommitCase struct {
	Vector  []int64  `json:"vector"`
	Flags   []string `json:"flags"`
	Variant string   `json:"variant"`
}

func flagIndex(kind string) int {
	for i, k := range commitFlagKinds {
		if k == kind {
			return i
		}
	}
	return -1
}

// build returns the commit and the (block id, height) arguments of one case.
func (cu *commitUniverse) build(flags []int, variant string) (*types.Commit, refBlockID, uint64) {
	sigs := make([]types.CommitSig, 0, cu.n+1)
	for i, f := range flags {
		sigs = append(sigs, cu.entries[i][f])
	}
	c := &types.Commit{Height: height, Round: round, BlockID: repoID(refIDs[bA])}
	argID, argH := refIDs[bA], height
	switch variant {
	case "right":
	case "size-1":
		sigs = sigs[:len(sigs)-1]
	case "size+1":
		sigs = append(sigs, cu.entries[0][flagIndex("commit")]) // validator 0's valid signature once more
	case "arg-height+1":
		argH = height + 1
	case "commit-height+1":
		c.Height, argH = height+1, height+1
	case "arg-B":
		argID = refIDs[bB]
	case "arg-A'":
		argID = refIDs[bAp]
	case "commit-A'":
		c.BlockID, argID = repoID(refIDs[bAp]), refIDs[bAp]
	case "commit-round+1":
		c.Round = round + 1
	case "arg-A^":
		argID = refIDs[bAr]
	case "arg-A+256":
		argID = refIDs[bA256]
	case "arg-A+255":
		argID = refIDs[bA255]
	case "arg-A+64k":
		argID = refIDs[bA64k]
	case "arg-A+2^24":
		argID = refIDs[bA16m]
	case "arg-A+2^31":
		argID = refIDs[bA2g]
	case "commit-A+256":
		c.BlockID, argID = repoID(refIDs[bA256]), refIDs[bA256]
	case "commit-A^":
		c.BlockID, argID = repoID(refIDs[bAr]), refIDs[bAr]
	case "commit-B":
		c.BlockID, argID = repoID(refIDs[bB]), refIDs[bB]
	default:
		panic(variant)
	}
	c.Signatures = sigs
	return c, argID, argH
}

// runCommitCase executes one case on the real VerifyCommit and on the independent verifier.
func runCommitCase(cu *commitUniverse, valSet *types.ValidatorSet, quorum []bool, flags []int, variant string) (f []fired, implAccept bool, verdict commitVerdict) {
	c, argID, argH := cu.build(flags, variant)
	verdict = refVerifyCommit(cu.keys, quorum, argID, argH, c)
	var err error
	if p := safely(func() { err = valSet.VerifyCommit(chainID, repoID(argID), argH, c) }); p != "" {
		return []fired{{"verifycommit-panic", "VerifyCommit panicked: " + firstLine(p)}}, false, verdict
	}
	implAccept = err == nil
	switch {
	case implAccept && !verdict.accept:
		f = append(f, fired{"verifycommit-soundness", fmt.Sprintf("VerifyCommit accepts, the independent verifier rejects (%s; validators with a counting signature: %s)",
			verdict.why, maskStr(verdict.counted, cu.n))})
	case !implAccept && verdict.accept && verdict.wellFormed:
		f = append(f, fired{"verifycommit-completeness", fmt.Sprintf("VerifyCommit rejects a well-formed commit with a signed quorum %s: %v", maskStr(verdict.counted, cu.n), err)})
	}
	return
}

type commitViol struct {
	vecIdx  int
	flags   []int
	variant string
	f       fired
}

func flagNames(flags []int) []string {
	s := make([]string, len(flags))
	for i, f := range flags {
		s[i] = commitFlagKinds[f]
	}
	return s
}

// commitMatrix enumerates flags^n x variants for one vector.
func commitMatrix(vecIdx int, pw []int64, nKinds int) []commitViol {
	n := len(pw)
	cu := newCommitUniverse(pw)
	valSet := cu.valSet
	quorum := quorumTable(pw)
	radices := make([]int, n+1)
	for i := 0; i < n; i++ {
		radices[i] = nKinds
	}
	radices[n] = len(commitVariants)
	if r.Quick() {
		radices[n] = quickVariants
	}
	total := par.Product(radices)
	viols := make([][]commitViol, total)
	full := 1<<uint(n) - 1
	done := par.For(total, 64, r.Expired, func(idx int64) {
		d := make([]int, n+1)
		par.MixedRadix(idx, radices, d)
		flags, variant := d[:n], commitVariants[d[n]]
		f, implAccept, verdict := runCommitCase(cu, valSet, quorum, flags, variant)
		r.Add("commit_cases", 1)
		if implAccept && verdict.accept {
			r.Add("commit_cases_accepted_by_both", 1)
			if !quorum[verdict.counted&^lowestBit(verdict.counted)&full] {
				r.Add("commit_cases_accepted_minimal_quorum", 1) // removing one signer loses the quorum
			}
		}
		if !implAccept && !verdict.accept {
			r.Add("commit_cases_rejected_by_both", 1)
		}
		if !verdict.accept && verdict.why == "no quorum" && verdict.counted != 0 {
			r.Add("commit_cases_signed_below_quorum", 1)
			if exactTwoThirds(pw, verdict.counted) {
				r.Add("commit_cases_signed_exactly_two_thirds", 1)
			}
		}
		r.Add("commit_variant_"+variant, 1)
		if implAccept && variant == "right" && n >= 3 && verdict.counted != full && atomic.AddInt64(&commitSamples, 1) <= 2 {
			r.Sample(map[string]interface{}{"kind": "commit-matrix", "vector": pw, "flags": flagNames(flags), "variant": variant,
				"impl_accepts": implAccept, "reference_accepts": verdict.accept, "counting_validators": maskStr(verdict.counted, n)})
		}
		for _, x := range f {
			viols[idx] = append(viols[idx], commitViol{vecIdx, append([]int(nil), flags...), variant, x})
		}
	})
	if done < total {
		r.NotExhaustive(fmt.Sprintf("deadline in the commit matrix of vector %s after %d of %d cases", vecName(pw), done, total))
	}
	var out []commitViol
	for _, v := range viols {
		out = append(out, v...)
	}
	return out
}

var commitSamples int64

func lowestBit(m int) int { return m & -m }
