#!/bin/bash
# Mutant demonstration for C02 (CHECK_AUTHORING.md rule 7).
# usage: mutants.sh [tier] [patch-name-substring]      (tier: quick | thorough, default quick)
# For every /verif/mutants/c02-*.patch: scratch worktree of /repo at HEAD, apply the patch, run the
# repository's own tests of the touched package, run the check against the worktree (no evidence),
# print exit code and signatures. While the tree still had defect D7 (FINDINGS.md; fixed in /repo by
# commit b270ef3) each mutant was run twice: on HEAD (rule 7) and on HEAD + d7-fix.patch (isolates it).
# When d7-fix.patch no longer applies (D7 fixed at HEAD) only the first mode runs.
export GOFLAGS=-mod=mod GOPROXY=off GOSUMDB=off GOTOOLCHAIN=local
TIER=${1:-quick}
ONLY=${2:-}
HERE=$(cd "$(dirname "$0")" && pwd)
OUT=${C02_MUT_OUT:-/tmp/c02-mutants}
mkdir -p "$OUT"
run_one() { # name patchfile withfix
  local name=$1 patch=$2 fix=$3 wt=/tmp/wt-c02-$$-$RANDOM
  git -C /repo worktree add --detach "$wt" HEAD >/dev/null 2>&1 || { echo "worktree failed"; return; }
  ( cd "$wt"
    if [ "$fix" = 1 ]; then git apply "$HERE/d7-fix.patch" || echo "FIX DID NOT APPLY"; fi
    if [ -n "$patch" ]; then git apply "$patch" || echo "PATCH DID NOT APPLY"; fi
    tests="n/a"
    if [ -n "$patch" ] && [ "$fix" = 0 ]; then
      pkg=$(grep '^+++ b/' "$patch" | head -1 | sed 's#^+++ b/##; s#/[^/]*$##')
      if go test -vet=off -count=1 "./$pkg/" > "$OUT/$name.gotest.log" 2>&1; then tests="pass"; else tests="FAIL"; fi
    fi
    VERIF_REPO="$wt" VERIF_NOEVIDENCE=1 timeout 1200 /verif/run.sh C02 "$TIER" > "$OUT/$name.fix$fix.log" 2>&1
    rc=$?
    echo "== $name fix=$fix tier=$TIER repo-tests=$tests exit=$rc"
    grep '^violation:' "$OUT/$name.fix$fix.log" | sed 's/^violation: \(C02|[^ ]*oracle=[a-z0-9-]*\).*/   \1/' | sed 's/: .*//'
  )
  git -C /repo worktree remove --force "$wt"
}
WITHFIX=1
git -C /repo apply --check "$HERE/d7-fix.patch" 2>/dev/null || WITHFIX=0
if [ -z "$ONLY" ]; then
  run_one baseline "" 0
  [ $WITHFIX = 1 ] && run_one baseline "" 1
fi
for p in /verif/mutants/c02-*.patch; do
  name=$(basename "$p" .patch)
  case "$name" in *"$ONLY"*) ;; *) continue;; esac
  run_one "$name" "$p" 0
  [ $WITHFIX = 1 ] && run_one "$name" "$p" 1
done
git -C /repo worktree prune
