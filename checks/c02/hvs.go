package main

func runHVS()           {}
func replayHVS(c Case) {}
