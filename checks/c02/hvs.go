package main

// E2 on the real consensus/types.HeightVoteSet (thorough tier): routing of votes to the vote set
// of their (round, type), rounds created by SetRound and by peers (catch-up rounds, at most two per
// peer), votes for rounds that do not exist yet. Every history of at most hvsDepth operations over
// the alphabet below is explored (states de-duplicated on all mutable fields + reference tally).

import (
	"crypto/sha256"
	"fmt"
	"os"
	"sort"
	"strings"
	"sync/atomic"

	ctypes "github.com/kardiachain/go-kardia/consensus/types"
	"github.com/kardiachain/go-kardia/lib/log"
	"github.com/kardiachain/go-kardia/lib/p2p"
	kproto "github.com/kardiachain/go-kardia/proto/kardiachain/types"
	"github.com/kardiachain/go-kardia/types"

	"verif/mc/par"
)

const (
	hvsRounds = 4 // rounds 1..4; round 4 is never tracked by SetRound
	hvsSets   = hvsRounds * 2
)

var hvsDepth = 5 // thorough; quick uses 3 on one vector

type hvsToken struct {
	name, kind string
	vote       *types.Vote
	peer       string
	setRound   uint32
	claimRound uint32
	// reference classification of a vote token
	counts bool
	cv, cb int
	set    int
	round  uint32
}

func setIndex(round uint32, t kproto.SignedMsgType) int {
	i := int(round-1) * 2
	if t == kproto.PrecommitType {
		i++
	}
	return i
}

func setName(s int) string {
	t := "prevote"
	if s%2 == 1 {
		t = "precommit"
	}
	return fmt.Sprintf("r%d/%s", s/2+1, t)
}

type hvsJob struct {
	pw     []int64
	n      int
	keys   []keyPair
	valSet *types.ValidatorSet
	quorum []bool
	toks   []*hvsToken
	byName map[string]*hvsToken
	voteID map[*types.Vote]uint16
}

// classifyHVS: the reference decision for which (round, type) set, validator and block a vote counts.
func classifyHVS(keys []keyPair, v *types.Vote) (ok bool, set, val, blk int) {
	if int(v.ValidatorIndex) >= len(keys) || v.Height != height || v.Round < 1 || v.Round > hvsRounds {
		return
	}
	if v.Type != kproto.PrevoteType && v.Type != kproto.PrecommitType {
		return
	}
	i := int(v.ValidatorIndex)
	var a address
	copy(a[:], v.ValidatorAddress[:])
	id := refOf(v.BlockID)
	b := blkIndex(id)
	if a != keys[i].addr || b < 0 {
		return
	}
	if !refVerify(a, signBytes(chainID, typeTag(v.Type), height, v.Round, id, v.Timestamp), v.Signature) {
		return
	}
	return true, setIndex(v.Round, v.Type), i, b
}

func newHVSJob(pw []int64) *hvsJob {
	j := &hvsJob{pw: pw, n: len(pw), byName: map[string]*hvsToken{}, voteID: map[*types.Vote]uint16{}}
	j.valSet, j.keys, _ = makeValSet(pw)
	j.quorum = quorumTable(pw)
	add := func(t *hvsToken) {
		if t.vote != nil {
			t.counts, t.set, t.cv, t.cb = classifyHVS(j.keys, t.vote)
			t.round = t.vote.Round
			j.voteID[t.vote] = uint16(len(j.toks) + 1)
		}
		j.toks = append(j.toks, t)
		j.byName[t.name] = t
	}
	tn := map[kproto.SignedMsgType]string{kproto.PrevoteType: "pv", kproto.PrecommitType: "pc"}
	mk := func(i int, rd uint32, t kproto.SignedMsgType, b int, h uint64) *types.Vote {
		return mkVote(voteSpec{idx: uint32(i), addr: j.keys[i].addr, signer: j.keys[i], h: h, r: rd, typ: t, blk: b, ts: tsOf(i, 0), chain: chainID})
	}
	// every validator's vote for A in rounds 1..3, both types, delivered by "its" peer p<i>
	for i := 0; i < j.n; i++ {
		for rd := uint32(1); rd <= 3; rd++ {
			for _, t := range voteTypes {
				add(&hvsToken{name: fmt.Sprintf("p%d>v%d:r%d:%s:A", i, i, rd, tn[t]), kind: "vote", vote: mk(i, rd, t, bA, height), peer: fmt.Sprintf("p%d", i)})
			}
		}
	}
	// validator 0's conflicting votes, delivered by another peer q: a single-component sibling of A
	// per round (1: other block hash, 2: other part-set root, 3: other part-set total)
	alt := map[uint32]int{1: bB, 2: bAr, 3: bAp}
	for rd := uint32(1); rd <= 3; rd++ {
		for _, t := range voteTypes {
			b := alt[rd]
			if rd == 3 && t == kproto.PrecommitType {
				b = bA256 // the total sibling that differs by 256
			}
			add(&hvsToken{name: fmt.Sprintf("q>v0:r%d:%s:%s", rd, tn[t], blkName[b]), kind: "vote-B", vote: mk(0, rd, t, b, height), peer: "q"})
		}
	}
	// a third unknown round from peer p0; a wrong-height vote for an unknown round; an invalid type
	add(&hvsToken{name: "p0>v0:r4:pv:A", kind: "future", vote: mk(0, 4, kproto.PrevoteType, bA, height), peer: "p0"})
	add(&hvsToken{name: "p1>v1:r2:pv:A:!h", kind: "!h", vote: mk(1, 2, kproto.PrevoteType, bA, height+1), peer: "p1"})
	bad := mk(0, 1, kproto.PrevoteType, bA, height)
	bad.Type = 0
	add(&hvsToken{name: "p0>v0:r1:!type", kind: "!type", vote: bad, peer: "p0"})
	add(&hvsToken{name: "SetRound(2)", kind: "setround", setRound: 2})
	add(&hvsToken{name: "SetRound(3)", kind: "setround", setRound: 3})
	add(&hvsToken{name: "claim(r1:pv:q:A)", kind: "claim", claimRound: 1})
	add(&hvsToken{name: "claim(r2:pv:q:A)", kind: "claim", claimRound: 2})
	for _, t := range j.toks {
		if t.vote == nil {
			continue
		}
		wantValid := t.kind == "vote" || t.kind == "vote-B" || t.kind == "future"
		if wantValid != t.counts {
			fmt.Printf("MACHINERY-ERROR property=C02 HeightVoteSet token %s: intended valid=%v, reference counts=%v\n", t.name, wantValid, t.counts)
			r.Vacuous("a HeightVoteSet token is not classified as intended")
		}
	}
	return j
}

// hvsOracle: one reference tally per (round, type) set, the highest round announced by SetRound and,
// per set, the validators whose FIRST valid vote arrived while the round was not yet announced
// (a HeightVoteSet may legitimately refuse those; they are left out of completeness).
type hvsOracle struct {
	sets     [hvsSets]oracleState
	excluded [hvsSets]uint8
	tracked  uint32
}

func newHVSOracle() hvsOracle {
	o := hvsOracle{tracked: 1}
	for i := range o.sets {
		o.sets[i] = newOracle()
	}
	return o
}

func (o hvsOracle) apply(t *hvsToken) hvsOracle {
	switch {
	case t.setRound != 0:
		if t.setRound > o.tracked {
			o.tracked = t.setRound
		}
	case t.vote != nil && t.counts:
		s := &o.sets[t.set]
		if s.first[t.cv] < 0 {
			s.first[t.cv] = int8(t.cb)
			if t.round > o.tracked {
				o.excluded[t.set] |= 1 << uint(t.cv)
			}
		}
		s.offered |= 1 << uint(nBlk*t.cv+t.cb)
	}
	return o
}

type hvsObs struct {
	sets     [hvsSets]obs
	exists   [hvsSets]bool
	polRound uint32
	polBlk   int8
}

func (j *hvsJob) newHVS() *ctypes.HeightVoteSet {
	return ctypes.NewHeightVoteSet(log.New(), chainID, height, j.valSet)
}

func (j *hvsJob) apply(h *ctypes.HeightVoteSet, t *hvsToken) (added bool, err error, p string) {
	p = safely(func() {
		switch {
		case t.vote != nil:
			added, err = h.AddVote(t.vote, p2p.ID(t.peer))
		case t.setRound != 0:
			h.SetRound(t.setRound)
		default:
			err = h.SetPeerMaj23(t.claimRound, kproto.PrevoteType, p2p.ID("q"), repoID(refIDs[bA]))
		}
	})
	return
}

func (j *hvsJob) observe(h *ctypes.HeightVoteSet) (o hvsObs, p string) {
	p = safely(func() {
		for rd := uint32(1); rd <= hvsRounds; rd++ {
			for ti, vs := range []*types.VoteSet{h.Prevotes(rd), h.Precommits(rd)} {
				if vs == nil {
					continue
				}
				s := int(rd-1)*2 + ti
				o.exists[s] = true
				ob, p2 := observe(vs)
				if p2 != "" {
					panic(p2)
				}
				o.sets[s] = ob
			}
		}
		pr, id := h.POLInfo()
		o.polRound = pr
		o.polBlk = int8(blkIndex(refOf(id)))
	})
	return
}

func (j *hvsJob) keyOf(h *ctypes.HeightVoteSet) implKey {
	d := ctypes.VerifC02DumpHVS(h)
	hs := sha256.New()
	fmt.Fprintf(hs, "%d|%v|%v|%v|", d.Round, d.Rounds, d.Peers, d.Catchup)
	vj := &job{voteID: j.voteID}
	for _, rd := range d.Rounds {
		for _, vs := range []*types.VoteSet{h.Prevotes(rd), h.Precommits(rd)} {
			if vs == nil {
				hs.Write([]byte{0})
				continue
			}
			k := vj.keyOf(vs)
			hs.Write(k[:])
		}
	}
	var k implKey
	copy(k[:], hs.Sum(nil)[:16])
	return k
}

func (j *hvsJob) judge(pre hvsObs, t *hvsToken, added bool, err error, post hvsObs, or hvsOracle) []fired {
	var f []fired
	n := j.n
	add := func(o, d string, a ...interface{}) { f = append(f, fired{o, fmt.Sprintf(d, a...)}) }
	if t != nil && t.vote != nil && !t.counts && added && err == nil {
		add("hvs-invalid-vote-accepted", "%s returned added=true, err=nil", t.name)
	}
	for s := 0; s < hvsSets; s++ {
		ob, os := post.sets[s], or.sets[s]
		if ob.ok || ob.has || ob.isCommit {
			switch {
			case ob.ok && ob.maj < 0:
				add("hvs-soundness", "%s reports a majority for a block id nobody was offered", setName(s))
			case ob.ok && !j.quorum[os.signers(n, int(ob.maj))]:
				add("hvs-soundness", "%s reports a majority for %s but only validators %s validly signed it for that round and type",
					setName(s), blkName[ob.maj], maskStr(os.signers(n, int(ob.maj)), n))
			case !ob.ok:
				add("hvs-soundness", "%s: HasTwoThirdsMajority/IsCommit without TwoThirdsMajority", setName(s))
			}
		}
		if ob.any && !j.quorum[os.voted(n)] {
			add("hvs-any-soundness", "%s reports HasTwoThirdsAny but only validators %s signed anything for that round and type", setName(s), maskStr(os.voted(n), n))
		}
		if ob.all && os.voted(n) != 1<<uint(n)-1 {
			add("hvs-all-soundness", "%s reports HasAll but only validators %s signed anything for that round and type", setName(s), maskStr(os.voted(n), n))
		}
		if uint32(s/2+1) <= or.tracked {
			for b := bA; b < nBlk; b++ {
				m := os.firstFor(n, b) &^ int(or.excluded[s])
				if j.quorum[m] && !(ob.ok && ob.has) {
					add("hvs-completeness", "validators %s each offered a valid first vote for %s in %s (a round announced by SetRound), no majority reported (vote set exists: %v)",
						maskStr(m, n), blkName[b], setName(s), post.exists[s])
				}
			}
		}
		if p := pre.sets[s]; p.ok && (!ob.ok || ob.maj != p.maj) {
			add("hvs-maj23-changed", "%s: majority was %s, now %s", setName(s), majName(p), majName(ob))
		}
	}
	if post.polRound != 0 {
		if post.polRound > hvsRounds || post.polBlk < 0 {
			add("hvs-pol-soundness", "POLInfo reports round %d / a block id outside the universe", post.polRound)
		} else if m := or.sets[setIndex(post.polRound, kproto.PrevoteType)].signers(n, int(post.polBlk)); !j.quorum[m] {
			add("hvs-pol-soundness", "POLInfo reports +2/3 prevotes for %s in round %d but only validators %s signed that", blkName[post.polBlk], post.polRound, maskStr(m, n))
		}
	}
	return f
}

type hvsNode struct {
	h      *ctypes.HeightVoteSet
	key    implKey
	or     hvsOracle
	ob     hvsObs
	parent int32
	tok    int16
	depth  int16
}

type hvsKey struct {
	k  implKey
	or hvsOracle
}

type hvsSucc struct {
	tok int16
	h   *ctypes.HeightVoteSet
	key implKey
	or  hvsOracle
	ob  hvsObs
}

type hvsViol struct {
	f      fired
	parent int32
	tok    int16
}

var hvsTokenCount = map[string]*int64{}
var hvsRefusedRound, hvsCatchupCreated int64

func (j *hvsJob) path(nodes []hvsNode, idx int32) []*hvsToken {
	var rev []*hvsToken
	for idx > 0 {
		rev = append(rev, j.toks[nodes[idx].tok])
		idx = nodes[idx].parent
	}
	for a, b := 0, len(rev)-1; a < b; a, b = a+1, b-1 {
		rev[a], rev[b] = rev[b], rev[a]
	}
	return rev
}

// runOps replays a history on a fresh HeightVoteSet; returns the first firing step.
func (j *hvsJob) runOps(ops []*hvsToken, trace func(string)) (int, []fired) {
	h := j.newHVS()
	or := newHVSOracle()
	ob, p := j.observe(h)
	if p != "" {
		return -1, []fired{{"hvs-panic", firstLine(p)}}
	}
	if fs := j.judge(ob, nil, false, nil, ob, or); len(fs) > 0 {
		return -1, fs
	}
	for i, t := range ops {
		if t.setRound != 0 && t.setRound <= or.tracked {
			continue // not offered by the search either
		}
		added, err, p := j.apply(h, t)
		if p != "" {
			return i, []fired{{"hvs-panic", t.name + " panicked: " + firstLine(p)}}
		}
		or2 := or.apply(t)
		ob2, p := j.observe(h)
		if p != "" {
			return i, []fired{{"hvs-panic", "query after " + t.name + " panicked: " + firstLine(p)}}
		}
		if trace != nil {
			var maj []string
			for s := 0; s < hvsSets; s++ {
				if ob2.sets[s].ok {
					maj = append(maj, setName(s)+"="+majName(ob2.sets[s]))
				}
			}
			trace(fmt.Sprintf("  %-22s -> added=%v err=%v | majorities: %v | POLInfo round=%d", t.name, added, errStr(err), maj, ob2.polRound))
		}
		if fs := j.judge(ob, t, added, err, ob2, or2); len(fs) > 0 {
			return i, fs
		}
		or, ob = or2, ob2
	}
	return -1, nil
}

func hvsOpNames(ops []*hvsToken) []string {
	s := make([]string, len(ops))
	for i, t := range ops {
		s[i] = t.name
	}
	return s
}

func (j *hvsJob) explore() {
	h0 := j.newHVS()
	ob0, p := j.observe(h0)
	if p != "" {
		r.Violation("C02|hvs|vector="+vecName(j.pw)+"|ops=|oracle=hvs-panic", "query on a new HeightVoteSet panicked: "+firstLine(p), Case{Kind: "hvs", Vector: j.pw, Oracle: "hvs-panic"})
		return
	}
	nodes := []hvsNode{{h: h0, key: j.keyOf(h0), or: newHVSOracle(), ob: ob0, parent: -1, tok: -1}}
	if fs := j.judge(ob0, nil, false, nil, ob0, nodes[0].or); len(fs) > 0 {
		sig := fmt.Sprintf("C02|hvs|vector=%s|ops=|oracle=%s", vecName(j.pw), fs[0].oracle)
		r.Violation(sig, "a new HeightVoteSet already violates: "+fs[0].detail, Case{Kind: "hvs", Vector: j.pw, Oracle: fs[0].oracle})
		return
	}
	visited := map[hvsKey]bool{{nodes[0].key, nodes[0].or}: true}
	frontier := []int32{0}
	var viols []hvsViol
	var states, transitions, replays int64 = 1, 0, 0
	var mismatch int64
	complete := true
	for depth := 0; depth < hvsDepth && len(frontier) > 0 && complete; depth++ {
		var next []int32
		for lo := 0; lo < len(frontier); lo += batchSize {
			hi := lo + batchSize
			if hi > len(frontier) {
				hi = len(frontier)
			}
			if r.Expired() {
				complete = false
				break
			}
			batch := frontier[lo:hi]
			type exp struct {
				succs []hvsSucc
				viols []hvsViol
				tr    int64
			}
			exps := make([]exp, len(batch))
			par.For(int64(len(batch)), 2, nil, func(bi int64) {
				idx := batch[bi]
				nd := &nodes[idx]
				var ex exp
				for ti, t := range j.toks {
					if t.setRound != 0 && t.setRound <= nd.or.tracked {
						continue // SetRound is only ever called with an increasing round
					}
					c := ctypes.VerifC02CloneHVS(nd.h, types.VerifC02Clone)
					added, err, p := j.apply(c, t)
					ex.tr++
					atomic.AddInt64(hvsTokenCount[t.kind], 1)
					if err == ctypes.ErrGotVoteFromUnwantedRound {
						atomic.AddInt64(&hvsRefusedRound, 1)
					}
					if p != "" {
						ex.viols = append(ex.viols, hvsViol{fired{"hvs-panic", t.name + " panicked: " + firstLine(p)}, idx, int16(ti)})
						continue
					}
					key := j.keyOf(c)
					or := nd.or.apply(t)
					ob, p := j.observe(c)
					if p != "" {
						ex.viols = append(ex.viols, hvsViol{fired{"hvs-panic", "query after " + t.name + " panicked: " + firstLine(p)}, idx, int16(ti)})
						continue
					}
					fs := j.judge(nd.ob, t, added, err, ob, or)
					for _, f := range fs {
						ex.viols = append(ex.viols, hvsViol{f, idx, int16(ti)})
					}
					if (int(idx)*len(j.toks)+ti)%64 == 0 {
						atomic.AddInt64(&replays, 1)
						f := j.newHVS()
						for _, x := range append(j.path(nodes, idx), t) {
							j.apply(f, x)
						}
						ob2, _ := j.observe(f)
						if j.keyOf(f) != key || ob2 != ob {
							atomic.AddInt64(&mismatch, 1)
						}
					}
					if len(fs) > 0 || visited[hvsKey{key, or}] {
						continue
					}
					if depth+1 >= hvsDepth {
						c = nil // leaves are judged, never expanded: do not retain the object
					}
					ex.succs = append(ex.succs, hvsSucc{int16(ti), c, key, or, ob})
				}
				exps[bi] = ex
			})
			for bi, ex := range exps {
				pidx := batch[bi]
				nodes[pidx].h = nil
				transitions += ex.tr
				viols = append(viols, ex.viols...)
				for _, sc := range ex.succs {
					k := hvsKey{sc.key, sc.or}
					if visited[k] {
						continue
					}
					visited[k] = true
					nodes = append(nodes, hvsNode{h: sc.h, key: sc.key, or: sc.or, ob: sc.ob, parent: pidx, tok: sc.tok, depth: int16(depth + 1)})
					states++
					next = append(next, int32(len(nodes)-1))
				}
			}
		}
		frontier = next
	}
	if !complete {
		r.NotExhaustive(fmt.Sprintf("deadline in the HeightVoteSet search of vector %s after %d states", vecName(j.pw), states))
	}
	withMaj := 0
	catchup := 0
	for i := range nodes {
		for s := 0; s < hvsSets; s++ {
			if nodes[i].ob.sets[s].ok {
				withMaj++
				break
			}
		}
		if nodes[i].ob.exists[setIndex(3, kproto.PrevoteType)] && nodes[i].or.tracked < 3 {
			catchup++
		}
	}
	if os.Getenv("VERIF_VERBOSE") != "" {
		fmt.Printf("hvs %s: %d states, %d transitions, %d with majority, %d with peer-created round, fixpoint-to-depth=%v\n", vecName(j.pw), states, transitions, withMaj, catchup, complete)
	}
	r.Add("hvs_states", states)
	r.Add("hvs_transitions", transitions)
	r.Add("states", states)
	r.Add("transitions", transitions)
	r.Add("traces_validated_against_impl", transitions)
	r.Add("hvs_states_with_a_majority", int64(withMaj))
	r.Add("hvs_states_with_a_peer_created_round", int64(catchup))
	r.Add("hvs_clone_vs_replay_validations", replays)
	if mismatch > 0 {
		fmt.Printf("MACHINERY-ERROR property=C02 %d cloned HeightVoteSets differ from a fresh replay\n", mismatch)
		r.Vacuous("HeightVoteSet clone diverged from replay")
	}
	if r.WantSample() && !hvsSampled {
		for i := range nodes {
			if nodes[i].ob.polRound >= 2 && nodes[i].or.tracked >= 2 {
				hvsSampled = true
				r.Sample(map[string]interface{}{"kind": "hvs-state", "vector": j.pw, "history": hvsOpNames(j.path(nodes, int32(i))),
					"impl_pol_round": nodes[i].ob.polRound, "impl_pol_block": blkName[nodes[i].ob.polBlk], "reference_round_announced": nodes[i].or.tracked})
				break
			}
		}
	}
	// violations: minimise one representative per (oracle, multiset of token kinds), keep one per (oracle, set of kinds)
	type cand struct {
		ops   []*hvsToken
		f     fired
		count int
	}
	bestH := map[string]*cand{}
	var mins []*cand
	minimised := 0
nextViol:
	for _, v := range viols {
		ops := append(j.path(nodes, v.parent), j.toks[v.tok])
		for _, m := range mins {
			if m.f.oracle == v.f.oracle {
				i := 0
				for _, t := range ops {
					if i < len(m.ops) && m.ops[i] == t {
						i++
					}
				}
				if i == len(m.ops) {
					m.count++
					continue nextViol
				}
			}
		}
		if minimised >= maxMinimisationsPerJob {
			r.Add("violations_not_minimised", 1)
			mins = append(mins, &cand{ops, v.f, 1})
			continue
		}
		minimised++
		fires := func(c []*hvsToken) ([]*hvsToken, string, bool) {
			step, fs := j.runOps(c, nil)
			ok, d := firesOracle(fs, v.f.oracle)
			if !ok {
				return nil, "", false
			}
			return c[:step+1], d, true
		}
		cur, detail, ok := fires(ops)
		if !ok {
			fmt.Printf("MACHINERY-ERROR property=C02 HeightVoteSet violation %s not reproduced by replay of %v\n", v.f.oracle, hvsOpNames(ops))
			r.Vacuous("a HeightVoteSet violation was not reproduced by a fresh replay")
			continue
		}
		for changed := true; changed; {
			changed = false
			for i := len(cur) - 1; i >= 0; i-- {
				c := append(append([]*hvsToken(nil), cur[:i]...), cur[i+1:]...)
				if c2, d2, ok := fires(c); ok {
					cur, detail, changed = c2, d2, true
					if i > len(cur) {
						i = len(cur)
					}
				}
			}
		}
		mins = append(mins, &cand{cur, fired{v.f.oracle, detail}, 1})
	}
	for _, m := range mins {
		km := map[string]bool{}
		for _, t := range m.ops {
			km[t.kind] = true
		}
		var kk []string
		for k := range km {
			kk = append(kk, k)
		}
		sort.Strings(kk)
		class := m.f.oracle + "|" + strings.Join(kk, ",")
		b := bestH[class]
		if b == nil || len(m.ops) < len(b.ops) || (len(m.ops) == len(b.ops) && strings.Join(hvsOpNames(m.ops), ";") < strings.Join(hvsOpNames(b.ops), ";")) {
			if b != nil {
				m.count += b.count
			}
			bestH[class] = m
		} else {
			b.count += m.count
		}
	}
	var classes []string
	for c := range bestH {
		classes = append(classes, c)
	}
	sort.Strings(classes)
	for _, c := range classes {
		b := bestH[c]
		if hvsReported[c] {
			continue // already reported for an earlier (smaller) vector
		}
		hvsReported[c] = true
		sig := fmt.Sprintf("C02|hvs|vector=%s|ops=%s|oracle=%s", vecName(j.pw), strings.Join(hvsOpNames(b.ops), ";"), b.f.oracle)
		cs := Case{Kind: "hvs", Vector: j.pw, Ops: hvsOpNames(b.ops), Oracle: b.f.oracle}
		r.ViolationConfirmed(sig, b.f.detail, cs, func() string {
			step, fs := j.runOps(b.ops, nil)
			if ok, _ := firesOracle(fs, b.f.oracle); ok && step == len(b.ops)-1 {
				return sig
			}
			return "not reproduced"
		})
	}
}

var hvsReported = map[string]bool{}
var hvsSampled bool

func runHVS() {
	for _, k := range []string{"vote", "vote-B", "future", "!h", "!type", "setround", "claim"} {
		hvsTokenCount[k] = new(int64)
	}
	vectors := [][]int64{{2, 1, 1}, {1, 1, 1}}
	if r.Quick() {
		hvsDepth, vectors = 3, vectors[:1]
	}
	before := r.NumViolations()
	depths := []int{}
	for vi, pw := range vectors {
		if r.Expired() {
			r.NotExhaustive("deadline before the HeightVoteSet search of vector " + vecName(pw))
			continue
		}
		if vi > 0 {
			hvsDepth-- // the second vector one operation shallower
		}
		depths = append(depths, hvsDepth)
		newHVSJob(pw).explore()
	}
	r.Add("hvs_votes_refused_for_unwanted_round", hvsRefusedRound)
	if !r.Expired() && r.NumViolations() == before {
		for k, c := range hvsTokenCount {
			r.Require(atomic.LoadInt64(c) > 0, "HeightVoteSet token kind "+k+" never executed")
		}
		r.Require(r.Get("hvs_states_with_a_majority") > 0, "no HeightVoteSet state with a majority")
		r.Require(r.Get("hvs_states_with_a_peer_created_round") > 0, "no HeightVoteSet state with a peer-created (catch-up) round")
		r.Require(hvsRefusedRound > 0, "the catch-up round limit was never hit")
	}
	r.Set("hvs_rule", fmt.Sprintf("every history of at most %v operations (per vector) over: each of 3 validators' vote for A in rounds 1-3 (prevote, precommit) delivered by its own peer, "+
		"validator 0's conflicting votes for B delivered by a fourth peer, one vote for round 4 (third unknown round of peer p0), a wrong-height vote for an unknown round, "+
		"an invalid vote type, SetRound(2), SetRound(3), SetPeerMaj23 for rounds 1 and 2; SetRound only with increasing rounds; vectors %v", depths, vectors))
}

func replayHVS(c Case) {
	j := newHVSJob(c.Vector)
	var ops []*hvsToken
	for _, name := range c.Ops {
		t := j.byName[name]
		if t == nil {
			r.Vacuous("unknown token in replay case: " + name)
			return
		}
		ops = append(ops, t)
	}
	fmt.Printf("replaying vector=%s ops=%s on a fresh HeightVoteSet\n", vecName(j.pw), strings.Join(c.Ops, ";"))
	step, fs := j.runOps(ops, func(s string) { fmt.Println(s) })
	if len(fs) == 0 {
		fmt.Println("observed: the property holds on this history")
	}
	for _, f := range fs {
		fmt.Printf("observed: oracle=%s at step %d: %s\n", f.oracle, step+1, f.detail)
		r.Violation(fmt.Sprintf("C02|hvs|vector=%s|ops=%s|oracle=%s", vecName(j.pw), strings.Join(hvsOpNames(ops[:step+1]), ";"), f.oracle), f.detail, c)
	}
}
