package main

// Exhaustive relabelling stage (E3) for PartSet.AddPart and merkle.SimpleProof.Verify.
//
// A proof carries its own Index and Total, and Verify recomputes the root from exactly those. In an
// unbalanced tree (leaf count not a power of two) the left/right path of a genuine leaf j is also the path of
// another index i in a SMALLER tree (leaf 2 of 3 sits where leaf 1 of 2 would, leaf 4 of 6 where leaf 2 of 4
// would, ...). So the bytes, leaf hash and aunts of part j relabelled as Part{Index: i, Proof{Index: i,
// Total: t < n}} verify against the header hash. Only AddPart's comparison of Proof.Index with Part.Index AND
// of Proof.Total with the set's total keeps such a part out of slot i.
//
// Space: every part count n in 1..17 (thorough ..33), every genuine part j, every claimed part index i in
// 0..n (n = out of range), proof index in {i, j}, proof total t in 1..n+1, aunts exact / shortened by one /
// extended by one — each offered to a FRESH receiving set, followed by the genuine part of that slot and the
// remaining genuine parts. The data is the wire form of a real block of the family, cut into exactly n parts.
//
// The expected verdicts come from an independent reference tree (refRoot / refRootFromPath below: SHA-256,
// 0x00 leaf prefix, 0x01 inner prefix, split at the largest power of two below the count), which shares no
// code with lib/merkle.

import (
	"bytes"
	"crypto/sha256"
	"fmt"
	"io/ioutil"
	"sort"
	"strings"

	"github.com/kardiachain/go-kardia/lib/merkle"
	"github.com/kardiachain/go-kardia/types"

	"verif/mc/par"
)

// ---------------------------------------------------------------------------------------------
// independent reference tree

func refLeaf(b []byte) []byte {
	h := sha256.Sum256(append([]byte{0}, b...))
	return h[:]
}

func refInner(l, r []byte) []byte {
	x := append([]byte{1}, l...)
	x = append(x, r...)
	h := sha256.Sum256(x)
	return h[:]
}

func refSplit(n int) int {
	k := 1
	for k*2 < n {
		k *= 2
	}
	return k
}

func refRoot(leaves [][]byte) []byte {
	switch len(leaves) {
	case 0:
		return nil
	case 1:
		return refLeaf(leaves[0])
	}
	k := refSplit(len(leaves))
	return refInner(refRoot(leaves[:k]), refRoot(leaves[k:]))
}

// refRootFromPath recomputes the root that a leaf hash with these aunts (deepest first) would have at
// position index of a tree of total leaves; nil when the number of aunts does not fit that position.
func refRootFromPath(index, total uint64, leafHash []byte, aunts [][]byte) []byte {
	if total == 0 || index >= total {
		return nil
	}
	if total == 1 {
		if len(aunts) != 0 {
			return nil
		}
		return leafHash
	}
	if len(aunts) == 0 {
		return nil
	}
	// largest power of two strictly below total (total may be as large as 2^64-1)
	k := uint64(1)
	for k <= (total-1)/2 {
		k *= 2
	}
	top := aunts[len(aunts)-1]
	if index < k {
		l := refRootFromPath(index, k, leafHash, aunts[:len(aunts)-1])
		if l == nil {
			return nil
		}
		return refInner(l, top)
	}
	rr := refRootFromPath(index-k, total-k, leafHash, aunts[:len(aunts)-1])
	if rr == nil {
		return nil
	}
	return refInner(top, rr)
}

// ---------------------------------------------------------------------------------------------

type rlSet struct {
	n      int
	data   []byte
	block  *types.Block // nil when synthetic data had to be used
	parts  []*types.Part
	header types.PartSetHeader
	root   []byte // reference root
}

const rlSeedBlock = "h2/commit=absent/txs=3/evidence=2"

func rlMaxN() int {
	if r.Thorough() {
		return 33
	}
	return 17
}

// rlBuild cuts the wire form of a real block into exactly n parts (falls back to synthetic bytes when no
// part size yields n parts).
func rlBuild(n int) *rlSet {
	s := &rlSet{n: n}
	if b := findBase(rlSeedBlock); b != nil && b.bz != nil {
		l := len(b.bz)
		for ps := (l + n - 1) / n; ps >= 1; ps-- {
			if (l+ps-1)/ps == n {
				set := types.NewPartSetFromData(b.bz, uint32(ps))
				if int(set.Total()) == n {
					s.data, s.block = b.bz, b.block
					s.header = set.Header()
					for i := 0; i < n; i++ {
						s.parts = append(s.parts, set.GetPart(i))
					}
				}
				break
			}
			if (l+ps-1)/ps > n {
				break
			}
		}
	}
	if s.parts == nil {
		s.data = mkData(n, 3, "distinct", 0)
		set := types.NewPartSetFromData(s.data, psPartSize)
		s.header = set.Header()
		for i := 0; i < n; i++ {
			s.parts = append(s.parts, set.GetPart(i))
		}
	}
	var leaves [][]byte
	for _, p := range s.parts {
		leaves = append(leaves, p.Bytes)
	}
	s.root = refRoot(leaves)
	return s
}

type rlCase struct {
	n, j, i int
	pidx    uint64
	t       uint64
	aunts   int // -1 shortened, 0 exact, +1 extended
}

func (c rlCase) String() string {
	return fmt.Sprintf("n=%d,j=%d,i=%d,proofindex=%d,total=%d,aunts=%+d", c.n, c.j, c.i, c.pidx, c.t, c.aunts)
}

func parseRLCase(s string) (c rlCase, ok bool) {
	_, err := fmt.Sscanf(s, "n=%d,j=%d,i=%d,proofindex=%d,total=%d,aunts=%d", &c.n, &c.j, &c.i, &c.pidx, &c.t, &c.aunts)
	return c, err == nil
}

// changed names which labels of the genuine part were altered (the signature's input class).
func (c rlCase) changed() string {
	var ch []string
	if c.i != c.j {
		if c.i >= c.n {
			ch = append(ch, "index(out-of-range)")
		} else {
			ch = append(ch, "index")
		}
	}
	if c.pidx != uint64(c.j) {
		ch = append(ch, "proof.index")
	}
	if c.t != uint64(c.n) {
		ch = append(ch, "proof.total")
	}
	if c.aunts < 0 {
		ch = append(ch, "aunts-shortened")
	}
	if c.aunts > 0 {
		ch = append(ch, "aunts-extended")
	}
	if len(ch) == 0 {
		return "nothing"
	}
	return strings.Join(ch, "+")
}

func rlSig(c rlCase, oracle string) string {
	return "C13|relabel|changed=" + c.changed() + "|oracle=" + oracle
}

func (s *rlSet) mkPart(c rlCase) *types.Part {
	g := s.parts[c.j]
	p := &types.Part{Index: uint32(c.i), Bytes: append([]byte{}, g.Bytes...), Proof: cloneProof(g.Proof)}
	p.Proof.Index, p.Proof.Total = c.pidx, c.t
	switch {
	case c.aunts < 0:
		p.Proof.Aunts = p.Proof.Aunts[:len(p.Proof.Aunts)-1]
	case c.aunts > 0:
		p.Proof.Aunts = append(p.Proof.Aunts, append([]byte{}, g.Proof.LeafHash...))
	}
	return p
}

type rlResult struct {
	obs            []obs
	added          bool
	verifyAlone    bool // Verify accepts although (proof index, total, aunts) are not the genuine ones
	neutralAdded   bool // own slot, genuine bytes, tampered proof: accepted (allowed, recorded)
	pathCompatible bool // the reference tree recomputes the header root from the claimed position
}

func evalRelabel(s *rlSet, c rlCase) (res rlResult) {
	p, pv := safely(func() {
		part := s.mkPart(c)
		exact := c.i == c.j && c.pidx == uint64(c.j) && c.t == uint64(c.n) && c.aunts == 0
		genuineProof := c.pidx == uint64(c.j) && c.t == uint64(c.n) && c.aunts == 0
		belongs := c.i < c.n && bytes.Equal(part.Bytes, s.parts[c.i].Bytes)
		where := fmt.Sprintf("%d-part set (%d bytes), bytes / leaf hash / aunts of genuine part %d offered as Part{Index:%d, Proof{Index:%d, Total:%d, %d aunts (genuine: %d)}}",
			c.n, len(s.data), c.j, c.i, c.pidx, c.t, len(part.Proof.Aunts), len(s.parts[c.j].Proof.Aunts))

		// --- SimpleProof.Verify alone
		ref := refRootFromPath(c.pidx, c.t, refLeaf(part.Bytes), part.Proof.Aunts)
		res.pathCompatible = ref != nil && bytes.Equal(ref, s.root)
		verr := part.Proof.Verify(s.header.Hash.Bytes(), part.Bytes)
		if genuineProof && verr != nil {
			res.obs = append(res.obs, obs{rlSig(c, "verify-rejects-genuine-proof"), where + ": SimpleProof.Verify: " + verr.Error()})
		}
		if verr == nil && !res.pathCompatible {
			res.obs = append(res.obs, obs{rlSig(c, "verify-accepts-what-the-reference-tree-rejects"),
				where + ": SimpleProof.Verify accepts, but recomputing the root from that position in an independent tree does not give the header hash"})
		}
		res.verifyAlone = verr == nil && !genuineProof

		// --- AddPart on a fresh receiving set
		rcv := types.NewPartSetFromHeader(s.header)
		added, err := rcv.AddPart(part)
		res.added = added
		result := fmt.Sprintf("%s: AddPart on a fresh set returned (%v, %v)", where, added, err)
		if added && err != nil {
			res.obs = append(res.obs, obs{rlSig(c, "added-with-error"), result})
		}
		switch {
		case exact:
			if !added {
				res.obs = append(res.obs, obs{rlSig(c, "genuine-part-rejected"), result})
				return
			}
		case !belongs:
			if added {
				res.obs = append(res.obs, obs{rlSig(c, "bogus-part-accepted"), result + fmt.Sprintf("; slot %d must hold the %d bytes of part %d, not the %d bytes of part %d", c.i, lenAt(s, c.i), c.i, len(part.Bytes), c.j)})
			} else if rcv.Count() != 0 || anyFilled(rcv, c.n) {
				res.obs = append(res.obs, obs{rlSig(c, "rejected-part-changed-state"), result})
			}
		default:
			// own slot, genuine bytes, tampered proof: either verdict (weakest reading), but consistent
			res.neutralAdded = added
			if !added && (rcv.Count() != 0 || anyFilled(rcv, c.n)) {
				res.obs = append(res.obs, obs{rlSig(c, "rejected-part-changed-state"), result})
			}
		}
		if !added {
			// the refused part must not keep the genuine one out (checked on the same object)
			if c.i < c.n {
				if ok, e := rcv.AddPart(clonePart(s.parts[c.i])); !ok || e != nil {
					res.obs = append(res.obs, obs{rlSig(c, "genuine-part-blocked"), result + fmt.Sprintf("; the genuine part %d offered next: (%v, %v)", c.i, ok, e)})
				}
			}
			return
		}
		// --- something was accepted: bogus first, then the genuine part of that slot, then all the others
		if c.i < c.n {
			held := rcv.GetPart(c.i)
			if held == nil || !bytes.Equal(held.Bytes, part.Bytes) || rcv.Count() != 1 {
				res.obs = append(res.obs, obs{rlSig(c, "accepted-part-not-stored-in-its-slot"), result})
			}
			ok, e := rcv.AddPart(clonePart(s.parts[c.i]))
			if !belongs && !ok {
				res.obs = append(res.obs, obs{rlSig(c, "genuine-part-blocked"), result + fmt.Sprintf("; the genuine part %d offered next: (%v, %v) — the slot keeps the bytes of part %d", c.i, ok, e, c.j)})
			}
			if belongs && ok {
				res.obs = append(res.obs, obs{rlSig(c, "filled-slot-overwritten"), result + "; the genuine part offered next was added again"})
			}
		}
		for k := 0; k < c.n; k++ {
			if k != c.i {
				if ok, e := rcv.AddPart(clonePart(s.parts[k])); !ok || e != nil {
					res.obs = append(res.obs, obs{rlSig(c, "genuine-part-rejected"), result + fmt.Sprintf("; afterwards the genuine part %d: (%v, %v)", k, ok, e)})
				}
			}
		}
		if !rcv.IsComplete() {
			res.obs = append(res.obs, obs{rlSig(c, "not-complete-after-all-genuine-parts"), result})
			return
		}
		got, rerr := ioutil.ReadAll(rcv.GetReader())
		var held [][]byte
		for k := 0; k < c.n; k++ {
			held = append(held, rcv.GetPart(k).Bytes)
		}
		if rerr != nil || !bytes.Equal(got, s.data) || !bytes.Equal(refRoot(held), s.header.Hash.Bytes()) {
			res.obs = append(res.obs, obs{rlSig(c, "complete-but-wrong-bytes"),
				result + fmt.Sprintf("; after all genuine parts the set reports IsComplete() and its reader yields %d bytes (err %v) that differ from the %d bytes the header hash commits to (reference root of the held parts %x, header %x)",
					len(got), rerr, len(s.data), refRoot(held), s.header.Hash.Bytes())})
			return
		}
		if s.block != nil {
			dec, derr := decodeBlock(got)
			if derr != nil || dec.Hash() != s.block.Hash() {
				res.obs = append(res.obs, obs{rlSig(c, "complete-set-does-not-decode-to-the-block"), fmt.Sprintf("%s; decode error %v", result, derr)})
			}
		}
	})
	if p {
		res.obs = append(res.obs, obs{rlSig(c, "panic"), c.String() + ": " + pv})
	}
	return
}

func lenAt(s *rlSet, i int) int {
	if i < len(s.parts) {
		return len(s.parts[i].Bytes)
	}
	return 0
}

func anyFilled(ps *types.PartSet, n int) bool {
	for k := 0; k < n; k++ {
		if ps.GetPart(k) != nil {
			return true
		}
	}
	return false
}

// rlCases enumerates the cases of one (n, j) in a fixed order.
func rlCases(s *rlSet, j int) []rlCase {
	var out []rlCase
	n := s.n
	for i := 0; i <= n; i++ {
		pidxs := []uint64{uint64(i)}
		if i != j {
			pidxs = append(pidxs, uint64(j))
		}
		for _, pidx := range pidxs {
			for t := uint64(1); t <= uint64(n)+1; t++ {
				for _, a := range []int{0, -1, 1} {
					if a < 0 && len(s.parts[j].Proof.Aunts) == 0 {
						continue
					}
					out = append(out, rlCase{n: n, j: j, i: i, pidx: pidx, t: t, aunts: a})
				}
			}
		}
	}
	return out
}

func runRelabel() {
	type unit struct {
		s *rlSet
		j int
	}
	var units []unit
	realData := 0
	for n := 1; n <= rlMaxN(); n++ {
		s := rlBuild(n)
		if s.block != nil {
			realData++
		}
		// the sender's root against the reference tree
		r.Add("transitions", 1)
		r.Add("traces_validated_against_impl", 1)
		if !bytes.Equal(s.root, s.header.Hash.Bytes()) {
			record(Case{Phase: "relabel", Item: fmt.Sprintf("root:n=%d", n)},
				obs{"C13|relabel|oracle=part-set-hash-vs-reference-tree", fmt.Sprintf("%d parts: NewPartSetFromData gives header hash %x, the reference tree (SHA-256, 0x00/0x01 prefixes, split at the largest power of two below the count) gives %x", n, s.header.Hash.Bytes(), s.root)})
		}
		for j := 0; j < n; j++ {
			units = append(units, unit{s, j})
		}
	}
	type ures struct {
		cases []rlCase
		res   []rlResult
	}
	out := make([]ures, len(units))
	done := par.For(int64(len(units)), 1, r.Expired, func(u int64) {
		cs := rlCases(units[u].s, units[u].j)
		rs := make([]rlResult, len(cs))
		for k, c := range cs {
			rs[k] = evalRelabel(units[u].s, c)
			rs[k].obs = append([]obs{}, rs[k].obs...)
		}
		out[u] = ures{cs, rs}
	})
	if done < int64(len(units)) {
		r.NotExhaustive(fmt.Sprintf("relabelling stage: %d of %d (n, part) units done", done, len(units)))
	}
	var cases, accepted, exactAccepted, neutral int64
	verifyAlone := map[string]bool{}
	neutralKinds := map[string]int64{}
	compatible := int64(0)
	for _, u := range out {
		for k, c := range u.cases {
			x := u.res[k]
			cases++
			if x.added {
				accepted++
				if c.changed() == "nothing" {
					exactAccepted++
				}
			}
			if x.neutralAdded {
				neutral++
				neutralKinds[c.changed()]++
			}
			if x.pathCompatible && c.changed() != "nothing" {
				compatible++
			}
			if x.verifyAlone && c.aunts == 0 {
				verifyAlone[fmt.Sprintf("n=%02d: leaf %d verifies as (index %d, total %d)", c.n, c.j, c.pidx, c.t)] = true
			}
			for _, o := range x.obs {
				record(Case{Phase: "relabel", Item: c.String()}, o)
			}
		}
	}
	r.Add("transitions", cases)
	r.Add("traces_validated_against_impl", cases)
	r.Add("relabel_cases", cases)
	r.Add("relabel_cases_accepted_by_addpart", accepted)
	r.Add("relabel_genuine_cases_accepted", exactAccepted)
	r.Add("relabel_own_slot_tampered_proof_accepted(allowed)", neutral)
	r.Add("relabel_cases_whose_claimed_position_recomputes_the_root", compatible)
	r.Set("relabel_max_parts", rlMaxN())
	r.Set("relabel_sets_cut_from_a_real_block", realData)
	if len(neutralKinds) > 0 {
		r.Set("relabel_own_slot_tampered_proof_accepted_by_kind", neutralKinds)
	}
	var va []string
	for k := range verifyAlone {
		va = append(va, k)
	}
	sort.Strings(va)
	r.Add("relabellings_that_SimpleProof.Verify_alone_accepts", int64(len(va)))
	if len(va) > 40 {
		va = append(va[:40], fmt.Sprintf("... %d more", len(va)-40))
	}
	// information, not a violation: Verify recomputes the root from the proof's own Index / Total (its comment
	// says "Check sp.Index/sp.Total manually if needed"); this is upstream behaviour, AddPart is the guard
	r.Set("relabellings_that_SimpleProof.Verify_alone_accepts_list", va)
	if done == int64(len(units)) {
		want := int64(0)
		for n := 1; n <= rlMaxN(); n++ {
			want += int64(n)
		}
		r.Require(exactAccepted == want, fmt.Sprintf("relabelling stage: %d genuine parts accepted, expected %d", exactAccepted, want))
		r.Require(len(verifyAlone) > 0 && compatible > 0, "relabelling stage: no relabelling keeps the path valid — the stage does not reach the unbalanced-tree shapes")
		r.Require(realData >= rlMaxN()/2, "relabelling stage: fewer than half of the part sets could be cut from a real block")
	}
	if r.WantSample() {
		r.Sample(map[string]interface{}{"relabel_case": rlCase{n: 3, j: 2, i: 1, pidx: 1, t: 2}.String(), "expected": "rejected by AddPart although SimpleProof.Verify alone accepts it"})
	}
}

func rerunRelabel(c Case) []obs {
	if strings.HasPrefix(c.Item, "root:n=") {
		var n int
		fmt.Sscanf(c.Item, "root:n=%d", &n)
		if n < 1 || n > 64 {
			return []obs{{"C13|machinery|bad-relabel-case", c.Item}}
		}
		s := rlBuild(n)
		if !bytes.Equal(s.root, s.header.Hash.Bytes()) {
			return []obs{{"C13|relabel|oracle=part-set-hash-vs-reference-tree", fmt.Sprintf("%d parts: header hash %x, reference %x", n, s.header.Hash.Bytes(), s.root)}}
		}
		return nil
	}
	rc, ok := parseRLCase(c.Item)
	if !ok || rc.n < 1 || rc.n > 64 || rc.j < 0 || rc.j >= rc.n || rc.i < 0 {
		return []obs{{"C13|machinery|bad-relabel-case", c.Item}}
	}
	for _, b := range family {
		prepareBase(b)
	}
	s := rlBuild(rc.n)
	if rc.aunts < 0 && len(s.parts[rc.j].Proof.Aunts) == 0 {
		return []obs{{"C13|machinery|bad-relabel-case", c.Item}}
	}
	x := evalRelabel(s, rc)
	fmt.Printf("relabel case %s: added=%v, Verify alone accepts a non-genuine proof=%v, claimed position recomputes the root=%v\n", rc, x.added, x.verifyAlone, x.pathCompatible)
	return x.obs
}

// pathCompatibleRelabellings lists, for the state graph's alphabet, the (i, t) under which genuine part j of
// these leaves recomputes the same root (i != j).
func pathCompatibleRelabellings(leaves [][]byte, proofs []merkle.SimpleProof) (out [][3]int) {
	root := refRoot(leaves)
	n := len(leaves)
	for j := 0; j < n; j++ {
		for i := 0; i < n; i++ {
			if i == j {
				continue
			}
			for t := 1; t <= n+1; t++ {
				if x := refRootFromPath(uint64(i), uint64(t), refLeaf(leaves[j]), proofs[j].Aunts); x != nil && bytes.Equal(x, root) {
					out = append(out, [3]int{j, i, t})
				}
			}
		}
	}
	return
}
