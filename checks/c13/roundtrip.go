package main

// (c) Round trips are identities: wire (proto) forms of blocks, commits, votes, proposals, parts, ids and
// headers; reassembly of a block from its parts in every arrival order; rawdb WriteBlock / Read*.

import (
	"bytes"
	"fmt"
	"io/ioutil"
	"math/big"
	"time"

	"github.com/gogo/protobuf/proto"
	"github.com/kardiachain/go-kardia/kai/kaidb/memorydb"
	"github.com/kardiachain/go-kardia/kai/rawdb"
	"github.com/kardiachain/go-kardia/lib/common"
	"github.com/kardiachain/go-kardia/lib/merkle"
	kproto "github.com/kardiachain/go-kardia/proto/kardiachain/types"
	"github.com/kardiachain/go-kardia/types"

	"verif/mc/par"
)

// ---------------------------------------------------------------------------------------------
// the checker's own notion of equality ("" = equal, else the first differing field)

func diffTime(a, b time.Time) bool {
	return !a.Equal(b) || a.UnixNano() != b.UnixNano() || a.IsZero() != b.IsZero()
}

func diffPSH(a, b types.PartSetHeader) string {
	if a.Total != b.Total {
		return "parts.total"
	}
	if a.Hash != b.Hash {
		return "parts.hash"
	}
	return ""
}

func diffBlockID(a, b types.BlockID) string {
	if a.Hash != b.Hash {
		return "hash"
	}
	return diffPSH(a.PartsHeader, b.PartsHeader)
}

func diffHeader(a, b *types.Header) string {
	switch {
	case a.Height != b.Height:
		return "Height"
	case diffTime(a.Time, b.Time):
		return "Time"
	case a.NumTxs != b.NumTxs:
		return "NumTxs"
	case a.GasLimit != b.GasLimit:
		return "GasLimit"
	case diffBlockID(a.LastBlockID, b.LastBlockID) != "":
		return "LastBlockID." + diffBlockID(a.LastBlockID, b.LastBlockID)
	case a.ProposerAddress != b.ProposerAddress:
		return "ProposerAddress"
	case a.LastCommitHash != b.LastCommitHash:
		return "LastCommitHash"
	case a.TxHash != b.TxHash:
		return "TxHash"
	case a.ValidatorsHash != b.ValidatorsHash:
		return "ValidatorsHash"
	case a.NextValidatorsHash != b.NextValidatorsHash:
		return "NextValidatorsHash"
	case a.ConsensusHash != b.ConsensusHash:
		return "ConsensusHash"
	case a.AppHash != b.AppHash:
		return "AppHash"
	case a.EvidenceHash != b.EvidenceHash:
		return "EvidenceHash"
	}
	return ""
}

func diffCommitSig(a, b types.CommitSig) string {
	switch {
	case a.BlockIDFlag != b.BlockIDFlag:
		return "flag"
	case a.ValidatorAddress != b.ValidatorAddress:
		return "validator_address"
	case diffTime(a.Timestamp, b.Timestamp):
		return "timestamp"
	case !bytes.Equal(a.Signature, b.Signature):
		return "signature"
	}
	return ""
}

func diffCommit(a, b *types.Commit) string {
	if (a == nil) != (b == nil) {
		return "nil-ness"
	}
	if a == nil {
		return ""
	}
	switch {
	case a.Height != b.Height:
		return "height"
	case a.Round != b.Round:
		return "round"
	case diffBlockID(a.BlockID, b.BlockID) != "":
		return "block_id." + diffBlockID(a.BlockID, b.BlockID)
	case len(a.Signatures) != len(b.Signatures):
		return "signatures.len"
	}
	for i := range a.Signatures {
		if d := diffCommitSig(a.Signatures[i], b.Signatures[i]); d != "" {
			return "sig." + d
		}
	}
	return ""
}

func diffVote(a, b *types.Vote) string {
	switch {
	case a.Type != b.Type:
		return "type"
	case a.Height != b.Height:
		return "height"
	case a.Round != b.Round:
		return "round"
	case diffBlockID(a.BlockID, b.BlockID) != "":
		return "block_id." + diffBlockID(a.BlockID, b.BlockID)
	case diffTime(a.Timestamp, b.Timestamp):
		return "timestamp"
	case a.ValidatorAddress != b.ValidatorAddress:
		return "validator_address"
	case a.ValidatorIndex != b.ValidatorIndex:
		return "validator_index"
	case !bytes.Equal(a.Signature, b.Signature):
		return "signature"
	}
	return ""
}

func diffProposal(a, b *types.Proposal) string {
	switch {
	case a.Height != b.Height:
		return "height"
	case a.Round != b.Round:
		return "round"
	case a.POLRound != b.POLRound:
		return "pol_round"
	case diffTime(a.Timestamp, b.Timestamp):
		return "timestamp"
	case diffBlockID(a.POLBlockID, b.POLBlockID) != "":
		return "block_id." + diffBlockID(a.POLBlockID, b.POLBlockID)
	case !bytes.Equal(a.Signature, b.Signature):
		return "signature"
	}
	return ""
}

func diffPart(a, b *types.Part) string {
	if (a == nil) != (b == nil) {
		return "nil-ness"
	}
	if a == nil {
		return ""
	}
	switch {
	case a.Index != b.Index:
		return "index"
	case !bytes.Equal(a.Bytes, b.Bytes):
		return "bytes"
	case a.Proof.Total != b.Proof.Total:
		return "proof.total"
	case a.Proof.Index != b.Proof.Index:
		return "proof.index"
	case !bytes.Equal(a.Proof.LeafHash, b.Proof.LeafHash):
		return "proof.leaf_hash"
	case len(a.Proof.Aunts) != len(b.Proof.Aunts):
		return "proof.aunts.len"
	}
	for i := range a.Proof.Aunts {
		if !bytes.Equal(a.Proof.Aunts[i], b.Proof.Aunts[i]) {
			return "proof.aunts"
		}
	}
	return ""
}

func diffBlock(a, b *types.Block) string {
	if d := diffHeader(a.Header(), b.Header()); d != "" {
		return "header." + d
	}
	if a.Hash() != b.Hash() {
		return "hash"
	}
	if len(a.Transactions()) != len(b.Transactions()) {
		return "txs.len"
	}
	for i := range a.Transactions() {
		if a.Transactions()[i].Hash() != b.Transactions()[i].Hash() || !bytes.Equal(rlpTx(a.Transactions()[i]), rlpTx(b.Transactions()[i])) {
			return "txs"
		}
	}
	if d := diffCommit(a.LastCommit(), b.LastCommit()); d != "" {
		return "last_commit." + d
	}
	if a.LastCommit() != nil && a.LastCommit().Hash() != b.LastCommit().Hash() {
		return "last_commit.hash"
	}
	ea, eb := a.Evidence().Evidence, b.Evidence().Evidence
	if len(ea) != len(eb) {
		return "evidence.len"
	}
	for i := range ea {
		if ea[i].Hash() != eb[i].Hash() || !bytes.Equal(ea[i].Bytes(), eb[i].Bytes()) {
			return "evidence"
		}
		da, ok1 := ea[i].(*types.DuplicateVoteEvidence)
		db, ok2 := eb[i].(*types.DuplicateVoteEvidence)
		if ok1 != ok2 {
			return "evidence.type"
		}
		if ok1 {
			if d := diffVote(da.VoteA, db.VoteA); d != "" {
				return "evidence.vote_a." + d
			}
			if d := diffVote(da.VoteB, db.VoteB); d != "" {
				return "evidence.vote_b." + d
			}
			if da.TotalVotingPower != db.TotalVotingPower || da.ValidatorPower != db.ValidatorPower || diffTime(da.Timestamp, db.Timestamp) {
				return "evidence.fields"
			}
		}
	}
	return ""
}

// partSizeClass names the size class of a part for signatures.
func partSizeClass(p *types.Part) string {
	if len(p.Bytes) == types.BlockPartSizeBytes {
		return "bytes=exactly-the-part-size"
	}
	return ""
}

// reassemble sends every part of sender over the wire (ToProto -> bytes -> PartFromProto) into a receiving set
// built from the header, in every arrival order, each part offered twice, and requires the exact bytes and block.
func reassemble(name string, want common.Hash, bz []byte, sender *types.PartSet) (out []obs) {
	n := int(sender.Total())
	for _, perm := range permutations(n) {
		rcv := types.NewPartSetFromHeader(sender.Header())
		for _, i := range perm {
			w, err := wirePart(sender.GetPart(i))
			if err != nil {
				return append(out, obs{rtSig("part-proto", partSizeClass(sender.GetPart(i)), "decode-error"), fmt.Sprintf("%s: part %d of %d (%d bytes): %v", name, i, n, len(sender.GetPart(i).Bytes), err)})
			}
			if d := diffPart(sender.GetPart(i), w); d != "" {
				return append(out, obs{rtSig("part-proto", d, "field-changed"), fmt.Sprintf("%s: part %d of %d: %s differs after the wire", name, i, n, d)})
			}
			if ok, err := rcv.AddPart(w); !ok || err != nil {
				return append(out, obs{rtSig("block-parts", "", "genuine-part-rejected"), fmt.Sprintf("%s: part %d of %d in order %v: (%v, %v)", name, i, n, perm, ok, err)})
			}
			if ok, _ := rcv.AddPart(w); ok {
				return append(out, obs{rtSig("block-parts", "", "duplicate-accepted"), fmt.Sprintf("%s: part %d of %d added twice", name, i, n)})
			}
		}
		if !rcv.IsComplete() {
			return append(out, obs{rtSig("block-parts", "", "not-complete"), fmt.Sprintf("%s: all %d parts added in order %v but the set is not complete", name, n, perm)})
		}
		got, err := ioutil.ReadAll(rcv.GetReader())
		if err != nil || !bytes.Equal(got, bz) {
			return append(out, obs{rtSig("block-parts", "", "bytes-differ"), fmt.Sprintf("%s: reassembled %d bytes (err %v) differ from the %d original bytes, order %v", name, len(got), err, len(bz), perm)})
		}
		dec, err := decodeBlock(got)
		if err != nil {
			return append(out, obs{rtSig("block-parts", "", "decode-error"), fmt.Sprintf("%s: %v", name, err)})
		}
		if dec.Hash() != want {
			return append(out, obs{rtSig("block-parts", "hash", "field-changed"), name})
		}
	}
	return
}

// ---------------------------------------------------------------------------------------------
// Blocks whose serialized length sits on the boundaries of the PRODUCTION part size (65536): the sender cuts
// every part except the last to exactly that size, so these are the blocks whose parts have the largest legal
// size. They go through the wire form of every part + reassembly and through rawdb at types.BlockPartSizeBytes.

var sizeTargets = []int{65535, 65536, 65537, 131071, 131072, 131073}

type sizedBlock struct {
	want  int
	block *types.Block
	bz    []byte
}

var (
	sizedOnce   bool
	sizedBlocks []*sizedBlock
)

func buildSizedBlocks() []*sizedBlock {
	if sizedOnce {
		return sizedBlocks
	}
	sizedOnce = true
	key := mustKey(keyHex[0])
	to := common.HexToAddress("0x00000000000000000000000000000000000000c2")
	commit := makeCommit(state1.LastValidators, 1, 0, id1, []string{"commit", "commit", "commit", "commit"})
	prop := state1.Validators.GetProposer().Address
	mk := func(p1, p2 int) (*types.Block, []byte) {
		var txs []*types.Transaction
		for k, p := range []int{p1, p2} {
			pl := make([]byte, p)
			for i := range pl {
				pl[i] = byte(i*7 + k)
			}
			tx, err := types.SignTx(types.HomesteadSigner{}, types.NewTransaction(uint64(k), to, big.NewInt(1), 21000, big.NewInt(1), pl), key)
			if err != nil {
				panic(err)
			}
			txs = append(txs, tx)
		}
		blk := proposerBlock(2, state1, prop, commit, txs, nil)
		bz, err := encodeBlock(blk)
		if err != nil {
			panic(err)
		}
		return blk, bz
	}
	for _, L := range sizeTargets {
		sb := &sizedBlock{want: L}
	search:
		for p2 := 0; p2 < 64; p2++ {
			p1 := L - 1500
			for it := 0; it < 12 && p1 >= 0; it++ {
				blk, bz := mk(p1, p2)
				if len(bz) == L {
					sb.block, sb.bz = blk, bz
					break search
				}
				p1 += L - len(bz)
			}
		}
		sizedBlocks = append(sizedBlocks, sb)
	}
	return sizedBlocks
}

func sizedItems() []rtItem {
	var items []rtItem
	for _, sb := range buildSizedBlocks() {
		sb := sb
		grp := fmt.Sprintf("size=%d", sb.want)
		items = append(items, rtItem{group: grp, name: fmt.Sprintf("block-parts-at-production-part-size:%d", sb.want), run: func() (out []obs) {
			if sb.block == nil {
				return nil // vacuity guard in runRoundTrips
			}
			sender := sb.block.MakePartSet(types.BlockPartSizeBytes)
			n := int(sender.Total())
			if wantN := (sb.want + types.BlockPartSizeBytes - 1) / types.BlockPartSizeBytes; n != wantN || !sender.IsComplete() {
				return []obs{{rtSig("block-parts", "", "sender-set-wrong"), fmt.Sprintf("%d-byte block: MakePartSet(%d) has %d parts, want %d", sb.want, types.BlockPartSizeBytes, n, wantN)}}
			}
			for i := 0; i < n-1; i++ {
				if len(sender.GetPart(i).Bytes) != types.BlockPartSizeBytes {
					return []obs{{rtSig("block-parts", "", "sender-set-wrong"), fmt.Sprintf("%d-byte block: part %d has %d bytes", sb.want, i, len(sender.GetPart(i).Bytes))}}
				}
			}
			if dec, err := decodeBlock(sb.bz); err != nil || dec.Hash() != sb.block.Hash() {
				return []obs{{rtSig("block-proto", "", "decode-error"), fmt.Sprintf("%d-byte block: %v", sb.want, err)}}
			}
			return reassemble(fmt.Sprintf("%d-byte block at part size %d", sb.want, types.BlockPartSizeBytes), sb.block.Hash(), sb.bz, sender)
		}})
		items = append(items, rtItem{group: grp, name: fmt.Sprintf("rawdb-at-production-part-size:%d", sb.want), run: func() (out []obs) {
			if sb.block == nil {
				return nil
			}
			name := fmt.Sprintf("%d-byte block at part size %d", sb.want, types.BlockPartSizeBytes)
			db := memorydb.New()
			parts := sb.block.MakePartSet(types.BlockPartSizeBytes)
			id := types.BlockID{Hash: sb.block.Hash(), PartsHeader: parts.Header()}
			seen := makeCommit(vals0, 2, 0, id, []string{"commit", "commit", "commit", "absent"})
			rawdb.WriteBlock(db, sb.block, parts, seen)
			for i := 0; i < int(parts.Total()); i++ {
				var got *types.Part
				if p, pv := safely(func() { got = rawdb.ReadBlockPart(db, 2, i) }); p {
					out = append(out, obs{rtSig("rawdb-ReadBlockPart", partSizeClass(parts.GetPart(i)), "panic"), fmt.Sprintf("%s: ReadBlockPart(2, %d) of a %d-byte part written by WriteBlock: %s", name, i, len(parts.GetPart(i).Bytes), pv)})
					continue
				}
				if d := diffPart(parts.GetPart(i), got); d != "" {
					out = append(out, obs{rtSig("rawdb-ReadBlockPart", d, "field-changed"), fmt.Sprintf("%s: part %d: %s differs", name, i, d)})
				}
			}
			var blk *types.Block
			if p, pv := safely(func() { blk = rawdb.ReadBlock(db, 2) }); p {
				return append(out, obs{rtSig("rawdb-ReadBlock", "block>=part-size", "panic"), fmt.Sprintf("%s: ReadBlock(2) after WriteBlock: %s", name, pv)})
			}
			if blk == nil {
				return append(out, obs{rtSig("rawdb-ReadBlock", "", "missing"), name})
			}
			if d := diffBlock(sb.block, blk); d != "" {
				out = append(out, obs{rtSig("rawdb-ReadBlock", d, "field-changed"), fmt.Sprintf("%s: %s differs", name, d)})
			}
			if e, err := encodeBlock(blk); err != nil || !bytes.Equal(e, sb.bz) {
				out = append(out, obs{rtSig("rawdb-ReadBlock", "", "re-encoding-differs"), name})
			}
			if meta := rawdb.ReadBlockMeta(db, 2); meta == nil || diffBlockID(id, meta.BlockID) != "" {
				out = append(out, obs{rtSig("rawdb-ReadBlockMeta", "block_id", "field-changed"), name})
			}
			return
		}})
	}
	return items
}

// ---------------------------------------------------------------------------------------------

type rtItem struct {
	name  string
	run   func() []obs
	group string // items of one non-empty group share objects and run sequentially in one goroutine
}

func rtSig(kind, field, oracle string) string {
	if field == "" {
		return "C13|roundtrip=" + kind + "|oracle=" + oracle
	}
	return "C13|roundtrip=" + kind + "|field=" + field + "|oracle=" + oracle
}

func wireCommit(c *types.Commit) (*types.Commit, error) {
	bz, err := proto.Marshal(c.ToProto())
	if err != nil {
		return nil, err
	}
	var pb kproto.Commit
	if err := proto.Unmarshal(bz, &pb); err != nil {
		return nil, err
	}
	return types.CommitFromProto(&pb)
}

func permutations(n int) [][]int {
	var out [][]int
	var rec func(cur []int, used []bool)
	rec = func(cur []int, used []bool) {
		if len(cur) == n {
			out = append(out, append([]int{}, cur...))
			return
		}
		for i := 0; i < n; i++ {
			if !used[i] {
				used[i] = true
				rec(append(cur, i), used)
				used[i] = false
			}
		}
	}
	rec(nil, make([]bool, n))
	return out
}

func blockItems(b *baseBlock) []rtItem {
	var items []rtItem
	items = append(items, rtItem{name: "block-proto:" + b.name, run: func() (out []obs) {
		pb, bz, dec, err := wireBlock(b.block)
		_ = pb
		if err != nil {
			return []obs{{rtSig("block-proto", "", "decode-error"), fmt.Sprintf("%s: BlockFromProto(ToProto(b)) through wire bytes fails: %v", b.name, err)}}
		}
		if d := diffBlock(b.block, dec); d != "" {
			out = append(out, obs{rtSig("block-proto", d, "field-changed"), fmt.Sprintf("%s: %s differs after the wire round trip (hash %s -> %s)", b.name, d, b.block.Hash().Hex(), dec.Hash().Hex())})
		}
		if bz2, err := encodeBlock(dec); err != nil || !bytes.Equal(bz, bz2) {
			out = append(out, obs{rtSig("block-proto", "", "re-encoding-differs"), fmt.Sprintf("%s: encoding the decoded block gives different bytes (err %v)", b.name, err)})
		}
		for _, sz := range []uint32{64, 1000, types.BlockPartSizeBytes} {
			h1, h2 := b.block.MakePartSet(sz).Header(), dec.MakePartSet(sz).Header()
			if h1 != h2 {
				out = append(out, obs{rtSig("block-proto", "part-set-header", "field-changed"), fmt.Sprintf("%s: MakePartSet(%d).Header() %v -> %v after the wire round trip", b.name, sz, h1, h2)})
			}
		}
		e1, p1 := validate(newExec(), b.state, b.block)
		e2, p2 := validate(newExec(), b.state, dec)
		if (e1 == nil) != (e2 == nil) || (p1 == "") != (p2 == "") {
			out = append(out, obs{rtSig("block-proto", "", "validity-changed"), fmt.Sprintf("%s: ValidateBlock before the round trip: %v %s; after: %v %s", b.name, e1, p1, e2, p2)})
		}
		return
	}})
	items = append(items, rtItem{name: "block-parts:" + b.name, run: func() (out []obs) {
		bz, err := encodeBlock(b.block)
		if err != nil {
			return []obs{{rtSig("block-parts", "", "encode-error"), err.Error()}}
		}
		for _, np := range []int{1, 2, 4} {
			sz := uint32((len(bz) + np - 1) / np)
			sender := b.block.MakePartSet(sz)
			n := int(sender.Total())
			if !sender.IsComplete() || n == 0 || n > 5 {
				out = append(out, obs{rtSig("block-parts", "", "sender-set-wrong"), fmt.Sprintf("%s: MakePartSet(%d) total %d complete %v", b.name, sz, n, sender.IsComplete())})
				continue
			}
			if o := reassemble(b.name, b.block.Hash(), bz, sender); len(o) > 0 {
				return append(out, o...)
			}
		}
		return
	}})
	items = append(items, rtItem{name: "rawdb:" + b.name, run: func() (out []obs) {
		db := memorydb.New()
		bz, _ := encodeBlock(b.block)
		// another block at the other height in the same database
		var otherB *types.Block
		for _, o := range family {
			if o.height != b.height && o.bz != nil {
				// a private copy: the family blocks are shared with other goroutines
				if cp, err := decodeBlock(o.bz); err == nil {
					otherB = cp
				}
				break
			}
		}
		type stored struct {
			b     *types.Block
			parts *types.PartSet
			seen  *types.Commit
			bz    []byte
		}
		mk := func(blk *types.Block, round uint32) stored {
			e, _ := encodeBlock(blk)
			parts := blk.MakePartSet(uint32(len(e)/3 + 1))
			id := types.BlockID{Hash: blk.Hash(), PartsHeader: parts.Header()}
			seen := makeCommit(vals0, blk.Height(), round, id, []string{"commit", "commit", "absent", "commit"})
			return stored{blk, parts, seen, e}
		}
		all := []stored{mk(b.block, 2)}
		if otherB != nil {
			all = append(all, mk(otherB, 0))
		}
		_ = bz
		for _, s := range all {
			rawdb.WriteBlock(db, s.b, s.parts, s.seen)
		}
		for _, s := range all {
			h := s.b.Height()
			got := rawdb.ReadBlock(db, h)
			if got == nil {
				out = append(out, obs{rtSig("rawdb-ReadBlock", "", "missing"), fmt.Sprintf("%s: ReadBlock(%d) = nil", b.name, h)})
			} else {
				if d := diffBlock(s.b, got); d != "" {
					out = append(out, obs{rtSig("rawdb-ReadBlock", d, "field-changed"), fmt.Sprintf("%s: height %d: %s differs", b.name, h, d)})
				}
				if e, err := encodeBlock(got); err != nil || !bytes.Equal(e, s.bz) {
					out = append(out, obs{rtSig("rawdb-ReadBlock", "", "re-encoding-differs"), fmt.Sprintf("%s: height %d", b.name, h)})
				}
			}
			meta := rawdb.ReadBlockMeta(db, h)
			if meta == nil {
				out = append(out, obs{rtSig("rawdb-ReadBlockMeta", "", "missing"), fmt.Sprintf("%s: height %d", b.name, h)})
			} else {
				want := types.BlockID{Hash: s.b.Hash(), PartsHeader: s.parts.Header()}
				if d := diffBlockID(want, meta.BlockID); d != "" {
					out = append(out, obs{rtSig("rawdb-ReadBlockMeta", "block_id."+d, "field-changed"), fmt.Sprintf("%s: height %d: want %v got %v", b.name, h, want, meta.BlockID)})
				}
				if d := diffHeader(s.b.Header(), meta.Header); d != "" {
					out = append(out, obs{rtSig("rawdb-ReadBlockMeta", "header."+d, "field-changed"), fmt.Sprintf("%s: height %d", b.name, h)})
				}
			}
			if hd := rawdb.ReadHeader(db, h); hd == nil || diffHeader(s.b.Header(), hd) != "" {
				out = append(out, obs{rtSig("rawdb-ReadHeader", "", "field-changed"), fmt.Sprintf("%s: height %d", b.name, h)})
			}
			for i := 0; i < int(s.parts.Total()); i++ {
				if d := diffPart(s.parts.GetPart(i), rawdb.ReadBlockPart(db, h, i)); d != "" {
					out = append(out, obs{rtSig("rawdb-ReadBlockPart", d, "field-changed"), fmt.Sprintf("%s: height %d part %d: %s differs", b.name, h, i, d)})
				}
			}
			if p := rawdb.ReadBlockPart(db, h, int(s.parts.Total())); p != nil {
				out = append(out, obs{rtSig("rawdb-ReadBlockPart", "", "phantom-part"), fmt.Sprintf("%s: height %d: a part beyond the total exists", b.name, h)})
			}
			if d := diffCommit(s.b.LastCommit(), rawdb.ReadCommit(db, h-1)); d != "" {
				out = append(out, obs{rtSig("rawdb-ReadCommit", d, "field-changed"), fmt.Sprintf("%s: ReadCommit(%d) vs LastCommit of block %d: %s differs", b.name, h-1, h, d)})
			}
			if d := diffCommit(s.seen, rawdb.ReadSeenCommit(db, h)); d != "" {
				out = append(out, obs{rtSig("rawdb-ReadSeenCommit", d, "field-changed"), fmt.Sprintf("%s: ReadSeenCommit(%d): %s differs", b.name, h, d)})
			}
			if hh := rawdb.ReadHeaderHeight(db, s.b.Hash()); hh == nil || *hh != h {
				out = append(out, obs{rtSig("rawdb-ReadHeaderHeight", "", "field-changed"), fmt.Sprintf("%s: height %d", b.name, h)})
			}
			if ch := rawdb.ReadCanonicalHash(db, h); ch != s.b.Hash() {
				out = append(out, obs{rtSig("rawdb-ReadCanonicalHash", "", "field-changed"), fmt.Sprintf("%s: height %d", b.name, h)})
			}
		}
		if rawdb.ReadBlock(db, 3) != nil || rawdb.ReadBlockMeta(db, 3) != nil || rawdb.ReadSeenCommit(db, 3) != nil || rawdb.ReadCommit(db, 7) != nil {
			out = append(out, obs{rtSig("rawdb", "", "phantom-record"), b.name + ": a record exists at a height that was never written"})
		}
		return
	}})
	return items
}

var (
	idZero = types.BlockID{}
	idA    = types.BlockID{Hash: hashOf(0xaa), PartsHeader: types.PartSetHeader{Total: 3, Hash: hashOf(0xbb)}}
	idMax  = types.BlockID{Hash: hashOf(0xff), PartsHeader: types.PartSetHeader{Total: ^uint32(0), Hash: hashOf(0xff)}}
	idLow  = types.BlockID{Hash: common.BytesToHash([]byte{1}), PartsHeader: types.PartSetHeader{Total: 1, Hash: common.BytesToHash([]byte{2})}}
)

var rtTimes = []struct {
	n string
	t time.Time
}{
	{"zero", time.Time{}},
	{"unix0", time.Unix(0, 0).UTC()},
	{"base", genesisTime},
	{"base+1ns", genesisTime.Add(1)},
	{"before-1970", time.Date(1969, 12, 31, 23, 59, 59, 999999999, time.UTC)},
	{"year-9999", time.Date(9999, 12, 31, 23, 59, 59, 999999999, time.UTC)},
}

var rtSigs = []struct {
	n string
	s []byte
}{
	{"1-byte", []byte{0}},
	{"65-bytes", bytes.Repeat([]byte{0x5a}, 65)},
	{"100-bytes", bytes.Repeat([]byte{0xff}, 100)},
}

func simpleItems() []rtItem {
	var items []rtItem
	// votes
	for _, ty := range []kproto.SignedMsgType{kproto.PrevoteType, kproto.PrecommitType} {
		for _, h := range []uint64{0, 1, 1<<63 - 1, 1 << 63, ^uint64(0)} {
			for _, rd := range []uint32{0, 1, 1<<31 - 1, 1 << 31, ^uint32(0)} {
				for ii, id := range []types.BlockID{idZero, idA, idMax, idLow} {
					for _, tm := range rtTimes {
						for ai, ad := range []common.Address{{}, common.BytesToAddress(bytes.Repeat([]byte{0xcd}, 20)), common.BytesToAddress([]byte{1})} {
							for _, ix := range []uint32{0, ^uint32(0)} {
								for _, sg := range rtSigs {
									v := &types.Vote{Type: ty, Height: h, Round: rd, BlockID: id, Timestamp: tm.t, ValidatorAddress: ad, ValidatorIndex: ix, Signature: sg.s}
									name := fmt.Sprintf("vote:type=%d,height=%d,round=%d,id=%d,time=%s,addr=%d,index=%d,sig=%s", ty, h, rd, ii, tm.n, ai, ix, sg.n)
									items = append(items, rtItem{name: name, run: func() []obs {
										if v.ValidateBasic() != nil {
											return nil
										}
										bz, err := proto.Marshal(v.ToProto())
										if err != nil {
											return []obs{{rtSig("vote-proto", "", "encode-error"), name + ": " + err.Error()}}
										}
										var pb kproto.Vote
										if err := proto.Unmarshal(bz, &pb); err != nil {
											return []obs{{rtSig("vote-proto", "", "decode-error"), name + ": " + err.Error()}}
										}
										back, err := types.VoteFromProto(&pb)
										if err != nil {
											return []obs{{rtSig("vote-proto", "", "decode-error"), name + ": " + err.Error()}}
										}
										if d := diffVote(v, back); d != "" {
											return []obs{{rtSig("vote-proto", d, "field-changed"), name + ": " + d + " differs after ToProto -> bytes -> VoteFromProto"}}
										}
										if !bytes.Equal(types.VoteSignBytes(chainID, v.ToProto()), types.VoteSignBytes(chainID, back.ToProto())) {
											return []obs{{rtSig("vote-proto", "sign-bytes", "field-changed"), name}}
										}
										return nil
									}})
								}
							}
						}
					}
				}
			}
		}
	}
	// proposals
	for _, h := range []uint64{0, 1, 1 << 63, ^uint64(0)} {
		for _, rd := range []uint32{0, 1, ^uint32(0)} {
			for _, pol := range []uint32{0, 1, 1 << 31, ^uint32(0)} {
				for ii, id := range []types.BlockID{idA, idMax, idLow} {
					for _, tm := range rtTimes {
						for _, sg := range rtSigs {
							p := &types.Proposal{Height: h, Round: rd, POLRound: pol, POLBlockID: id, Timestamp: tm.t, Signature: sg.s}
							name := fmt.Sprintf("proposal:height=%d,round=%d,pol=%d,id=%d,time=%s,sig=%s", h, rd, pol, ii, tm.n, sg.n)
							items = append(items, rtItem{name: name, run: func() []obs {
								if p.ValidateBasic() != nil {
									return nil
								}
								bz, err := proto.Marshal(p.ToProto())
								if err != nil {
									return []obs{{rtSig("proposal-proto", "", "encode-error"), name + ": " + err.Error()}}
								}
								var pb kproto.Proposal
								if err := proto.Unmarshal(bz, &pb); err != nil {
									return []obs{{rtSig("proposal-proto", "", "decode-error"), name + ": " + err.Error()}}
								}
								back, err := types.ProposalFromProto(&pb)
								if err != nil {
									return []obs{{rtSig("proposal-proto", "", "decode-error"), name + ": " + err.Error()}}
								}
								if d := diffProposal(p, back); d != "" {
									return []obs{{rtSig("proposal-proto", d, "field-changed"), name + ": " + d + " differs"}}
								}
								if !bytes.Equal(types.ProposalSignBytes(chainID, p.ToProto()), types.ProposalSignBytes(chainID, back.ToProto())) {
									return []obs{{rtSig("proposal-proto", "sign-bytes", "field-changed"), name}}
								}
								return nil
							}})
						}
					}
				}
			}
		}
	}
	// commits
	addr := common.BytesToAddress(bytes.Repeat([]byte{0xcd}, 20))
	sigLists := []struct {
		n string
		s []types.CommitSig
	}{
		{"none", nil},
		{"one-commit", []types.CommitSig{types.NewCommitSigForBlock(rtSigs[1].s, addr, genesisTime)}},
		{"commit+absent+nil", []types.CommitSig{types.NewCommitSigForBlock(rtSigs[1].s, addr, genesisTime), types.NewCommitSigAbsent(),
			{BlockIDFlag: types.BlockIDFlagNil, ValidatorAddress: addr, Timestamp: genesisTime.Add(1), Signature: rtSigs[0].s}}},
		{"absent-only", []types.CommitSig{types.NewCommitSigAbsent(), types.NewCommitSigAbsent()}},
		{"nil-zero-time-zero-address", []types.CommitSig{{BlockIDFlag: types.BlockIDFlagNil, Signature: rtSigs[2].s}}},
		{"commit-unix0-time", []types.CommitSig{types.NewCommitSigForBlock(rtSigs[0].s, common.Address{}, time.Unix(0, 0).UTC())}},
		{"commit-year-9999", []types.CommitSig{types.NewCommitSigForBlock(rtSigs[2].s, addr, rtTimes[5].t)}},
	}
	for _, h := range []uint64{0, 1, 2, 1 << 63, ^uint64(0)} {
		for _, rd := range []uint32{0, 1, 1 << 31, ^uint32(0)} {
			for ii, id := range []types.BlockID{idZero, idA, idMax, idLow} {
				for _, sl := range sigLists {
					h, rd, id, sl := h, rd, id, sl // go.mod says go 1.18: loop variables are shared
					c := types.NewCommit(h, rd, id, sl.s)
					name := fmt.Sprintf("commit:height=%d,round=%d,id=%d,sigs=%s", h, rd, ii, sl.n)
					items = append(items, rtItem{name: name, run: func() []obs {
						if c.ValidateBasic() != nil {
							return nil
						}
						for _, s := range c.Signatures {
							if s.ValidateBasic() != nil {
								return nil
							}
						}
						back, err := wireCommit(c)
						if err != nil {
							return []obs{{rtSig("commit-proto", "", "decode-error"), name + ": " + err.Error()}}
						}
						if d := diffCommit(c, back); d != "" {
							return []obs{{rtSig("commit-proto", d, "field-changed"), name + ": " + d + " differs"}}
						}
						c2 := types.NewCommit(h, rd, id, sl.s) // fresh object: Hash() is cached
						if c2.Hash() != back.Hash() {
							return []obs{{rtSig("commit-proto", "hash", "field-changed"), name}}
						}
						return nil
					}})
				}
			}
		}
	}
	// commits of the block family
	for _, b := range family {
		b := b
		items = append(items, rtItem{group: b.name, name: "commit-of:" + b.name, run: func() []obs {
			c := b.block.LastCommit()
			back, err := wireCommit(c)
			if err != nil {
				return []obs{{rtSig("commit-proto", "", "decode-error"), b.name + ": " + err.Error()}}
			}
			if d := diffCommit(c, back); d != "" {
				return []obs{{rtSig("commit-proto", d, "field-changed"), b.name + ": " + d + " differs"}}
			}
			if c.Hash() != back.Hash() {
				return []obs{{rtSig("commit-proto", "hash", "field-changed"), b.name}}
			}
			if b.height > 1 {
				e1 := b.state.LastValidators.VerifyCommit(chainID, b.state.LastBlockID, b.height-1, c)
				e2 := b.state.LastValidators.VerifyCommit(chainID, b.state.LastBlockID, b.height-1, back)
				if e1 != nil || e2 != nil {
					return []obs{{rtSig("commit-proto", "", "verify-commit-fails"), fmt.Sprintf("%s: before %v after %v", b.name, e1, e2)}}
				}
			}
			return nil
		}})
	}
	// parts
	for _, ix := range []uint32{0, 1, ^uint32(0)} {
		for bi, bs := range [][]byte{nil, {0}, {1, 2, 3, 4, 5, 6, 7, 8}, bytes.Repeat([]byte{0xab}, types.BlockPartSizeBytes)} {
			for _, tot := range []uint64{0, 1, 5, 1 << 63, ^uint64(0)} {
				for _, pi := range []uint64{0, 4, ^uint64(0)} {
					for _, na := range []int{0, 1, 3} {
						pr := merkle.SimpleProof{Total: tot, Index: pi, LeafHash: hashOf(0x11).Bytes()}
						for k := 0; k < na; k++ {
							pr.Aunts = append(pr.Aunts, hashOf(byte(0x20+k)).Bytes())
						}
						p := &types.Part{Index: ix, Bytes: bs, Proof: pr}
						name := fmt.Sprintf("part:index=%d,bytes=%d,total=%d,proofindex=%d,aunts=%d", ix, bi, tot, pi, na)
						items = append(items, rtItem{name: name, run: func() []obs {
							// validity is the checker's own: a sender cuts parts of AT MOST the part size, and such a
							// part must survive the wire whatever Part.ValidateBasic says
							if len(p.Bytes) > types.BlockPartSizeBytes || p.Proof.ValidateBasic() != nil {
								return nil
							}
							back, err := wirePart(p)
							if err != nil {
								return []obs{{rtSig("part-proto", partSizeClass(p), "decode-error"), name + ": " + err.Error()}}
							}
							if d := diffPart(p, back); d != "" {
								return []obs{{rtSig("part-proto", d, "field-changed"), name + ": " + d + " differs"}}
							}
							return nil
						}})
					}
				}
			}
		}
	}
	// ids
	for ii, id := range []types.BlockID{idZero, idA, idMax, idLow, {Hash: hashOf(1)}, {PartsHeader: types.PartSetHeader{Total: 1}}} {
		id := id
		name := fmt.Sprintf("blockid:%d", ii)
		items = append(items, rtItem{name: name, run: func() []obs {
			if id.ValidateBasic() != nil {
				return nil
			}
			pb := id.ToProto()
			bz, err := proto.Marshal(&pb)
			if err != nil {
				return []obs{{rtSig("blockid-proto", "", "encode-error"), name}}
			}
			var pb2 kproto.BlockID
			if err := proto.Unmarshal(bz, &pb2); err != nil {
				return []obs{{rtSig("blockid-proto", "", "decode-error"), name}}
			}
			back, err := types.BlockIDFromProto(&pb2)
			if err != nil {
				return []obs{{rtSig("blockid-proto", "", "decode-error"), name + ": " + err.Error()}}
			}
			if d := diffBlockID(id, *back); d != "" {
				return []obs{{rtSig("blockid-proto", d, "field-changed"), name}}
			}
			if id.IsZero() != back.IsZero() || id.IsComplete() != back.IsComplete() || id.Key() != back.Key() {
				return []obs{{rtSig("blockid-proto", "predicates", "field-changed"), name}}
			}
			ph := id.PartsHeader.ToProto()
			bz, _ = proto.Marshal(&ph)
			var ph2 kproto.PartSetHeader
			if err := proto.Unmarshal(bz, &ph2); err != nil {
				return []obs{{rtSig("partsetheader-proto", "", "decode-error"), name}}
			}
			pback, err := types.PartSetHeaderFromProto(&ph2)
			if err != nil || diffPSH(id.PartsHeader, *pback) != "" {
				return []obs{{rtSig("partsetheader-proto", "", "field-changed"), fmt.Sprintf("%s: %v", name, err)}}
			}
			return nil
		}})
	}
	return items
}

func allRTItems() []rtItem {
	var items []rtItem
	for _, b := range family {
		for _, it := range blockItems(b) {
			it.group = b.name
			items = append(items, it)
		}
	}
	items = append(items, sizedItems()...)
	return append(items, simpleItems()...)
}

func runItem(it rtItem) (out []obs) {
	p, pv := safely(func() { out = it.run() })
	if p {
		kind := it.name
		for i := 0; i < len(kind); i++ {
			if kind[i] == ':' {
				kind = kind[:i]
				break
			}
		}
		out = append(out, obs{rtSig(kind, "", "panic"), it.name + ": " + pv})
	}
	return
}

func runRoundTrips() {
	items := allRTItems()
	res := make([][]obs, len(items))
	ran := make([]bool, len(items))
	var units [][]int
	byGroup := map[string]int{}
	for i, it := range items {
		if it.group == "" {
			units = append(units, []int{i})
			continue
		}
		u, ok := byGroup[it.group]
		if !ok {
			u = len(units)
			byGroup[it.group] = u
			units = append(units, nil)
		}
		units[u] = append(units[u], i)
	}
	done := par.For(int64(len(units)), 4, r.Expired, func(u int64) {
		for _, i := range units[u] {
			res[i] = runItem(items[i])
			ran[i] = true
		}
	})
	if done < int64(len(units)) {
		r.NotExhaustive(fmt.Sprintf("round trips: %d of %d units done", done, len(units)))
	}
	for i, it := range items {
		if !ran[i] {
			continue
		}
		r.Add("transitions", 1)
		r.Add("traces_validated_against_impl", 1)
		r.Add("roundtrip_items", 1)
		kind := it.name
		for k := 0; k < len(kind); k++ {
			if kind[k] == ':' {
				kind = kind[:k]
				break
			}
		}
		r.Distinct("roundtrip_kinds", kind)
		for _, o := range res[i] {
			record(Case{Phase: "roundtrip", Item: it.name}, o)
		}
	}
	r.Require(r.DistinctCount("roundtrip_kinds") >= 8, "fewer than 8 kinds of round trip ran")
	var sized []string
	for _, sb := range buildSizedBlocks() {
		r.Require(sb.block != nil && len(sb.bz) == sb.want, fmt.Sprintf("no valid block with a serialized length of exactly %d bytes could be built", sb.want))
		if sb.block != nil {
			sized = append(sized, fmt.Sprintf("%d bytes -> %d parts at part size %d", len(sb.bz), sb.block.MakePartSet(types.BlockPartSizeBytes).Total(), types.BlockPartSizeBytes))
		}
	}
	r.Set("blocks_on_the_production_part_size_boundaries", sized)
	r.Sample(map[string]interface{}{"roundtrip_items": len(items), "first": items[0].name, "last": items[len(items)-1].name})
}

func rerunRoundTrip(c Case) []obs {
	for _, it := range allRTItems() {
		if it.name == c.Item {
			return runItem(it)
		}
	}
	return []obs{{"C13|machinery|unknown-roundtrip-item", c.Item}}
}
