package main

// (a) Explicit-state search of a receiving types.PartSet.
//
// State  = the history of state-changing AddPart calls that reaches it (a fresh real PartSet is rebuilt by
//          replaying that history whenever a call changed the object).
// Key    = for every slot the bytes it holds (or "-"), plus Count() and the bit array. AddPart reads nothing
//          else of the object (total and hash are fixed by the header; the stored part's own Index / Proof
//          fields are never read again), so two objects with the same key have the same futures.
// Oracle = reference model "slot i may only ever hold chunk i of the sender's data".

import (
	"bytes"
	"fmt"
	"io"
	"io/ioutil"
	"sort"
	"strings"

	"github.com/gogo/protobuf/proto"
	"github.com/kardiachain/go-kardia/lib/common"
	"github.com/kardiachain/go-kardia/lib/merkle"
	kproto "github.com/kardiachain/go-kardia/proto/kardiachain/types"
	"github.com/kardiachain/go-kardia/types"

	"verif/mc/par"
)

const psPartSize = 8

// psStateCap bounds one graph. On code where the property holds a set of n parts has 2^n states; the cap is
// only reached when bogus parts are accepted (then the graph has up to (n+1)^n states).
const psStateCap = 120000

type psToken struct {
	name    string
	class   string
	genuine bool // the sender's own part object (possibly after a wire round trip)
	part    *types.Part
}

type psConfig struct {
	name   string
	n      int
	data   []byte
	header types.PartSetHeader
	orig   [][]byte
	tokens []*psToken
	byName map[string]int
}

func clonePart(p *types.Part) *types.Part {
	c := &types.Part{Index: p.Index, Bytes: append([]byte(nil), p.Bytes...)}
	c.Proof = cloneProof(p.Proof)
	return c
}

func cloneProof(p merkle.SimpleProof) merkle.SimpleProof {
	c := merkle.SimpleProof{Total: p.Total, Index: p.Index}
	if p.LeafHash != nil {
		c.LeafHash = append([]byte{}, p.LeafHash...)
	}
	if p.Aunts != nil {
		c.Aunts = make([][]byte, len(p.Aunts))
		for i, a := range p.Aunts {
			c.Aunts[i] = append([]byte{}, a...)
		}
	}
	return c
}

func leafHashOf(b []byte) []byte { return merkle.SimpleHashFromByteSlices([][]byte{b}) }

func wirePart(p *types.Part) (*types.Part, error) {
	pb, err := p.ToProto()
	if err != nil {
		return nil, err
	}
	bz, err := proto.Marshal(pb)
	if err != nil {
		return nil, err
	}
	var pb2 kproto.Part
	if err := proto.Unmarshal(bz, &pb2); err != nil {
		return nil, err
	}
	return types.PartFromProto(&pb2)
}

func splitPoint(n int) int {
	k := 1
	for k*2 < n {
		k *= 2
	}
	return k
}

func (c *psConfig) add(name, class string, genuine bool, p *types.Part) {
	c.byName[name] = len(c.tokens)
	c.tokens = append(c.tokens, &psToken{name: name, class: class, genuine: genuine, part: p})
}

// mkData builds the sender's data: n parts of size 8 with a last part of `tail` bytes.
// pattern "distinct": all bytes differ; "repeated": every full part holds the same 8 bytes.
func mkData(n, tail int, pattern string, salt byte) []byte {
	l := psPartSize*(n-1) + tail
	d := make([]byte, l)
	for i := range d {
		switch pattern {
		case "repeated":
			d[i] = byte(0x41+i%psPartSize) ^ salt
		default:
			d[i] = byte(i+1) ^ salt
		}
	}
	return d
}

func newPSConfig(n, tail int, pattern string) *psConfig {
	c := &psConfig{name: fmt.Sprintf("parts=%d,last=%d,content=%s", n, tail, pattern), n: n, byName: map[string]int{}}
	c.data = mkData(n, tail, pattern, 0)
	sender := types.NewPartSetFromData(c.data, psPartSize)
	other := types.NewPartSetFromData(mkData(n, tail, pattern, 0xa5), psPartSize)
	c.header = sender.Header()
	S := make([]*types.Part, n)
	O := make([]*types.Part, n)
	for i := 0; i < n; i++ {
		S[i] = sender.GetPart(i)
		O[i] = other.GetPart(i)
		c.orig = append(c.orig, append([]byte{}, S[i].Bytes...))
	}
	mk := func(idx uint32, b []byte, pr merkle.SimpleProof) *types.Part {
		return &types.Part{Index: idx, Bytes: append([]byte{}, b...), Proof: cloneProof(pr)}
	}
	for i := 0; i < n; i++ {
		c.add(fmt.Sprintf("genuine(%d)", i), "genuine", true, clonePart(S[i]))
	}
	for i := 0; i < n; i++ {
		w, err := wirePart(S[i])
		if err != nil {
			// the wire round trip of a genuine part failing is decided by the round-trip phase; here the token is skipped
			continue
		}
		c.add(fmt.Sprintf("genuine-wire(%d)", i), "genuine", true, w)
	}
	for i := 0; i < n; i++ {
		for j := 0; j < n; j++ {
			if i == j {
				continue
			}
			c.add(fmt.Sprintf("relabel(%d->%d)", i, j), "genuine-relabelled-index", false, mk(uint32(j), S[i].Bytes, S[i].Proof))
			p := mk(uint32(i), S[i].Bytes, S[i].Proof)
			p.Proof.Index = uint64(j)
			c.add(fmt.Sprintf("proof-index(%d->%d)", i, j), "genuine-proof-index-changed", false, p)
			p = mk(uint32(j), S[i].Bytes, S[i].Proof)
			p.Proof.Index = uint64(j)
			c.add(fmt.Sprintf("relabel-both(%d->%d)", i, j), "genuine-relabelled-index-and-proof-index", false, p)
			c.add(fmt.Sprintf("another-leaf-proof(%d<-%d)", i, j), "proof-of-another-leaf", false, mk(uint32(i), S[i].Bytes, S[j].Proof))
		}
	}
	for i := 0; i < n; i++ {
		c.add(fmt.Sprintf("other-set(%d)", i), "other-set-part", false, clonePart(O[i]))
		c.add(fmt.Sprintf("other-bytes(%d)", i), "other-bytes-genuine-proof", false, mk(uint32(i), O[i].Bytes, S[i].Proof))
		p := mk(uint32(i), O[i].Bytes, S[i].Proof)
		p.Proof.LeafHash = append([]byte{}, O[i].Proof.LeafHash...)
		c.add(fmt.Sprintf("other-bytes-leafhash(%d)", i), "other-bytes-own-leafhash-genuine-aunts", false, p)

		tr := S[i].Bytes[:len(S[i].Bytes)-1]
		c.add(fmt.Sprintf("truncated(%d)", i), "truncated-bytes", false, mk(uint32(i), tr, S[i].Proof))
		p = mk(uint32(i), tr, S[i].Proof)
		p.Proof.LeafHash = leafHashOf(tr)
		c.add(fmt.Sprintf("truncated-leafhash(%d)", i), "truncated-bytes-own-leafhash", false, p)
		ex := append(append([]byte{}, S[i].Bytes...), 0)
		c.add(fmt.Sprintf("extended(%d)", i), "extended-bytes", false, mk(uint32(i), ex, S[i].Proof))
		p = mk(uint32(i), ex, S[i].Proof)
		p.Proof.LeafHash = leafHashOf(ex)
		c.add(fmt.Sprintf("extended-leafhash(%d)", i), "extended-bytes-own-leafhash", false, p)
		c.add(fmt.Sprintf("empty(%d)", i), "empty-bytes", false, mk(uint32(i), nil, S[i].Proof))
		p = mk(uint32(i), nil, S[i].Proof)
		p.Proof.LeafHash = leafHashOf(nil)
		c.add(fmt.Sprintf("empty-leafhash(%d)", i), "empty-bytes-own-leafhash", false, p)

		for _, t := range []uint64{0, uint64(n) - 1, uint64(n) + 1, 2 * uint64(n), 1 << 32, ^uint64(0)} {
			if t == uint64(n) {
				continue
			}
			p = mk(uint32(i), S[i].Bytes, S[i].Proof)
			p.Proof.Total = t
			c.add(fmt.Sprintf("wrong-total(%d,total=%d)", i, t), "proof-wrong-total", false, p)
		}
		for _, idx := range []uint32{uint32(n), uint32(n) + 1, ^uint32(0)} {
			c.add(fmt.Sprintf("index-out(%d,index=%d)", i, idx), "index-out-of-range", false, mk(idx, S[i].Bytes, S[i].Proof))
			p = mk(idx, S[i].Bytes, S[i].Proof)
			p.Proof.Index = uint64(idx)
			c.add(fmt.Sprintf("index-out-both(%d,index=%d)", i, idx), "index-out-of-range", false, p)
		}
		// tampered aunts / leaf hash around genuine index and bytes
		if a := S[i].Proof.Aunts; len(a) > 0 {
			p = mk(uint32(i), S[i].Bytes, S[i].Proof)
			p.Proof.Aunts = p.Proof.Aunts[:len(a)-1]
			c.add(fmt.Sprintf("aunts-drop-last(%d)", i), "proof-aunts-tampered", false, p)
			p = mk(uint32(i), S[i].Bytes, S[i].Proof)
			p.Proof.Aunts[0][0] ^= 1
			c.add(fmt.Sprintf("aunts-bitflip(%d)", i), "proof-aunts-tampered", false, p)
			if len(a) > 1 {
				p = mk(uint32(i), S[i].Bytes, S[i].Proof)
				for x, y := 0, len(a)-1; x < y; x, y = x+1, y-1 {
					p.Proof.Aunts[x], p.Proof.Aunts[y] = p.Proof.Aunts[y], p.Proof.Aunts[x]
				}
				c.add(fmt.Sprintf("aunts-reversed(%d)", i), "proof-aunts-tampered", false, p)
			}
		}
		p = mk(uint32(i), S[i].Bytes, S[i].Proof)
		p.Proof.Aunts = append(p.Proof.Aunts, append([]byte{}, S[i].Proof.LeafHash...))
		c.add(fmt.Sprintf("aunts-extra(%d)", i), "proof-aunts-tampered", false, p)
		p = mk(uint32(i), S[i].Bytes, S[i].Proof)
		p.Proof.LeafHash = nil
		c.add(fmt.Sprintf("leafhash-nil(%d)", i), "proof-leafhash-tampered", false, p)
		p = mk(uint32(i), S[i].Bytes, S[i].Proof)
		p.Proof.LeafHash[31] ^= 0x80
		c.add(fmt.Sprintf("leafhash-bitflip(%d)", i), "proof-leafhash-tampered", false, p)
	}
	// relabellings that keep the Merkle path valid: in an unbalanced tree leaf j sits where index i of a
	// smaller tree would (found with the reference tree of relabel.go); index, proof index and proof total
	// all changed, bytes / leaf hash / aunts genuine
	{
		var proofs []merkle.SimpleProof
		for i := 0; i < n; i++ {
			proofs = append(proofs, S[i].Proof)
		}
		for _, x := range pathCompatibleRelabellings(c.orig, proofs) {
			j, i, t := x[0], x[1], x[2]
			p := mk(uint32(i), S[j].Bytes, S[j].Proof)
			p.Proof.Index, p.Proof.Total = uint64(i), uint64(t)
			c.add(fmt.Sprintf("relabel-path-compatible(%d->%d,total=%d)", j, i, t), "genuine-relabelled-to-a-position-with-the-same-path", false, p)
		}
	}
	if n >= 2 {
		// second-preimage attempt: the two children of the root offered as the bytes of a one-leaf tree
		k := splitPoint(n)
		l := merkle.SimpleHashFromByteSlices(c.orig[:k])
		rr := merkle.SimpleHashFromByteSlices(c.orig[k:])
		b := append(append([]byte{}, l...), rr...)
		for _, idx := range []uint32{0, uint32(n) - 1} {
			p := &types.Part{Index: idx, Bytes: append([]byte{}, b...), Proof: merkle.SimpleProof{Total: 1, Index: 0, LeafHash: leafHashOf(b)}}
			c.add(fmt.Sprintf("inner-as-leaf(index=%d)", idx), "inner-node-as-leaf", false, p)
		}
		if k >= 2 {
			// same one level down: the left subtree's children, with the right subtree root as aunt
			kk := splitPoint(k)
			ll := merkle.SimpleHashFromByteSlices(c.orig[:kk])
			lr := merkle.SimpleHashFromByteSlices(c.orig[kk:k])
			b2 := append(append([]byte{}, ll...), lr...)
			p := &types.Part{Index: 0, Bytes: b2, Proof: merkle.SimpleProof{Total: 2, Index: 0, LeafHash: leafHashOf(b2), Aunts: [][]byte{append([]byte{}, rr...)}}}
			c.add("inner-as-leaf(left-subtree)", "inner-node-as-leaf", false, p)
		}
	}
	return c
}

// newEmptyPSConfig: a header announcing 0 parts.
func newEmptyPSConfig(nonzeroHash bool) *psConfig {
	c := &psConfig{n: 0, byName: map[string]int{}}
	one := types.NewPartSetFromData(mkData(1, 3, "distinct", 0), psPartSize)
	two := types.NewPartSetFromData(mkData(2, 3, "distinct", 0), psPartSize)
	c.name = "parts=0,hash=zero"
	if nonzeroHash {
		c.name = "parts=0,hash=of-a-one-part-set"
		c.header = types.PartSetHeader{Total: 0, Hash: one.Header().Hash}
	}
	c.add("one-part-set(0)", "part-for-empty-set", false, clonePart(one.GetPart(0)))
	c.add("two-part-set(0)", "part-for-empty-set", false, clonePart(two.GetPart(0)))
	c.add("two-part-set(1)", "part-for-empty-set", false, clonePart(two.GetPart(1)))
	p := clonePart(one.GetPart(0))
	p.Index = ^uint32(0)
	c.add("one-part-set(0,index=max)", "part-for-empty-set", false, p)
	p = clonePart(one.GetPart(0))
	p.Proof.Total = 0
	c.add("one-part-set(0,total=0)", "part-for-empty-set", false, p)
	c.add("empty-part", "part-for-empty-set", false, &types.Part{})
	return c
}

func psConfigs() []*psConfig {
	var cs []*psConfig
	cs = append(cs, newEmptyPSConfig(false), newEmptyPSConfig(true))
	maxN := 5
	tails := []int{3}
	if r.Thorough() {
		maxN = 8
		tails = []int{1, 3, 7, 8}
	}
	for n := 1; n <= maxN; n++ {
		for _, t := range tails {
			if n > 6 && t != 3 && t != 8 {
				continue
			}
			cs = append(cs, newPSConfig(n, t, "distinct"))
		}
		if n == 2 || n == 3 || (r.Thorough() && n <= 5) {
			cs = append(cs, newPSConfig(n, 8, "distinct"))
			cs = append(cs, newPSConfig(n, 3, "repeated"))
		}
	}
	// de-duplicate by name (thorough lists last=8 twice)
	seen := map[string]bool{}
	var out []*psConfig
	for _, c := range cs {
		if !seen[c.name] {
			seen[c.name] = true
			out = append(out, c)
		}
	}
	return out
}

// ---------------------------------------------------------------------------------------------

type psView struct {
	slots    [][]byte // nil = empty
	filled   []bool
	count    uint32
	bits     string
	complete bool
}

func psObserve(ps *types.PartSet, n int) psView {
	v := psView{slots: make([][]byte, n), filled: make([]bool, n)}
	for i := 0; i < n; i++ {
		if p := ps.GetPart(i); p != nil {
			v.filled[i] = true
			v.slots[i] = p.Bytes
		}
	}
	v.count = ps.Count()
	v.bits = ps.BitArray().String()
	v.complete = ps.IsComplete()
	return v
}

func (v psView) key() string {
	var sb strings.Builder
	for i := range v.slots {
		if !v.filled[i] {
			sb.WriteString("-|")
		} else {
			fmt.Fprintf(&sb, "%x|", v.slots[i])
		}
	}
	fmt.Fprintf(&sb, "c=%d;b=%s", v.count, v.bits)
	return sb.String()
}

func psRebuild(c *psConfig, hist []int) (ps *types.PartSet, perr string) {
	p, v := safely(func() {
		ps = types.NewPartSetFromHeader(c.header)
		for _, t := range hist {
			ps.AddPart(clonePart(c.tokens[t].part))
		}
	})
	if p {
		return nil, v
	}
	return ps, ""
}

type psState struct {
	hist []int
	fill []string // per slot: class of the token that filled it
}

func (c *psConfig) histNames(h []int) []string {
	out := make([]string, len(h))
	for i, t := range h {
		out[i] = c.tokens[t].name
	}
	return out
}

type psEvent struct {
	tok int // -1: state oracle
	o   obs
}

type psSucc struct {
	key  string
	tok  int
	fill []string
}

// psKnown holds the signatures already recorded by earlier BFS levels / graphs. It is written only between
// parallel phases and read inside them; observations with a known signature are counted but not kept (their
// detail strings would otherwise dominate memory while a defect multiplies the state space).
var psKnown = map[string]bool{}

type psExpand struct {
	counts      map[string]int
	events      []psEvent
	succs       []psSucc
	transitions int64
	replaySteps int64
	accepted    map[int]bool
	rejected    map[int]bool
	complete    bool
	completeOK  bool
}

func psSig(class, oracle string) string { return "C13|part=" + class + "|oracle=" + oracle }

func wrongClasses(c *psConfig, v psView, fill []string) []string {
	set := map[string]bool{}
	for i := 0; i < c.n; i++ {
		if v.filled[i] && !bytes.Equal(v.slots[i], c.orig[i]) {
			cl := "unknown"
			if i < len(fill) && fill[i] != "" {
				cl = fill[i]
			}
			set[cl] = true
		}
	}
	var ks []string
	for k := range set {
		ks = append(ks, k)
	}
	sort.Strings(ks)
	return ks
}

// stateOracles checks the invariants of one reached state.
func psStateOracles(c *psConfig, ps *types.PartSet, v psView, fill []string) (evs []obs, complete, completeOK bool) {
	nf := 0
	for i := 0; i < c.n; i++ {
		if v.filled[i] {
			nf++
		}
	}
	if int(v.count) != nf {
		evs = append(evs, obs{psSig("any", "count-differs-from-filled-slots"), fmt.Sprintf("%s: Count()=%d but %d slots are filled", c.name, v.count, nf)})
	}
	if c.n > 0 {
		ba := ps.BitArray()
		for i := 0; i < c.n; i++ {
			if ba.GetIndex(i) != v.filled[i] {
				evs = append(evs, obs{psSig("any", "bitarray-differs-from-filled-slots"), fmt.Sprintf("%s: bit %d is %v but slot filled=%v", c.name, i, ba.GetIndex(i), v.filled[i])})
				break
			}
		}
	}
	if v.complete != (nf == c.n) {
		evs = append(evs, obs{psSig("any", "complete-flag-wrong"), fmt.Sprintf("%s: IsComplete()=%v with %d of %d slots filled", c.name, v.complete, nf, c.n)})
	}
	if !ps.HasHeader(c.header) || ps.Header() != c.header || !ps.HashesTo(c.header.Hash) || ps.Total() != uint32(c.n) {
		evs = append(evs, obs{psSig("any", "header-changed"), fmt.Sprintf("%s: the receiving set no longer reports the header it was built from", c.name)})
	}
	if !v.complete || c.n == 0 {
		return evs, false, false
	}
	complete = true
	wrong := wrongClasses(c, v, fill)
	var got []byte
	var err error
	p, pv := safely(func() { got, err = ioutil.ReadAll(ps.GetReader()) })
	if p {
		cl := "genuine"
		if len(wrong) > 0 {
			cl = wrong[0]
		}
		evs = append(evs, obs{psSig(cl, "complete-reader-panics"), c.name + ": GetReader/ReadAll panicked: " + pv})
		return evs, true, false
	}
	var root []byte
	if nf == c.n {
		root = merkle.SimpleHashFromByteSlices(v.slots)
	}
	if len(wrong) > 0 {
		// one observation per class of bogus part held (so the signature set grows with the classes, not with their combinations)
		for _, cl := range wrong {
			evs = append(evs, obs{psSig(cl, "complete-but-wrong-bytes"),
				fmt.Sprintf("%s: the set reports IsComplete() but its reader yields %x, the sender's data is %x; header hash %x, merkle root of the held parts %x; bogus parts held: %s",
					c.name, got, c.data, c.header.Hash.Bytes(), root, strings.Join(wrong, ", "))})
		}
		return evs, true, false
	}
	if err != nil || !bytes.Equal(got, c.data) {
		evs = append(evs, obs{psSig("genuine", "complete-reader-mismatch"), fmt.Sprintf("%s: all slots hold the genuine bytes but ReadAll(GetReader()) = %x, err %v; want %x", c.name, got, err, c.data)})
		return evs, true, false
	}
	if !bytes.Equal(common.BytesToHash(root).Bytes(), c.header.Hash.Bytes()) {
		evs = append(evs, obs{psSig("genuine", "complete-hash-mismatch"), fmt.Sprintf("%s: merkle root of the held parts %x differs from the header hash %x", c.name, root, c.header.Hash.Bytes())})
		return evs, true, false
	}
	// the reader under every small buffer size
	for _, bs := range []int{1, 3, 7, 8, 9, 17} {
		var out []byte
		p, pv := safely(func() {
			rd := ps.GetReader()
			buf := make([]byte, bs)
			for k := 0; k < 10*len(c.data)+10; k++ {
				m, e := rd.Read(buf)
				out = append(out, buf[:m]...)
				if e == io.EOF {
					return
				}
				if e != nil {
					out = append(out, []byte("ERR:"+e.Error())...)
					return
				}
			}
			out = append(out, []byte("NO-EOF")...)
		})
		if p || !bytes.Equal(out, c.data) {
			evs = append(evs, obs{psSig("genuine", "complete-reader-mismatch"), fmt.Sprintf("%s: reading with a %d-byte buffer yields %x (panic %q); want %x", c.name, bs, out, pv, c.data)})
			return evs, true, false
		}
	}
	return evs, true, true
}

// psStep offers token t to ps (whose view before the call is v0) and evaluates the transition oracle.
func psStep(c *psConfig, ps *types.PartSet, v0 psView, fill []string, t int) (evs []obs, v1 psView, changed bool, added bool) {
	tok := c.tokens[t]
	part := clonePart(tok.part)
	var err error
	p, pv := safely(func() { added, err = ps.AddPart(part) })
	if p {
		evs = append(evs, obs{psSig(tok.class, "addpart-panics"), fmt.Sprintf("%s: AddPart(%s) panicked: %s", c.name, tok.name, pv)})
		return evs, v0, true, false // force a rebuild
	}
	p, pv = safely(func() { v1 = psObserve(ps, c.n) })
	if p {
		evs = append(evs, obs{psSig(tok.class, "observe-panics"), fmt.Sprintf("%s: observing the set after AddPart(%s) panicked: %s", c.name, tok.name, pv)})
		return evs, v0, true, false
	}
	k0, k1 := v0.key(), v1.key()
	changed = k0 != k1
	idx := int(part.Index)
	where := fmt.Sprintf("%s: AddPart(%s) returned (%v, %v)", c.name, tok.name, added, err)
	if added && err != nil {
		evs = append(evs, obs{psSig(tok.class, "added-with-error"), where})
	}
	switch {
	case part.Index >= uint32(c.n):
		if added || changed {
			evs = append(evs, obs{psSig(tok.class, "bogus-part-accepted"), where + fmt.Sprintf("; index %d >= total %d; state changed=%v", part.Index, c.n, changed)})
		}
	case v0.filled[idx]:
		if added || changed {
			evs = append(evs, obs{psSig(tok.class, "filled-slot-overwritten"), where + fmt.Sprintf("; slot %d was already filled; state changed=%v", idx, changed)})
		}
		if tok.genuine && !bytes.Equal(v0.slots[idx], c.orig[idx]) && !(added && bytes.Equal(v1.slots[idx], c.orig[idx])) {
			cl := "unknown"
			if fill[idx] != "" {
				cl = fill[idx]
			}
			evs = append(evs, obs{psSig(cl, "genuine-part-blocked"),
				where + fmt.Sprintf("; slot %d holds %x (put there by a %s part) instead of %x, and the genuine part can no longer be added", idx, v0.slots[idx], cl, c.orig[idx])})
		}
	default:
		right := bytes.Equal(part.Bytes, c.orig[idx])
		stored := v1.filled[idx] && bytes.Equal(v1.slots[idx], part.Bytes) && v1.count == v0.count+1
		othersSame := true
		for i := 0; i < c.n; i++ {
			if i != idx && (v0.filled[i] != v1.filled[i] || !bytes.Equal(v0.slots[i], v1.slots[i])) {
				othersSame = false
			}
		}
		switch {
		case tok.genuine:
			if !added || err != nil || !stored || !othersSame {
				evs = append(evs, obs{psSig(tok.class, "genuine-part-rejected"), where + fmt.Sprintf("; slot %d was empty and the part is the sender's own; stored=%v", idx, stored)})
			}
		case right:
			// neutral: genuine index and bytes under a tampered proof; either outcome, but consistent
			if added != changed || (added && (!stored || !othersSame)) {
				evs = append(evs, obs{psSig(tok.class, "inconsistent-result"), where + fmt.Sprintf("; added=%v state changed=%v stored=%v", added, changed, stored)})
			}
		default:
			if added || changed {
				evs = append(evs, obs{psSig(tok.class, "bogus-part-accepted"),
					where + fmt.Sprintf("; slot %d must hold %x but the part carries %x (part index %d, proof index %d, proof total %d); state changed=%v",
						idx, c.orig[idx], part.Bytes, part.Index, part.Proof.Index, part.Proof.Total, changed)})
			}
		}
	}
	return evs, v1, changed, added
}

func psExpandState(c *psConfig, st *psState) *psExpand {
	ex := &psExpand{accepted: map[int]bool{}, rejected: map[int]bool{}, counts: map[string]int{}}
	keep := func(tok int, o obs) {
		ex.counts[o.sig]++
		if psKnown[o.sig] || ex.counts[o.sig] > 1 {
			return
		}
		ex.events = append(ex.events, psEvent{tok, o})
	}
	ps, perr := psRebuild(c, st.hist)
	ex.replaySteps += int64(len(st.hist))
	if perr != "" {
		keep(-1, obs{psSig("any", "rebuild-panics"), c.name + ": " + perr})
		return ex
	}
	var v0 psView
	if p, pv := safely(func() { v0 = psObserve(ps, c.n) }); p {
		keep(-1, obs{psSig("any", "observe-panics"), c.name + ": " + pv})
		return ex
	}
	var sev []obs
	if p, pv := safely(func() { sev, ex.complete, ex.completeOK = psStateOracles(c, ps, v0, st.fill) }); p {
		sev = append(sev, obs{psSig("any", "state-oracle-panics"), c.name + ": " + pv})
	}
	for _, o := range sev {
		keep(-1, o)
	}
	for t := range c.tokens {
		evs, v1, changed, added := psStep(c, ps, v0, st.fill, t)
		ex.transitions++
		if added {
			ex.accepted[t] = true
		} else {
			ex.rejected[t] = true
		}
		for _, o := range evs {
			keep(t, o)
		}
		if changed {
			if v1.key() != v0.key() {
				f := append([]string{}, st.fill...)
				for i := 0; i < c.n; i++ {
					if v1.filled[i] && (!v0.filled[i] || !bytes.Equal(v0.slots[i], v1.slots[i])) {
						f[i] = c.tokens[t].class
					}
				}
				ex.succs = append(ex.succs, psSucc{key: v1.key(), tok: t, fill: f})
			}
			ps, perr = psRebuild(c, st.hist)
			ex.replaySteps += int64(len(st.hist))
			if perr != "" {
				break
			}
		}
	}
	return ex
}

type psTotals struct {
	states, transitions, replay, complete, completeOK int64
	maxDepth                                          int
}

func explorePS(c *psConfig) (tot psTotals, finished bool) {
	init := &psState{fill: make([]string, c.n)}
	ps0, perr := psRebuild(c, nil)
	if perr != "" {
		record(Case{Phase: "partset", Config: c.name}, obs{psSig("any", "rebuild-panics"), c.name + ": NewPartSetFromHeader panicked: " + perr})
		return tot, true
	}
	seen := map[string]bool{psObserve(ps0, c.n).key(): true}
	r.Distinct("partset_states", c.name+"#"+psObserve(ps0, c.n).key())
	frontier := []*psState{init}
	accepted := map[int]bool{}
	rejected := map[int]bool{}
	depth := 0
	const batch = 2048 // states expanded per parallel batch: bounds the memory held by un-merged successors
	for len(frontier) > 0 {
		var next []*psState
		var levelSigs []string
		for lo := 0; lo < len(frontier); lo += batch {
			if r.Expired() || len(seen) > psStateCap {
				tot.maxDepth = depth
				return tot, false
			}
			hi := lo + batch
			if hi > len(frontier) {
				hi = len(frontier)
			}
			part := frontier[lo:hi]
			res := make([]*psExpand, len(part))
			par.For(int64(len(part)), 4, nil, func(i int64) { res[i] = psExpandState(c, part[i]) })
			for i, ex := range res {
				st := part[i]
				tot.states++
				tot.transitions += ex.transitions
				tot.replay += ex.replaySteps
				if ex.complete {
					tot.complete++
				}
				if ex.completeOK {
					tot.completeOK++
				}
				for t := range ex.accepted {
					accepted[t] = true
				}
				for t := range ex.rejected {
					rejected[t] = true
				}
				for _, e := range ex.events {
					cs := Case{Phase: "partset", Config: c.name, History: c.histNames(st.hist)}
					if e.tok >= 0 {
						cs.Token = c.tokens[e.tok].name
					}
					record(cs, e.o)
					levelSigs = append(levelSigs, e.o.sig)
				}
				for sg, n := range ex.counts {
					addCount(sg, n-boolInt(hasEvent(ex.events, sg)))
				}
				for _, s := range ex.succs {
					if seen[s.key] {
						continue
					}
					seen[s.key] = true
					r.Distinct("partset_states", c.name+"#"+s.key)
					next = append(next, &psState{hist: append(append([]int{}, st.hist...), s.tok), fill: s.fill})
				}
			}
			// signatures recorded by this batch are known to the following ones
			for _, sg := range levelSigs {
				psKnown[sg] = true
			}
			levelSigs = levelSigs[:0]
		}
		frontier = next
		if len(next) > 0 {
			depth++
		}
	}
	tot.maxDepth = depth
	// vacuity: every token executed (it is offered in every state, so at least in the initial one), every
	// genuine token was accepted somewhere, every token was rejected somewhere (at least as a duplicate
	// or as a bogus part)
	for t, tok := range c.tokens {
		r.Distinct("partset_token_classes", tok.class)
		if tok.genuine {
			r.Require(accepted[t], fmt.Sprintf("%s: genuine token %s was never accepted", c.name, tok.name))
		}
		r.Require(accepted[t] || rejected[t], fmt.Sprintf("%s: token %s never executed", c.name, tok.name))
	}
	if c.n > 0 {
		r.Require(tot.complete > 0, c.name+": no complete state reached")
	}
	return tot, true
}

func boolInt(b bool) int {
	if b {
		return 1
	}
	return 0
}

func hasEvent(evs []psEvent, sig string) bool {
	for _, e := range evs {
		if e.o.sig == sig {
			return true
		}
	}
	return false
}

func runPartSets() {
	var sample []interface{}
	for _, c := range psConfigs() {
		tot, fin := explorePS(c)
		r.Add("transitions", tot.transitions)
		r.Add("traces_validated_against_impl", tot.transitions)
		r.Add("partset_addpart_calls_evaluated", tot.transitions)
		r.Add("partset_replay_addpart_calls", tot.replay)
		r.Add("partset_complete_states", tot.complete)
		r.Add("partset_complete_states_with_exact_bytes", tot.completeOK)
		r.Add("partset_configs", 1)
		r.Max("partset_max_depth", int64(tot.maxDepth))
		r.Max("partset_alphabet_max", int64(len(c.tokens)))
		sample = append(sample, map[string]interface{}{"config": c.name, "alphabet": len(c.tokens), "states": tot.states, "transitions": tot.transitions,
			"complete_states": tot.complete, "complete_with_exact_bytes": tot.completeOK, "depth": tot.maxDepth, "fixpoint": fin})
		if !fin {
			r.NotExhaustive("part-set graph of " + c.name + " stopped at the state cap / deadline")
			if r.Expired() {
				break
			}
		}
	}
	r.Set("partset_graphs", sample)
	if len(sample) > 0 {
		r.Sample(sample[len(sample)-1])
	}
	r.Require(r.Get("partset_complete_states_with_exact_bytes") > 0, "no complete part set with the exact original bytes was reached")
}

func rerunPartSet(c Case) []obs {
	var cfg *psConfig
	for _, x := range psConfigs() {
		if x.name == c.Config {
			cfg = x
		}
	}
	if cfg == nil {
		// the stored case may come from the other tier
		for _, n := range []int{1, 2, 3, 4, 5, 6, 7, 8} {
			for _, t := range []int{1, 3, 7, 8} {
				for _, p := range []string{"distinct", "repeated"} {
					if x := newPSConfig(n, t, p); x.name == c.Config {
						cfg = x
					}
				}
			}
		}
	}
	if cfg == nil {
		return []obs{{"C13|machinery|unknown-partset-config", c.Config}}
	}
	var hist []int
	for _, h := range c.History {
		t, ok := cfg.byName[h]
		if !ok {
			return []obs{{"C13|machinery|unknown-token", h}}
		}
		hist = append(hist, t)
	}
	// recompute the fill classes along the history
	fill := make([]string, cfg.n)
	ps, perr := psRebuild(cfg, nil)
	if perr != "" {
		return []obs{{psSig("any", "rebuild-panics"), perr}}
	}
	v := psObserve(ps, cfg.n)
	for _, t := range hist {
		safely(func() { ps.AddPart(clonePart(cfg.tokens[t].part)) })
		v1 := psObserve(ps, cfg.n)
		for i := 0; i < cfg.n; i++ {
			if v1.filled[i] && (!v.filled[i] || !bytes.Equal(v.slots[i], v1.slots[i])) {
				fill[i] = cfg.tokens[t].class
			}
		}
		v = v1
	}
	var out []obs
	sev, _, _ := psStateOracles(cfg, ps, v, fill)
	if c.Token == "" {
		return sev
	}
	t, ok := cfg.byName[c.Token]
	if !ok {
		return []obs{{"C13|machinery|unknown-token", c.Token}}
	}
	evs, _, _, _ := psStep(cfg, ps, v, fill, t)
	out = append(out, evs...)
	return out
}
