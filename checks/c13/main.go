// C13 — blocks are tamper-evident and reassemble exactly from their parts.
//
// Engines E2 + E3 on the real objects (DESIGN.md section 4 / C13):
//
//	(a) partset.go   full reachable state graph (to fixpoint) of a receiving types.PartSet under an
//	                 adversarial part alphabet, for sets of 0..5 (thorough: 6) parts;
//	(b) mutate.go    every single-field mutation of a family of valid blocks at heights 1 and 2, decoded the
//	                 way a receiver gets them and validated by the real cstate.BlockExecutor.ValidateBlock;
//	(c) roundtrip.go proto and rawdb round trips of blocks, commits, votes, proposals, parts, ids.
//
// Every case is addressed by a small replayable Case; a violation is re-executed five times before it is
// reported and `run.sh C13 --replay <file>` re-executes exactly that case.
package main

import (
	"fmt"
	"os"
	"runtime/debug"
	"sort"
	"strings"
	"sync"
	"time"

	"github.com/kardiachain/go-kardia/lib/log"

	"verif/mc/report"
)

var r *report.Run

// Case is the replayable address of one executed case.
type Case struct {
	Phase string `json:"phase"` // partset | relabel | mutation | headerhash | roundtrip | txroot

	// partset
	Config  string   `json:"config,omitempty"`
	History []string `json:"history,omitempty"`
	Token   string   `json:"token,omitempty"`

	// mutation
	Block    string `json:"block,omitempty"`
	Mutation string `json:"mutation,omitempty"`

	// roundtrip / headerhash
	Item string `json:"item,omitempty"`

	Signature string `json:"signature"`
	Detail    string `json:"detail,omitempty"`
}

// obs is one oracle failure observed while executing a case.
type obs struct {
	sig    string
	detail string
}

// safely runs f and reports whether it panicked.
func safely(f func()) (panicked bool, val string) {
	defer func() {
		if p := recover(); p != nil {
			panicked, val = true, fmt.Sprintf("%v [%s]", p, panicSite(string(debug.Stack())))
		}
	}()
	f()
	return
}

// panicSite reduces a stack trace to the function names between the panic and the checker (no goroutine
// ids, addresses or arguments, so that the text is the same on every run).
func panicSite(st string) string {
	var fns []string
	after := false
	for _, ln := range strings.Split(st, "\n") {
		if strings.HasPrefix(ln, "\t") || ln == "" || strings.HasPrefix(ln, "goroutine ") {
			continue
		}
		if i := strings.LastIndex(ln, "("); i > 0 {
			ln = ln[:i]
		}
		if strings.HasPrefix(ln, "panic") {
			after = true
			fns = fns[:0]
			continue
		}
		if !after {
			continue
		}
		if strings.HasPrefix(ln, "main.") {
			break
		}
		fns = append(fns, ln)
		if len(fns) >= 6 {
			break
		}
	}
	return strings.Join(fns, " <- ")
}

// found collects, per signature, the first failing case in deterministic enumeration order.
var (
	fmu    sync.Mutex
	found  = map[string]*Case{}
	forder []string
	fcount = map[string]int{}
)

func record(c Case, o obs) {
	fmu.Lock()
	defer fmu.Unlock()
	fcount[o.sig]++
	if _, ok := found[o.sig]; ok {
		return
	}
	c.Signature, c.Detail = o.sig, o.detail
	cc := c
	cc.History = append([]string{}, c.History...)
	found[o.sig] = &cc
	forder = append(forder, o.sig)
}

// addCount adds n further occurrences of an already recorded signature.
func addCount(sig string, n int) {
	if n <= 0 {
		return
	}
	fmu.Lock()
	fcount[sig] += n
	fmu.Unlock()
}

// rerun executes exactly one case and returns everything it observes.
func rerun(c Case) []obs {
	switch c.Phase {
	case "partset":
		return rerunPartSet(c)
	case "mutation":
		return rerunMutation(c)
	case "headerhash":
		return rerunHeaderHash(c)
	case "roundtrip":
		return rerunRoundTrip(c)
	case "relabel":
		return rerunRelabel(c)
	case "txroot":
		return rerunTxRoot(c)
	case "ragged":
		return rerunRagged(c)
	}
	return []obs{{"C13|machinery|unknown-phase=" + c.Phase, ""}}
}

func hasSig(os []obs, sig string) bool {
	for _, o := range os {
		if o.sig == sig {
			return true
		}
	}
	return false
}

func flush() {
	sigs := append([]string{}, forder...)
	sort.Strings(sigs)
	// When run.sh's -race pass reported a data race in the code under test, the parallel phases of this run
	// worked on top of that race: an observation made there need not reproduce single-threaded. Such an
	// observation is recorded, not reported, and the run is decided by the data-race violation (exit 1)
	// instead of ending as an irreproducible finding (exit 3). Without a reported race nothing changes.
	rp := os.Getenv("VERIF_RACE_PASS")
	raceReported := strings.HasPrefix(rp, "race:")
	if strings.HasPrefix(rp, "failed:1:") {
		// the pass's second oracle fired before the detector did: a goroutine working on private objects got a
		// result that differs from the single-threaded value
		out, _ := os.ReadFile(strings.TrimPrefix(rp, "failed:1:"))
		var lines []string
		for _, l := range strings.Split(string(out), "\n") {
			if strings.HasPrefix(l, "RESULT DIFFERS") && len(lines) < 5 {
				lines = append(lines, l)
			}
		}
		if len(lines) > 0 {
			raceReported = true
			r.Violation("C13|oracle=concurrent-result-differs-from-single-threaded-value",
				"goroutines working on private objects computed results that differ from the values computed single-threaded (shared mutable state inside the code under test): "+strings.Join(lines, " | "),
				map[string]interface{}{"kind": "race-pass", "output": lines})
		}
	}
	var unstable []string
	for _, s := range sigs {
		c := *found[s]
		what := c.Detail
		if n := fcount[s]; n > 1 {
			what += fmt.Sprintf(" [%d cases with this signature; the first in enumeration order is stored]", n)
		}
		again := func() string {
			if hasSig(rerun(c), s) {
				return s
			}
			return ""
		}
		if raceReported {
			ok := true
			for i := 0; i < 5 && ok; i++ {
				ok = again() == s
			}
			if !ok {
				unstable = append(unstable, s)
				continue
			}
			r.Violation(s, what, c)
			continue
		}
		r.ViolationConfirmed(s, what, c, again)
	}
	if len(unstable) > 0 {
		r.Set("observations_not_reproduced_single_threaded_while_a_data_race_is_reported", unstable)
	}
}

func replayMain() {
	var c Case
	if err := r.LoadReplay(&c); err != nil {
		fmt.Println("MACHINERY-ERROR: cannot load replay file:", err)
		os.Exit(2)
	}
	cc := c
	cc.Detail = ""
	fmt.Printf("replaying %s case: %+v\n", c.Phase, cc)
	os_ := rerun(c)
	if len(os_) == 0 {
		fmt.Println("the property holds on this case")
		os.Exit(0)
	}
	still := false
	for _, o := range os_ {
		fmt.Printf("observed: %s\n  %s\n", o.sig, strings.ReplaceAll(o.detail, "\n", "\n  "))
		if o.sig == c.Signature {
			still = true
		}
	}
	if still {
		fmt.Println("VIOLATION property=C13 (stored signature reproduced)")
	} else {
		fmt.Println("VIOLATION property=C13 (the case still violates, with a different signature than stored)")
	}
	os.Exit(1)
}

func main() {
	r = report.New("C13", "model_checking")
	log.Root().SetHandler(log.DiscardHandler())
	if r.Thorough() {
		r.SetDeadline(12 * time.Minute)
	} else {
		r.SetDeadline(45 * time.Second)
	}
	tSetup := time.Now()
	setupChain()
	if os.Getenv("C13_RACE_PASS") == "1" {
		runRacePass() // exits
		return
	}
	if r.ReplayPath != "" {
		replayMain()
		return
	}

	phase := func(name string, f func()) {
		t0 := time.Now()
		f()
		r.Set("wall_s_"+name, time.Since(t0).Seconds())
	}
	r.Set("wall_s_setup", time.Since(tSetup).Seconds())
	phase("prepare", func() {
		for _, b := range family {
			prepareBase(b)
		}
		warmCaches()
	})
	phase("partsets", runPartSets)
	phase("relabel", runRelabel)
	phase("ragged", runRagged)
	phase("headerhash", runHeaderHash)
	phase("txroot_reference", runTxRootReference)
	phase("mutations", runMutations)
	phase("roundtrips", runRoundTrips)
	flush()

	r.Add("states", int64(r.DistinctCount("partset_states")+r.DistinctCount("block_states")))
	r.Set("rule", "(a) E2 to fixpoint: receiving PartSet built with NewPartSetFromHeader for data of 1..5 (thorough ..8; a graph is cut at 120000 states, which only happens while bogus parts are accepted) parts of size 8 with short / full last part, "+
		"distinct and repeated part contents, and for headers announcing 0 parts; state key = bytes held by every slot + count + bit array; every token of the adversarial alphabet "+
		"(genuine, genuine after a wire round trip, relabelled index, changed proof index, both, parts / bytes of another set, truncated / extended / empty bytes with the genuine or a recomputed leaf hash, "+
		"wrong proof total, proof of another leaf, tampered aunts / leaf hash, index >= total, inner node offered as a leaf) is offered in every reachable state (so all orders and duplicates are covered). "+
		"(a') E3 relabelling stage: every part count n in 1..17 (thorough ..33) cut from the wire form of a real block, every genuine part j, every claimed part index i in 0..n, proof index in {i, j}, proof total in 1..n+1, aunts exact / shortened / extended by one, "+
		"offered to a fresh set and followed by the genuine part of that slot and all the others (bogus first, then genuine): AddPart must accept the exact genuine labelling, must reject every part whose bytes do not belong in slot i "+
		"(in an unbalanced tree the path of leaf j is also the path of another index in a smaller tree, so SimpleProof.Verify alone accepts such relabellings — listed as information), and a complete set must yield the block's bytes; "+
		"expected verdicts and roots come from an independent reference tree; the relabellings that keep the path valid are also tokens of the state graphs of (a). "+
		"(race pass, run.sh RACEPASS) before the enumeration the same binary built with -race runs 8 goroutines x 12 fixed iterations of every hashing / encoding entry point of the property on private objects "+
		"(part sets, AddPart, SimpleProof.Verify, simple tree, Commit / Evidence / ValidatorSet / Header / Block hashes, MakePartSet, block wire round trip, DeriveSha, ValidateBlock), each result also compared with its single-threaded value; "+
		"a detector report becomes the violation C13|oracle=data-race|at=...; while one is reported, observations of the parallel phases that do not reproduce single-threaded are recorded, not reported. "+
		"(b) E3: every single-field mutation (each header field over its boundary alternatives, tx add / remove / duplicate / swap / replace / every byte altered, commit height / round / id / every flag / address / "+
		"timestamp / every signature byte / list edits, every evidence field and list edit) of every block of the family {height 1, height 2} x {0,1,3 txs} x {0,1,2 evidence} x {full, absent, nil-vote commit}, "+
		"applied to the wire form, decoded with BlockFromProto and validated with BlockExecutor.ValidateBlock on a fresh executor and on one that validated the original "+
		"plus blocks with 127, 128, 129, 130, 200 and 257 transactions (DeriveSha's insertion runs switch at indices 0 and 0x7f/0x80, the RLP index form at 128 and 256) with, for EVERY position k, replace / swap with k+1 / drop (NumTxs untouched or adjusted) / duplicate / insert, and Header.TxHash of every block compared with the root of {rlp(i) -> tx bytes} in go-ethereum v1.9.15's trie; Header.Hash() and the header wire form are checked per leaf field found by reflection. "+
		"(c) E3: blocks whose serialized length is 65535, 65536, 65537, 131071, 131072, 131073 (padded transaction payload) cut at the PRODUCTION part size types.BlockPartSizeBytes — every part through ToProto -> bytes -> PartFromProto, reassembly in every order with duplicates, and rawdb.WriteBlock -> ReadBlockPart / ReadBlock / ReadBlockMeta (a part of at most the part size is valid by the checker's own rule, not by Part.ValidateBasic); proto and rawdb round trips over the block family and the boundary product of commit / vote / proposal / part / id fields. "+
		"A mutation counts only when the decoded block's canonical encoding differs from the original's")
	r.Assume(
		"SHA-256 / Keccak-256 / secp256k1 are sound (collisions are not searched)",
		"a part is 'genuine for slot i' iff its Index is i and its bytes are the i-th chunk of the sender's data; a part with genuine index and bytes but a tampered proof may be accepted or rejected (weakest reading: only the stored bytes matter; such acceptances are counted in relabel_own_slot_tampered_proof_accepted)",
		"the part-set hash is the RFC-6962 style tree of lib/merkle (SHA-256, 0x00 leaf / 0x01 inner prefix, split at the largest power of two below the count): the relabelling stage compares it with an independent implementation of that definition; that SimpleProof.Verify alone accepts relabellings with the same path is upstream behaviour and recorded as information — AddPart is the guard that is decided",
		"a part set announcing 0 parts commits to no data: every offered part must be rejected without a panic; GetReader is not called on it (it indexes parts[0] unconditionally; its only production caller runs after a successful AddPart, which cannot happen for 0 parts)",
		"'fails validation' = BlockFromProto (Block.ValidateBasic with the stack-trie hasher, as consensus decodes a completed proposal) or BlockExecutor.ValidateBlock returns an error; evidence *content* is checked by a stub pool that accepts everything (C19 decides evidence verification), so only the binding of evidence to the header is decided here",
		"'id' is Block.Hash() as the property's first clause says; the part-set header, which consensus additionally votes on, is not credited",
		"the chain state is constructed by hand (LatestBlockState after genesis and after block 1) with 4 equal-power validators whose keys the checker holds",
		"the legacy RLP block encoding (extblock) and dual events are not part of the wire / database form and are not covered",
	)
	r.Exhaustive(true)
	if r.Expired() {
		r.NotExhaustive("internal deadline reached")
	}
	r.Finish()
}
