package main

// The chain state and the family of valid blocks used by phases (b) and (c). Blocks are built the way a
// proposer builds them (mainchain/blockchain.BlockOperations.CreateProposalBlock: header from the state,
// time = genesis time / MedianTime of the commit, types.NewBlock), commits by signing precommits with
// types.NewDefaultPrivValidator and VoteSet.MakeCommit.

import (
	"crypto/ecdsa"
	"fmt"
	"math/big"
	"time"

	"github.com/gogo/protobuf/proto"
	"github.com/kardiachain/go-kardia/kai/kaidb/memorydb"
	"github.com/kardiachain/go-kardia/kai/state/cstate"
	"github.com/kardiachain/go-kardia/lib/common"
	"github.com/kardiachain/go-kardia/lib/crypto"
	"github.com/kardiachain/go-kardia/lib/log"
	kproto "github.com/kardiachain/go-kardia/proto/kardiachain/types"
	"github.com/kardiachain/go-kardia/trie"
	"github.com/kardiachain/go-kardia/types"
)

const chainID = "verif-c13"

var keyHex = []string{
	"b71c71a67e1177ad4e901695e1b4b9ee17ae16c6668d313eac2f96dbcda3f291",
	"8a1f9a8f95be41cd7ccb6168179afb4504aefe388d1e14474d32c45c72ce7b7a",
	"49a7b37aa6f6645917e7b807e9d1c00d4fa71f18343b0d4122a4d2df64dd6fee",
	"0cdce9b61bab3e1cdd4e5c0c3f0b5cde4fbe1f1ee5b1ae2d22f7b4c5d0d5a001",
	"77a1f3c0a5e7c22c3d3c1c3f0e0a49a1a5d1ce5a3ab0e0d8f0e9a0e2f4b1c002",
}

var genesisTime = time.Date(2021, 3, 4, 5, 6, 7, 0, time.UTC)

func hashOf(b byte) common.Hash {
	var h common.Hash
	for i := range h {
		h[i] = b
	}
	return h
}

type nopEvPool struct{}

func (nopEvPool) Update(cstate.LatestBlockState, types.EvidenceList) {}
func (nopEvPool) CheckEvidence(types.EvidenceList) error             { return nil }

func newExec() *cstate.BlockExecutor {
	return cstate.NewBlockExecutor(cstate.NewStore(memorydb.New()), log.New(), nopEvPool{}, nil)
}

type baseBlock struct {
	name    string
	height  uint64
	state   cstate.LatestBlockState
	block   *types.Block // as built by the proposer
	pb      *kproto.Block
	bz      []byte       // wire bytes
	decoded *types.Block // as a receiver gets it
	usable  bool         // wire round trip worked and the decoded block validates
	bigTxs  bool         // long transaction list: only the per-position transaction mutations are enumerated
}

var (
	valKeys  []*ecdsa.PrivateKey // by validator index
	valAddrs []common.Address
	extraKey *ecdsa.PrivateKey // not a validator
	vals0    *types.ValidatorSet
	state0   cstate.LatestBlockState
	state1   cstate.LatestBlockState
	block1   *types.Block
	id1      types.BlockID
	family   []*baseBlock
	txPool   []*types.Transaction // signed transactions to draw from
	bigExtra *types.Transaction   // replacement transaction for the long lists
)

var bigTxCounts = []int{127, 128, 129, 130, 200, 257}

const bigTxMax = 257

func mustKey(h string) *ecdsa.PrivateKey {
	k, err := crypto.HexToECDSA(h)
	if err != nil {
		panic(err)
	}
	return k
}

func signedVote(k int, t kproto.SignedMsgType, height uint64, round uint32, id types.BlockID, ts time.Time) *types.Vote {
	v := &types.Vote{Type: t, Height: height, Round: round, BlockID: id, Timestamp: ts, ValidatorAddress: valAddrs[k], ValidatorIndex: uint32(k)}
	p := v.ToProto()
	if err := types.NewDefaultPrivValidator(valKeys[k]).SignVote(chainID, p); err != nil {
		panic(err)
	}
	v.Signature = p.Signature
	return v
}

// makeCommit: kinds[k] is "commit", "nil" or "absent" for validator k.
func makeCommit(vs *types.ValidatorSet, height uint64, round uint32, id types.BlockID, kinds []string) *types.Commit {
	set := types.NewVoteSet(chainID, height, round, kproto.PrecommitType, vs)
	for k, kind := range kinds {
		ts := genesisTime.Add(time.Second + time.Duration(k)*137*time.Millisecond)
		switch kind {
		case "commit":
			if ok, err := set.AddVote(signedVote(k, kproto.PrecommitType, height, round, id, ts)); !ok || err != nil {
				panic(fmt.Sprintf("AddVote: %v %v", ok, err))
			}
		case "nil":
			if ok, err := set.AddVote(signedVote(k, kproto.PrecommitType, height, round, types.BlockID{}, ts)); !ok || err != nil {
				panic(fmt.Sprintf("AddVote(nil): %v %v", ok, err))
			}
		}
	}
	return set.MakeCommit()
}

func makeEvidence(k int, n byte) types.Evidence {
	ida := types.BlockID{Hash: hashOf(0x10 + n), PartsHeader: types.PartSetHeader{Total: 1, Hash: hashOf(0x20 + n)}}
	idb := types.BlockID{Hash: hashOf(0x30 + n), PartsHeader: types.PartSetHeader{Total: 2, Hash: hashOf(0x40 + n)}}
	ts := genesisTime.Add(500 * time.Millisecond)
	a := signedVote(k, kproto.PrevoteType, 1, 0, ida, ts)
	b := signedVote(k, kproto.PrevoteType, 1, 0, idb, ts.Add(time.Millisecond))
	ev := types.NewDuplicateVoteEvidence(a, b, genesisTime, vals0)
	if ev == nil {
		panic("nil evidence")
	}
	if err := ev.ValidateBasic(); err != nil {
		panic(err)
	}
	return ev
}

// proposerBlock mirrors BlockOperations.CreateProposalBlock.
func proposerBlock(height uint64, st cstate.LatestBlockState, proposer common.Address, commit *types.Commit, txs []*types.Transaction, ev []types.Evidence) *types.Block {
	var ts time.Time
	if height == 1 {
		ts = st.LastBlockTime
	} else {
		ts = cstate.MedianTime(commit, st.LastValidators)
	}
	h := &types.Header{
		Height:             height,
		Time:               ts,
		LastBlockID:        st.LastBlockID,
		ProposerAddress:    proposer,
		ValidatorsHash:     st.Validators.Hash(),
		NextValidatorsHash: st.NextValidators.Hash(),
		AppHash:            st.AppHash,
		GasLimit:           20000000,
	}
	return types.NewBlock(h, txs, commit, ev, trie.NewStackTrie(nil))
}

func wireBlock(b *types.Block) (pb *kproto.Block, bz []byte, dec *types.Block, err error) {
	pb, err = b.ToProto()
	if err != nil {
		return
	}
	bz, err = proto.Marshal(pb)
	if err != nil {
		return
	}
	dec, err = decodeBlock(bz)
	return
}

func decodeBlock(bz []byte) (*types.Block, error) {
	var pb kproto.Block
	if err := proto.Unmarshal(bz, &pb); err != nil {
		return nil, err
	}
	return types.BlockFromProto(&pb, trie.NewStackTrie(nil))
}

func encodeBlock(b *types.Block) ([]byte, error) {
	pb, err := b.ToProto()
	if err != nil {
		return nil, err
	}
	return proto.Marshal(pb)
}

func validate(ex *cstate.BlockExecutor, st cstate.LatestBlockState, b *types.Block) (err error, panicked string) {
	p, pv := safely(func() { err = ex.ValidateBlock(st, b) })
	if p {
		return nil, pv
	}
	return err, ""
}

func setupChain() {
	var ks []*ecdsa.PrivateKey
	for _, h := range keyHex {
		ks = append(ks, mustKey(h))
	}
	extraKey = ks[4]
	var vl []*types.Validator
	for _, k := range ks[:4] {
		vl = append(vl, types.NewValidator(crypto.PubkeyToAddress(k.PublicKey), 10))
	}
	vals0 = types.NewValidatorSet(vl)
	for _, v := range vals0.Validators {
		for _, k := range ks[:4] {
			if crypto.PubkeyToAddress(k.PublicKey) == v.Address {
				valKeys = append(valKeys, k)
				valAddrs = append(valAddrs, v.Address)
			}
		}
	}
	if len(valKeys) != 4 {
		panic("validator keys")
	}
	params := types.DefaultConsensusParams()
	state0 = cstate.LatestBlockState{
		ChainID:                     chainID,
		InitialHeight:               1,
		LastBlockHeight:             0,
		LastBlockID:                 types.BlockID{},
		LastBlockTime:               genesisTime,
		Validators:                  vals0,
		NextValidators:              vals0.CopyIncrementProposerPriority(1),
		LastValidators:              types.NewValidatorSet(nil),
		LastHeightValidatorsChanged: 1,
		ConsensusParams:             *params,
		AppHash:                     common.Hash{},
	}
	// transactions
	to := common.HexToAddress("0x00000000000000000000000000000000000000c1")
	for i := 0; i < 5; i++ {
		tx := types.NewTransaction(uint64(i), to, big.NewInt(int64(1000+i)), 21000+uint64(i), big.NewInt(int64(1+i)), []byte{byte(i), 0xab, 0xcd})
		stx, err := types.SignTx(types.HomesteadSigner{}, tx, ks[i%2])
		if err != nil {
			panic(err)
		}
		txPool = append(txPool, stx)
	}
	// block 1 (no txs) is the parent of every height-2 block
	block1 = proposerBlock(1, state0, state0.Validators.GetProposer().Address, types.NewCommit(0, 0, types.BlockID{}, nil), nil, nil)
	id1 = types.BlockID{Hash: block1.Hash(), PartsHeader: block1.MakePartSet(types.BlockPartSizeBytes).Header()}
	state1 = cstate.LatestBlockState{
		ChainID:                     chainID,
		InitialHeight:               1,
		LastBlockHeight:             1,
		LastBlockID:                 id1,
		LastBlockTime:               block1.Time(),
		LastValidators:              state0.Validators.Copy(),
		Validators:                  state0.NextValidators.Copy(),
		NextValidators:              state0.NextValidators.CopyIncrementProposerPriority(1),
		LastHeightValidatorsChanged: 1,
		ConsensusParams:             *params,
		AppHash:                     hashOf(0x77),
	}

	add := func(name string, height uint64, st cstate.LatestBlockState, b *types.Block) {
		family = append(family, &baseBlock{name: name, height: height, state: st, block: b})
	}
	prop0 := state0.Validators.GetProposer().Address
	add("h1/txs=0", 1, state0, proposerBlock(1, state0, prop0, types.NewCommit(0, 0, types.BlockID{}, nil), nil, nil))
	add("h1/txs=3", 1, state0, proposerBlock(1, state0, prop0, types.NewCommit(0, 0, types.BlockID{}, nil), txPool[:3], nil))
	commits := []struct {
		name  string
		round uint32
		kinds []string
	}{
		{"full", 0, []string{"commit", "commit", "commit", "commit"}},
		{"absent", 1, []string{"commit", "commit", "commit", "absent"}},
		{"nilvote", 0, []string{"commit", "commit", "nil", "commit"}},
	}
	prop1 := state1.Validators.GetProposer().Address
	for _, cm := range commits {
		commit := makeCommit(state1.LastValidators, 1, cm.round, id1, cm.kinds)
		for _, ntx := range []int{0, 1, 3} {
			for _, nev := range []int{0, 1, 2} {
				var ev []types.Evidence
				for e := 0; e < nev; e++ {
					ev = append(ev, makeEvidence(1+e, byte(e)))
				}
				var txs []*types.Transaction
				if ntx > 0 {
					txs = txPool[:ntx]
				}
				add(fmt.Sprintf("h2/commit=%s/txs=%d/evidence=%d", cm.name, ntx, nev), 2, state1, proposerBlock(2, state1, prop1, commit, txs, ev))
			}
		}
	}
	// DeriveSha feeds the stack trie in three runs (indices 1..0x7f, then 0, then 0x80..) and the RLP form of
	// the index changes at 128 and 256: blocks whose transaction lists end on and around every one of those
	// boundaries. Only their per-position transaction mutations are enumerated (bigTxs).
	var many []*types.Transaction
	for i := 0; i < bigTxMax+1; i++ {
		tx := types.NewTransaction(uint64(i), to, big.NewInt(int64(i)), 21000, big.NewInt(1), nil)
		stx, err := types.SignTx(types.HomesteadSigner{}, tx, ks[0])
		if err != nil {
			panic(err)
		}
		many = append(many, stx)
	}
	bigExtra = many[bigTxMax]
	fullCommit := makeCommit(state1.LastValidators, 1, 0, id1, commits[0].kinds)
	for _, n := range bigTxCounts {
		family = append(family, &baseBlock{name: fmt.Sprintf("h2/commit=full/txs=%d/evidence=0", n), height: 2, state: state1, bigTxs: true,
			block: proposerBlock(2, state1, prop1, fullCommit, many[:n], nil)})
	}
}

// warmCaches fills every lazily computed field of the shared objects (Commit.hash, Commit.bitArray,
// EvidenceData.hash, Block.hash/size, ValidatorSet.totalVotingPower / proposer) before any goroutine starts:
// the repository computes them on first use without synchronisation, and the checker shares the family
// blocks and validator sets between its workers.
func warmCaches() {
	for _, vs := range []*types.ValidatorSet{vals0, state0.Validators, state0.NextValidators, state0.LastValidators,
		state1.Validators, state1.NextValidators, state1.LastValidators} {
		if vs == nil || len(vs.Validators) == 0 {
			continue
		}
		vs.TotalVotingPower()
		vs.GetProposer()
		vs.Hash()
	}
	for _, b := range family {
		for _, blk := range []*types.Block{b.block, b.decoded} {
			if blk == nil {
				continue
			}
			blk.Hash()
			blk.Size()
			if c := blk.LastCommit(); c != nil {
				c.Hash()
				c.BitArray()
			}
			if e := blk.Evidence(); e != nil {
				e.Hash()
				for _, ev := range e.Evidence {
					ev.Hash()
				}
			}
			for _, tx := range blk.Transactions() {
				tx.Hash()
				tx.Size()
			}
		}
	}
}

func findBase(name string) *baseBlock {
	for _, b := range family {
		if b.name == name {
			return b
		}
	}
	return nil
}

// prepareBase computes the wire form of a base block and decides whether it can serve as a mutation seed.
// Failures of the wire round trip itself are reported by the round-trip phase, not here.
func prepareBase(b *baseBlock) {
	if b.bz != nil || b.pb != nil {
		return
	}
	p, _ := safely(func() {
		pb, bz, dec, err := wireBlock(b.block)
		b.pb, b.bz = pb, bz
		if err != nil || dec == nil {
			return
		}
		b.decoded = dec
		if dec.Hash() != b.block.Hash() {
			return
		}
		if e, pv := validate(newExec(), b.state, dec); e != nil || pv != "" {
			return
		}
		b.usable = true
	})
	_ = p
}
