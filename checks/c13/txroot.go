package main

// Header.TxHash against an independent reference: the root of the Merkle Patricia trie that maps
// rlp(index) to the transaction's wire bytes, computed with go-ethereum v1.9.15's trie and rlp (no code
// shared with the repository's DeriveSha / StackTrie). Decides that every list index really is committed
// to, whatever order DeriveSha feeds the indices in.

import (
	"fmt"

	gethcommon "github.com/ethereum/go-ethereum/common"
	gethmem "github.com/ethereum/go-ethereum/ethdb/memorydb"
	gethrlp "github.com/ethereum/go-ethereum/rlp"
	gethtrie "github.com/ethereum/go-ethereum/trie"
	"github.com/kardiachain/go-kardia/trie"
	"github.com/kardiachain/go-kardia/types"
)

func referenceTxRoot(txs [][]byte) (root [32]byte, err error) {
	t, err := gethtrie.New(gethcommon.Hash{}, gethtrie.NewDatabase(gethmem.New()))
	if err != nil {
		return root, err
	}
	for i, b := range txs {
		k, err := gethrlp.EncodeToBytes(uint(i))
		if err != nil {
			return root, err
		}
		t.Update(k, b)
	}
	return t.Hash(), nil
}

func evalTxRoot(b *baseBlock) (out []obs) {
	p, pv := safely(func() {
		var wire [][]byte
		for _, tx := range b.block.Transactions() {
			wire = append(wire, rlpTx(tx))
		}
		if len(wire) == 0 {
			return
		}
		ref, err := referenceTxRoot(wire)
		if err != nil {
			out = append(out, obs{"C13|machinery|reference-trie-error", err.Error()})
			return
		}
		n := len(wire)
		if got := b.block.Header().TxHash; [32]byte(got) != ref {
			out = append(out, obs{fmt.Sprintf("C13|txs=%s|oracle=txhash-vs-reference-trie", txCountClass(n)),
				fmt.Sprintf("%s: Header.TxHash of the proposer's block with %d transactions is %x, the reference trie root of {rlp(i) -> tx i} is %x", b.name, n, got[:], ref[:])})
		}
		// DeriveSha itself only when it disagrees with the header (NewBlock is expected to call it)
		if got := types.DeriveSha(types.Transactions(b.block.Transactions()), trie.NewStackTrie(nil)); got != b.block.Header().TxHash && [32]byte(got) != ref {
			out = append(out, obs{fmt.Sprintf("C13|txs=%s|oracle=derivesha-vs-reference-trie", txCountClass(n)),
				fmt.Sprintf("%s: DeriveSha over %d transactions gives %x, the reference trie root is %x", b.name, n, got[:], ref[:])})
		}
	})
	if p {
		out = append(out, obs{"C13|txs=" + txCountClass(len(b.block.Transactions())) + "|oracle=txroot-panics", b.name + ": " + pv})
	}
	return
}

func txCountClass(n int) string {
	switch {
	case n < 0x7f:
		return "<127"
	case n <= 0x80:
		return fmt.Sprintf("%d", n)
	case n <= 0x100:
		return "129..256"
	default:
		return ">256"
	}
}

func runTxRootReference() {
	nb := 0
	for _, b := range family {
		if len(b.block.Transactions()) == 0 {
			continue
		}
		nb++
		r.Add("transitions", 1)
		r.Add("traces_validated_against_impl", 1)
		r.Add("txroot_reference_comparisons", 1)
		for _, o := range evalTxRoot(b) {
			record(Case{Phase: "txroot", Block: b.name}, o)
		}
	}
	r.Require(nb >= 6, "fewer than 6 blocks with transactions were compared with the reference trie root")
}

func rerunTxRoot(c Case) []obs {
	b := findBase(c.Block)
	if b == nil {
		return []obs{{"C13|machinery|unknown-block", c.Block}}
	}
	return evalTxRoot(b)
}
