// Ragged part sets: the header commits to a leaf list whose parts have ARBITRARY lengths, zero included, in any
// position. NewPartSetFromData never produces such a list, a Byzantine proposer can (the header is only a count and a
// Merkle root; Part.ValidateBasic bounds a part's size from above only). The property's sentence "a part set that
// reports itself complete always yields exactly the data its header hash commits to" quantifies over them too.
//
// For every n in 1..4 (thorough ..5) and every vector of part lengths over {0, 1, 8} (thorough {0, 1, 3, 8}): the header
// is built with lib/merkle from the leaves, the receiving set with NewPartSetFromHeader; the genuine parts are offered
// in every arrival order (thorough: n <= 4; for n = 5 the identity, reverse and rotations), directly and after a wire
// round trip. Oracle: whenever the set reports IsComplete(), ReadAll(GetReader()) and reads with 1-, 3- and 8-byte
// buffers yield exactly the concatenation of the committed leaves. (Whether a genuine empty part is accepted is not
// judged: the property speaks of complete sets.) Vacuity guard: complete sets with an empty first, interior and last
// part were all read.
package main

import (
	"bytes"
	"fmt"
	"io"
	"io/ioutil"
	"strconv"
	"strings"
	"sync/atomic"

	"github.com/kardiachain/go-kardia/lib/common"
	"github.com/kardiachain/go-kardia/lib/merkle"
	"github.com/kardiachain/go-kardia/types"

	"verif/mc/par"
)

func raggedLens() []int {
	if r.Thorough() {
		return []int{0, 1, 3, 8}
	}
	return []int{0, 1, 8}
}

func perms(n int) [][]int {
	var out [][]int
	p := make([]int, n)
	for i := range p {
		p[i] = i
	}
	var rec func(k int)
	rec = func(k int) {
		if k == n {
			out = append(out, append([]int{}, p...))
			return
		}
		for i := k; i < n; i++ {
			p[k], p[i] = p[i], p[k]
			rec(k + 1)
			p[k], p[i] = p[i], p[k]
		}
	}
	rec(0)
	return out
}

// raggedOne runs one (length vector, arrival order, wire) case.
func raggedOne(lens []int, order []int, wire bool) (evs []obs, complete bool) {
	n := len(lens)
	leaves := make([][]byte, n)
	var want []byte
	b := byte(1)
	for i, l := range lens {
		leaves[i] = make([]byte, l)
		for k := range leaves[i] {
			leaves[i][k] = b
			b++
		}
		want = append(want, leaves[i]...)
	}
	name := fmt.Sprintf("lens=%v order=%v wire=%v", lens, order, wire)
	root, proofs := merkle.SimpleProofsFromByteSlices(leaves)
	hd := types.PartSetHeader{Total: uint32(n), Hash: common.BytesToHash(root)}
	var ps *types.PartSet
	p, pv := safely(func() {
		ps = types.NewPartSetFromHeader(hd)
		for _, i := range order {
			part := &types.Part{Index: uint32(i), Bytes: append([]byte{}, leaves[i]...), Proof: cloneProof(*proofs[i])}
			if wire {
				w, err := wirePart(part)
				if err != nil {
					continue
				}
				part = w
			}
			ps.AddPart(part)
		}
		complete = ps.IsComplete()
	})
	if p {
		return []obs{{psSig("ragged-genuine", "addpart-panics"), name + ": " + pv}}, false
	}
	if !complete {
		return nil, false
	}
	var got []byte
	var err error
	p, pv = safely(func() { got, err = ioutil.ReadAll(ps.GetReader()) })
	if p {
		return []obs{{psSig("ragged-genuine", "complete-reader-panics"), name + ": " + pv}}, true
	}
	if err != nil || !bytes.Equal(got, want) {
		return []obs{{psSig("ragged-genuine", "complete-reader-mismatch"), fmt.Sprintf("%s: the set reports IsComplete() and holds the committed parts, ReadAll(GetReader()) = %x (err %v), the header commits to %x", name, got, err, want)}}, true
	}
	for _, bs := range []int{1, 3, 8} {
		var out []byte
		p, pv := safely(func() {
			rd := ps.GetReader()
			buf := make([]byte, bs)
			for k := 0; k < 10*len(want)+10*n+10; k++ {
				m, e := rd.Read(buf)
				out = append(out, buf[:m]...)
				if e == io.EOF {
					return
				}
				if e != nil {
					out = append(out, []byte("ERR:"+e.Error())...)
					return
				}
			}
			out = append(out, []byte("NO-EOF")...)
		})
		if p || !bytes.Equal(out, want) {
			return []obs{{psSig("ragged-genuine", "complete-reader-mismatch"), fmt.Sprintf("%s: reading with a %d-byte buffer yields %x (panic %q); the header commits to %x", name, bs, out, pv, want)}}, true
		}
	}
	return nil, true
}

type raggedCase struct {
	lens  []int
	order []int
	wire  bool
}

func raggedCases() []raggedCase {
	maxN := 4
	if r.Thorough() {
		maxN = 5
	}
	L := raggedLens()
	var cases []raggedCase
	for n := 1; n <= maxN; n++ {
		var orders [][]int
		if n <= 4 {
			orders = perms(n)
		} else {
			id := make([]int, n)
			for i := range id {
				id[i] = i
			}
			for rot := 0; rot < n; rot++ {
				o := append(append([]int{}, id[rot:]...), id[:rot]...)
				orders = append(orders, o)
			}
			rev := make([]int, n)
			for i := range rev {
				rev[i] = n - 1 - i
			}
			orders = append(orders, rev)
		}
		idx := make([]int, n)
		for {
			lens := make([]int, n)
			for i := range idx {
				lens[i] = L[idx[i]]
			}
			for _, o := range orders {
				cases = append(cases, raggedCase{lens, o, false}, raggedCase{lens, o, true})
			}
			k := n - 1
			for k >= 0 {
				idx[k]++
				if idx[k] < len(L) {
					break
				}
				idx[k] = 0
				k--
			}
			if k < 0 {
				break
			}
		}
	}
	return cases
}

func runRagged() {
	cases := raggedCases()
	var nComplete, emptyFirst, emptyInterior, emptyLast int64
	par.For(int64(len(cases)), 64, nil, func(i int64) {
		c := cases[i]
		evs, complete := raggedOne(c.lens, c.order, c.wire)
		for _, o := range evs {
			record(Case{Phase: "ragged", Config: lensString(c.lens), History: intsToStrings(c.order), Token: strconv.FormatBool(c.wire)}, o)
		}
		if complete {
			atomic.AddInt64(&nComplete, 1)
			n := len(c.lens)
			if n >= 2 && c.lens[0] == 0 {
				atomic.AddInt64(&emptyFirst, 1)
			}
			if n >= 2 && c.lens[n-1] == 0 {
				atomic.AddInt64(&emptyLast, 1)
			}
			for k := 1; k < n-1; k++ {
				if c.lens[k] == 0 {
					atomic.AddInt64(&emptyInterior, 1)
					break
				}
			}
		}
	})
	r.Add("ragged_cases", int64(len(cases)))
	r.Add("ragged_complete_sets_read", nComplete)
	r.Add("ragged_complete_with_empty_first_part", emptyFirst)
	r.Add("ragged_complete_with_empty_interior_part", emptyInterior)
	r.Add("ragged_complete_with_empty_last_part", emptyLast)
	r.Add("cases", int64(len(cases)))
	if len(found) == 0 {
		r.Require(emptyFirst > 0 && emptyInterior > 0 && emptyLast > 0, "ragged phase: no complete set with an empty first / interior / last part was read")
	}
}

func lensString(l []int) string { return strings.Join(intsToStrings(l), ",") }

func intsToStrings(a []int) []string {
	out := make([]string, len(a))
	for i, x := range a {
		out[i] = strconv.Itoa(x)
	}
	return out
}

func stringsToInts(a []string) []int {
	out := make([]int, 0, len(a))
	for _, s := range a {
		if s == "" {
			continue
		}
		x, _ := strconv.Atoi(s)
		out = append(out, x)
	}
	return out
}

func rerunRagged(c Case) []obs {
	evs, _ := raggedOne(stringsToInts(strings.Split(c.Config, ",")), stringsToInts(c.History), c.Token == "true")
	return evs
}
