package main

// (b) Single-field mutation matrix of the block family, applied to the wire form (kproto.Block), decoded the
// way consensus decodes a completed proposal (proto bytes -> BlockFromProto with the stack-trie hasher) and
// validated with the real BlockExecutor.ValidateBlock against the chain state.

import (
	"bytes"
	"fmt"
	"reflect"
	"sort"
	"strings"
	"time"

	"github.com/gogo/protobuf/proto"
	"github.com/kardiachain/go-kardia/lib/common"
	"github.com/kardiachain/go-kardia/lib/crypto"
	"github.com/kardiachain/go-kardia/lib/rlp"
	kproto "github.com/kardiachain/go-kardia/proto/kardiachain/types"
	"github.com/kardiachain/go-kardia/types"

	"verif/mc/par"
)

type mutation struct {
	id    string
	class string
	apply func(pb *kproto.Block)
}

type mutList struct{ ms []mutation }

func (l *mutList) add(class, alt string, f func(pb *kproto.Block)) {
	l.ms = append(l.ms, mutation{id: class + ":" + alt, class: class, apply: f})
}

func (l *mutList) u64(class string, get func(pb *kproto.Block) *uint64) {
	l.add(class, "+1", func(pb *kproto.Block) { *get(pb)++ })
	l.add(class, "-1", func(pb *kproto.Block) { *get(pb)-- })
	l.add(class, "0", func(pb *kproto.Block) { *get(pb) = 0 })
	l.add(class, "1", func(pb *kproto.Block) { *get(pb) = 1 })
	l.add(class, "max", func(pb *kproto.Block) { *get(pb) = ^uint64(0) })
}

func (l *mutList) u32(class string, get func(pb *kproto.Block) *uint32) {
	l.add(class, "+1", func(pb *kproto.Block) { *get(pb)++ })
	l.add(class, "-1", func(pb *kproto.Block) { *get(pb)-- })
	l.add(class, "0", func(pb *kproto.Block) { *get(pb) = 0 })
	l.add(class, "max", func(pb *kproto.Block) { *get(pb) = ^uint32(0) })
}

func (l *mutList) i64(class string, get func(pb *kproto.Block) *int64) {
	l.add(class, "+1", func(pb *kproto.Block) { *get(pb)++ })
	l.add(class, "-1", func(pb *kproto.Block) { *get(pb)-- })
	l.add(class, "0", func(pb *kproto.Block) { *get(pb) = 0 })
	l.add(class, "negated", func(pb *kproto.Block) { *get(pb) = -*get(pb) })
}

func (l *mutList) tm(class string, get func(pb *kproto.Block) *time.Time) {
	l.add(class, "+1ns", func(pb *kproto.Block) { *get(pb) = get(pb).Add(1) })
	l.add(class, "-1ns", func(pb *kproto.Block) { *get(pb) = get(pb).Add(-1) })
	l.add(class, "+1s", func(pb *kproto.Block) { *get(pb) = get(pb).Add(time.Second) })
	l.add(class, "zero", func(pb *kproto.Block) { *get(pb) = time.Time{} })
	l.add(class, "unix0", func(pb *kproto.Block) { *get(pb) = time.Unix(0, 0).UTC() })
}

// bz: hash / address / signature like byte strings
func (l *mutList) bz(class string, get func(pb *kproto.Block) *[]byte) {
	cp := func(pb *kproto.Block) []byte { return append([]byte{}, *get(pb)...) }
	l.add(class, "bitflip-first", func(pb *kproto.Block) {
		b := cp(pb)
		if len(b) > 0 {
			b[0] ^= 0x80
		}
		*get(pb) = b
	})
	l.add(class, "bitflip-last", func(pb *kproto.Block) {
		b := cp(pb)
		if len(b) > 0 {
			b[len(b)-1] ^= 1
		}
		*get(pb) = b
	})
	l.add(class, "empty", func(pb *kproto.Block) { *get(pb) = nil })
	l.add(class, "other", func(pb *kproto.Block) {
		b := cp(pb)
		for i := range b {
			b[i] = 0xee
		}
		if len(b) == 0 {
			b = bytes.Repeat([]byte{0xee}, 32)
		}
		*get(pb) = b
	})
	l.add(class, "drop-first-byte", func(pb *kproto.Block) {
		b := cp(pb)
		if len(b) > 0 {
			b = b[1:]
		}
		*get(pb) = b
	})
	l.add(class, "drop-last-byte", func(pb *kproto.Block) {
		b := cp(pb)
		if len(b) > 0 {
			b = b[:len(b)-1]
		}
		*get(pb) = b
	})
	l.add(class, "prepend-zero-byte", func(pb *kproto.Block) { *get(pb) = append([]byte{0}, cp(pb)...) })
	l.add(class, "prepend-nonzero-byte", func(pb *kproto.Block) { *get(pb) = append([]byte{7}, cp(pb)...) })
	l.add(class, "append-byte", func(pb *kproto.Block) { *get(pb) = append(cp(pb), 0) })
}

func (l *mutList) everyByte(class string, n int, get func(pb *kproto.Block) *[]byte) {
	for i := 0; i < n; i++ {
		i := i
		l.add(class, fmt.Sprintf("byte[%d]^1", i), func(pb *kproto.Block) {
			b := append([]byte{}, *get(pb)...)
			if i < len(b) {
				b[i] ^= 1
			}
			*get(pb) = b
		})
	}
}

// blockID: flat=true keeps one class for the whole id (the sub-field goes into the mutation id only).
func (l *mutList) blockID(class string, get func(pb *kproto.Block) *kproto.BlockID, flat bool) {
	sub := func(s string) string {
		if flat {
			return class
		}
		return class + s
	}
	alt := func(s string) string {
		if flat {
			return s[1:] + ":"
		}
		return ""
	}
	pre := len(l.ms)
	l.bz(sub(".hash"), func(pb *kproto.Block) *[]byte { return &get(pb).Hash })
	for k := pre; k < len(l.ms); k++ {
		l.ms[k].id = sub(".hash") + ":" + alt(".hash") + l.ms[k].id[len(sub(".hash"))+1:]
	}
	pre = len(l.ms)
	l.u32(sub(".parts.total"), func(pb *kproto.Block) *uint32 { return &get(pb).PartSetHeader.Total })
	for k := pre; k < len(l.ms); k++ {
		l.ms[k].id = sub(".parts.total") + ":" + alt(".parts.total") + l.ms[k].id[len(sub(".parts.total"))+1:]
	}
	pre = len(l.ms)
	l.bz(sub(".parts.hash"), func(pb *kproto.Block) *[]byte { return &get(pb).PartSetHeader.Hash })
	for k := pre; k < len(l.ms); k++ {
		l.ms[k].id = sub(".parts.hash") + ":" + alt(".parts.hash") + l.ms[k].id[len(sub(".parts.hash"))+1:]
	}
	l.add(class, "zero", func(pb *kproto.Block) { *get(pb) = kproto.BlockID{} })
	l.add(sub(".hash"), alt(".hash")+"swap-with-parts-hash", func(pb *kproto.Block) {
		id := get(pb)
		id.Hash, id.PartSetHeader.Hash = id.PartSetHeader.Hash, id.Hash
	})
}

func (l *mutList) vote(class string, get func(pb *kproto.Block) *kproto.Vote, sigLen int) {
	l.add(class+".type", "other", func(pb *kproto.Block) {
		v := get(pb)
		if v.Type == kproto.PrevoteType {
			v.Type = kproto.PrecommitType
		} else {
			v.Type = kproto.PrevoteType
		}
	})
	l.add(class+".type", "proposal", func(pb *kproto.Block) { get(pb).Type = kproto.ProposalType })
	l.add(class+".type", "0", func(pb *kproto.Block) { get(pb).Type = 0 })
	l.u64(class+".height", func(pb *kproto.Block) *uint64 { return &get(pb).Height })
	l.u32(class+".round", func(pb *kproto.Block) *uint32 { return &get(pb).Round })
	l.blockID(class+".block_id", func(pb *kproto.Block) *kproto.BlockID { return &get(pb).BlockID }, false)
	l.tm(class+".timestamp", func(pb *kproto.Block) *time.Time { return &get(pb).Timestamp })
	l.bz(class+".validator_address", func(pb *kproto.Block) *[]byte { return &get(pb).ValidatorAddress })
	l.u32(class+".validator_index", func(pb *kproto.Block) *uint32 { return &get(pb).ValidatorIndex })
	l.bz(class+".signature", func(pb *kproto.Block) *[]byte { return &get(pb).Signature })
	l.everyByte(class+".signature", sigLen, func(pb *kproto.Block) *[]byte { return &get(pb).Signature })
}

func rlpTx(tx *types.Transaction) []byte {
	b, err := rlp.EncodeToBytes(tx)
	if err != nil {
		panic(err)
	}
	return b
}

func cloneBlockPB(bz []byte) *kproto.Block {
	var pb kproto.Block
	if err := proto.Unmarshal(bz, &pb); err != nil {
		panic(err)
	}
	return &pb
}

// mutationsFor enumerates every single-field mutation of the wire form of b.
func mutationsFor(b *baseBlock) []mutation {
	if b.bigTxs {
		return bigTxMutations(b)
	}
	l := &mutList{}
	seed := b.pb
	H := func(pb *kproto.Block) *kproto.Header { return &pb.Header }

	// ---- header: every field
	l.add("header.chain_id(wire-only)", "set", func(pb *kproto.Block) { H(pb).ChainID = "other-chain" })
	l.u64("header.height", func(pb *kproto.Block) *uint64 { return &H(pb).Height })
	l.u64("header.gas_limit", func(pb *kproto.Block) *uint64 { return &H(pb).GasLimit })
	l.tm("header.time", func(pb *kproto.Block) *time.Time { return &H(pb).Time })
	l.blockID("header.last_block_id", func(pb *kproto.Block) *kproto.BlockID { return &H(pb).LastBlockId }, false)
	l.add("header.last_block_id", "other-block", func(pb *kproto.Block) {
		H(pb).LastBlockId = kproto.BlockID{Hash: hashOf(0x55).Bytes(), PartSetHeader: kproto.PartSetHeader{Total: 1, Hash: hashOf(0x56).Bytes()}}
	})
	hashFields := []struct {
		n string
		g func(h *kproto.Header) *[]byte
	}{
		{"last_commit_hash", func(h *kproto.Header) *[]byte { return &h.LastCommitHash }},
		{"data_hash", func(h *kproto.Header) *[]byte { return &h.DataHash }},
		{"validators_hash", func(h *kproto.Header) *[]byte { return &h.ValidatorsHash }},
		{"next_validators_hash", func(h *kproto.Header) *[]byte { return &h.NextValidatorsHash }},
		{"consensus_hash", func(h *kproto.Header) *[]byte { return &h.ConsensusHash }},
		{"app_hash", func(h *kproto.Header) *[]byte { return &h.AppHash }},
		{"evidence_hash", func(h *kproto.Header) *[]byte { return &h.EvidenceHash }},
	}
	for _, hf := range hashFields {
		hf := hf
		l.bz("header."+hf.n, func(pb *kproto.Block) *[]byte { return hf.g(H(pb)) })
		// set to the value of each other hash field (e.g. data hash := evidence hash)
		for _, of := range hashFields {
			of := of
			if of.n == hf.n {
				continue
			}
			l.add("header."+hf.n, "copy-of-"+of.n, func(pb *kproto.Block) { *hf.g(H(pb)) = append([]byte{}, *of.g(H(pb))...) })
		}
	}
	l.bz("header.proposer_address", func(pb *kproto.Block) *[]byte { return &H(pb).ProposerAddress })
	for k := range valAddrs {
		k := k
		l.add("header.proposer_address", fmt.Sprintf("validator-%d", k), func(pb *kproto.Block) { H(pb).ProposerAddress = valAddrs[k].Bytes() })
	}
	l.add("header.proposer_address", "non-validator", func(pb *kproto.Block) { H(pb).ProposerAddress = crypto.PubkeyToAddress(extraKey.PublicKey).Bytes() })
	l.u64("header.num_txs", func(pb *kproto.Block) *uint64 { return &H(pb).NumTxs })
	l.add("header.num_txs", "len(txs)+1", func(pb *kproto.Block) { H(pb).NumTxs = uint64(len(pb.Data.Txs)) + 1 })

	// ---- transactions
	ntx := len(seed.Data.Txs)
	extra := rlpTx(txPool[4])
	interesting := func(i int) bool { return ntx <= 8 || i < 2 || i >= ntx-2 || (i >= 126 && i <= 129) }
	for p := 0; p <= ntx; p++ {
		p := p
		if !interesting(p) && p != ntx {
			continue
		}
		l.add("tx.insert", fmt.Sprintf("at-%d", p), func(pb *kproto.Block) {
			t := append([][]byte{}, pb.Data.Txs[:p]...)
			t = append(t, extra)
			pb.Data.Txs = append(t, pb.Data.Txs[p:]...)
		})
	}
	for i := 0; i < ntx; i++ {
		i := i
		if !interesting(i) {
			continue
		}
		l.add("tx.remove", fmt.Sprintf("%d", i), func(pb *kproto.Block) {
			t := append([][]byte{}, pb.Data.Txs[:i]...)
			pb.Data.Txs = append(t, pb.Data.Txs[i+1:]...)
		})
		l.add("tx.duplicate", fmt.Sprintf("%d", i), func(pb *kproto.Block) {
			t := append([][]byte{}, pb.Data.Txs[:i+1]...)
			t = append(t, pb.Data.Txs[i])
			pb.Data.Txs = append(t, pb.Data.Txs[i+1:]...)
		})
		l.add("tx.replace", fmt.Sprintf("%d", i), func(pb *kproto.Block) { pb.Data.Txs[i] = extra })
		l.add("tx.replace", fmt.Sprintf("%d-by-empty-bytes", i), func(pb *kproto.Block) { pb.Data.Txs[i] = nil })
		l.add("tx.alter", fmt.Sprintf("%d:append-byte", i), func(pb *kproto.Block) { pb.Data.Txs[i] = append(append([]byte{}, pb.Data.Txs[i]...), 0) })
		l.add("tx.alter", fmt.Sprintf("%d:drop-last-byte", i), func(pb *kproto.Block) { pb.Data.Txs[i] = append([]byte{}, pb.Data.Txs[i][:len(pb.Data.Txs[i])-1]...) })
		l.everyByte("tx.alter", len(seed.Data.Txs[i]), func(pb *kproto.Block) *[]byte { return &pb.Data.Txs[i] })
		// the ids of everyByte mutations must name the transaction
		for k := len(l.ms) - len(seed.Data.Txs[i]); k < len(l.ms); k++ {
			l.ms[k].id = fmt.Sprintf("tx.alter:%d:%s", i, l.ms[k].id[len("tx.alter:"):])
		}
		for j := i + 1; j < ntx; j++ {
			j := j
			if !interesting(j) || (ntx > 8 && j != i+1 && !(i == 0 && j == ntx-1)) {
				continue
			}
			l.add("tx.swap", fmt.Sprintf("%d<->%d", i, j), func(pb *kproto.Block) { pb.Data.Txs[i], pb.Data.Txs[j] = pb.Data.Txs[j], pb.Data.Txs[i] })
		}
	}
	if ntx > 0 {
		l.add("tx.remove", "all", func(pb *kproto.Block) { pb.Data.Txs = nil })
		l.add("tx.reverse", "all", func(pb *kproto.Block) {
			t := append([][]byte{}, pb.Data.Txs...)
			for x, y := 0, len(t)-1; x < y; x, y = x+1, y-1 {
				t[x], t[y] = t[y], t[x]
			}
			pb.Data.Txs = t
		})
	}

	// ---- last commit
	l.add("lastcommit.removed", "nil", func(pb *kproto.Block) { pb.LastCommit = nil })
	if seed.LastCommit != nil {
		C := func(pb *kproto.Block) *kproto.Commit { return pb.LastCommit }
		l.u64("lastcommit.height", func(pb *kproto.Block) *uint64 { return &C(pb).Height })
		l.add("lastcommit.height", "block-height", func(pb *kproto.Block) { C(pb).Height = pb.Header.Height })
		l.u32("lastcommit.round", func(pb *kproto.Block) *uint32 { return &C(pb).Round })
		l.add("lastcommit.round", "7", func(pb *kproto.Block) { C(pb).Round = 7 })
		l.blockID("lastcommit.block_id", func(pb *kproto.Block) *kproto.BlockID { return &C(pb).BlockID }, true)
		l.add("lastcommit.block_id", "other-block", func(pb *kproto.Block) {
			C(pb).BlockID = kproto.BlockID{Hash: hashOf(0x55).Bytes(), PartSetHeader: kproto.PartSetHeader{Total: 1, Hash: hashOf(0x56).Bytes()}}
		})
		l.add("lastcommit.block_id", "this-blocks-last-block-id", func(pb *kproto.Block) { C(pb).BlockID = pb.Header.LastBlockId })
		ns := len(seed.LastCommit.Signatures)
		absent := kproto.CommitSig{BlockIdFlag: kproto.BlockIDFlagAbsent}
		l.add("lastcommit.sigs.append", "absent", func(pb *kproto.Block) {
			C(pb).Signatures = append(append([]kproto.CommitSig{}, C(pb).Signatures...), absent)
		})
		l.add("lastcommit.sigs.prepend", "absent", func(pb *kproto.Block) {
			C(pb).Signatures = append([]kproto.CommitSig{absent}, C(pb).Signatures...)
		})
		if ns > 0 {
			l.add("lastcommit.sigs.remove", "all", func(pb *kproto.Block) { C(pb).Signatures = nil })
			l.add("lastcommit.sigs.append", "copy-of-first", func(pb *kproto.Block) {
				C(pb).Signatures = append(append([]kproto.CommitSig{}, C(pb).Signatures...), C(pb).Signatures[0])
			})
		}
		for i := 0; i < ns; i++ {
			i := i
			S := func(pb *kproto.Block) *kproto.CommitSig { return &C(pb).Signatures[i] }
			l.add("lastcommit.sigs.remove", fmt.Sprintf("%d", i), func(pb *kproto.Block) {
				t := append([]kproto.CommitSig{}, C(pb).Signatures[:i]...)
				C(pb).Signatures = append(t, C(pb).Signatures[i+1:]...)
			})
			l.add("lastcommit.sigs.make-absent", fmt.Sprintf("%d", i), func(pb *kproto.Block) { *S(pb) = absent })
			for j := i + 1; j < ns; j++ {
				j := j
				l.add("lastcommit.sigs.swap", fmt.Sprintf("%d<->%d", i, j), func(pb *kproto.Block) {
					s := append([]kproto.CommitSig{}, C(pb).Signatures...)
					s[i], s[j] = s[j], s[i]
					C(pb).Signatures = s
				})
				l.add("lastcommit.sig.signature", fmt.Sprintf("%d:swap-with-%d", i, j), func(pb *kproto.Block) {
					s := append([]kproto.CommitSig{}, C(pb).Signatures...)
					s[i].Signature, s[j].Signature = s[j].Signature, s[i].Signature
					C(pb).Signatures = s
				})
				l.add("lastcommit.sig.timestamp", fmt.Sprintf("%d:swap-with-%d", i, j), func(pb *kproto.Block) {
					s := append([]kproto.CommitSig{}, C(pb).Signatures...)
					s[i].Timestamp, s[j].Timestamp = s[j].Timestamp, s[i].Timestamp
					C(pb).Signatures = s
				})
			}
			for _, f := range []kproto.BlockIDFlag{0, 1, 2, 3, 4} {
				f := f
				l.add("lastcommit.sig.flag", fmt.Sprintf("%d:=%d", i, int32(f)), func(pb *kproto.Block) { S(pb).BlockIdFlag = f })
			}
			pre := len(l.ms)
			l.bz("lastcommit.sig.validator_address", func(pb *kproto.Block) *[]byte { return &S(pb).ValidatorAddress })
			for k := range valAddrs {
				k := k
				l.add("lastcommit.sig.validator_address", fmt.Sprintf("validator-%d", k), func(pb *kproto.Block) { S(pb).ValidatorAddress = valAddrs[k].Bytes() })
			}
			l.tm("lastcommit.sig.timestamp", func(pb *kproto.Block) *time.Time { return &S(pb).Timestamp })
			l.bz("lastcommit.sig.signature", func(pb *kproto.Block) *[]byte { return &S(pb).Signature })
			l.everyByte("lastcommit.sig.signature", len(seed.LastCommit.Signatures[i].Signature), func(pb *kproto.Block) *[]byte { return &S(pb).Signature })
			l.add("lastcommit.sig.signature", "65-zero-bytes", func(pb *kproto.Block) { S(pb).Signature = make([]byte, 65) })
			for k := pre; k < len(l.ms); k++ {
				c := l.ms[k].class
				l.ms[k].id = fmt.Sprintf("%s:%d:%s", c, i, l.ms[k].id[len(c)+1:])
			}
		}
	}

	// ---- evidence
	nev := len(seed.Evidence.Evidence)
	mkEv := func(k int, n byte) kproto.Evidence {
		p, err := types.EvidenceToProto(makeEvidence(k, n))
		if err != nil {
			panic(err)
		}
		return *p
	}
	newEv := mkEv(3, 9)
	for p := 0; p <= nev; p++ {
		p := p
		l.add("evidence.insert", fmt.Sprintf("at-%d", p), func(pb *kproto.Block) {
			t := append([]kproto.Evidence{}, pb.Evidence.Evidence[:p]...)
			t = append(t, newEv)
			pb.Evidence.Evidence = append(t, pb.Evidence.Evidence[p:]...)
		})
	}
	if nev > 0 {
		l.add("evidence.remove", "all", func(pb *kproto.Block) { pb.Evidence.Evidence = nil })
	}
	for i := 0; i < nev; i++ {
		i := i
		l.add("evidence.remove", fmt.Sprintf("%d", i), func(pb *kproto.Block) {
			t := append([]kproto.Evidence{}, pb.Evidence.Evidence[:i]...)
			pb.Evidence.Evidence = append(t, pb.Evidence.Evidence[i+1:]...)
		})
		l.add("evidence.duplicate", fmt.Sprintf("%d", i), func(pb *kproto.Block) {
			pb.Evidence.Evidence = append(append([]kproto.Evidence{}, pb.Evidence.Evidence...), pb.Evidence.Evidence[i])
		})
		l.add("evidence.replace", fmt.Sprintf("%d", i), func(pb *kproto.Block) { pb.Evidence.Evidence[i] = newEv })
		l.add("evidence.replace", fmt.Sprintf("%d-by-empty-oneof", i), func(pb *kproto.Block) { pb.Evidence.Evidence[i] = kproto.Evidence{} })
		for j := i + 1; j < nev; j++ {
			j := j
			l.add("evidence.swap", fmt.Sprintf("%d<->%d", i, j), func(pb *kproto.Block) {
				e := append([]kproto.Evidence{}, pb.Evidence.Evidence...)
				e[i], e[j] = e[j], e[i]
				pb.Evidence.Evidence = e
			})
		}
		D := func(pb *kproto.Block) *kproto.DuplicateVoteEvidence {
			return pb.Evidence.Evidence[i].GetDuplicateVoteEvidence()
		}
		sd := seed.Evidence.Evidence[i].GetDuplicateVoteEvidence()
		if sd == nil || sd.VoteA == nil || sd.VoteB == nil {
			continue
		}
		pre := len(l.ms)
		l.vote("evidence.vote_a", func(pb *kproto.Block) *kproto.Vote { return D(pb).VoteA }, len(sd.VoteA.Signature))
		l.vote("evidence.vote_b", func(pb *kproto.Block) *kproto.Vote { return D(pb).VoteB }, len(sd.VoteB.Signature))
		l.add("evidence.vote_a", "nil", func(pb *kproto.Block) { D(pb).VoteA = nil })
		l.add("evidence.vote_b", "nil", func(pb *kproto.Block) { D(pb).VoteB = nil })
		l.add("evidence.votes", "swapped", func(pb *kproto.Block) { d := D(pb); d.VoteA, d.VoteB = d.VoteB, d.VoteA })
		l.i64("evidence.total_voting_power", func(pb *kproto.Block) *int64 { return &D(pb).TotalVotingPower })
		l.i64("evidence.validator_power", func(pb *kproto.Block) *int64 { return &D(pb).ValidatorPower })
		l.tm("evidence.timestamp", func(pb *kproto.Block) *time.Time { return &D(pb).Timestamp })
		for k := pre; k < len(l.ms); k++ {
			c := l.ms[k].class
			l.ms[k].id = fmt.Sprintf("%s:%d:%s", c, i, l.ms[k].id[len(c)+1:])
		}
	}
	// ids must be unique
	seen := map[string]bool{}
	for _, m := range l.ms {
		if seen[m.id] {
			panic("duplicate mutation id " + m.id + " for " + b.name)
		}
		seen[m.id] = true
	}
	return l.ms
}

// bigTxMutations: for EVERY position k of a long transaction list: replace tx k, swap k with k+1, drop k
// (NumTxs untouched / adjusted), duplicate k; plus insertion at every position.
func bigTxMutations(b *baseBlock) []mutation {
	l := &mutList{}
	n := len(b.pb.Data.Txs)
	extra := rlpTx(bigExtra)
	drop := func(pb *kproto.Block, k int) {
		t := append([][]byte{}, pb.Data.Txs[:k]...)
		pb.Data.Txs = append(t, pb.Data.Txs[k+1:]...)
	}
	for k := 0; k < n; k++ {
		k := k
		l.add("tx.replace", fmt.Sprintf("%d", k), func(pb *kproto.Block) { pb.Data.Txs[k] = extra })
		if k+1 < n {
			l.add("tx.swap", fmt.Sprintf("%d<->%d", k, k+1), func(pb *kproto.Block) { pb.Data.Txs[k], pb.Data.Txs[k+1] = pb.Data.Txs[k+1], pb.Data.Txs[k] })
		}
		l.add("tx.remove", fmt.Sprintf("%d", k), func(pb *kproto.Block) { drop(pb, k) })
		l.add("tx.remove+num_txs", fmt.Sprintf("%d", k), func(pb *kproto.Block) { drop(pb, k); pb.Header.NumTxs-- })
		l.add("tx.duplicate", fmt.Sprintf("%d", k), func(pb *kproto.Block) {
			t := append([][]byte{}, pb.Data.Txs[:k+1]...)
			t = append(t, pb.Data.Txs[k])
			pb.Data.Txs = append(t, pb.Data.Txs[k+1:]...)
		})
	}
	for p := 0; p <= n; p++ {
		p := p
		l.add("tx.insert", fmt.Sprintf("at-%d", p), func(pb *kproto.Block) {
			t := append([][]byte{}, pb.Data.Txs[:p]...)
			t = append(t, extra)
			pb.Data.Txs = append(t, pb.Data.Txs[p:]...)
		})
	}
	l.add("tx.swap", fmt.Sprintf("0<->%d", n-1), func(pb *kproto.Block) { pb.Data.Txs[0], pb.Data.Txs[n-1] = pb.Data.Txs[n-1], pb.Data.Txs[0] })
	l.add("tx.remove", "all", func(pb *kproto.Block) { pb.Data.Txs = nil })
	return l.ms
}

func heightClass(b *baseBlock) string {
	if b.height == b.state.InitialHeight {
		return "initial"
	}
	return "later"
}

// txPosClass names the region of a long transaction list a mutation id touches: DeriveSha inserts the
// indices 1..0x7f, then 0, then 0x80..; a defect in one run or at a run boundary gets its own signature.
func txPosClass(id string) string {
	i := strings.Index(id, ":")
	if i < 0 {
		return ""
	}
	rest := strings.TrimPrefix(id[i+1:], "at-")
	k := 0
	nd := 0
	for nd < len(rest) && rest[nd] >= '0' && rest[nd] <= '9' {
		k = k*10 + int(rest[nd]-'0')
		nd++
	}
	if nd == 0 {
		return ""
	}
	switch {
	case k == 0:
		return "0"
	case k < 0x7e:
		return "1..0x7d"
	case k <= 0x81:
		return fmt.Sprintf("0x%x", k)
	case k < 0xff:
		return "0x82..0xfe"
	default:
		return "0xff.."
	}
}

func mutSig(b *baseBlock, m *mutation, path, oracle string) string {
	if b.bigTxs {
		return fmt.Sprintf("C13|height=%s|txs>=127|mutation=%s|position=%s|path=%s|oracle=%s", heightClass(b), m.class, txPosClass(m.id), path, oracle)
	}
	if path == "" {
		return fmt.Sprintf("C13|height=%s|mutation=%s|oracle=%s", heightClass(b), m.class, oracle)
	}
	return fmt.Sprintf("C13|height=%s|mutation=%s|path=%s|oracle=%s", heightClass(b), m.class, path, oracle)
}

type mutResult struct {
	outcome  string
	obs      []obs
	blockKey string // canonical encoding of the decoded mutated block (a distinct block state)
	validHdr bool   // hash changed and the block still validates (information only)
}

const (
	pathFresh = "fresh-executor"
	pathWarm  = "executor-that-validated-the-original"
)

// evalMutation executes one mutation of one base block on the real code.
func evalMutation(b *baseBlock, m *mutation) (res mutResult) {
	pb := cloneBlockPB(b.bz)
	if p, pv := safely(func() { m.apply(pb) }); p {
		res.outcome = "not-applicable"
		_ = pv
		return
	}
	bz, err := proto.Marshal(pb)
	if err != nil {
		res.outcome = "not-encodable"
		return
	}
	if bytes.Equal(bz, b.bz) {
		res.outcome = "same-wire-bytes"
		return
	}
	var blk *types.Block
	var h common.Hash
	var rebz []byte
	var reerr error
	p, pv := safely(func() {
		blk, err = decodeBlock(bz)
		if err == nil {
			h = blk.Hash()
			rebz, reerr = encodeBlock(blk)
		}
	})
	if p {
		res.outcome = "decode-panics"
		res.obs = append(res.obs, obs{mutSig(b, m, "", "decode-panics"), fmt.Sprintf("%s, mutation %s: decoding the mutated wire block panicked: %s", b.name, m.id, pv)})
		return
	}
	if err != nil {
		res.outcome = "rejected-by-decode"
		return
	}
	if reerr == nil {
		res.blockKey = string(rebz)
	}
	if h != b.decoded.Hash() {
		res.outcome = "hash-changed"
		if e, pv := validate(newExec(), b.state, blk); e == nil && pv == "" {
			res.validHdr = true
		}
		return
	}
	if reerr == nil && bytes.Equal(rebz, b.bz) {
		res.outcome = "decodes-to-the-same-block"
		return
	}
	// A nil LastCommit and the empty commit of the initial height say the same thing (no field of the
	// commit differs); weakest reading: not a content change. It must still not panic.
	equivalent := false
	if blk.LastCommit() == nil && b.decoded.LastCommit() != nil && len(b.decoded.LastCommit().Signatures) == 0 {
		safely(func() {
			if blk2, err := decodeBlock(bz); err == nil {
				blk2.SetLastCommit(types.NewCommit(b.decoded.LastCommit().Height, b.decoded.LastCommit().Round, b.decoded.LastCommit().BlockID, nil))
				if e2, err := encodeBlock(blk2); err == nil && bytes.Equal(e2, b.bz) {
					equivalent = true
				}
			}
		})
	}
	// same id, different content: it must not be acceptable
	e, pv := validate(newExec(), b.state, blk)
	switch {
	case pv != "":
		res.outcome = "validate-panics"
		res.obs = append(res.obs, obs{mutSig(b, m, pathFresh, "validate-panics"),
			fmt.Sprintf("%s, mutation %s: the block decodes, keeps hash %s, and ValidateBlock panics: %s", b.name, m.id, h.Hex(), pv)})
	case equivalent:
		res.outcome = "decodes-to-an-equivalent-block"
		return
	case e == nil:
		res.outcome = "VIOLATION-fresh"
		res.obs = append(res.obs, obs{mutSig(b, m, pathFresh, "same-hash-still-valid"),
			fmt.Sprintf("%s, mutation %s: the mutated block differs from the original (wire %d vs %d bytes), decodes, keeps Block.Hash() %s and ValidateBlock accepts it on a fresh executor",
				b.name, m.id, len(rebz), len(b.bz), h.Hex())})
		return
	default:
		res.outcome = "rejected-by-validate"
	}
	if equivalent {
		return
	}
	// the same executor object after it validated the original (a validator that saw the valid proposal first)
	ex := newExec()
	orig, err := decodeBlock(b.bz) // a private copy of the original: b.decoded is shared between goroutines
	if err != nil {
		return
	}
	if e0, pv0 := validate(ex, b.state, orig); e0 != nil || pv0 != "" {
		return
	}
	e2, pv2 := validate(ex, b.state, blk)
	if pv2 != "" {
		res.obs = append(res.obs, obs{mutSig(b, m, pathWarm, "validate-panics"), fmt.Sprintf("%s, mutation %s: ValidateBlock panics: %s", b.name, m.id, pv2)})
	} else if e2 == nil {
		res.outcome = "VIOLATION-warm"
		res.obs = append(res.obs, obs{mutSig(b, m, pathWarm, "same-hash-still-valid"),
			fmt.Sprintf("%s, mutation %s: a fresh executor rejects the mutated block (%v), but the executor that validated the original accepts it: "+
				"ValidateBlock caches by Block.Hash(), which the mutation does not change (hash %s)", b.name, m.id, e, h.Hex())})
	}
	return
}

func runMutations() {
	type job struct {
		b *baseBlock
		m *mutation
	}
	var jobs []job
	usable := 0
	var sampleBases []string
	for _, b := range family {
		prepareBase(b)
		if !b.usable {
			continue
		}
		usable++
		r.Distinct("block_states", string(b.bz))
		sampleBases = append(sampleBases, b.name)
		ms := mutationsFor(b)
		for i := range ms {
			jobs = append(jobs, job{b, &ms[i]})
		}
	}
	r.Set("block_family", sampleBases)
	r.Add("block_family_size", int64(len(family)))
	r.Add("block_family_usable_as_seed", int64(usable))
	r.Require(usable >= 2, "fewer than 2 blocks of the family survive the wire round trip and validate against the chain state")
	h1, h2 := false, false
	for _, b := range family {
		if b.usable && b.height == 1 {
			h1 = true
		}
		if b.usable && b.height == 2 {
			h2 = true
		}
	}
	r.Require(h1 && h2, "the usable block family does not cover both heights")
	res := make([]mutResult, len(jobs))
	done := par.For(int64(len(jobs)), 16, r.Expired, func(i int64) { res[i] = evalMutation(jobs[i].b, jobs[i].m) })
	if done < int64(len(jobs)) {
		r.NotExhaustive(fmt.Sprintf("mutation matrix: %d of %d done", done, len(jobs)))
	}
	outcomes := map[string]int64{}
	unvalidated := map[string]bool{}
	sameAfterDecode := map[string]int64{} // wire-level changes that the decoder normalises away (no content change)
	for i, x := range res {
		if x.outcome == "" {
			continue
		}
		j := jobs[i]
		outcomes[x.outcome]++
		r.Add("transitions", 1)
		r.Add("traces_validated_against_impl", 1)
		r.Add("block_mutations_evaluated", 1)
		if x.blockKey != "" {
			r.Distinct("block_states", x.blockKey)
		}
		switch x.outcome {
		case "same-wire-bytes", "not-applicable", "not-encodable", "decodes-to-the-same-block":
		default:
			r.Distinct("block_mutation_classes_effective", heightClass(j.b)+"|"+j.m.class)
		}
		r.Distinct("block_mutation_classes", j.m.class)
		if x.outcome == "decodes-to-the-same-block" || x.outcome == "decodes-to-an-equivalent-block" {
			sameAfterDecode[j.m.class]++
		}
		if x.validHdr {
			unvalidated[j.m.class] = true
		}
		for _, o := range x.obs {
			record(Case{Phase: "mutation", Block: j.b.name, Mutation: j.m.id}, o)
		}
		if r.WantSample() && (x.outcome == "rejected-by-validate" || (x.outcome == "rejected-by-decode" && i%97 == 0)) {
			r.Sample(map[string]interface{}{"block": j.b.name, "mutation": j.m.id, "outcome": x.outcome})
		}
	}
	r.Set("block_mutation_outcomes", outcomes)
	r.Set("wire_changes_normalised_away_by_the_decoder", sameAfterDecode)
	var uv []string
	for k := range unvalidated {
		uv = append(uv, k)
	}
	sort.Strings(uv)
	r.Set("header_fields_whose_change_alters_the_hash_but_is_not_checked_by_validation", uv)
	r.Require(outcomes["hash-changed"] > 0 && outcomes["rejected-by-decode"] > 0, "the mutation matrix never changed a hash or never produced a block rejected on decode")
	if done == int64(len(jobs)) {
		r.Require(outcomes["rejected-by-validate"]+outcomes["VIOLATION-fresh"]+outcomes["VIOLATION-warm"]+outcomes["validate-panics"] > 0,
			"no mutated block kept its hash and reached ValidateBlock: the state-dependent half of the oracle never ran")
	}
}

func rerunMutation(c Case) []obs {
	b := findBase(c.Block)
	if b == nil {
		return []obs{{"C13|machinery|unknown-block", c.Block}}
	}
	prepareBase(b)
	if !b.usable {
		return []obs{{"C13|machinery|seed-block-not-usable", c.Block}}
	}
	ms := mutationsFor(b)
	for i := range ms {
		if ms[i].id == c.Mutation {
			x := evalMutation(b, &ms[i])
			if len(x.obs) == 0 {
				fmt.Printf("mutation %s of %s: outcome %s\n", c.Mutation, c.Block, x.outcome)
			}
			return x.obs
		}
	}
	return []obs{{"C13|machinery|unknown-mutation", c.Mutation}}
}

// ---------------------------------------------------------------------------------------------
// Header.Hash() covers every header field; every field survives the header's wire form.

type hdrAlt struct {
	field string
	apply func(h *types.Header)
}

// headerAlts derives one alternative per leaf field of types.Header by reflection, so a field added to the
// struct is covered without touching the checker.
func headerAlts() (alts []hdrAlt, unknown []string) {
	t := reflect.TypeOf(types.Header{})
	var walk func(path string, idx []int, ft reflect.Type)
	walk = func(path string, idx []int, ft reflect.Type) {
		idx = append([]int{}, idx...)
		set := func(f func(v reflect.Value)) {
			alts = append(alts, hdrAlt{path, func(h *types.Header) { f(reflect.ValueOf(h).Elem().FieldByIndex(idx)) }})
		}
		switch {
		case ft == reflect.TypeOf(time.Time{}):
			set(func(v reflect.Value) { v.Set(reflect.ValueOf(v.Interface().(time.Time).Add(time.Nanosecond))) })
		case ft == reflect.TypeOf(common.Hash{}):
			set(func(v reflect.Value) { h := v.Interface().(common.Hash); h[31] ^= 1; v.Set(reflect.ValueOf(h)) })
		case ft == reflect.TypeOf(common.Address{}):
			set(func(v reflect.Value) { a := v.Interface().(common.Address); a[19] ^= 1; v.Set(reflect.ValueOf(a)) })
		case ft.Kind() == reflect.Uint64 || ft.Kind() == reflect.Uint32:
			set(func(v reflect.Value) { v.SetUint(v.Uint() + 1) })
		case ft.Kind() == reflect.Struct:
			for i := 0; i < ft.NumField(); i++ {
				if ft.Field(i).PkgPath != "" {
					continue
				}
				walk(path+"."+ft.Field(i).Name, append(idx, i), ft.Field(i).Type)
			}
		default:
			unknown = append(unknown, path+":"+ft.String())
		}
	}
	for i := 0; i < t.NumField(); i++ {
		if t.Field(i).PkgPath != "" {
			continue
		}
		walk(t.Field(i).Name, []int{i}, t.Field(i).Type)
	}
	return
}

func seedHeaders() map[string]*types.Header {
	hs := map[string]*types.Header{}
	hs["synthetic"] = &types.Header{
		Height: 7, Time: genesisTime.Add(3 * time.Second), NumTxs: 3, GasLimit: 5,
		LastBlockID:     types.BlockID{Hash: hashOf(1), PartsHeader: types.PartSetHeader{Total: 2, Hash: hashOf(3)}},
		ProposerAddress: common.BytesToAddress(bytes.Repeat([]byte{4}, 20)),
		LastCommitHash:  hashOf(5), TxHash: hashOf(6), ValidatorsHash: hashOf(7), NextValidatorsHash: hashOf(8),
		ConsensusHash: hashOf(9), AppHash: hashOf(10), EvidenceHash: hashOf(11),
	}
	for _, n := range []string{"h1/txs=3", "h2/commit=absent/txs=3/evidence=2"} {
		if b := findBase(n); b != nil {
			hs[n] = b.block.Header()
		}
	}
	return hs
}

func headerWire(h *types.Header) (types.Header, error) {
	bz, err := proto.Marshal(h.ToProto())
	if err != nil {
		return types.Header{}, err
	}
	var ph kproto.Header
	if err := proto.Unmarshal(bz, &ph); err != nil {
		return types.Header{}, err
	}
	return types.HeaderFromProto(&ph)
}

func evalHeaderAlt(seedName string, seed *types.Header, a hdrAlt) (out []obs) {
	p, pv := safely(func() {
		h2 := *seed
		a.apply(&h2)
		if reflect.DeepEqual(h2, *seed) {
			out = append(out, obs{"C13|machinery|header-alternative-is-a-noop", a.field})
			return
		}
		if h2.Hash() == seed.Hash() {
			out = append(out, obs{"C13|header-field=" + a.field + "|oracle=hash-does-not-cover-field",
				fmt.Sprintf("header %s: changing %s leaves Header.Hash() = %s unchanged", seedName, a.field, seed.Hash().Hex())})
		}
		back, err := headerWire(&h2)
		if err != nil {
			out = append(out, obs{"C13|roundtrip=header-proto|field=" + a.field + "|oracle=decode-error", fmt.Sprintf("header %s with %s changed: %v", seedName, a.field, err)})
			return
		}
		if d := diffHeader(&h2, &back); d != "" {
			out = append(out, obs{"C13|roundtrip=header-proto|field=" + d + "|oracle=field-changed",
				fmt.Sprintf("header %s with %s changed: field %s differs after ToProto -> bytes -> HeaderFromProto", seedName, a.field, d)})
		}
		if back.Hash() != h2.Hash() {
			out = append(out, obs{"C13|roundtrip=header-proto|field=" + a.field + "|oracle=hash-changed", fmt.Sprintf("header %s with %s changed: hash differs after the wire round trip", seedName, a.field)})
		}
	})
	if p {
		out = append(out, obs{"C13|header-field=" + a.field + "|oracle=panic", pv})
	}
	return
}

func runHeaderHash() {
	alts, unknown := headerAlts()
	r.Set("header_leaf_fields", len(alts))
	for _, u := range unknown {
		r.Vacuous("types.Header has a field of a kind the checker cannot perturb: " + u)
	}
	r.Require(len(alts) >= 15, "fewer than 15 header leaf fields found by reflection")
	seeds := seedHeaders()
	var names []string
	for n := range seeds {
		names = append(names, n)
	}
	sort.Strings(names)
	for _, n := range names {
		for _, a := range alts {
			r.Add("transitions", 1)
			r.Add("traces_validated_against_impl", 1)
			r.Add("header_field_evaluations", 1)
			r.Distinct("block_states", "hdr|"+n+"|"+a.field)
			for _, o := range evalHeaderAlt(n, seeds[n], a) {
				record(Case{Phase: "headerhash", Block: n, Item: a.field}, o)
			}
		}
	}
}

func rerunHeaderHash(c Case) []obs {
	alts, _ := headerAlts()
	seed := seedHeaders()[c.Block]
	if seed == nil {
		return []obs{{"C13|machinery|unknown-header-seed", c.Block}}
	}
	for _, a := range alts {
		if a.field == c.Item {
			return evalHeaderAlt(c.Block, seed, a)
		}
	}
	return []obs{{"C13|machinery|unknown-header-field", c.Item}}
}
