package main

// Free-running race pass (run.sh: checks/c13/RACEPASS, C13_RACE_PASS=1, binary built with -race).
//
// The enumerations of this check are cooperative: they cannot see unsynchronised writes to state that the
// code under test shares behind its interface (package-level scratch buffers, pools used without a lock).
// Here G goroutines run a FIXED number of iterations of every hashing / encoding entry point of the property,
// each on PRIVATE objects built inside the goroutine (nothing of the checker is shared except immutable wire
// bytes and addresses prepared before the goroutines start). The deciding oracle is the race detector; as a
// second oracle every goroutine compares each result with the value computed beforehand single-threaded.

import (
	"bytes"
	"fmt"
	"io/ioutil"
	"os"
	"sync"

	"github.com/gogo/protobuf/proto"
	"github.com/kardiachain/go-kardia/kai/state/cstate"
	"github.com/kardiachain/go-kardia/lib/merkle"
	kproto "github.com/kardiachain/go-kardia/proto/kardiachain/types"
	"github.com/kardiachain/go-kardia/trie"
	"github.com/kardiachain/go-kardia/types"
)

const (
	raceGoroutines = 8
	raceIterations = 12
)

// raceInputs: immutable inputs prepared single-threaded (only read by the goroutines).
type raceInputs struct {
	blocks   [][]byte // wire bytes of family blocks (with txs, evidence, commits; one long tx list)
	heights  []uint64
	bigBlock []byte
}

func privateState(height uint64) cstate.LatestBlockState {
	mkSet := func() *types.ValidatorSet {
		var vl []*types.Validator
		for _, a := range valAddrs {
			vl = append(vl, types.NewValidator(a, 10))
		}
		return types.NewValidatorSet(vl)
	}
	st := state0
	if height == 2 {
		st = state1
	}
	st.Validators, st.NextValidators, st.LastValidators = mkSet(), mkSet().CopyIncrementProposerPriority(1), mkSet()
	return st
}

// raceBody runs one iteration on private objects and returns its results in a fixed order.
func raceBody(in *raceInputs) (out []string) {
	add := func(k string, v interface{}) { out = append(out, fmt.Sprintf("%s=%v", k, v)) }
	// part sets: 1, 3, 5 parts of size 8 with a short last part, and a real block cut into 3 and 5 parts
	type src struct {
		name string
		data []byte
		ps   uint32
	}
	srcs := []src{{"1x8", mkData(1, 3, "distinct", 0), 8}, {"3x8", mkData(3, 3, "distinct", 0), 8}, {"5x8", mkData(5, 3, "distinct", 0), 8},
		{"block/3", append([]byte{}, in.blocks[0]...), uint32(len(in.blocks[0])/3 + 1)}, {"block/5", append([]byte{}, in.blocks[0]...), uint32(len(in.blocks[0])/5 + 1)}}
	for _, s := range srcs {
		set := types.NewPartSetFromData(s.data, s.ps)
		hd := set.Header()
		add("partset-header:"+s.name, hd)
		n := int(hd.Total)
		var leaves [][]byte
		for i := 0; i < n; i++ {
			leaves = append(leaves, append([]byte{}, set.GetPart(i).Bytes...))
		}
		add("simple-tree-root:"+s.name, fmt.Sprintf("%x", merkle.SimpleHashFromByteSlices(leaves)))
		root, proofs := merkle.SimpleProofsFromByteSlices(leaves)
		add("simple-proofs-root:"+s.name, fmt.Sprintf("%x", root))
		rcv := types.NewPartSetFromHeader(hd)
		for i := n - 1; i >= 0; i-- {
			g := clonePart(set.GetPart(i))
			add(fmt.Sprintf("verify:%s:%d", s.name, i), g.Proof.Verify(hd.Hash.Bytes(), g.Bytes) == nil && proofs[i].Verify(root, leaves[i]) == nil)
			// tampered bytes, relabelled index (with and without the proof index), wrong total
			t := clonePart(g)
			t.Bytes[0] ^= 1
			ok1, _ := rcv.AddPart(t)
			t = clonePart(g)
			t.Index = uint32((i + 1) % n)
			ok2 := false
			if n > 1 {
				ok2, _ = rcv.AddPart(t)
				t = clonePart(t)
				t.Proof.Index = uint64(t.Index)
				ok3, _ := rcv.AddPart(t)
				ok2 = ok2 || ok3
			}
			t = clonePart(g)
			t.Proof.Total++
			ok4, _ := rcv.AddPart(t)
			okg, _ := rcv.AddPart(g)
			add(fmt.Sprintf("addpart:%s:%d", s.name, i), fmt.Sprintf("tampered=%v relabelled=%v wrong-total=%v genuine=%v", ok1, ok2, ok4, okg))
		}
		got := []byte("incomplete")
		if rcv.IsComplete() {
			got, _ = ioutil.ReadAll(rcv.GetReader())
		}
		add("reassembled:"+s.name, bytes.Equal(got, s.data))
	}
	// blocks: decode a private copy, hashes of every component, part set, wire round trip, validation
	for k, bz := range in.blocks {
		blk, err := decodeBlock(bz)
		if err != nil {
			add(fmt.Sprintf("block%d:decode", k), err)
			continue
		}
		add(fmt.Sprintf("block%d:hash", k), blk.Hash().Hex())
		add(fmt.Sprintf("block%d:header-hash", k), blk.Header().Hash().Hex())
		if c := blk.LastCommit(); c != nil {
			add(fmt.Sprintf("block%d:commit-hash", k), c.Hash().Hex())
			var pc kproto.Commit
			cb, _ := proto.Marshal(c.ToProto())
			if proto.Unmarshal(cb, &pc) == nil {
				if c2, err := types.CommitFromProto(&pc); err == nil {
					add(fmt.Sprintf("block%d:commit-hash-after-wire", k), c2.Hash().Hex())
				}
			}
		}
		add(fmt.Sprintf("block%d:evidence-data-hash", k), blk.Evidence().Hash().Hex())
		add(fmt.Sprintf("block%d:evidence-list-hash", k), blk.Evidence().Evidence.Hash().Hex())
		add(fmt.Sprintf("block%d:tx-root", k), types.DeriveSha(blk.Transactions(), trie.NewStackTrie(nil)).Hex())
		add(fmt.Sprintf("block%d:partset-64", k), blk.MakePartSet(64).Header())
		add(fmt.Sprintf("block%d:partset-full", k), blk.MakePartSet(types.BlockPartSizeBytes).Header())
		re, err := encodeBlock(blk)
		add(fmt.Sprintf("block%d:re-encoding-equal", k), err == nil && bytes.Equal(re, bz))
		add(fmt.Sprintf("block%d:validate-basic", k), blk.ValidateBasic(trie.NewStackTrie(nil)))
		st := privateState(in.heights[k])
		add(fmt.Sprintf("block%d:validators-hash", k), st.Validators.Hash().Hex()+st.NextValidators.Hash().Hex())
		e, pv := validate(newExec(), st, blk)
		add(fmt.Sprintf("block%d:validate-block", k), fmt.Sprintf("%v %s", e, pv))
	}
	// the long transaction list: DeriveSha only (signature recovery is not part of it)
	if blk, err := decodeBlock(in.bigBlock); err == nil {
		add("bigblock:tx-root", types.DeriveSha(blk.Transactions(), trie.NewStackTrie(nil)).Hex())
		add("bigblock:hash", blk.Hash().Hex())
		add("bigblock:partset", blk.MakePartSet(1024).Header())
	} else {
		add("bigblock:decode", err)
	}
	return
}

func runRacePass() {
	in := &raceInputs{}
	for _, name := range []string{"h2/commit=absent/txs=3/evidence=2", "h1/txs=3", "h2/commit=nilvote/txs=1/evidence=1"} {
		b := findBase(name)
		if b == nil {
			fmt.Println("race pass: missing family block", name)
			os.Exit(2)
		}
		prepareBase(b)
		if b.bz == nil {
			fmt.Println("race pass: family block has no wire form", name)
			os.Exit(2)
		}
		in.blocks = append(in.blocks, b.bz)
		in.heights = append(in.heights, b.height)
	}
	bb := findBase("h2/commit=full/txs=130/evidence=0")
	prepareBase(bb)
	in.bigBlock = bb.bz
	// expected values, single-threaded, twice (they must already agree with themselves)
	want := raceBody(in)
	if again := raceBody(in); fmt.Sprint(again) != fmt.Sprint(want) {
		fmt.Println("race pass: the single-threaded reference run is not deterministic")
		os.Exit(2)
	}
	var wg sync.WaitGroup
	var mu sync.Mutex
	var mismatches []string
	start := make(chan struct{})
	leafWant := types.NewPartSetFromData(mkData(1, 3, "distinct", 0), 8).Header()
	for g := 0; g < raceGoroutines; g++ {
		wg.Add(1)
		go func(g int) {
			defer wg.Done()
			<-start
			// first phase: leaf hashing only (one-part sets), so that the first conflicting accesses the detector
			// can see are always of the same kind whatever the scheduling
			for it := 0; it < 200; it++ {
				if h := types.NewPartSetFromData(mkData(1, 3, "distinct", 0), 8).Header(); h != leafWant {
					mu.Lock()
					if len(mismatches) < 20 {
						mismatches = append(mismatches, fmt.Sprintf("goroutine %d: one-part set header %v, single-threaded value %v", g, h, leafWant))
					}
					mu.Unlock()
				}
			}
			for it := 0; it < raceIterations; it++ {
				var got []string
				if p, pv := safely(func() { got = raceBody(in) }); p {
					mu.Lock()
					mismatches = append(mismatches, fmt.Sprintf("goroutine %d iteration %d: panic: %s", g, it, pv))
					mu.Unlock()
					continue
				}
				for k := range want {
					if k >= len(got) || got[k] != want[k] {
						gv := "<missing>"
						if k < len(got) {
							gv = got[k]
						}
						mu.Lock()
						if len(mismatches) < 20 {
							mismatches = append(mismatches, fmt.Sprintf("goroutine %d iteration %d: got %s, single-threaded value %s", g, it, gv, want[k]))
						}
						mu.Unlock()
					}
				}
			}
		}(g)
	}
	close(start)
	wg.Wait()
	fmt.Printf("race pass: %d goroutines x %d iterations x %d results each on private objects\n", raceGoroutines, raceIterations, len(want))
	if len(mismatches) > 0 {
		for _, m := range mismatches {
			fmt.Println("RESULT DIFFERS FROM THE SINGLE-THREADED VALUE:", m)
		}
		os.Exit(1)
	}
	os.Exit(0)
}
