#!/bin/bash
# Demonstrates that C13 fails on each mutant (CHECK_AUTHORING.md rule 7).
#
# For every /verif/mutants/c13-*.patch: scratch worktree of /repo at HEAD, apply the patch, run the
# repository's own tests of the touched package, run the quick check against the worktree.
# Because the unchanged tree already violates C13 (see FINDINGS.md), "caught" means: exit 1 AND at least
# one violation signature that the unchanged tree does not produce. As a second, stricter demonstration the
# same mutant is applied on top of checks/c13/fixes/suggested-fixes.patch (a tree on which the check exits
# 0): there every VIOLATION line is due to the mutant alone.
export GOFLAGS=-mod=mod GOPROXY=off GOSUMDB=off GOTOOLCHAIN=local
FIX=/verif/checks/c13/fixes/suggested-fixes.patch
sigs_of() { grep '^violation:' | sed 's/^violation: \(C13|[^ ]*\): .*/\1/' | sort -u; }
base=$(VERIF_NOEVIDENCE=1 timeout 600 /verif/run.sh C13 quick 2>/dev/null | sigs_of)
echo "baseline signatures on the unchanged tree:"; echo "$base" | sed 's/^/   /'
for p in ${1:-/verif/mutants/c13-*.patch}; do
  name=$(basename "$p" .patch)
  WT=/tmp/wt-c13-$$
  git -C /repo worktree add --detach "$WT" HEAD >/dev/null 2>&1 || { echo "$name: worktree failed"; continue; }
  if ! git -C "$WT" apply "$p"; then echo "$name: patch does not apply"; git -C /repo worktree remove --force "$WT"; continue; fi
  pkg=./$(dirname "$(grep -m1 '^+++ b/' "$p" | sed 's/^+++ b\///')")/
  if (cd "$WT" && timeout 900 go test -vet=off -count=1 "$pkg" >/tmp/c13-mut-test.log 2>&1); then
    if grep -q 'no test files' /tmp/c13-mut-test.log; then tests="pass (no tests)"; else tests=pass; fi
  else tests=FAIL; fi
  out=$(VERIF_REPO="$WT" VERIF_NOEVIDENCE=1 timeout 900 /verif/run.sh C13 quick 2>/dev/null); rc=$?
  new=$(comm -13 <(echo "$base") <(echo "$out" | sigs_of))
  nnew=$(echo "$new" | grep -c .)
  # on top of the suggested fixes
  rc2="n/a"; n2=0
  if git -C "$WT" apply --3way "$FIX" >/dev/null 2>&1 || git -C "$WT" apply "$FIX" >/dev/null 2>&1; then
    out2=$(VERIF_REPO="$WT" VERIF_NOEVIDENCE=1 timeout 900 /verif/run.sh C13 quick 2>/dev/null); rc2=$?
    n2=$(echo "$out2" | sigs_of | grep -c .)
  fi
  echo "$name | pkg $pkg | repo tests: $tests | HEAD+mutant: exit $rc, $nnew new signatures | fixes+mutant: exit $rc2, $n2 signatures"
  echo "$new" | head -6 | sed 's/^/      /'
  git -C /repo worktree remove --force "$WT"
done
# restore the replay files / evidence of the unchanged tree
rm -f /verif/replay/C13-*.json
timeout 600 /verif/run.sh C13 quick >/dev/null 2>&1
